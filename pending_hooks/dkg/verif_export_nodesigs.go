// Copyright © 2022-2026 Obol Labs Inc. Licensed under the terms of a Business Source License 1.1

//go:build verif

package dkg

import (
	"context"
	"time"

	eth2p0 "github.com/attestantio/go-eth2-client/spec/phase0"
	k1 "github.com/decred/dcrd/dcrec/secp256k1/v4"
	"github.com/libp2p/go-libp2p/core/host"
	"github.com/libp2p/go-libp2p/core/peer"

	"github.com/obolnetwork/charon/cluster"
	"github.com/obolnetwork/charon/core"
	"github.com/obolnetwork/charon/core/parsigex"
	"github.com/obolnetwork/charon/dkg/bcast"
	"github.com/obolnetwork/charon/dkg/share"
	"github.com/obolnetwork/charon/p2p"
)

// This file only exists with the build tag "verif". It exports the unexported entry points of ceremony steps
// 2..5 of Run (deposit data, builder registrations, lock hash, node signatures) so that the model-based
// conformance harness can run the unmodified step functions on several in-memory libp2p hosts, in the order
// Run calls them, and can drive one misbehaving member through the same components.

// VerifExchanger is exchanger: the partial signature exchange of the ceremony (parsigex + parsigdb).
type VerifExchanger = exchanger

// VerifNodeSigBcast is nodeSigBcast: the node signature exchange over the reliable broadcast.
type VerifNodeSigBcast = nodeSigBcast

// VerifNewExchanger calls newExchanger with the signature types Run registers.
func VerifNewExchanger(p2pNode host.Host, peerIdx int, peers []peer.ID, peerMap map[peer.ID]cluster.NodeIdx, timeout time.Duration) (*VerifExchanger, error) {
	return newExchanger(p2pNode, peerIdx, peers, peerMap, []sigType{sigLock, sigDepositData, sigValidatorRegistration}, timeout)
}

// VerifSigTypes returns the numeric signature types of the lock hash, builder registration and (first) deposit
// data exchanges.
func VerifSigTypes() (lock, registration, depositData int) {
	return int(sigLock), int(sigValidatorRegistration), int(sigDepositData)
}

// VerifExchange calls exchange for the numeric signature type.
func (e *exchanger) VerifExchange(ctx context.Context, st int, set core.ParSignedDataSet) (map[core.PubKey][]core.ParSignedData, error) {
	return e.exchange(ctx, sigType(st), set)
}

// VerifSigEx returns the exchanger's parsigex component.
func (e *exchanger) VerifSigEx() *parsigex.ParSigEx {
	return e.sigex
}

// VerifNewNodeSigBcast calls newNodeSigBcast.
func VerifNewNodeSigBcast(peers []p2p.Peer, nodeIdx cluster.NodeIdx, bcastComp *bcast.Component) *VerifNodeSigBcast {
	return newNodeSigBcast(peers, nodeIdx, bcastComp)
}

// VerifNodeSigMsgID returns the message id of the node signature broadcast.
func VerifNodeSigMsgID() string {
	return nodeSigMsgID
}

// VerifExchange calls the node signature exchange.
func (n *nodeSigBcast) VerifExchange(ctx context.Context, key *k1.PrivateKey, lockHash []byte) ([][]byte, error) {
	return n.exchange(ctx, key, lockHash)
}

// VerifSignAndAggDepositData calls signAndAggDepositData (ceremony step 2).
func VerifSignAndAggDepositData(ctx context.Context, ex *VerifExchanger, shares []share.Share, withdrawalAddresses []string,
	network string, nodeIdx cluster.NodeIdx, depositAmounts []eth2p0.Gwei, compounding bool,
) ([][]eth2p0.DepositData, error) {
	return signAndAggDepositData(ctx, ex, shares, withdrawalAddresses, network, nodeIdx, depositAmounts, compounding)
}

// VerifSignAndAggValidatorRegistrations calls signAndAggValidatorRegistrations (ceremony step 3).
func VerifSignAndAggValidatorRegistrations(ctx context.Context, ex *VerifExchanger, shares []share.Share, feeRecipients []string,
	targetGasLimit uint64, nodeIdx cluster.NodeIdx, forkVersion []byte,
) ([]core.VersionedSignedValidatorRegistration, error) {
	return signAndAggValidatorRegistrations(ctx, ex, shares, feeRecipients, targetGasLimit, nodeIdx, forkVersion)
}

// VerifSignAndAggLockHash calls signAndAggLockHash (ceremony step 4) as Run does for a new cluster.
func VerifSignAndAggLockHash(ctx context.Context, shares []share.Share, def cluster.Definition, nodeIdx cluster.NodeIdx,
	ex *VerifExchanger, depositDatas [][]eth2p0.DepositData, valRegs []core.VersionedSignedValidatorRegistration,
) (cluster.Lock, error) {
	return signAndAggLockHash(ctx, nil, shares, def, nodeIdx, ex, depositDatas, valRegs, nil)
}

// VerifSignDepositMsgs calls signDepositMsgs and returns the partial signature set.
func VerifSignDepositMsgs(shares []share.Share, shareIdx int, withdrawalAddresses []string, network string, amount eth2p0.Gwei, compounding bool) (core.ParSignedDataSet, error) {
	set, _, err := signDepositMsgs(shares, shareIdx, withdrawalAddresses, network, amount, compounding)
	return set, err
}

// VerifSignValidatorRegistrations calls signValidatorRegistrations and returns the partial signature set.
func VerifSignValidatorRegistrations(shares []share.Share, shareIdx int, feeRecipients []string, gasLimit uint64, forkVersion []byte) (core.ParSignedDataSet, error) {
	set, _, err := signValidatorRegistrations(shares, shareIdx, feeRecipients, gasLimit, forkVersion)
	return set, err
}

// VerifSignLockHash calls signLockHash.
func VerifSignLockHash(shareIdx int, shares []share.Share, hash []byte) (core.ParSignedDataSet, error) {
	return signLockHash(shareIdx, shares, hash)
}

// VerifCreateDistValidators calls createDistValidators.
func VerifCreateDistValidators(shares []share.Share, depositDatas [][]eth2p0.DepositData, valRegs []core.VersionedSignedValidatorRegistration) ([]cluster.DistValidator, error) {
	return createDistValidators(shares, depositDatas, valRegs)
}
