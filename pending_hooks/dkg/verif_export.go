// Copyright © 2022-2026 Obol Labs Inc. Licensed under the terms of a Business Source License 1.1

//go:build verif

package dkg

import (
	"context"

	"github.com/libp2p/go-libp2p/core/host"
	"github.com/libp2p/go-libp2p/core/peer"

	"github.com/obolnetwork/charon/cluster"
	"github.com/obolnetwork/charon/dkg/bcast"
	"github.com/obolnetwork/charon/dkg/share"
)

// This file only exists with the build tag "verif". It exports the unexported entry points of the FROST key
// generation so that the model-based conformance harness can run the unmodified rounds on several goroutines
// over a transport whose delivery order it controls, exactly as Run does over frostP2P.

// VerifMsgKey is msgKey: it identifies validator, source and target of a frost message.
type VerifMsgKey = msgKey

// VerifFTransport is fTransport: the transport abstraction runFrostParallel talks to.
type VerifFTransport = fTransport

// VerifRunFrostParallel calls runFrostParallel.
func VerifRunFrostParallel(ctx context.Context, tp VerifFTransport, numValidators, numNodes, threshold, shareIdx uint32, dgkCtx string) ([]share.Share, error) {
	return runFrostParallel(ctx, tp, numValidators, numNodes, threshold, shareIdx, dgkCtx)
}

// VerifNewFrostP2P calls newFrostP2P: the libp2p transport Run uses, with its handlers registered on
// p2pNode and bcastComp.
func VerifNewFrostP2P(p2pNode host.Host, peers map[peer.ID]cluster.NodeIdx, bcastComp *bcast.Component, threshold, numVals int) (VerifFTransport, error) {
	return newFrostP2P(p2pNode, peers, bcastComp, threshold, numVals)
}
