// Copyright © 2022-2026 Obol Labs Inc. Licensed under the terms of a Business Source License 1.1

//go:build verif

package dkg

import (
	"context"

	k1 "github.com/decred/dcrd/dcrec/secp256k1/v4"
	"github.com/libp2p/go-libp2p/core/host"
	"github.com/libp2p/go-libp2p/core/peer"

	"github.com/obolnetwork/charon/dkg/sync"
)

// This file only exists with the build tag "verif". It exports the unexported step barrier of the key
// generation ceremony so that the model-based conformance harness can run the unmodified startSyncProtocol
// (sync server + one sync client per peer, connection wait, failure monitor, step barrier, shutdown
// handshake) on in-memory libp2p hosts, exactly as Run does.

// VerifStartSyncProtocol calls startSyncProtocol. onFailure is what Run passes as `cancel`.
func VerifStartSyncProtocol(ctx context.Context, p2pNode host.Host, key *k1.PrivateKey, defHash []byte,
	peerIDs []peer.ID, onFailure func(), syncOpts []func(*sync.Client),
) (stepSyncFunc func(context.Context) error, shutdownFunc func(context.Context) error, fatalFunc func() error, err error) {
	return startSyncProtocol(ctx, p2pNode, key, defHash, peerIDs, onFailure, TestConfig{SyncOpts: syncOpts}, "verif")
}
