// Copyright © 2022-2026 Obol Labs Inc. Licensed under the terms of a Business Source License 1.1

//go:build verif

package bcast

import (
	"context"

	"github.com/libp2p/go-libp2p/core/host"
	"github.com/libp2p/go-libp2p/core/peer"
	"google.golang.org/protobuf/types/known/anypb"

	"github.com/obolnetwork/charon/app/errors"
	pb "github.com/obolnetwork/charon/dkg/dkgpb/v1"
	"github.com/obolnetwork/charon/p2p"
)

// This file only exists with the build tag "verif". It exports the unexported stream handlers of the
// reliable-broadcast server so that the model-based conformance harness can drive them synchronously
// with crafted protobufs, exactly as the libp2p stream handler registered in newServer would.

// VerifHandleSigRequest calls the signature-request handler as if req was received from pID.
func (c *Component) VerifHandleSigRequest(ctx context.Context, pID peer.ID, req *pb.BCastSigRequest) (*pb.BCastSigResponse, error) {
	resp, ok, err := c.srv.handleSigRequest(ctx, pID, req)
	if err != nil {
		return nil, err
	} else if !ok {
		return nil, errors.New("no response")
	}

	sigResp, ok := resp.(*pb.BCastSigResponse)
	if !ok {
		return nil, errors.New("unexpected response type")
	}

	return sigResp, nil
}

// VerifHandleMessage calls the broadcast-message handler as if msg was received from pID.
func (c *Component) VerifHandleMessage(ctx context.Context, pID peer.ID, msg *pb.BCastMessage) error {
	_, _, err := c.srv.handleMessage(ctx, pID, msg)
	return err
}

// VerifHash returns the hash the component signs and verifies for msgID and anyPB.
func (c *Component) VerifHash(msgID string, anyPB *anypb.Any) ([]byte, error) {
	return c.srv.hashFunc(msgID, anyPB)
}

// VerifUseTransport makes Broadcast run the unmodified client over the provided transport functions
// instead of p2p.SendReceive and p2p.Send.
func (c *Component) VerifUseTransport(p2pNode host.Host, sendRecvFunc p2p.SendReceiveFunc, sendFunc p2p.SendFunc) {
	c.broadcastFunc = newClient(p2pNode, c.peers, sendRecvFunc, sendFunc,
		c.srv.hashFunc, c.srv.signFunc, c.srv.verifyFunc).Broadcast
}

// VerifWrapSignFunc replaces the sign function the signature-request handler calls by wrap(current one), so
// that the harness can hold a request inside the signing step while further requests enter the handler.
// It must be called before the component serves requests.
func (c *Component) VerifWrapSignFunc(wrap func(func(string, []byte) ([]byte, error)) func(string, []byte) ([]byte, error)) {
	c.srv.signFunc = wrap(c.srv.signFunc)
}
