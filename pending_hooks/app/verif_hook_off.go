// Copyright © 2022-2026 Obol Labs Inc. Licensed under the terms of a Business Source License 1.1

//go:build !verif

package app

import "github.com/obolnetwork/charon/core"

// verifWireOpts returns no additional wire options in regular builds (see verif_hook_on.go).
func verifWireOpts(int) []core.WireOption {
	return nil
}
