// Copyright © 2022-2026 Obol Labs Inc. Licensed under the terms of a Business Source License 1.1

//go:build verif

package eth2wrap

import "context"

// NewLazyVerif exports newLazy (a lazy client over an arbitrary connect function) to the verification harness
// (/verif/harness/eth2wrapx).  It adds no behaviour.
func NewLazyVerif(provider func(context.Context) (Client, error)) Client {
	return newLazy(provider)
}
