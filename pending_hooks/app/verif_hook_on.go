// Copyright © 2022-2026 Obol Labs Inc. Licensed under the terms of a Business Source License 1.1

//go:build verif

package app

import "github.com/obolnetwork/charon/core"

// This file only exists with the build tag "verif".

// VerifNodeWireOpts, when set by the model-based conformance harness, provides additional wire options (an observer
// of the workflow's edges, see core.VerifWithObserver) for the node with the given peer index.
var VerifNodeWireOpts func(peerIdx int) []core.WireOption

// verifWireOpts returns the additional wire options of the conformance harness, if any.
func verifWireOpts(peerIdx int) []core.WireOption {
	if VerifNodeWireOpts == nil {
		return nil
	}

	return VerifNodeWireOpts(peerIdx)
}
