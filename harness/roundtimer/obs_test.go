package roundtimerexec

// Observation (not a conformance failure: the timer does what its absolute deadline function says).  The eager
// double-linear timer as production makes it (GetRoundTimerFunc passes genesis + slot duration) gives round r the absolute
// first deadline dutyStart + r s.  qbft.Run enters round r when the timer of round r-1 fired.  A round 1 that was doubled
// (justified PRE-PREPARE seen, no decision) ends at dutyStart + 2 s = the first deadline of round 2: round 2 gets no time at
// all, its leader is skipped; without doubling every round lasts 1 s (the type's comment: "1s, 2s, 3s").  Found by TLC on
// specs/RoundTimer (RoundTimerMC_obs_zeroLengthRound.cfg); system-level consequence: known finding C04-eager-timer-tie-desync.
//
//	go test -run TestObsZeroLengthRound ./roundtimer -v

import (
	"testing"
	"time"

	"github.com/jonboulle/clockwork"

	"github.com/obolnetwork/charon/core"
	"github.com/obolnetwork/charon/core/consensus/timer"
)

func TestObsZeroLengthRound(t *testing.T) {
	fc := clockwork.NewFakeClock()
	genesis, slot := fc.Now(), 12*time.Second
	rt := timer.NewDoubleEagerLinearRoundTimerWithDutyTimingAndClock(core.Duty{Slot: 0, Type: core.DutyRandao}, genesis, slot, fc)

	_, stop := rt.Timer(1) // round 1 starts at duty start
	fc.Advance(300 * time.Millisecond)
	stop()
	ch, stop := rt.Timer(1) // justified PRE-PREPARE of round 1 after 300 ms: doubled, deadline = start + 2 s
	fc.Advance(1700 * time.Millisecond)
	select {
	case <-ch:
	default:
		t.Fatal("round 1 not over at start + 2 s")
	}
	stop()
	ch2, _ := rt.Timer(2) // round change to round 2 at start + 2 s
	select {
	case v := <-ch2:
		t.Logf("round 2 entered at %v after start; its timer fired at once (value %v after start): round 2 lasts 0 s",
			fc.Now().Sub(genesis), v.Sub(genesis))
	default:
		t.Log("round 2 has time")
	}
	ch3, _ := rt.Timer(3)
	fc.Advance(time.Second)
	select {
	case <-ch3:
		t.Logf("round 3 over after 1 s (at %v after start)", fc.Now().Sub(genesis))
	default:
		t.Log("round 3 lasts longer than 1 s")
	}
}
