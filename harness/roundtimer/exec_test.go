// Package roundtimerexec executes RoundTimer schedules on the real round timer objects of core/consensus/timer and records
// what their channels delivered.
//
// A schedule: {"ev":"Cfg", linear, eager, proposal (feature flags), hasgen, genesis (ms relative to the clock's start),
// slotms, objs: [{ctor, dtype, slot}, ...]} followed by steps
//
//	{"ev":"Call","o":i,"r":round}   objs[i].Timer(round)        (the k-th Call of the schedule is "call k")
//	{"ev":"Stop","k":k}             the stop function call k returned
//	{"ev":"Adv","d":ms}             the clock moves
//
// ctor names: "func" = timer.GetRoundTimerFunc(genesis, slotDuration)(duty) (one func per schedule, shared by all "func"
// objects), otherwise the exported constructor: inc / incClock / incDuty / incDutyClock, eager / eagerClock / eagerDuty /
// eagerDutyClock / eagerTiming / eagerTimingClock, linear / linearClock / linearDuty / linearDutyClock.
//
// Every schedule runs inside a testing/synctest bubble.  *Clock constructors get a clockwork fake clock that starts at the
// bubble's start and is advanced in lock step with the bubble's virtual clock (Advance, then time.Sleep of the same
// amount, then synctest.Wait); all others run on the real clock of the bubble.  After every step ALL channels handed
// out so far are polled without blocking (also the ones that fired or were stopped, each up to three times) and every value
// received is recorded as it is; then the number of waiters of the fake clock is recorded.  Nothing here knows a deadline:
// RoundTimerTrace.tla decides.
package roundtimerexec

import (
	"context"
	"testing"
	"testing/synctest"
	"time"

	"github.com/jonboulle/clockwork"

	"github.com/obolnetwork/charon/app/featureset"
	"github.com/obolnetwork/charon/core"
	"github.com/obolnetwork/charon/core/consensus/timer"

	"verifharness/drv"
)

var dutyTypes = map[string]core.DutyType{
	"unknown": core.DutyUnknown, "proposer": core.DutyProposer, "attester": core.DutyAttester,
	"aggregator": core.DutyAggregator, "sync_contribution": core.DutySyncContribution, "randao": core.DutyRandao,
	"sync_message": core.DutySyncMessage,
}

func flag(t *testing.T, f featureset.Feature, on bool) {
	if on {
		featureset.EnableForT(t, f)
	} else {
		featureset.DisableForT(t, f)
	}
}

// waiters counts the waiters of the fake clock through its exported API only: BlockUntilContext(n) returns at once
// (nil) iff there are at least n waiters; with a context that has ended it never blocks.
func waiters(fc *clockwork.FakeClock, done context.Context) int {
	n := 0
	for fc.BlockUntilContext(done, n+1) == nil {
		n++
		if n > 10000 {
			break
		}
	}

	return n
}

func bools(v any) bool { b, _ := v.(bool); return b }

func run(t *testing.T, sid int, sched []drv.Step, emit func(drv.Step)) {
	cfg := sched[0]
	base := time.Now()
	fc := clockwork.NewFakeClockAt(base)
	done, cancel := context.WithCancel(context.Background())
	cancel()

	flag(t, featureset.Linear, bools(cfg["linear"]))
	flag(t, featureset.EagerDoubleLinear, bools(cfg["eager"]))
	flag(t, featureset.ProposalTimeout, bools(cfg["proposal"]))

	var genesis time.Time
	if bools(cfg["hasgen"]) {
		genesis = base.Add(time.Duration(drv.Num(cfg["genesis"])) * time.Millisecond)
	}
	slotDur := time.Duration(drv.Num(cfg["slotms"])) * time.Millisecond
	fn := timer.GetRoundTimerFunc(genesis, slotDur)

	var (
		objs []timer.RoundTimer
		logd []any
	)
	for _, x := range cfg["objs"].([]any) {
		oc := x.(map[string]any)
		dtype, slot := drv.Str(oc["dtype"]), drv.Num(oc["slot"])
		duty := core.Duty{Slot: uint64(slot), Type: dutyTypes[dtype]}
		noDuty := func() { dtype, slot = "unknown", 0 }
		var o timer.RoundTimer
		switch ctor := drv.Str(oc["ctor"]); ctor {
		case "func":
			o = fn(duty)
		case "inc":
			noDuty()
			o = timer.NewIncreasingRoundTimer()
		case "incClock":
			noDuty()
			o = timer.NewIncreasingRoundTimerWithClock(fc)
		case "incDuty":
			o = timer.NewIncreasingRoundTimerWithDuty(duty)
		case "incDutyClock":
			o = timer.NewIncreasingRoundTimerWithDutyAndClock(duty, fc)
		case "eager":
			noDuty()
			o = timer.NewDoubleEagerLinearRoundTimer()
		case "eagerClock":
			noDuty()
			o = timer.NewDoubleEagerLinearRoundTimerWithClock(fc)
		case "eagerDuty":
			o = timer.NewDoubleEagerLinearRoundTimerWithDuty(duty)
		case "eagerDutyClock":
			o = timer.NewDoubleEagerLinearRoundTimerWithDutyAndClock(duty, fc)
		case "eagerTiming":
			o = timer.NewDoubleEagerLinearRoundTimerWithDutyAndTiming(duty, genesis, slotDur)
		case "eagerTimingClock":
			o = timer.NewDoubleEagerLinearRoundTimerWithDutyTimingAndClock(duty, genesis, slotDur, fc)
		case "linear":
			noDuty()
			o = timer.NewLinearRoundTimer()
		case "linearClock":
			noDuty()
			o = timer.NewLinearRoundTimerWithClock(fc)
		case "linearDuty":
			o = timer.NewLinearRoundTimerWithDuty(duty)
		case "linearDutyClock":
			o = timer.NewLinearRoundTimerWithDutyAndClock(duty, fc)
		default:
			t.Fatalf("unknown ctor %q", ctor)
		}
		objs = append(objs, o)
		logd = append(logd, drv.Step{"ctor": drv.Str(oc["ctor"]), "dtype": dtype, "slot": slot})
	}

	ms := func() int { return int(time.Since(base) / time.Millisecond) }
	emit(drv.Step{"ev": "Reset", "sid": sid, "linear": bools(cfg["linear"]), "eager": bools(cfg["eager"]),
		"proposal": bools(cfg["proposal"]), "hasgen": bools(cfg["hasgen"]), "genesis": drv.Num(cfg["genesis"]),
		"slotms": drv.Num(cfg["slotms"]), "objs": logd})
	types := func() {
		for i, o := range objs {
			emit(drv.Step{"ev": "Type", "o": i + 1, "type": string(o.Type()), "eager": o.Type().Eager()})
		}
	}
	types()

	var (
		chans []<-chan time.Time
		stops []func()
	)
	poll := func() {
		for k, ch := range chans {
			for range 3 {
				select {
				case v := <-ch:
					d := v.Sub(base)
					q, sub := d/time.Millisecond, d%time.Millisecond
					if sub < 0 {
						q, sub = q-1, sub+time.Millisecond
					}
					emit(drv.Step{"ev": "Fire", "k": k + 1, "v": int(q), "sub": int(sub), "t": ms()})

					continue
				default:
				}

				break
			}
		}
		emit(drv.Step{"ev": "Polled", "t": ms(), "w": waiters(fc, done)})
	}

	for _, st := range sched[1:] {
		switch drv.Str(st["ev"]) {
		case "Call":
			o := drv.Num(st["o"])
			if o < 1 || o > len(objs) {
				continue
			}
			var r int64
			switch x := st["r"].(type) {
			case float64:
				r = int64(x)
			}
			ch, stop := objs[o-1].Timer(r)
			chans, stops = append(chans, ch), append(stops, stop)
			lr := r
			if lr > 1000000 {
				lr = 1000001
			} else if lr < -1000000 {
				lr = -1000001
			}
			emit(drv.Step{"ev": "Call", "o": o, "k": len(chans), "r": lr, "t": ms()})
		case "Stop":
			k := drv.Num(st["k"])
			if k < 1 || k > len(stops) {
				continue
			}
			stops[k-1]()
			emit(drv.Step{"ev": "Stop", "k": k, "t": ms()})
		case "Adv":
			d := time.Duration(drv.Num(st["d"])) * time.Millisecond
			if d <= 0 {
				continue
			}
			fc.Advance(d)
			time.Sleep(d)
			synctest.Wait()
			emit(drv.Step{"ev": "Adv", "d": drv.Num(st["d"]), "t": ms()})
		default:
			continue
		}
		synctest.Wait()
		poll()
	}
	types()
	emit(drv.Step{"ev": "End"})
	for _, stop := range stops { // leave nothing behind in the bubble
		stop()
	}
}

func TestExec(t *testing.T) {
	drv.QuietLogs(t)
	scheds := drv.ReadSchedules(t)
	tr := drv.NewTracer(t)
	defer tr.Close()

	for sid, sched := range scheds {
		if len(sched) == 0 || drv.Str(sched[0]["ev"]) != "Cfg" {
			t.Fatalf("schedule %d does not start with Cfg", sid)
		}
		synctest.Test(t, func(t *testing.T) {
			run(t, sid, sched, tr.Emit)
		})
	}
}
