// Package exitflowexec executes ExitFlow schedules on the real code of the distributed voluntary-exit flow and records
// what happened on the wires and on disk.
//
// What is real: the charon CLI (`cmd.New()` with `exit sign | fetch | broadcast | delete | active-validator-list` and
// their flags, i.e. the flag handling, cmd/exit_*.go and app/obolapi.Client), the key material on disk (cluster lock,
// ENR key, EIP-2335 key shares of a cluster.NewForT cluster), testutil/obolapimock as the API server and loopback HTTP.
//
// What is the environment (this file): a FRONT in front of the API mock and a FRONT in front of a beaconmock.  Both
// fronts stop every request of an operator's command at a gate until the schedule releases it ("Step"), so that the
// interleaving of the operators' commands at request granularity is the schedule's and is deterministic: at any moment
// at most one command is running, all others are blocked at a gate or have not been started.  On release the schedule
// may ask the front to fail the request before it reaches the server ("pre"), to let the server handle it but tell the
// client it failed ("post"), or -- full-exit responses -- to tamper with the response.  The beacon front answers the
// validators query from a status table the schedule controls and records submitted exits.  A Byzantine operator (and
// an outsider) talk to the API front directly with requests assembled here from the key material.
//
// Nothing here knows what should happen.  Every request is recorded in ABSTRACT terms by observation functions that
// are independent of the code under test: who signed the canonical SSZ root of the request (own merkleisation below),
// which key share produced a partial signature over which (epoch, validator index) under the voluntary-exit domain,
// which validator's group key verifies a full exit.  ExitFlowTrace.tla decides.
package exitflowexec

import (
	"bytes"
	"context"
	"crypto/sha256"
	"encoding/binary"
	"encoding/hex"
	"encoding/json"
	"fmt"
	"io"
	"math/rand"
	"net/http"
	"net/http/httptest"
	"net/http/httputil"
	"net/url"
	"os"
	"path/filepath"
	"sort"
	"strconv"
	"strings"
	"sync"
	"testing"
	"time"

	k1 "github.com/decred/dcrd/dcrec/secp256k1/v4"

	"github.com/obolnetwork/charon/app/eth2wrap"
	"github.com/obolnetwork/charon/app/k1util"
	"github.com/obolnetwork/charon/cluster"
	"github.com/obolnetwork/charon/cmd"
	"github.com/obolnetwork/charon/eth2util"
	"github.com/obolnetwork/charon/eth2util/keystore"
	"github.com/obolnetwork/charon/tbls"
	"github.com/obolnetwork/charon/testutil/beaconmock"
	"github.com/obolnetwork/charon/testutil/obolapimock"

	"verifharness/drv"
)

// ----------------------------------------------------------------------------------------------------------------------
// independent SSZ merkleisation (the canonical roots the request signatures are judged against)
// ----------------------------------------------------------------------------------------------------------------------

type chunk = [32]byte

var zeroHashes = func() [40]chunk {
	var z [40]chunk
	for i := 1; i < len(z); i++ {
		z[i] = hash2(z[i-1], z[i-1])
	}

	return z
}()

func hash2(a, b chunk) chunk { return sha256.Sum256(append(a[:], b[:]...)) }

func u64(v uint64) chunk {
	var c chunk
	binary.LittleEndian.PutUint64(c[:], v)

	return c
}

// pack splits bytes into 32-byte chunks (right padded).
func pack(b []byte) []chunk {
	var out []chunk
	for i := 0; i < len(b); i += 32 {
		var c chunk
		copy(c[:], b[i:min(i+32, len(b))])
		out = append(out, c)
	}
	if len(out) == 0 {
		out = append(out, chunk{})
	}

	return out
}

// merkle is merkleize(chunks, limit): the tree has max(limit, len) leaves rounded up to a power of two.
func merkle(cs []chunk, limit int) chunk {
	n := max(limit, len(cs), 1)
	depth := 0
	for (1 << depth) < n {
		depth++
	}
	layer := append([]chunk{}, cs...)
	for d := 0; d < depth; d++ {
		if len(layer)%2 == 1 {
			layer = append(layer, zeroHashes[d])
		}
		next := make([]chunk, 0, len(layer)/2)
		for i := 0; i < len(layer); i += 2 {
			next = append(next, hash2(layer[i], layer[i+1]))
		}
		layer = next
	}
	if len(layer) == 0 {
		return zeroHashes[depth]
	}

	return layer[0]
}

func bytesRoot(b []byte) chunk { return merkle(pack(b), 0) }

func exitMsgRoot(epoch, vidx uint64) chunk { return merkle([]chunk{u64(epoch), u64(vidx)}, 0) }

func signedExitRoot(epoch, vidx uint64, sig []byte) chunk {
	return merkle([]chunk{exitMsgRoot(epoch, vidx), bytesRoot(sig)}, 0)
}

func exitBlobRoot(pk []byte, epoch, vidx uint64, sig []byte) chunk {
	return merkle([]chunk{bytesRoot(pk), signedExitRoot(epoch, vidx, sig)}, 0)
}

// partialExitRequestRoot: Container{partial_exits: List[ExitBlob, 65536], share_idx: uint64}.
func partialExitRequestRoot(blobs []chunk, shareIdx uint64) chunk {
	list := hash2(merkle(blobs, 65536), u64(uint64(len(blobs))))

	return merkle([]chunk{list, u64(shareIdx)}, 0)
}

// authRoot: Container{lock_hash: Bytes32, validator_pubkey: Bytes48, share_index: uint64}.
func authRoot(lockHash, pk []byte, shareIdx uint64) chunk {
	return merkle([]chunk{bytesRoot(lockHash), bytesRoot(pk), u64(shareIdx)}, 0)
}

func signingRoot(obj chunk, domain [32]byte) chunk { return merkle([]chunk{obj, domain}, 0) }

// ----------------------------------------------------------------------------------------------------------------------
// cluster material (one per shape, shared by all schedules of the run)
// ----------------------------------------------------------------------------------------------------------------------

var realEpoch = map[int]uint64{1: 194048, 2: 194049, 3: 1000}

const (
	idxBase    = 100 // beacon chain index of cluster validator v is idxBase+v
	idxForeign = 900 // a validator that is on the chain but not in the lock
	idxNone    = 555 // nobody
)

type material struct {
	n, t, nv   int
	lock       cluster.Lock
	lockHash   []byte
	enrs       []*k1.PrivateKey
	opPub      []*k1.PublicKey
	shares     [][]tbls.PrivateKey // [validator][operator]
	pubShares  [][]tbls.PublicKey
	groupPub   []tbls.PublicKey
	pkHex      []string // 0x.. lower case
	outsider   *k1.PrivateKey
	foreignPK  tbls.PublicKey
	foreignHex string
	root       string
	domain     [32]byte
}

func (m *material) opDir(op int) string { return filepath.Join(m.root, fmt.Sprintf("op%d", op)) }

type world struct {
	t     *testing.T
	mu    sync.Mutex
	mats  map[string]*material
	bmock beaconmock.Mock
	bURL  *url.URL
	eth2  eth2wrap.Client
	gvr   [32]byte
	tmp   string
}

func newWorld(t *testing.T) *world {
	t.Helper()
	bm, err := beaconmock.New(context.Background())
	if err != nil {
		t.Fatalf("beaconmock: %v", err)
	}
	u, _ := url.Parse(bm.Address())
	w := &world{t: t, mats: map[string]*material{}, bmock: bm, bURL: u, tmp: t.TempDir()}
	// genesis validators root straight from the wire
	resp, err := http.Get(bm.Address() + "/eth/v1/beacon/genesis")
	if err != nil {
		t.Fatalf("genesis: %v", err)
	}
	defer resp.Body.Close()
	var g struct {
		Data struct {
			Root string `json:"genesis_validators_root"`
		} `json:"data"`
	}
	if err := json.NewDecoder(resp.Body).Decode(&g); err != nil {
		t.Fatalf("genesis: %v", err)
	}
	b, err := hex.DecodeString(strings.TrimPrefix(g.Data.Root, "0x"))
	if err != nil || len(b) != 32 {
		t.Fatalf("genesis root %q", g.Data.Root)
	}
	copy(w.gvr[:], b)

	return w
}

func (w *world) material(n, t, nv int) *material {
	w.mu.Lock()
	defer w.mu.Unlock()
	key := fmt.Sprintf("%d/%d/%d", n, t, nv)
	if m, ok := w.mats[key]; ok {
		return m
	}
	seed := 10 + 7*n + t
	lock, enrs, shares := cluster.NewForT(w.t, nv, t, n, seed, rand.New(rand.NewSource(int64(seed))))
	m := &material{n: n, t: t, nv: nv, lock: lock, lockHash: lock.LockHash, enrs: enrs, shares: shares,
		root: filepath.Join(w.tmp, strings.ReplaceAll(key, "/", "_"))}
	for _, k := range enrs {
		m.opPub = append(m.opPub, k.PubKey())
	}
	for v, dv := range lock.Validators {
		m.groupPub = append(m.groupPub, tbls.PublicKey(dv.PubKey))
		m.pkHex = append(m.pkHex, dv.PublicKeyHex())
		var ps []tbls.PublicKey
		for _, b := range dv.PubShares {
			ps = append(ps, tbls.PublicKey(b))
		}
		m.pubShares = append(m.pubShares, ps)
		_ = v
	}
	var err error
	if m.outsider, err = k1.GeneratePrivateKey(); err != nil {
		w.t.Fatal(err)
	}
	fsk, err := tbls.GenerateSecretKey()
	if err != nil {
		w.t.Fatal(err)
	}
	if m.foreignPK, err = tbls.SecretToPublicKey(fsk); err != nil {
		w.t.Fatal(err)
	}
	m.foreignHex = "0x" + hex.EncodeToString(m.foreignPK[:])
	lockJSON, err := json.Marshal(lock)
	if err != nil {
		w.t.Fatal(err)
	}
	for op := range n {
		d := m.opDir(op + 1)
		kd := filepath.Join(d, "validator_keys")
		if err := os.MkdirAll(kd, 0o755); err != nil {
			w.t.Fatal(err)
		}
		if err := k1util.Save(enrs[op], filepath.Join(d, "charon-enr-private-key")); err != nil {
			w.t.Fatal(err)
		}
		var mine []tbls.PrivateKey
		for v := range nv {
			mine = append(mine, shares[v][op])
		}
		if err := keystore.StoreKeysInsecure(mine, kd, keystore.ConfirmInsecureKeys); err != nil {
			w.t.Fatal(err)
		}
		if err := os.WriteFile(filepath.Join(d, "cluster-lock.json"), lockJSON, 0o644); err != nil {
			w.t.Fatal(err)
		}
	}
	// the voluntary-exit domain (EIP-7044: the Capella fork version of the lock's network, whatever the epoch)
	cf, err := eth2util.CapellaFork("0x" + hex.EncodeToString(lock.ForkVersion))
	if err != nil {
		w.t.Fatal(err)
	}
	cfb, _ := hex.DecodeString(strings.TrimPrefix(cf, "0x"))
	fd := merkle([]chunk{bytesRoot(cfb), w.gvr}, 0)
	copy(m.domain[:4], []byte{4, 0, 0, 0})
	copy(m.domain[4:], fd[:28])
	w.mats[key] = m

	return m
}

// ----------------------------------------------------------------------------------------------------------------------
// one schedule
// ----------------------------------------------------------------------------------------------------------------------

type instr struct {
	fault  string // none | pre | post
	code   int
	tamper drv.Step
}

type gate struct {
	release chan instr
}

type arrival struct {
	op int
	g  *gate // nil: the command of op has returned
}

type run struct {
	w        *world
	m        *material
	sid      int
	mu       sync.Mutex
	events   []drv.Step
	status   []string // per validator (1-based: status[v-1]); "none" = not on chain
	api      http.Handler
	apiSrv   *httptest.Server
	bnSrv    *httptest.Server
	arrivals chan arrival
	pending  map[int]*gate
	cmdOp    map[int]int
	running  map[int]int // op -> running command
	exitDir  map[int]string
	sigs     map[string]drv.Step // registry of partial signatures seen: hex -> {v,e,i,k}
	proxy    *httputil.ReverseProxy
	hung     bool
	listHeld bool
}

func (r *run) log(ev drv.Step) {
	r.mu.Lock()
	defer r.mu.Unlock()
	r.events = append(r.events, ev)
}

// --- observation functions --------------------------------------------------------------------------------------------

func (r *run) valOf(pk string) int {
	for v, h := range r.m.pkHex {
		if pk == h {
			return v + 1
		}
	}

	return 0
}

func (r *run) absEpoch(e uint64) int {
	for a, re := range realEpoch {
		if re == e {
			return a
		}
	}

	return 0
}

func (r *run) absIdx(i uint64) int {
	switch {
	case i > idxBase && i <= idxBase+uint64(r.m.nv):
		return int(i - idxBase)
	case i == idxForeign:
		return 0
	default:
		return -1
	}
}

func (r *run) realIdx(iv int) uint64 {
	switch {
	case iv >= 1:
		return idxBase + uint64(iv)
	case iv == 0:
		return idxForeign
	default:
		return idxNone
	}
}

func (r *run) sigData(epoch, vidx uint64) chunk {
	return signingRoot(exitMsgRoot(epoch, vidx), r.m.domain)
}

// whoSigned returns the operator (1-based) whose identity key made the 65-byte signature over root, 0 if nobody.
func (r *run) whoSigned(root chunk, sig []byte) int {
	if len(sig) != 65 {
		return 0
	}
	for i, pk := range r.m.opPub {
		if ok, err := k1util.Verify65(pk, root[:], sig); err == nil && ok {
			return i + 1
		}
	}

	return 0
}

// partialBy returns (validator, share) whose public share verifies sig over the exit (epoch, vidx); (0,0) if none.
func (r *run) partialBy(epoch, vidx uint64, sig []byte) (int, int) {
	if len(sig) != 96 {
		return 0, 0
	}
	sd := r.sigData(epoch, vidx)
	for v := range r.m.pubShares {
		for k, ps := range r.m.pubShares[v] {
			if tbls.Verify(ps, sd[:], tbls.Signature(sig)) == nil {
				return v + 1, k + 1
			}
		}
	}

	return 0, 0
}

// exitBy returns the cluster validator whose group key verifies the full exit, 0 if none.
func (r *run) exitBy(epoch, vidx uint64, sig []byte) int {
	if len(sig) != 96 {
		return 0
	}
	sd := r.sigData(epoch, vidx)
	for v, pk := range r.m.groupPub {
		if tbls.Verify(pk, sd[:], tbls.Signature(sig)) == nil {
			return v + 1
		}
	}

	return 0
}

type wireExit struct {
	Message struct {
		Epoch string `json:"epoch"`
		Index string `json:"validator_index"`
	} `json:"message"`
	Signature string `json:"signature"`
}

func unhex(s string) []byte {
	b, err := hex.DecodeString(strings.TrimPrefix(s, "0x"))
	if err != nil {
		return nil
	}

	return b
}

func (r *run) absExit(x wireExit) drv.Step {
	e, err1 := strconv.ParseUint(x.Message.Epoch, 10, 64)
	i, err2 := strconv.ParseUint(x.Message.Index, 10, 64)
	if err1 != nil || err2 != nil {
		return drv.Step{"e": 0, "i": -1, "by": 0}
	}

	return drv.Step{"e": r.absEpoch(e), "i": r.absIdx(i), "by": r.exitBy(e, i, unhex(x.Signature))}
}

// token is the abstract name of a partial signature: who made it over what.
func (r *run) token(epoch, vidx uint64, sig []byte) drv.Step {
	v, k := r.partialBy(epoch, vidx, sig)

	return drv.Step{"v": v, "k": k, "e": r.absEpoch(epoch), "i": r.absIdx(vidx)}
}

func (r *run) remember(sigHex string, tok drv.Step) {
	r.mu.Lock()
	defer r.mu.Unlock()
	if _, ok := r.sigs[sigHex]; !ok && drv.Num(tok["k"]) != 0 {
		r.sigs[sigHex] = tok
	}
}

func (r *run) lookup(sigHex string) drv.Step {
	r.mu.Lock()
	defer r.mu.Unlock()
	if sigHex == "" {
		return drv.Step{"v": 0, "k": -1, "e": 0, "i": 0}
	}
	if t, ok := r.sigs[sigHex]; ok {
		return t
	}

	return drv.Step{"v": 0, "k": 0, "e": 0, "i": 0} // junk
}

// --- API front ----------------------------------------------------------------------------------------------------------

type wirePost struct {
	PartialExits []struct {
		PublicKey string   `json:"public_key"`
		Exit      wireExit `json:"signed_exit_message"`
	} `json:"partial_exits"`
	ShareIdx  uint64 `json:"share_idx"`
	Signature string `json:"signature"`
}

type wireFull struct {
	Epoch      string   `json:"epoch"`
	Index      flexU64  `json:"validator_index"`
	Signatures []string `json:"signatures"`
}

// flexU64 reads a JSON number or a decimal string and writes back in the form it was read.
type flexU64 struct {
	v      uint64
	quoted bool
}

func (f *flexU64) UnmarshalJSON(b []byte) error {
	s := string(b)
	if strings.HasPrefix(s, "\"") {
		f.quoted = true
		s = strings.Trim(s, "\"")
	}
	v, err := strconv.ParseUint(s, 10, 64)
	f.v = v

	return err
}

func (f flexU64) MarshalJSON() ([]byte, error) {
	if f.quoted {
		return []byte("\"" + strconv.FormatUint(f.v, 10) + "\""), nil
	}

	return []byte(strconv.FormatUint(f.v, 10)), nil
}

func (r *run) wait(op int) instr {
	if op == 0 {
		return instr{fault: "none"}
	}
	g := &gate{release: make(chan instr, 1)}
	r.arrivals <- arrival{op: op, g: g}

	return <-g.release
}

func (r *run) apiFront(wr http.ResponseWriter, req *http.Request) {
	op, _ := strconv.Atoi(req.URL.Query().Get("op"))
	body, _ := io.ReadAll(req.Body)
	ev := drv.Step{"ev": "Api", "op": op, "m": req.Method}
	parts := strings.Split(strings.Trim(req.URL.Path, "/"), "/")
	lockOK := func(s string) bool { return s == "0x"+hex.EncodeToString(r.m.lockHash) }
	bearer := unhex(strings.TrimSpace(strings.TrimPrefix(req.Header.Get("Authorization"), "Bearer")))
	switch {
	case req.Method == http.MethodPost && len(parts) == 3 && parts[1] == "partial_exits":
		ev["lock"] = lockOK(parts[2])
		var p wirePost
		blobs := []drv.Step{}
		if err := json.Unmarshal(body, &p); err != nil {
			ev["malformed"] = true
		} else {
			var roots []chunk
			for _, b := range p.PartialExits {
				e, _ := strconv.ParseUint(b.Exit.Message.Epoch, 10, 64)
				i, _ := strconv.ParseUint(b.Exit.Message.Index, 10, 64)
				sig := unhex(b.Exit.Signature)
				tok := r.token(e, i, sig)
				r.remember(b.Exit.Signature, tok)
				blobs = append(blobs, drv.Step{"v": r.valOf(b.PublicKey), "e": tok["e"], "i": tok["i"], "sv": tok["v"], "k": tok["k"]})
				roots = append(roots, exitBlobRoot(unhex(b.PublicKey), e, i, sig))
			}
			ev["share"] = int(p.ShareIdx)
			ev["by"] = r.whoSigned(partialExitRequestRoot(roots, p.ShareIdx), unhex(p.Signature))
		}
		ev["blobs"] = blobs
	case (req.Method == http.MethodGet && len(parts) == 5 && parts[1] == "exit") ||
		(req.Method == http.MethodDelete && len(parts) == 5 && parts[1] == "partial_exits"):
		ev["lock"] = lockOK(parts[2])
		share, err := strconv.ParseUint(parts[3], 10, 64)
		if err != nil {
			share = 0
		}
		ev["share"] = int(share)
		ev["v"] = r.valOf(parts[4])
		ev["by"] = r.whoSigned(authRoot(unhex(parts[2]), unhex(parts[4]), share), bearer)
		if req.Header.Get("Authorization") == "" {
			ev["noauth"] = true
		}
	default:
		ev["m"] = "?" + req.Method
	}
	in := r.wait(op)
	ev["f"] = in.fault
	rec := httptest.NewRecorder()
	if in.fault == "pre" {
		rec.WriteHeader(in.code)
		ev["status"] = 0
	} else {
		fwd := req.Clone(req.Context())
		fwd.Body = io.NopCloser(bytes.NewReader(body))
		fwd.URL.RawQuery = ""
		r.api.ServeHTTP(rec, fwd)
		ev["status"] = rec.Code
	}
	out := rec.Body.Bytes()
	code := rec.Code
	if req.Method == http.MethodGet && rec.Code == http.StatusOK && in.fault != "pre" {
		var f wireFull
		if err := json.Unmarshal(out, &f); err == nil {
			ev["raw"] = r.absFull(f)
			if in.tamper != nil {
				f = r.tamper(f, in.tamper)
				out, _ = json.Marshal(f)
			}
			ev["resp"] = r.absFull(f)
		}
	}
	if in.fault == "post" {
		code, out = in.code, []byte(`{"Message":"injected"}`)
		delete(ev, "resp")
	}
	ev["code"] = code
	r.log(ev)
	wr.WriteHeader(code)
	_, _ = wr.Write(out)
}

func (r *run) absFull(f wireFull) drv.Step {
	e, err := strconv.ParseUint(f.Epoch, 10, 64)
	ae := 0
	if err == nil {
		ae = r.absEpoch(e)
	}
	sigs := []drv.Step{}
	for _, s := range f.Signatures {
		sigs = append(sigs, r.lookup(s))
	}

	return drv.Step{"e": ae, "i": r.absIdx(f.Index.v), "sigs": sigs}
}

// tamper: what a faulty API could deliver instead (the kinds of ExitFlowMC.Tamper).
func (r *run) tamper(f wireFull, t drv.Step) wireFull {
	n := len(f.Signatures)
	if n == 0 {
		return f
	}
	switch drv.Str(t["kind"]) {
	case "blank":
		f.Signatures[0] = ""
	case "drop":
		f.Signatures = f.Signatures[1:]
	case "droplast":
		f.Signatures = f.Signatures[:n-1]
	case "dup":
		f.Signatures[n-1] = f.Signatures[0]
	case "rev":
		for a, b := 0, n-1; a < b; a, b = a+1, b-1 {
			f.Signatures[a], f.Signatures[b] = f.Signatures[b], f.Signatures[a]
		}
	case "rot":
		f.Signatures = append(f.Signatures[1:], f.Signatures[0])
	case "other": // the first signature's share signs the other epoch (a partial the API could have kept from earlier)
		tok := r.lookup(f.Signatures[0])
		v, k := drv.Num(tok["v"]), drv.Num(tok["k"])
		if v >= 1 && k >= 1 {
			e := realEpoch[3-drv.Num(tok["e"])]
			sd := r.sigData(e, r.realIdx(drv.Num(tok["i"])))
			if s, err := tbls.Sign(r.m.shares[v-1][k-1], sd[:]); err == nil {
				h := "0x" + hex.EncodeToString(s[:])
				r.remember(h, r.token(e, r.realIdx(drv.Num(tok["i"])), s[:]))
				f.Signatures[0] = h
			}
		}
	case "junk": // a well-formed signature by a key nobody knows
		sk, _ := tbls.GenerateSecretKey()
		s, _ := tbls.Sign(sk, []byte("junk"))
		f.Signatures[0] = "0x" + hex.EncodeToString(s[:])
	case "epoch":
		e, _ := strconv.ParseUint(f.Epoch, 10, 64)
		f.Epoch = strconv.FormatUint(realEpoch[3-r.absEpoch(e)], 10)
	case "index":
		f.Index.v = r.realIdx(0)
	}

	return f
}

// --- beacon front -------------------------------------------------------------------------------------------------------

func (r *run) bnFront(wr http.ResponseWriter, req *http.Request) {
	p := strings.TrimPrefix(req.URL.Path, "/")
	seg, rest, _ := strings.Cut(p, "/")
	op, _ := strconv.Atoi(strings.TrimPrefix(seg, "op"))
	rest = "/" + rest
	switch {
	case rest == "/eth/v1/beacon/states/head/validators":
		var q struct {
			IDs      []string `json:"ids"`
			Statuses []string `json:"statuses"`
		}
		if req.Method == http.MethodPost {
			b, _ := io.ReadAll(req.Body)
			_ = json.Unmarshal(b, &q)
		} else {
			for _, s := range req.URL.Query()["id"] {
				q.IDs = append(q.IDs, strings.Split(s, ",")...)
			}
			for _, s := range req.URL.Query()["status"] {
				q.Statuses = append(q.Statuses, strings.Split(s, ",")...)
			}
		}
		ids := []drv.Step{}
		for _, id := range q.IDs {
			if strings.HasPrefix(id, "0x") {
				ids = append(ids, drv.Step{"pk": r.valOf(id)})
			} else {
				n, _ := strconv.ParseUint(id, 10, 64)
				ids = append(ids, drv.Step{"ix": r.absIdx(n)})
			}
		}
		sts := append([]string{}, q.Statuses...)
		sort.Strings(sts)
		ev := drv.Step{"ev": "Bn", "op": op, "q": "vals", "ids": ids, "sts": sts}
		in := r.wait(op)
		ev["f"] = in.fault
		if in.fault != "none" {
			ev["code"] = in.code
			r.log(ev)
			wr.WriteHeader(in.code)
			_, _ = wr.Write([]byte(`{"code":500,"message":"injected"}`))

			return
		}
		r.mu.Lock()
		type entry struct {
			idx    uint64
			pk, st string
		}
		var all []entry
		for v := range r.m.nv {
			if r.status[v] != "none" {
				all = append(all, entry{idxBase + uint64(v+1), r.m.pkHex[v], r.status[v]})
			}
		}
		all = append(all, entry{idxForeign, r.m.foreignHex, "active_ongoing"})
		r.mu.Unlock()
		var data []any
		got := []int{}
		for _, e := range all {
			match := len(q.IDs) == 0
			for _, id := range q.IDs {
				if id == e.pk || id == strconv.FormatUint(e.idx, 10) {
					match = true
				}
			}
			if len(q.Statuses) > 0 {
				ok := false
				for _, s := range q.Statuses {
					if s == e.st || (s == "active" && strings.HasPrefix(e.st, "active")) || (s == "pending" && strings.HasPrefix(e.st, "pending")) ||
						(s == "exited" && strings.HasPrefix(e.st, "exited")) {
						ok = true
					}
				}
				match = match && ok
			}
			if !match {
				continue
			}
			got = append(got, r.absIdx(e.idx))
			data = append(data, map[string]any{"index": strconv.FormatUint(e.idx, 10), "balance": "32000000000", "status": e.st,
				"validator": map[string]any{"pubkey": e.pk, "withdrawal_credentials": "0x" + strings.Repeat("00", 32),
					"effective_balance": "32000000000", "slashed": false, "activation_eligibility_epoch": "0", "activation_epoch": "0",
					"exit_epoch": "18446744073709551615", "withdrawable_epoch": "18446744073709551615"}})
		}
		if data == nil {
			data = []any{}
		}
		ev["code"] = 200
		ev["got"] = got
		r.log(ev)
		wr.Header().Set("Content-Type", "application/json")
		_ = json.NewEncoder(wr).Encode(map[string]any{"execution_optimistic": false, "finalized": false, "data": data})
	case rest == "/eth/v1/beacon/pool/voluntary_exits" && req.Method == http.MethodPost:
		b, _ := io.ReadAll(req.Body)
		var x wireExit
		_ = json.Unmarshal(b, &x)
		ev := drv.Step{"ev": "Bn", "op": op, "q": "submit", "exit": r.absExit(x)}
		in := r.wait(op)
		ev["f"] = in.fault
		if in.fault != "none" {
			ev["code"] = in.code
			r.log(ev)
			wr.WriteHeader(in.code)
			_, _ = wr.Write([]byte(`{"code":400,"message":"injected"}`))

			return
		}
		ev["code"] = 200
		r.log(ev)
		wr.WriteHeader(http.StatusOK)
	default:
		req.URL.Path = rest
		r.proxy.ServeHTTP(wr, req)
	}
}

// --- commands -----------------------------------------------------------------------------------------------------------

var stdoutMu sync.Mutex

func (r *run) pk(v int) string {
	switch {
	case v >= 1 && v <= r.m.nv:
		return r.m.pkHex[v-1]
	default:
		return r.m.foreignHex
	}
}

func (r *run) exitFile(op, v int) string {
	return filepath.Join(r.exitDir[op], fmt.Sprintf("exit-%s.json", r.pk(v)))
}

// files lists the fetched-exit directory of op in abstract terms.
func (r *run) files(op int) []drv.Step {
	out := []drv.Step{}
	ents, _ := os.ReadDir(r.exitDir[op])
	for _, e := range ents {
		f := drv.Step{"v": -1, "name": e.Name()}
		if strings.HasPrefix(e.Name(), "exit-") && strings.HasSuffix(e.Name(), ".json") {
			f["v"] = r.valOf(strings.TrimSuffix(strings.TrimPrefix(e.Name(), "exit-"), ".json"))
			delete(f, "name")
		}
		b, err := os.ReadFile(filepath.Join(r.exitDir[op], e.Name()))
		var x wireExit
		if err == nil && json.Unmarshal(b, &x) == nil {
			f["exit"] = r.absExit(x)
		} else {
			f["exit"] = drv.Step{"e": 0, "i": -1, "by": 0}
		}
		out = append(out, f)
	}

	return out
}

func (r *run) start(st drv.Step) {
	c, op, kind := drv.Num(st["c"]), drv.Num(st["op"]), drv.Str(st["kind"])
	d := r.m.opDir(op)
	bn := fmt.Sprintf("%s/op%d", r.bnSrv.URL, op)
	args := []string{"exit"}
	common := []string{"--lock-file", filepath.Join(d, "cluster-lock.json"), "--log-level", "error"}
	apiArgs := []string{"--private-key-file", filepath.Join(d, "charon-enr-private-key"),
		"--publish-address", fmt.Sprintf("%s/?op=%d", r.apiSrv.URL, op), "--publish-timeout", "10m"}
	bnArgs := []string{"--beacon-node-endpoints", bn, "--beacon-node-timeout", "10m"}
	sel, v, iv := drv.Str(st["sel"]), drv.Num(st["v"]), drv.Num(st["iv"])
	selArgs := func(withIdx bool) []string {
		switch sel {
		case "all":
			return []string{"--all"}
		case "idx":
			if withIdx {
				return []string{"--validator-index", strconv.FormatUint(r.realIdx(iv), 10)}
			}
		case "both":
			if withIdx {
				return []string{"--validator-public-key", r.pk(v), "--validator-index", strconv.FormatUint(r.realIdx(iv), 10)}
			}
		}

		return []string{"--validator-public-key", r.pk(v)}
	}
	switch kind {
	case "sign":
		args = append(args, "sign")
		args = append(args, common...)
		args = append(args, apiArgs...)
		args = append(args, bnArgs...)
		args = append(args, "--validator-keys-dir", filepath.Join(d, "validator_keys"), "--exit-epoch", strconv.FormatUint(realEpoch[drv.Num(st["e"])], 10))
		args = append(args, selArgs(true)...)
	case "fetch":
		args = append(args, "fetch")
		args = append(args, common...)
		args = append(args, apiArgs...)
		args = append(args, bnArgs...)
		args = append(args, "--fetched-exit-path", r.exitDir[op])
		args = append(args, selArgs(false)...)
	case "bcast":
		args = append(args, "broadcast")
		args = append(args, common...)
		args = append(args, apiArgs...)
		args = append(args, bnArgs...)
		args = append(args, "--validator-keys-dir", filepath.Join(d, "validator_keys"))
		args = append(args, selArgs(false)...)
		switch drv.Str(st["src"]) {
		case "file":
			args = append(args, "--exit-from-file", r.exitFile(op, drv.Num(st["fv"])))
		case "dir":
			args = append(args, "--exit-from-dir", r.exitDir[op])
		}
	case "delete":
		args = append(args, "delete")
		args = append(args, common...)
		args = append(args, apiArgs...)
		args = append(args, selArgs(false)...)
	case "list":
		args = append(args, "active-validator-list", "--plaintext")
		args = append(args, common...)
		args = append(args, bnArgs...)
	default:
		r.w.t.Fatalf("unknown command kind %q", kind)
	}
	ev := drv.Step{"ev": "Start", "c": c, "op": op, "kind": kind, "sel": sel, "v": v, "iv": iv, "e": drv.Num(st["e"]),
		"src": drv.Str(st["src"]), "fv": drv.Num(st["fv"])}
	if kind == "list" {
		// os.Stdout is the process's: one `active-validator-list` at a time.  The executor waits here (other schedules
		// finish theirs without us); a second one inside this schedule while the first is still at a gate is not started.
		if r.listHeld {
			return
		}
		stdoutMu.Lock()
		r.listHeld = true
	}
	r.log(ev)
	r.cmdOp[c] = op
	r.running[op] = c
	go func() {
		var printed []int
		var err error
		if kind == "list" {
			printed, err = r.runList(args)
		} else {
			err = runCLI(args)
		}
		done := drv.Step{"ev": "Done", "c": c, "ok": err == nil, "files": r.files(op)}
		if err != nil {
			done["err"] = err.Error()
		}
		if kind == "list" {
			done["printed"] = printed
		}
		r.log(done)
		r.arrivals <- arrival{op: op}
	}()
	r.await(op)
}

func runCLI(args []string) error {
	root := cmd.New()
	root.SetArgs(args)
	root.SetOut(io.Discard)
	root.SetErr(io.Discard)

	return root.ExecuteContext(context.Background())
}

// runList captures what `active-validator-list --plaintext` prints.
func (r *run) runList(args []string) ([]int, error) {
	defer func() {
		r.listHeld = false
		stdoutMu.Unlock()
	}()
	old := os.Stdout
	pr, pw, err := os.Pipe()
	if err != nil {
		return nil, err
	}
	os.Stdout = pw
	outc := make(chan []byte, 1)
	go func() {
		b, _ := io.ReadAll(pr)
		outc <- b
	}()
	err = runCLI(args)
	os.Stdout = old
	pw.Close()
	b := <-outc
	printed := []int{}
	for _, line := range strings.Split(string(b), "\n") {
		line = strings.TrimSpace(line)
		if line == "" {
			continue
		}
		if line == r.m.foreignHex {
			printed = append(printed, 0)
		} else if v := r.valOf(line); v > 0 {
			printed = append(printed, v)
		} else {
			printed = append(printed, -1)
		}
	}
	sort.Ints(printed)

	return printed, err
}

// await blocks until the command of op is at its next gate or has returned.
func (r *run) await(op int) {
	select {
	case a := <-r.arrivals:
		if a.op != op {
			r.log(drv.Step{"ev": "Stray", "op": a.op})
		}
		if a.g != nil {
			r.pending[a.op] = a.g
		} else {
			delete(r.pending, a.op)
			delete(r.running, a.op)
		}
	case <-time.After(90 * time.Second):
		r.log(drv.Step{"ev": "Hang"})
		r.hung = true
	}
}

func (r *run) step(c int, in instr) {
	op, ok := r.cmdOp[c]
	g := r.pending[op]
	if !ok || g == nil || r.running[op] != c {
		return // the command has returned (or was never started): nothing to let through
	}
	delete(r.pending, op)
	g.release <- in
	r.await(op)
}

// --- the Byzantine operator / outsider talking to the API directly ------------------------------------------------------

func (r *run) idKey(j int) *k1.PrivateKey {
	if j >= 1 && j <= r.m.n {
		return r.m.enrs[j-1]
	}

	return r.m.outsider
}

func (r *run) k1sig(j int, root chunk) []byte {
	if j < 0 {
		return bytes.Repeat([]byte{7}, 65)
	}
	s, err := k1util.Sign(r.idKey(j), root[:])
	if err != nil {
		r.w.t.Fatal(err)
	}

	return s
}

func (r *run) byz(st drv.Step) {
	lock := "0x" + hex.EncodeToString(r.m.lockHash)
	if st["lock"] == false {
		lock = "0x" + strings.Repeat("ab", 32)
	}
	share := uint64(drv.Num(st["share"]))
	key := drv.Num(st["key"])
	base := r.apiSrv.URL
	var req *http.Request
	switch drv.Str(st["req"]) {
	case "post":
		type blob struct {
			PublicKey string   `json:"public_key,omitempty"`
			Exit      wireExit `json:"signed_exit_message"`
		}
		var blobs []blob
		var roots []chunk
		for _, a := range st["blobs"].([]any) {
			b := a.(map[string]any)
			e, i := realEpoch[drv.Num(b["e"])], r.realIdx(drv.Num(b["iv"]))
			sv, sk := drv.Num(b["sv"]), drv.Num(b["sk"])
			sd := r.sigData(e, i)
			var sig tbls.Signature
			if sv >= 1 && sv <= r.m.nv && sk >= 1 && sk <= r.m.n {
				var err error
				if sig, err = tbls.Sign(r.m.shares[sv-1][sk-1], sd[:]); err != nil {
					r.w.t.Fatal(err)
				}
			} else {
				fsk, _ := tbls.GenerateSecretKey()
				sig, _ = tbls.Sign(fsk, sd[:])
			}
			var x wireExit
			x.Message.Epoch = strconv.FormatUint(e, 10)
			x.Message.Index = strconv.FormatUint(i, 10)
			x.Signature = "0x" + hex.EncodeToString(sig[:])
			pk := r.pk(drv.Num(b["v"]))
			blobs = append(blobs, blob{PublicKey: pk, Exit: x})
			roots = append(roots, exitBlobRoot(unhex(pk), e, i, sig[:]))
		}
		sshare := share
		if s, ok := st["sshare"]; ok {
			sshare = uint64(drv.Num(s))
		}
		sig := r.k1sig(key, partialExitRequestRoot(roots, sshare))
		body, _ := json.Marshal(map[string]any{"partial_exits": blobs, "share_idx": share, "signature": "0x" + hex.EncodeToString(sig)})
		if blobs == nil {
			body, _ = json.Marshal(map[string]any{"partial_exits": []blob{}, "share_idx": share, "signature": "0x" + hex.EncodeToString(sig)})
		}
		req, _ = http.NewRequest(http.MethodPost, base+"/exp/partial_exits/"+lock, bytes.NewReader(body))
		req.Header.Set("Content-Type", "application/json")
	case "get", "del":
		pk := r.pk(drv.Num(st["v"]))
		sshare := share
		if s, ok := st["sshare"]; ok {
			sshare = uint64(drv.Num(s))
		}
		sig := r.k1sig(key, authRoot(unhex(lock), unhex(pk), sshare))
		if drv.Str(st["req"]) == "get" {
			req, _ = http.NewRequest(http.MethodGet, fmt.Sprintf("%s/exp/exit/%s/%d/%s", base, lock, share, pk), nil)
		} else {
			req, _ = http.NewRequest(http.MethodDelete, fmt.Sprintf("%s/exp/partial_exits/%s/%d/%s", base, lock, share, pk), nil)
		}
		if st["noauth"] != true {
			req.Header.Set("Authorization", fmt.Sprintf("Bearer %#x", sig))
		}
	default:
		r.w.t.Fatalf("unknown byz request %v", st)
	}
	resp, err := http.DefaultClient.Do(req)
	if err != nil {
		r.log(drv.Step{"ev": "Hang", "err": err.Error()})
		r.hung = true

		return
	}
	_, _ = io.Copy(io.Discard, resp.Body)
	resp.Body.Close()
}

// plant writes an exit file into an operator's directory: an aggregate of the given shares of validator sv.
func (r *run) plant(st drv.Step) {
	op, v, sv := drv.Num(st["op"]), drv.Num(st["v"]), drv.Num(st["sv"])
	e, i := realEpoch[drv.Num(st["e"])], r.realIdx(drv.Num(st["iv"]))
	sd := r.sigData(e, i)
	parts := map[int]tbls.Signature{}
	for _, a := range st["shares"].([]any) {
		k := drv.Num(a)
		s, err := tbls.Sign(r.m.shares[sv-1][k-1], sd[:])
		if err != nil {
			r.w.t.Fatal(err)
		}
		parts[k] = s
	}
	sig, err := tbls.ThresholdAggregate(parts)
	if err != nil {
		r.w.t.Fatal(err)
	}
	var x wireExit
	x.Message.Epoch = strconv.FormatUint(e, 10)
	x.Message.Index = strconv.FormatUint(i, 10)
	x.Signature = "0x" + hex.EncodeToString(sig[:])
	b, _ := json.Marshal(x)
	if err := os.WriteFile(r.exitFile(op, v), b, 0o600); err != nil {
		r.w.t.Fatal(err)
	}
	r.log(drv.Step{"ev": "Plant", "op": op, "v": v, "sv": sv, "shares": st["shares"], "e": drv.Num(st["e"]), "iv": drv.Num(st["iv"]), "exit": r.absExit(x)})
}

func (w *world) exec(sid int, sched []drv.Step) []drv.Step {
	cfg := sched[0]
	m := w.material(drv.Num(cfg["n"]), drv.Num(cfg["t"]), drv.Num(cfg["nv"]))
	r := &run{w: w, m: m, sid: sid, arrivals: make(chan arrival, 16), pending: map[int]*gate{}, cmdOp: map[int]int{},
		running: map[int]int{}, exitDir: map[int]string{}, sigs: map[string]drv.Step{}}
	for _, s := range cfg["st"].([]any) {
		r.status = append(r.status, drv.Str(s))
	}
	r.proxy = httputil.NewSingleHostReverseProxy(w.bURL)
	// the API mock verifies partial signatures through its own beacon client (not gated: the server is not an operator)
	eth2Cl, err := eth2wrap.NewMultiHTTP(time.Minute, [4]byte(m.lock.ForkVersion), nil, []string{w.bmock.Address()}, nil)
	if err != nil {
		w.t.Fatal(err)
	}
	h, addLock := obolapimock.MockServer(false, eth2Cl)
	addLock(m.lock)
	r.api = h
	r.apiSrv = httptest.NewServer(http.HandlerFunc(r.apiFront))
	r.bnSrv = httptest.NewServer(http.HandlerFunc(r.bnFront))
	defer r.apiSrv.Close()
	defer r.bnSrv.Close()
	for op := 1; op <= m.n; op++ {
		d, err := os.MkdirTemp(w.tmp, fmt.Sprintf("exits_%d_op%d_", sid, op))
		if err != nil {
			w.t.Fatal(err)
		}
		r.exitDir[op] = d
	}
	r.events = append(r.events, drv.Step{"ev": "Reset", "sid": sid, "n": m.n, "t": m.t, "nv": m.nv, "st": append([]string{}, r.status...)})
	for _, st := range sched[1:] {
		if r.hung {
			break
		}
		switch drv.Str(st["ev"]) {
		case "Status":
			v := drv.Num(st["v"])
			r.mu.Lock()
			r.status[v-1] = drv.Str(st["st"])
			r.mu.Unlock()
			r.log(drv.Step{"ev": "Status", "v": v, "st": drv.Str(st["st"])})
		case "Start":
			if _, busy := r.running[drv.Num(st["op"])]; busy {
				continue // the operator's previous command is still running: not started
			}
			r.start(st)
		case "Step":
			in := instr{fault: "none", code: 200}
			if f := drv.Str(st["f"]); f != "" {
				in.fault = f
			}
			if in.fault != "none" {
				in.code = drv.Num(st["code"])
			}
			if t, ok := st["tamper"].(map[string]any); ok {
				in.tamper = t
			}
			r.step(drv.Num(st["c"]), in)
		case "Byz":
			r.byz(st)
		case "Plant":
			r.plant(st)
		default:
			w.t.Fatalf("unknown step %v", st)
		}
	}
	// drain: let every running command finish, lowest operator first, no faults
	for k := 0; !r.hung && len(r.running) > 0 && k < 200; k++ {
		ops := []int{}
		for op := range r.running {
			ops = append(ops, op)
		}
		sort.Ints(ops)
		r.step(r.running[ops[0]], instr{fault: "none", code: 200})
	}
	if !r.hung && len(r.running) == 0 {
		r.log(drv.Step{"ev": "End"})
	}
	// whatever is still blocked at a gate (after a hang) is refused, so that the servers can be closed
	for k := 0; len(r.running) > 0 && k < 400; k++ {
		for op, g := range r.pending {
			delete(r.pending, op)
			g.release <- instr{fault: "pre", code: 500}
		}
		select {
		case a := <-r.arrivals:
			if a.g != nil {
				r.pending[a.op] = a.g
			} else {
				delete(r.running, a.op)
			}
		case <-time.After(30 * time.Second):
			k = 400
		}
	}
	for _, d := range r.exitDir {
		os.RemoveAll(d)
	}

	return r.events
}

// TestExec runs the schedules (VERIF_SCHED) and writes the traces (VERIF_OUT).
func TestExec(t *testing.T) {
	scheds := drv.ReadSchedules(t)
	tr := drv.NewTracer(t)
	defer tr.Close()
	w := newWorld(t)
	par, _ := strconv.Atoi(os.Getenv("VERIF_EXITFLOW_PAR"))
	if par <= 0 {
		par = 4
	}
	out := make([][]drv.Step, len(scheds))
	var wg sync.WaitGroup
	var stop sync.Once
	stopped := make(chan struct{})
	jobs := make(chan int)
	for range par {
		wg.Add(1)
		go func() {
			defer wg.Done()
			for sid := range jobs {
				select {
				case <-stopped:
					continue
				default:
				}
				out[sid] = w.exec(sid, scheds[sid])
				for _, e := range out[sid] {
					if e["ev"] == "Hang" {
						stop.Do(func() { close(stopped) })
					}
				}
			}
		}()
	}
	for sid := range scheds {
		jobs <- sid
	}
	close(jobs)
	wg.Wait()
	for _, evs := range out {
		for _, e := range evs {
			tr.Emit(e)
		}
	}
}
