package vapi

// Stand-alone reproduction of a finding of the ValidatorAPI growth family (nothing here is used by TestExec).
// Run:  cd /verif/harness && go test -tags verif -count=1 -vet=off -run 'TestRepro' -v ./vapi

import (
	"testing"

	"github.com/OffchainLabs/go-bitfield"
	eth2spec "github.com/attestantio/go-eth2-client/spec"
	eth2p0 "github.com/attestantio/go-eth2-client/spec/phase0"

	"github.com/obolnetwork/charon/core"
)

// core.VersionedAttestation.UnmarshalSSZ first parses [version | validator index | offset | attestation] and falls back to
// the index-less layout [version | offset | attestation] only when that attempt fails with ssz.ErrOffset.  For an index-less
// (pre-electra) attestation the bytes read as "offset" are the low 4 bytes of the attestation's SLOT: with slot = 20
// (= versionedValIdxOffset, also 20 + k*2^32) the offset check passes, the attestation is then parsed 8 bytes off and fails
// with "incorrect size" -- not ErrOffset, so there is no fallback.  Every Clone() (validatorapi's Subscribe wrapper: the
// validator client's SubmitAttestations is answered with an error, nothing is forwarded) and every UnmarshalSSZ of such
// an attestation (parsigex messages of the peers) fails.  Slots 19 and 21 are fine.
func TestReproPreElectraAttestationSlot20CannotBeCloned(t *testing.T) {
	for _, slot := range []eth2p0.Slot{19, 20, 21, 20 + 1<<32} {
		bits := bitfield.NewBitlist(8)
		bits.SetBitAt(1, true)
		att, err := core.NewVersionedAttestation(&eth2spec.VersionedAttestation{Version: eth2spec.DataVersionDeneb, Deneb: &eth2p0.Attestation{
			AggregationBits: bits,
			Data:            &eth2p0.AttestationData{Slot: slot, Index: 1, Source: &eth2p0.Checkpoint{}, Target: &eth2p0.Checkpoint{Epoch: 2}},
		}})
		if err != nil {
			t.Fatal(err)
		}
		_, err = att.Clone()
		t.Logf("slot %d: Clone() error = %v", slot, err)
		if bad := uint32(slot) == 20; bad != (err != nil) {
			t.Errorf("slot %d: unexpected outcome %v", slot, err)
		}
	}
}
