// Package vapi executes ValidatorAPI schedules on the real core/validatorapi.Component and records what it did.
//
// One schedule = one case (see specs/ValidatorAPI/ValidatorAPI.tla): an environment (this node's share index, slots per
// epoch, fork spacing, what the scheduler / dutydb / beacon node know, scripted failures of subscribers and of the blocking
// queries) and ONE request of one endpoint, given abstractly: per element the fields of the eth2 object and an abstract
// signature (who signed, for which domain and epoch, over the root of which object).  The executor builds the real eth2
// objects and real BLS signatures (tbls; 4 validators with 3-of-4 shares each, one unrelated key), constructs the real
// component with NewComponent (signature verification ON) over a scripted beacon client, registers recording stubs for every
// input function and `nsubs` recording subscribers, makes the call and records
//
//	{"ev":"Reset", ...the case...}
//	{"ev":"BN","api":..,"pubkeys":[keyref],"indices":[..]}        an upstream / dutydb query made by a query endpoint
//	{"ev":"Sub","sub":k,"duty":{"type","slot"},"set":[{"pk":v,"share":idx,"objs":[element numbers],"repoch":e}]}
//	                                                                one subscriber invocation; objs = the submitted elements
//	                                                                that are identical to the forwarded signed data
//	{"ev":"Await","duty":{..},"pk":v,"sub":s}                       one blocking aggsigdb query
//	{"ev":"Ret","err":text,"resp":[...]}                            the result
//	{"ev":"End"}
//
// The executor holds no expectation; the trace spec decides.
package vapi

import (
	"context"
	"encoding/binary"
	"encoding/json"
	"errors"
	"fmt"
	"math/big"
	"sort"
	"testing"
	"time"

	"github.com/OffchainLabs/go-bitfield"
	eth2api "github.com/attestantio/go-eth2-client/api"
	eth2v1 "github.com/attestantio/go-eth2-client/api/v1"
	eth2bellatrix "github.com/attestantio/go-eth2-client/api/v1/bellatrix"
	eth2capella "github.com/attestantio/go-eth2-client/api/v1/capella"
	eth2deneb "github.com/attestantio/go-eth2-client/api/v1/deneb"
	eth2electra "github.com/attestantio/go-eth2-client/api/v1/electra"
	eth2fulu "github.com/attestantio/go-eth2-client/api/v1/fulu"
	eth2spec "github.com/attestantio/go-eth2-client/spec"
	"github.com/attestantio/go-eth2-client/spec/altair"
	"github.com/attestantio/go-eth2-client/spec/electra"
	eth2p0 "github.com/attestantio/go-eth2-client/spec/phase0"

	"github.com/obolnetwork/charon/app/eth2wrap"
	"github.com/obolnetwork/charon/core"
	"github.com/obolnetwork/charon/core/validatorapi"
	"github.com/obolnetwork/charon/eth2util"
	"github.com/obolnetwork/charon/tbls"
	"github.com/obolnetwork/charon/testutil"
	"github.com/obolnetwork/charon/testutil/beaconmock"

	"verifharness/drv"
)

// ---------------------------------------------------------------------------------------------------- keys
type keyset struct {
	root      tbls.PrivateKey
	rootPub   tbls.PublicKey
	shares    map[int]tbls.PrivateKey
	pubShares map[int]tbls.PublicKey
}

var (
	vkeys     = map[int]*keyset{} // validators 1..4
	unrelated tbls.PrivateKey
	keyNames  = map[eth2p0.BLSPubKey]drv.Step{} // public key -> {"t","v","k"}
	sigCache  = map[string]eth2p0.BLSSignature{}
)

const (
	nValidators = 4
	nShares     = 4
	threshold   = 3
	vidxBase    = 100 // validator v has validator index 100+v on the beacon node
)

func must[T any](v T, err error) T {
	if err != nil {
		panic(err)
	}

	return v
}

func keyref(t string, v, k int) drv.Step { return drv.Step{"t": t, "v": v, "k": k} }

func initKeys() {
	if len(vkeys) > 0 {
		return
	}
	for v := 1; v <= nValidators; v++ {
		ks := &keyset{root: must(tbls.GenerateSecretKey()), pubShares: map[int]tbls.PublicKey{}}
		ks.rootPub = must(tbls.SecretToPublicKey(ks.root))
		ks.shares = must(tbls.ThresholdSplit(ks.root, nShares, threshold))
		keyNames[eth2p0.BLSPubKey(ks.rootPub)] = keyref("root", v, 0)
		for k, s := range ks.shares {
			ks.pubShares[k] = must(tbls.SecretToPublicKey(s))
			keyNames[eth2p0.BLSPubKey(ks.pubShares[k])] = keyref("share", v, k)
		}
		vkeys[v] = ks
	}
	unrelated = must(tbls.GenerateSecretKey())
	keyNames[eth2p0.BLSPubKey(must(tbls.SecretToPublicKey(unrelated)))] = keyref("unrelated", 0, 0)
}

func nameOf(pk eth2p0.BLSPubKey) drv.Step {
	if n, ok := keyNames[pk]; ok {
		return n
	}

	return keyref("other", 0, 0)
}

func rootPub(v int) eth2p0.BLSPubKey { return eth2p0.BLSPubKey(vkeys[v].rootPub) }

func corePub(v int) core.PubKey { return core.PubKeyFrom48Bytes(rootPub(v)) }

// validatorOf returns the validator number whose GROUP key pk is (0: none).
func validatorOf(pk core.PubKey) int {
	b, err := pk.Bytes()
	if err != nil || len(b) != 48 {
		return 0
	}
	n := nameOf(eth2p0.BLSPubKey(b))
	if drv.Str(n["t"]) != "root" {
		return 0
	}

	return drv.Num(n["v"])
}

// refKey returns the public key a key reference of a schedule stands for.
func refKey(r map[string]any) eth2p0.BLSPubKey {
	v, k := drv.Num(r["v"]), drv.Num(r["k"])
	switch drv.Str(r["t"]) {
	case "share":
		return eth2p0.BLSPubKey(vkeys[v].pubShares[k])
	case "root":
		return rootPub(v)
	default:
		return eth2p0.BLSPubKey(must(tbls.SecretToPublicKey(unrelated)))
	}
}

// ---------------------------------------------------------------------------------------------------- beacon client
var domainNames = []string{"DOMAIN_BEACON_PROPOSER", "DOMAIN_BEACON_ATTESTER", "DOMAIN_RANDAO", "DOMAIN_DEPOSIT", "DOMAIN_VOLUNTARY_EXIT",
	"DOMAIN_SELECTION_PROOF", "DOMAIN_AGGREGATE_AND_PROOF", "DOMAIN_SYNC_COMMITTEE", "DOMAIN_SYNC_COMMITTEE_SELECTION_PROOF",
	"DOMAIN_CONTRIBUTION_AND_PROOF", "DOMAIN_APPLICATION_BUILDER"}

func domainType(name string) eth2p0.DomainType {
	for i, n := range domainNames {
		if n == name {
			return eth2p0.DomainType{byte(i), 0, 0, 0}
		}
	}

	return eth2p0.DomainType{0x0a, 0, 0, 0} // "-": registrations
}

// client is the component's beacon client: the overridable functions of a zero-value beaconmock carry the script; Spec,
// Domain and GenesisDomain are answered locally.  The node has a fork every `fork` epochs: the domain of an epoch carries
// the number of its fork.
type client struct {
	beaconmock.Mock

	spec map[string]any
	fork int
}

func (c client) Spec(context.Context, *eth2api.SpecOpts) (*eth2api.Response[map[string]any], error) {
	return &eth2api.Response[map[string]any]{Data: c.spec, Metadata: map[string]any{}}, nil
}

func (c client) Domain(_ context.Context, dt eth2p0.DomainType, epoch eth2p0.Epoch) (eth2p0.Domain, error) {
	var d eth2p0.Domain
	copy(d[:], dt[:])
	binary.BigEndian.PutUint64(d[4:], uint64(epoch)/uint64(c.fork))
	d[31] = 0x01

	return d, nil
}

func (c client) GenesisDomain(_ context.Context, dt eth2p0.DomainType) (eth2p0.Domain, error) {
	var d eth2p0.Domain
	copy(d[:], dt[:])
	d[31] = 0x02

	return d, nil
}

// ---------------------------------------------------------------------------------------------------- one case
type run struct {
	t    *testing.T
	tr   *drv.Tracer
	c    drv.Step
	cl   client
	ep   string
	spe  int
	objs []any    // the request elements as built
	text []string // ... their canonical text as signed data (what a subscriber should see)
	sigs []eth2p0.BLSSignature
}

func contentRoot(x int) eth2p0.Root {
	var r eth2p0.Root
	r[0], r[1], r[31] = 0xc0, byte(x), byte(x)

	return r
}

func js(v any) string {
	b, err := json.Marshal(v)
	if err != nil {
		return "marshal error: " + err.Error()
	}

	return string(b)
}

func dataVersion(s string, def eth2spec.DataVersion) eth2spec.DataVersion {
	for _, v := range []eth2spec.DataVersion{eth2spec.DataVersionPhase0, eth2spec.DataVersionAltair, eth2spec.DataVersionBellatrix,
		eth2spec.DataVersionCapella, eth2spec.DataVersionDeneb, eth2spec.DataVersionElectra, eth2spec.DataVersionFulu} {
		if v.String() == s {
			return v
		}
	}

	return def
}

// sign produces the real signature an abstract one stands for.
func (r *run) sign(signer map[string]any, dom string, epoch int, root [32]byte) eth2p0.BLSSignature {
	var key tbls.PrivateKey
	switch drv.Str(signer["t"]) {
	case "zero":
		return eth2p0.BLSSignature{}
	case "share":
		key = vkeys[drv.Num(signer["v"])].shares[drv.Num(signer["k"])]
	case "root":
		key = vkeys[drv.Num(signer["v"])].root
	default:
		key = unrelated
	}
	var domain eth2p0.Domain
	if dom == "DOMAIN_APPLICATION_BUILDER" || dom == "-" {
		domain, _ = r.cl.GenesisDomain(context.Background(), domainType(dom))
	} else {
		domain, _ = r.cl.Domain(context.Background(), domainType(dom), eth2p0.Epoch(epoch))
	}
	sroot := must((&eth2p0.SigningData{ObjectRoot: root, Domain: domain}).HashTreeRoot())
	ck := fmt.Sprintf("%x/%x", key[:], sroot[:])
	if s, ok := sigCache[ck]; ok {
		return s
	}
	s := eth2p0.BLSSignature(must(tbls.Sign(key, sroot[:])))
	sigCache[ck] = s

	return s
}

// proof builds the inner selection proof of an aggregate / a contribution.
func (r *run) proof(ep string, p map[string]any) eth2p0.BLSSignature {
	var root [32]byte
	if ep == "agg" {
		root = must(eth2util.SlotHashRoot(eth2p0.Slot(drv.Num(p["slot"]))))
	} else {
		root = must((&altair.SyncAggregatorSelectionData{Slot: eth2p0.Slot(drv.Num(p["slot"])), SubcommitteeIndex: uint64(drv.Num(p["sub"]))}).HashTreeRoot())
	}

	return r.sign(p["signer"].(map[string]any), drv.Str(p["dom"]), drv.Num(p["epoch"]), root)
}

func bitlist(positions []any) bitfield.Bitlist {
	bl := bitfield.NewBitlist(8)
	for _, p := range positions {
		bl.SetBitAt(uint64(drv.Num(p)), true)
	}

	return bl
}

var fixedSig = eth2p0.BLSSignature{0xaa, 0x01}

func vidx(v int) eth2p0.ValidatorIndex { return eth2p0.ValidatorIndex(vidxBase + v) }

// ---- proposals: one random block per (content, version, blinded), cloned, slot and proposer index set
var propCache = map[string]core.VersionedSignedProposal{}

func baseProposal(content int, ver eth2spec.DataVersion, blinded bool) eth2api.VersionedSignedProposal {
	k := fmt.Sprintf("%d/%s/%v", content, ver, blinded)
	p, ok := propCache[k]
	if !ok {
		full := map[eth2spec.DataVersion]func() core.VersionedSignedProposal{
			eth2spec.DataVersionBellatrix: testutil.RandomBellatrixCoreVersionedSignedProposal, eth2spec.DataVersionCapella: testutil.RandomCapellaCoreVersionedSignedProposal,
			eth2spec.DataVersionDeneb: testutil.RandomDenebCoreVersionedSignedProposal, eth2spec.DataVersionElectra: testutil.RandomElectraCoreVersionedSignedProposal,
			eth2spec.DataVersionFulu: testutil.RandomFuluCoreVersionedSignedProposal,
		}
		bl := map[eth2spec.DataVersion]func() core.VersionedSignedProposal{
			eth2spec.DataVersionBellatrix: testutil.RandomBellatrixVersionedSignedBlindedProposal, eth2spec.DataVersionCapella: testutil.RandomCapellaVersionedSignedBlindedProposal,
			eth2spec.DataVersionDeneb: testutil.RandomDenebVersionedSignedBlindedProposal, eth2spec.DataVersionElectra: testutil.RandomElectraVersionedSignedBlindedProposal,
			eth2spec.DataVersionFulu: testutil.RandomFuluVersionedSignedBlindedProposal,
		}
		if blinded {
			p = bl[ver]()
		} else {
			p = full[ver]()
		}
		propCache[k] = p
	}
	cl, err := p.Clone()
	if err != nil {
		panic(err)
	}

	return cl.(core.VersionedSignedProposal).VersionedSignedProposal
}

// proposal builds the signed proposal and the unsigned one with the same message.
func proposal(b map[string]any, sig eth2p0.BLSSignature) (*eth2api.VersionedSignedProposal, *eth2api.VersionedProposal) {
	ver := dataVersion(drv.Str(b["cver"]), eth2spec.DataVersionDeneb)
	if ver < eth2spec.DataVersionBellatrix {
		ver = eth2spec.DataVersionDeneb
	}
	blinded := b["blinded"] == true
	p := baseProposal(drv.Num(b["content"]), ver, blinded)
	slot, pidx := eth2p0.Slot(drv.Num(b["slot"])), vidx(drv.Num(b["val"]))
	u := &eth2api.VersionedProposal{Version: ver, Blinded: blinded}
	switch {
	case ver == eth2spec.DataVersionBellatrix && !blinded:
		p.Bellatrix.Message.Slot, p.Bellatrix.Message.ProposerIndex, p.Bellatrix.Signature = slot, pidx, sig
		u.Bellatrix = p.Bellatrix.Message
	case ver == eth2spec.DataVersionBellatrix:
		p.BellatrixBlinded.Message.Slot, p.BellatrixBlinded.Message.ProposerIndex, p.BellatrixBlinded.Signature = slot, pidx, sig
		u.BellatrixBlinded = p.BellatrixBlinded.Message
	case ver == eth2spec.DataVersionCapella && !blinded:
		p.Capella.Message.Slot, p.Capella.Message.ProposerIndex, p.Capella.Signature = slot, pidx, sig
		u.Capella = p.Capella.Message
	case ver == eth2spec.DataVersionCapella:
		p.CapellaBlinded.Message.Slot, p.CapellaBlinded.Message.ProposerIndex, p.CapellaBlinded.Signature = slot, pidx, sig
		u.CapellaBlinded = p.CapellaBlinded.Message
	case ver == eth2spec.DataVersionDeneb && !blinded:
		m := p.Deneb.SignedBlock
		m.Message.Slot, m.Message.ProposerIndex, m.Signature = slot, pidx, sig
		u.Deneb = &eth2deneb.BlockContents{Block: m.Message, KZGProofs: p.Deneb.KZGProofs, Blobs: p.Deneb.Blobs}
	case ver == eth2spec.DataVersionDeneb:
		p.DenebBlinded.Message.Slot, p.DenebBlinded.Message.ProposerIndex, p.DenebBlinded.Signature = slot, pidx, sig
		u.DenebBlinded = p.DenebBlinded.Message
	case ver == eth2spec.DataVersionElectra && !blinded:
		m := p.Electra.SignedBlock
		m.Message.Slot, m.Message.ProposerIndex, m.Signature = slot, pidx, sig
		u.Electra = &eth2electra.BlockContents{Block: m.Message, KZGProofs: p.Electra.KZGProofs, Blobs: p.Electra.Blobs}
	case ver == eth2spec.DataVersionElectra:
		p.ElectraBlinded.Message.Slot, p.ElectraBlinded.Message.ProposerIndex, p.ElectraBlinded.Signature = slot, pidx, sig
		u.ElectraBlinded = p.ElectraBlinded.Message
	case ver == eth2spec.DataVersionFulu && !blinded:
		m := p.Fulu.SignedBlock
		m.Message.Slot, m.Message.ProposerIndex, m.Signature = slot, pidx, sig
		u.Fulu = &eth2fulu.BlockContents{Block: m.Message, KZGProofs: p.Fulu.KZGProofs, Blobs: p.Fulu.Blobs}
	default:
		p.FuluBlinded.Message.Slot, p.FuluBlinded.Message.ProposerIndex, p.FuluBlinded.Signature = slot, pidx, sig
		u.FuluBlinded = p.FuluBlinded.Message
	}

	return &p, u
}

func blindedOpts(p *eth2api.VersionedSignedProposal) *eth2api.VersionedSignedBlindedProposal {
	return &eth2api.VersionedSignedBlindedProposal{Version: p.Version, Bellatrix: p.BellatrixBlinded, Capella: p.CapellaBlinded,
		Deneb: p.DenebBlinded, Electra: p.ElectraBlinded, Fulu: p.FuluBlinded}
}

// build makes the request element a body stands for, carrying signature sig, and its form as signed data.
func (r *run) build(ep string, b map[string]any, sig eth2p0.BLSSignature) (any, core.SignedData) {
	var (
		val     = drv.Num(b["val"])
		slot    = eth2p0.Slot(drv.Num(b["slot"]))
		epoch   = eth2p0.Epoch(drv.Num(b["epoch"]))
		sub     = uint64(drv.Num(b["sub"]))
		content = contentRoot(drv.Num(b["content"]))
		cver    = drv.Str(b["cver"])
	)
	attData := func(index uint64, target eth2p0.Epoch) *eth2p0.AttestationData {
		return &eth2p0.AttestationData{Slot: slot, Index: eth2p0.CommitteeIndex(index), BeaconBlockRoot: content,
			Source: &eth2p0.Checkpoint{}, Target: &eth2p0.Checkpoint{Epoch: target}}
	}
	switch ep {
	case "att":
		va := &eth2spec.VersionedAttestation{}
		if drv.Str(b["ver"]) == "pre" {
			va.Version = dataVersion(cver, eth2spec.DataVersionDeneb)
			if va.Version > eth2spec.DataVersionDeneb {
				va.Version = eth2spec.DataVersionDeneb
			}
			att := &eth2p0.Attestation{AggregationBits: bitlist(b["bits"].([]any)), Data: attData(uint64(drv.Num(b["comm"])), epoch), Signature: sig}
			switch va.Version {
			case eth2spec.DataVersionPhase0:
				va.Phase0 = att
			case eth2spec.DataVersionAltair:
				va.Altair = att
			case eth2spec.DataVersionBellatrix:
				va.Bellatrix = att
			case eth2spec.DataVersionCapella:
				va.Capella = att
			default:
				va.Deneb = att
			}
		} else {
			cb := bitfield.NewBitvector64()
			cb.SetBitAt(uint64(drv.Num(b["comm"])), true)
			att := &electra.Attestation{AggregationBits: bitlist([]any{0}), Data: attData(0, epoch), CommitteeBits: cb, Signature: sig}
			if vi := drv.Num(b["vi"]); vi != 0 {
				x := vidx(vi)
				va.ValidatorIndex = &x
			}
			if drv.Str(b["ver"]) == "electra" {
				va.Version, va.Electra = eth2spec.DataVersionElectra, att
			} else {
				va.Version, va.Fulu = eth2spec.DataVersionFulu, att
			}
		}

		return va, core.VersionedAttestation{VersionedAttestation: *va}
	case "agg":
		va := &eth2spec.VersionedSignedAggregateAndProof{Version: dataVersion(cver, eth2spec.DataVersionDeneb)}
		pr := r.proof(ep, b["proof"].(map[string]any))
		if va.Version >= eth2spec.DataVersionElectra {
			cb := bitfield.NewBitvector64()
			cb.SetBitAt(1, true)
			a := &electra.SignedAggregateAndProof{Message: &electra.AggregateAndProof{AggregatorIndex: vidx(val),
				Aggregate:      &electra.Attestation{AggregationBits: bitlist([]any{0, 1}), Data: attData(0, eth2p0.Epoch(int(slot)/r.spe)), CommitteeBits: cb, Signature: fixedSig},
				SelectionProof: pr}, Signature: sig}
			if va.Version == eth2spec.DataVersionElectra {
				va.Electra = a
			} else {
				va.Fulu = a
			}
		} else {
			a := &eth2p0.SignedAggregateAndProof{Message: &eth2p0.AggregateAndProof{AggregatorIndex: vidx(val),
				Aggregate:      &eth2p0.Attestation{AggregationBits: bitlist([]any{0, 1}), Data: attData(1, eth2p0.Epoch(int(slot)/r.spe)), Signature: fixedSig},
				SelectionProof: pr}, Signature: sig}
			switch va.Version {
			case eth2spec.DataVersionPhase0:
				va.Phase0 = a
			case eth2spec.DataVersionAltair:
				va.Altair = a
			case eth2spec.DataVersionBellatrix:
				va.Bellatrix = a
			case eth2spec.DataVersionCapella:
				va.Capella = a
			default:
				va.Deneb = a
			}
		}

		return va, core.NewVersionedSignedAggregateAndProof(va)
	case "msg":
		m := &altair.SyncCommitteeMessage{Slot: slot, BeaconBlockRoot: content, ValidatorIndex: vidx(val), Signature: sig}

		return m, core.NewSignedSyncMessage(m)
	case "contrib":
		m := &altair.SignedContributionAndProof{Message: &altair.ContributionAndProof{AggregatorIndex: vidx(val),
			Contribution: &altair.SyncCommitteeContribution{Slot: slot, BeaconBlockRoot: content, SubcommitteeIndex: sub,
				AggregationBits: bitfield.NewBitvector128(), Signature: fixedSig},
			SelectionProof: r.proof(ep, b["proof"].(map[string]any))}, Signature: sig}

		return m, core.NewSignedSyncContributionAndProof(m)
	case "exit":
		e := &eth2p0.SignedVoluntaryExit{Message: &eth2p0.VoluntaryExit{Epoch: epoch, ValidatorIndex: vidx(val)}, Signature: sig}

		return e, core.NewSignedVoluntaryExit(e)
	case "bcsel":
		s := &eth2v1.BeaconCommitteeSelection{ValidatorIndex: vidx(val), Slot: slot, SelectionProof: sig}

		return s, core.NewBeaconCommitteeSelection(s)
	case "scsel":
		s := &eth2v1.SyncCommitteeSelection{ValidatorIndex: vidx(val), Slot: slot, SubcommitteeIndex: sub, SelectionProof: sig}

		return s, core.NewSyncCommitteeSelection(s)
	case "reg":
		reg := &eth2api.VersionedSignedValidatorRegistration{Version: eth2spec.BuilderVersionV1, V1: &eth2v1.SignedValidatorRegistration{
			Message:   &eth2v1.ValidatorRegistration{GasLimit: 30000000, Timestamp: time.Unix(int64(slot), 0), Pubkey: rootPub(val)},
			Signature: sig}}

		return reg, must(core.NewVersionedSignedValidatorRegistration(reg))
	case "prop", "bprop":
		p, _ := proposal(b, sig)

		return p, must(core.NewVersionedSignedProposal(p))
	case "randao":
		// the validator client signs an epoch; the request carries the slot and the signature only
		return &eth2api.ProposalOpts{Slot: slot, RandaoReveal: sig}, core.NewSignedRandao(epoch, sig)
	}
	panic("unknown endpoint " + ep)
}

// element builds one request element with the real signature its abstract signature stands for.
func (r *run) element(it map[string]any) (any, string, eth2p0.BLSSignature) {
	body, sg := it["body"].(map[string]any), it["sig"].(map[string]any)
	_, of := r.build(r.ep, sg["of"].(map[string]any), eth2p0.BLSSignature{})
	root := must(of.(core.Eth2SignedData).MessageRoot())
	sig := r.sign(sg["signer"].(map[string]any), drv.Str(sg["dom"]), drv.Num(sg["epoch"]), root)
	obj, sd := r.build(r.ep, body, sig)

	return obj, js(sd), sig
}

type stubErr struct{ s string }

func (e stubErr) Error() string { return e.s }

func list(v any) []any {
	l, _ := v.([]any)
	return l
}

func runOne(t *testing.T, tr *drv.Tracer, sid int, c drv.Step) {
	t.Helper()
	r := &run{t: t, tr: tr, c: c, ep: drv.Str(c["ep"]), spe: drv.Num(c["spe"])}
	spec := map[string]any{"SLOTS_PER_EPOCH": uint64(r.spe), "SECONDS_PER_SLOT": 12 * time.Second}
	for _, n := range domainNames {
		spec[n] = domainType(n)
	}
	r.cl = client{spec: spec, fork: drv.Num(c["fork"])}
	me := drv.Num(c["me"])

	reset := drv.Step{}
	for k, v := range c {
		reset[k] = v
	}
	reset["ev"], reset["sid"] = "Reset", sid
	tr.Emit(reset)

	bnEvent := func(api string, pubkeys []eth2p0.BLSPubKey, indices []int) {
		pks, ix := []any{}, []any{}
		for _, p := range pubkeys {
			pks = append(pks, nameOf(p))
		}
		for _, i := range indices {
			ix = append(ix, i)
		}
		tr.Emit(drv.Step{"ev": "BN", "api": api, "pubkeys": pks, "indices": ix})
	}
	validator := func(v int) *eth2v1.Validator {
		return &eth2v1.Validator{Index: vidx(v), Status: eth2v1.ValidatorStateActiveOngoing, Balance: 32,
			Validator: &eth2p0.Validator{PublicKey: rootPub(v), WithdrawalCredentials: make([]byte, 32)}}
	}
	bnKnown := []int{1, 2, 3}

	// ---- the beacon node
	r.cl.CachedValidatorsFunc = func(context.Context) (eth2wrap.ActiveValidators, eth2wrap.CompleteValidators, error) {
		active, complete := eth2wrap.ActiveValidators{}, eth2wrap.CompleteValidators{}
		for _, v := range bnKnown {
			active[vidx(v)] = rootPub(v)
		}
		for _, v := range list(c["cached"]) {
			complete[vidx(drv.Num(v))] = validator(drv.Num(v))
		}

		return active, complete, nil
	}
	r.cl.ValidatorsFunc = func(_ context.Context, opts *eth2api.ValidatorsOpts) (map[eth2p0.ValidatorIndex]*eth2v1.Validator, error) {
		var ix []int
		for _, i := range opts.Indices {
			ix = append(ix, int(i)-vidxBase)
		}
		bnEvent("validators", opts.PubKeys, ix)
		res := map[eth2p0.ValidatorIndex]*eth2v1.Validator{}
		for _, v := range bnKnown {
			want := len(opts.PubKeys) == 0 && len(opts.Indices) == 0
			for _, p := range opts.PubKeys {
				want = want || p == rootPub(v)
			}
			for _, i := range opts.Indices {
				want = want || i == vidx(v)
			}
			if want {
				res[vidx(v)] = validator(v)
			}
		}

		return res, nil
	}
	dutyQuery := func(api string, idxs []eth2p0.ValidatorIndex) ([]int, error) {
		var ix []int
		for _, i := range idxs {
			ix = append(ix, int(i)-vidxBase)
		}
		bnEvent(api, nil, ix)
		if c["qerr"] == true {
			return nil, stubErr{"stub: upstream failed"}
		}
		var vs []int
		for _, v := range list(c["dvals"]) {
			vs = append(vs, drv.Num(v))
		}

		return vs, nil
	}
	propDuties := func(_ context.Context, _ eth2p0.Epoch, idxs []eth2p0.ValidatorIndex) ([]*eth2v1.ProposerDuty, error) {
		vs, err := dutyQuery("duties_prop", idxs)
		var res []*eth2v1.ProposerDuty
		for j, v := range vs {
			res = append(res, &eth2v1.ProposerDuty{PubKey: rootPub(v), Slot: eth2p0.Slot(j), ValidatorIndex: vidx(v)})
		}

		return res, err
	}
	attDuties := func(_ context.Context, _ eth2p0.Epoch, idxs []eth2p0.ValidatorIndex) ([]*eth2v1.AttesterDuty, error) {
		vs, err := dutyQuery("duties_att", idxs)
		var res []*eth2v1.AttesterDuty
		for j, v := range vs {
			res = append(res, &eth2v1.AttesterDuty{PubKey: rootPub(v), Slot: eth2p0.Slot(j), ValidatorIndex: vidx(v)})
		}

		return res, err
	}
	syncDuties := func(_ context.Context, _ eth2p0.Epoch, idxs []eth2p0.ValidatorIndex) ([]*eth2v1.SyncCommitteeDuty, error) {
		vs, err := dutyQuery("duties_sync", idxs)
		var res []*eth2v1.SyncCommitteeDuty
		for _, v := range vs {
			res = append(res, &eth2v1.SyncCommitteeDuty{PubKey: rootPub(v), ValidatorIndex: vidx(v)})
		}

		return res, err
	}
	r.cl.ProposerDutiesFunc, r.cl.AttesterDutiesFunc, r.cl.SyncCommitteeDutiesFunc = propDuties, attDuties, syncDuties
	r.cl.CachedProposerDutiesFunc = func(ctx context.Context, e eth2p0.Epoch, i []eth2p0.ValidatorIndex) (eth2wrap.ProposerDutyWithMeta, error) {
		d, err := propDuties(ctx, e, i)
		return eth2wrap.ProposerDutyWithMeta{Duties: d}, err
	}
	r.cl.CachedAttesterDutiesFunc = func(ctx context.Context, e eth2p0.Epoch, i []eth2p0.ValidatorIndex) (eth2wrap.AttesterDutyWithMeta, error) {
		d, err := attDuties(ctx, e, i)
		return eth2wrap.AttesterDutyWithMeta{Duties: d}, err
	}
	r.cl.CachedSyncCommDutiesFunc = func(ctx context.Context, e eth2p0.Epoch, i []eth2p0.ValidatorIndex) (eth2wrap.SyncDutyWithMeta, error) {
		d, err := syncDuties(ctx, e, i)
		return eth2wrap.SyncDutyWithMeta{Duties: d}, err
	}

	// ---- the component
	shares := map[core.PubKey]map[int]tbls.PublicKey{}
	for _, v := range []int{1, 2} {
		shares[corePub(v)] = vkeys[v].pubShares
	}
	comp, err := validatorapi.NewComponent(r.cl, shares, me, nil, c["builder"] == true, 30000000)
	if err != nil {
		t.Fatalf("NewComponent: %v", err)
	}

	// ---- scheduler / dutydb stubs
	comp.RegisterGetDutyDefinition(func(_ context.Context, duty core.Duty) (core.DutyDefinitionSet, error) {
		res := core.DutyDefinitionSet{}
		switch duty.Type {
		case core.DutyAttester:
			for _, d := range list(c["defs"]) {
				d := d.(map[string]any)
				if uint64(drv.Num(d["slot"])) != duty.Slot {
					continue
				}
				v := drv.Num(d["val"])
				res[corePub(v)] = core.NewAttesterDefinition(&eth2v1.AttesterDuty{PubKey: rootPub(v), Slot: eth2p0.Slot(duty.Slot),
					ValidatorIndex: vidx(v), CommitteeIndex: eth2p0.CommitteeIndex(drv.Num(d["comm"])), CommitteeLength: 8,
					CommitteesAtSlot: 4, ValidatorCommitteeIndex: uint64(drv.Num(d["pos"]))})
			}
			if len(res) == 0 {
				return nil, stubErr{"stub: no duty"}
			}
		case core.DutyProposer:
			if c["pderr"] == true {
				return nil, stubErr{"stub: no duty"}
			}
			for _, d := range list(c["pdefs"]) {
				d := d.(map[string]any)
				if uint64(drv.Num(d["slot"])) != duty.Slot {
					continue
				}
				v := drv.Num(d["val"])
				res[corePub(v)] = core.NewProposerDefinition(&eth2v1.ProposerDuty{PubKey: rootPub(v), Slot: eth2p0.Slot(duty.Slot), ValidatorIndex: vidx(v)})
			}
		default:
			return nil, stubErr{"stub: no duty of type " + duty.Type.String()}
		}

		return res, nil
	})
	comp.RegisterPubKeyByAttestation(func(_ context.Context, slot, commIdx, valIdx uint64) (core.PubKey, error) {
		for _, d := range list(c["defs"]) {
			d := d.(map[string]any)
			if uint64(drv.Num(d["slot"])) == slot && uint64(drv.Num(d["comm"])) == commIdx && uint64(vidx(drv.Num(d["val"]))) == valIdx {
				return corePub(drv.Num(d["val"])), nil
			}
		}

		return "", stubErr{"stub: no pubkey"}
	})
	var consensus *eth2api.VersionedProposal
	comp.RegisterAwaitProposal(func(_ context.Context, slot uint64) (*eth2api.VersionedProposal, error) {
		cons := c["cons"].(map[string]any)
		if c["conserr"] == true || uint64(drv.Num(cons["slot"])) != slot {
			return nil, stubErr{"stub: no proposal"}
		}
		_, consensus = proposal(cons, eth2p0.BLSSignature{})

		return consensus, nil
	})
	nawait := 0
	comp.RegisterAwaitAggSigDB(func(_ context.Context, duty core.Duty, pk core.PubKey, sub core.SubcommitteeIndex) (core.SignedData, error) {
		nawait++
		v := validatorOf(pk)
		tr.Emit(drv.Step{"ev": "Await", "duty": drv.Step{"type": duty.Type.String(), "slot": int(duty.Slot)}, "pk": v, "sub": int(sub)})
		if nawait == drv.Num(c["afail"]) {
			return nil, stubErr{"stub: await failed"}
		}
		if nawait == drv.Num(c["awrong"]) {
			return core.NewSignedRandao(0, fixedSig), nil
		}
		if duty.Type == core.DutyPrepareAggregator {
			return core.NewBeaconCommitteeSelection(&eth2v1.BeaconCommitteeSelection{ValidatorIndex: vidx(v), Slot: eth2p0.Slot(duty.Slot), SelectionProof: fixedSig}), nil
		}

		return core.NewSyncCommitteeSelection(&eth2v1.SyncCommitteeSelection{ValidatorIndex: vidx(v), Slot: eth2p0.Slot(duty.Slot),
			SubcommitteeIndex: uint64(sub), SelectionProof: fixedSig}), nil
	})
	stubAttData := &eth2p0.AttestationData{Slot: 1, Source: &eth2p0.Checkpoint{}, Target: &eth2p0.Checkpoint{}}
	comp.RegisterAwaitAttestation(func(_ context.Context, slot, commIdx uint64) (*eth2p0.AttestationData, error) {
		bnEvent("attdata", nil, []int{int(slot), int(commIdx)})
		if c["qerr"] == true {
			return nil, stubErr{"stub: no data"}
		}

		return stubAttData, nil
	})
	stubAggAtt := &eth2spec.VersionedAttestation{Version: eth2spec.DataVersionDeneb, Deneb: &eth2p0.Attestation{Data: stubAttData}}
	comp.RegisterAwaitAggAttestation(func(_ context.Context, slot uint64, _ eth2p0.Root, commIdx eth2p0.CommitteeIndex) (*eth2spec.VersionedAttestation, error) {
		bnEvent("aggatt", nil, []int{int(slot), int(commIdx)})
		if c["qerr"] == true {
			return nil, stubErr{"stub: no data"}
		}

		return stubAggAtt, nil
	})

	// ---- the request
	for _, it := range list(c["items"]) {
		obj, text, sig := r.element(it.(map[string]any))
		r.objs, r.text, r.sigs = append(r.objs, obj), append(r.text, text), append(r.sigs, sig)
	}

	// ---- the subscribers
	ninv := 0
	for k := 1; k <= drv.Num(c["nsubs"]); k++ {
		comp.Subscribe(func(_ context.Context, duty core.Duty, set core.ParSignedDataSet) error {
			ninv++
			var elems []drv.Step
			for pk, psd := range set {
				e := drv.Step{"pk": validatorOf(pk), "share": psd.ShareIdx, "repoch": 0}
				objs := []any{}
				if rd, ok := psd.SignedData.(core.SignedRandao); ok {
					e["repoch"] = int(rd.SignedEpoch.Epoch)
					for j, s := range r.sigs {
						if rd.Signature().ToETH2() == s {
							objs = append(objs, j+1)
						}
					}
				} else {
					text := js(psd.SignedData)
					for j, s := range r.text {
						if s == text {
							objs = append(objs, j+1)
						}
					}
				}
				e["objs"] = objs
				elems = append(elems, e)
			}
			sort.Slice(elems, func(a, b int) bool { return js(elems[a]) < js(elems[b]) })
			tr.Emit(drv.Step{"ev": "Sub", "sub": k, "duty": drv.Step{"type": duty.Type.String(), "slot": int(duty.Slot)}, "set": elems})
			if ninv == drv.Num(c["subfail"]) {
				return stubErr{"stub: sub failed"}
			}

			return nil
		})
	}

	var (
		ctx      = context.Background()
		rerr     error
		resp     = []any{}
		panicked any
	)
	func() {
		defer func() { panicked = recover() }()
		req := c["req"].(map[string]any)
		switch r.ep {
		case "att":
			var l []*eth2spec.VersionedAttestation
			for _, o := range r.objs {
				l = append(l, o.(*eth2spec.VersionedAttestation))
			}
			rerr = comp.SubmitAttestations(ctx, &eth2api.SubmitAttestationsOpts{Attestations: l})
		case "agg":
			var l []*eth2spec.VersionedSignedAggregateAndProof
			for _, o := range r.objs {
				l = append(l, o.(*eth2spec.VersionedSignedAggregateAndProof))
			}
			rerr = comp.SubmitAggregateAttestations(ctx, &eth2api.SubmitAggregateAttestationsOpts{SignedAggregateAndProofs: l})
		case "msg":
			var l []*altair.SyncCommitteeMessage
			for _, o := range r.objs {
				l = append(l, o.(*altair.SyncCommitteeMessage))
			}
			rerr = comp.SubmitSyncCommitteeMessages(ctx, l)
		case "contrib":
			var l []*altair.SignedContributionAndProof
			for _, o := range r.objs {
				l = append(l, o.(*altair.SignedContributionAndProof))
			}
			rerr = comp.SubmitSyncCommitteeContributions(ctx, l)
		case "exit":
			rerr = comp.SubmitVoluntaryExit(ctx, r.objs[0].(*eth2p0.SignedVoluntaryExit))
		case "bcsel":
			var l []*eth2v1.BeaconCommitteeSelection
			for _, o := range r.objs {
				l = append(l, o.(*eth2v1.BeaconCommitteeSelection))
			}
			var res *eth2api.Response[[]*eth2v1.BeaconCommitteeSelection]
			res, rerr = comp.BeaconCommitteeSelections(ctx, &eth2api.BeaconCommitteeSelectionsOpts{Selections: l})
			if rerr == nil {
				for _, s := range res.Data {
					resp = append(resp, drv.Step{"slot": int(s.Slot), "sub": 0, "pk": int(s.ValidatorIndex) - vidxBase})
				}
			}
		case "scsel":
			var l []*eth2v1.SyncCommitteeSelection
			for _, o := range r.objs {
				l = append(l, o.(*eth2v1.SyncCommitteeSelection))
			}
			var res *eth2api.Response[[]*eth2v1.SyncCommitteeSelection]
			res, rerr = comp.SyncCommitteeSelections(ctx, &eth2api.SyncCommitteeSelectionsOpts{Selections: l})
			if rerr == nil {
				for _, s := range res.Data {
					resp = append(resp, drv.Step{"slot": int(s.Slot), "sub": int(s.SubcommitteeIndex), "pk": int(s.ValidatorIndex) - vidxBase})
				}
			}
		case "reg":
			var l []*eth2api.VersionedSignedValidatorRegistration
			for _, o := range r.objs {
				l = append(l, o.(*eth2api.VersionedSignedValidatorRegistration))
			}
			rerr = comp.SubmitValidatorRegistrations(ctx, l)
		case "prop":
			rerr = comp.SubmitProposal(ctx, &eth2api.SubmitProposalOpts{Proposal: r.objs[0].(*eth2api.VersionedSignedProposal)})
		case "bprop":
			rerr = comp.SubmitBlindedProposal(ctx, &eth2api.SubmitBlindedProposalOpts{Proposal: blindedOpts(r.objs[0].(*eth2api.VersionedSignedProposal))})
		case "randao":
			var res *eth2api.Response[*eth2api.VersionedProposal]
			res, rerr = comp.Proposal(ctx, r.objs[0].(*eth2api.ProposalOpts))
			if rerr == nil {
				resp = append(resp, drv.Step{"prop": which(res.Data == consensus, "cons"), "cv": bigInt(res.Data.ConsensusValue), "ev": bigInt(res.Data.ExecutionValue)})
			}
		case "validators":
			opts := &eth2api.ValidatorsOpts{State: "head"}
			for _, p := range list(req["pubkeys"]) {
				opts.PubKeys = append(opts.PubKeys, refKey(p.(map[string]any)))
			}
			for _, i := range list(req["indices"]) {
				opts.Indices = append(opts.Indices, vidx(drv.Num(i)))
			}
			var res *eth2api.Response[map[eth2p0.ValidatorIndex]*eth2v1.Validator]
			res, rerr = comp.Validators(ctx, opts)
			if rerr == nil {
				var ix []int
				for i := range res.Data {
					ix = append(ix, int(i))
				}
				sort.Ints(ix)
				for _, i := range ix {
					resp = append(resp, drv.Step{"v": i - vidxBase, "key": nameOf(res.Data[eth2p0.ValidatorIndex(i)].Validator.PublicKey)})
				}
			}
		case "duties_prop", "duties_att", "duties_sync":
			var idxs []eth2p0.ValidatorIndex
			for _, i := range list(req["indices"]) {
				idxs = append(idxs, vidx(drv.Num(i)))
			}
			epoch := eth2p0.Epoch(drv.Num(req["epoch"]))
			switch r.ep {
			case "duties_prop":
				var res *eth2api.Response[[]*eth2v1.ProposerDuty]
				res, rerr = comp.ProposerDuties(ctx, &eth2api.ProposerDutiesOpts{Epoch: epoch, Indices: idxs})
				if rerr == nil {
					for _, d := range res.Data {
						resp = append(resp, nameOf(d.PubKey))
					}
				}
			case "duties_att":
				var res *eth2api.Response[[]*eth2v1.AttesterDuty]
				res, rerr = comp.AttesterDuties(ctx, &eth2api.AttesterDutiesOpts{Epoch: epoch, Indices: idxs})
				if rerr == nil {
					for _, d := range res.Data {
						resp = append(resp, nameOf(d.PubKey))
					}
				}
			default:
				var res *eth2api.Response[[]*eth2v1.SyncCommitteeDuty]
				res, rerr = comp.SyncCommitteeDuties(ctx, &eth2api.SyncCommitteeDutiesOpts{Epoch: epoch, Indices: idxs})
				if rerr == nil {
					for _, d := range res.Data {
						resp = append(resp, nameOf(d.PubKey))
					}
				}
			}
		case "attdata":
			var res *eth2api.Response[*eth2p0.AttestationData]
			res, rerr = comp.AttestationData(ctx, &eth2api.AttestationDataOpts{Slot: eth2p0.Slot(drv.Num(req["slot"])), CommitteeIndex: eth2p0.CommitteeIndex(drv.Num(req["comm"]))})
			if rerr == nil {
				resp = append(resp, drv.Step{"prop": which(res.Data == stubAttData, "stub"), "cv": 0, "ev": 0})
			}
		case "aggatt":
			var res *eth2api.Response[*eth2spec.VersionedAttestation]
			res, rerr = comp.AggregateAttestation(ctx, &eth2api.AggregateAttestationOpts{Slot: eth2p0.Slot(drv.Num(req["slot"])),
				AttestationDataRoot: contentRoot(1), CommitteeIndex: eth2p0.CommitteeIndex(drv.Num(req["comm"]))})
			if rerr == nil {
				resp = append(resp, drv.Step{"prop": which(res.Data == stubAggAtt, "stub"), "cv": 0, "ev": 0})
			}
		default:
			panic("unknown endpoint " + r.ep)
		}
	}()
	if panicked != nil {
		tr.Emit(drv.Step{"ev": "Panic", "what": fmt.Sprint(panicked)})
		return
	}
	ev := drv.Step{"ev": "Ret", "err": "", "resp": resp, "stub": false}
	if rerr != nil {
		var se stubErr
		ev["err"], ev["stub"], ev["resp"] = rerr.Error(), errors.As(rerr, &se), []any{}
	}
	tr.Emit(ev)
	tr.Emit(drv.Step{"ev": "End"})
}

func which(same bool, name string) string {
	if same {
		return name
	}

	return "other"
}

func bigInt(b *big.Int) int {
	if b == nil {
		return -1
	}

	return int(b.Int64())
}

func TestExec(t *testing.T) {
	drv.QuietLogs(t)
	scheds := drv.ReadSchedules(t)
	tr := drv.NewTracer(t)
	defer tr.Close()
	initKeys()
	for i, s := range scheds {
		if len(s) != 1 || drv.Str(s[0]["ev"]) != "Call" {
			t.Fatalf("schedule %d is not a single Call step", i)
		}
		runOne(t, tr, i, s[0])
	}
}

var (
	_ = eth2bellatrix.SignedBlindedBeaconBlock{}
	_ = eth2capella.SignedBlindedBeaconBlock{}
)
