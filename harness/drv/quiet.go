package drv

import (
	"io"
	"testing"

	"go.uber.org/zap/zapcore"

	"github.com/obolnetwork/charon/app/log"
)

// QuietLogs sends charon's log output to io.Discard: a mutated component may log in a tight loop.
func QuietLogs(t *testing.T) {
	t.Helper()
	log.InitConsoleForT(t, zapcore.AddSync(io.Discard))
}
