// Package drv holds helpers shared by the executors: schedule/trace I/O in ndjson.
package drv

import (
	"bufio"
	"encoding/json"
	"os"
	"sync"
	"testing"
)

// Step is one schedule step or one trace event: a free-form JSON object.
type Step = map[string]any

// ReadSchedules reads the file named by env VERIF_SCHED: one JSON array of steps per line.
func ReadSchedules(t *testing.T) [][]Step {
	t.Helper()
	path := os.Getenv("VERIF_SCHED")
	if path == "" {
		t.Skip("VERIF_SCHED not set")
	}
	f, err := os.Open(path)
	if err != nil {
		t.Fatalf("open schedules: %v", err)
	}
	defer f.Close()
	var res [][]Step
	sc := bufio.NewScanner(f)
	sc.Buffer(make([]byte, 1<<20), 1<<28)
	for sc.Scan() {
		if len(sc.Bytes()) == 0 {
			continue
		}
		var s []Step
		if err := json.Unmarshal(sc.Bytes(), &s); err != nil {
			t.Fatalf("parse schedule: %v", err)
		}
		res = append(res, s)
	}
	if err := sc.Err(); err != nil {
		t.Fatalf("scan schedules: %v", err)
	}
	return res
}

// Tracer writes trace events as ndjson to the file named by env VERIF_OUT.
type Tracer struct {
	mu sync.Mutex
	f  *os.File
	w  *bufio.Writer
	n  int
}

// NewTracer opens VERIF_OUT.
func NewTracer(t *testing.T) *Tracer {
	t.Helper()
	path := os.Getenv("VERIF_OUT")
	if path == "" {
		t.Skip("VERIF_OUT not set")
	}
	f, err := os.Create(path)
	if err != nil {
		t.Fatalf("create trace: %v", err)
	}
	return &Tracer{f: f, w: bufio.NewWriterSize(f, 1<<20)}
}

// Emit appends one event.
func (tr *Tracer) Emit(ev Step) {
	tr.mu.Lock()
	defer tr.mu.Unlock()
	b, err := json.Marshal(ev)
	if err != nil {
		panic(err)
	}
	tr.w.Write(b)
	tr.w.WriteByte('\n')
	tr.n++
}

// Close flushes the trace.
func (tr *Tracer) Close() {
	tr.mu.Lock()
	defer tr.mu.Unlock()
	tr.w.Flush()
	tr.f.Close()
}

// Num returns a float64/int JSON number as int.
func Num(v any) int {
	switch x := v.(type) {
	case float64:
		return int(x)
	case int:
		return x
	case int64:
		return int(x)
	case uint64:
		return int(x)
	case json.Number:
		i, _ := x.Int64()
		return int(i)
	}
	return 0
}

// Str returns a JSON string (or "").
func Str(v any) string {
	s, _ := v.(string)
	return s
}
