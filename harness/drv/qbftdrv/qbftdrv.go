// Package qbftdrv steps the real generic qbft.Run of several processes deterministically, one stimulus at a
// time, without any hook: Run only interacts through things the caller supplies (an unbuffered Receive channel,
// the Broadcast/NewTimer/Decide/Compare/Log* callbacks, the input channel), so a stimulus followed by two
// sentinel messages (an unjust PRE-PREPARE from source -1) is a barrier: once the first sentinel has been
// accepted the previous stimulus has been processed completely, once the second has been accepted the first
// sentinel's own callbacks have returned.
package qbftdrv

import (
	"context"
	"errors"
	"sort"
	"sync"
	"time"

	"github.com/obolnetwork/charon/core/qbft"
)

// M is the driver's message: flat justification, as the real transport produces it.
type M struct {
	Typ  qbft.MsgType
	Src  int64
	Rnd  int64
	Val  int64
	PR   int64
	PV   int64
	Copy int // 1, or 2 for a duplicated justification entry
	Just []M
	inst int64
}

var _ qbft.Msg[int64, int64, int64] = M{}

func (m M) Type() qbft.MsgType          { return m.Typ }
func (m M) Instance() int64              { return m.inst }
func (m M) Source() int64                { return m.Src }
func (m M) Round() int64                 { return m.Rnd }
func (m M) Value() int64                 { return m.Val }
func (m M) ValueSource() (int64, error)  { return m.Val, nil }
func (m M) PreparedRound() int64         { return m.PR }
func (m M) PreparedValue() int64         { return m.PV }
func (m M) Justification() []qbft.Msg[int64, int64, int64] {
	if len(m.Just) == 0 {
		return nil
	}
	res := make([]qbft.Msg[int64, int64, int64], 0, len(m.Just))
	for _, j := range m.Just {
		res = append(res, j)
	}
	return res
}

var typeNames = map[qbft.MsgType]string{
	qbft.MsgPrePrepare: "PP", qbft.MsgPrepare: "P", qbft.MsgCommit: "C", qbft.MsgRoundChange: "RC", qbft.MsgDecided: "D",
}
var typeByName = map[string]qbft.MsgType{
	"PP": qbft.MsgPrePrepare, "P": qbft.MsgPrepare, "C": qbft.MsgCommit, "RC": qbft.MsgRoundChange, "D": qbft.MsgDecided,
}
var ruleNames = map[qbft.UponRule]string{
	qbft.UponNothing: "NONE", qbft.UponJustifiedPrePrepare: "PP", qbft.UponQuorumPrepares: "QP",
	qbft.UponQuorumCommits: "QC", qbft.UponUnjustQuorumRoundChanges: "UNJ", qbft.UponFPlus1RoundChanges: "FP1",
	qbft.UponQuorumRoundChanges: "QRC", qbft.UponJustifiedDecided: "JD", qbft.UponRoundTimeout: "TIMEOUT",
}

func baseJSON(m M) map[string]any {
	c := m.Copy
	if c == 0 {
		c = 1
	}
	return map[string]any{"type": typeNames[m.Typ], "src": m.Src, "round": m.Rnd, "value": m.Val, "pr": m.PR, "pv": m.PV, "copy": c}
}

// Key is a canonical string of a message (used for sorting and lookup).
func (m M) Key() string {
	s := baseKey(m)
	js := make([]string, 0, len(m.Just))
	for _, j := range m.Just {
		js = append(js, baseKey(j))
	}
	sort.Strings(js)
	for _, j := range js {
		s += "|" + j
	}
	return s
}

func baseKey(m M) string {
	c := m.Copy
	if c == 0 {
		c = 1
	}
	return typeNames[m.Typ] + ":" + itoa(m.Src) + ":" + itoa(m.Rnd) + ":" + itoa(m.Val) + ":" + itoa(m.PR) + ":" + itoa(m.PV) + ":" + itoa(int64(c))
}

func itoa(i int64) string {
	if i == 0 {
		return "0"
	}
	neg := i < 0
	if neg {
		i = -i
	}
	var b [24]byte
	p := len(b)
	for i > 0 {
		p--
		b[p] = byte('0' + i%10)
		i /= 10
	}
	if neg {
		p--
		b[p] = '-'
	}
	return string(b[p:])
}

// JSON renders a message with its justification sorted canonically (order is irrelevant for duplicate-free
// lists; Byzantine lists are built by the driver in this order too).
func (m M) JSON() map[string]any {
	j := baseJSON(m)
	delete(j, "copy")
	js := append([]M(nil), m.Just...)
	sort.Slice(js, func(a, b int) bool { return baseKey(js[a]) < baseKey(js[b]) })
	l := make([]any, 0, len(js))
	for _, x := range js {
		l = append(l, baseJSON(x))
	}
	j["just"] = l
	return j
}

// FromJSON parses a message written by JSON (or by the TLA+ generator).
func FromJSON(v any, inst int64) M {
	o := v.(map[string]any)
	m := M{Typ: typeByName[o["type"].(string)], Src: num(o["src"]), Rnd: num(o["round"]), Val: num(o["value"]),
		PR: num(o["pr"]), PV: num(o["pv"]), Copy: 1, inst: inst}
	if c, ok := o["copy"]; ok {
		m.Copy = int(num(c))
	}
	if js, ok := o["just"].([]any); ok {
		for _, j := range js {
			b := FromJSON(j, inst)
			b.Just = nil
			m.Just = append(m.Just, b)
		}
		sort.Slice(m.Just, func(a, b int) bool { return baseKey(m.Just[a]) < baseKey(m.Just[b]) })
	}
	return m
}

func num(v any) int64 {
	switch x := v.(type) {
	case float64:
		return int64(x)
	case int:
		return int64(x)
	case int64:
		return x
	}
	return 0
}

// Effects is what one process did between two barriers.
type Effects struct {
	Bcasts  []M
	Rule    string
	Unjust  bool
	Round   int64 // process round after the step (tracked through LogRoundChange)
	Timer   int64 // round the currently armed timer was created for (0: none / stopped)
	NDec    int
	DVal    int64
	DRound  int64
	QC      []M
	Dead    bool // Run has returned or does not take stimuli any more
	RunErr  string
	Ignored bool // the stimulus was not accepted (e.g. timer tick with no timer armed)
}

type proc struct {
	id      int64
	recv    chan qbft.Msg[int64, int64, int64]
	input   chan int64
	cancel  context.CancelFunc
	done    chan struct{}
	mu      sync.Mutex
	eff     Effects // accumulating effects of the current step (Bcasts/Rule/Unjust reset per step)
	timerCh chan time.Time
	realCh  <-chan time.Time // channel of the real round timer (C04), polled by the driver
	runErr  error
	started bool
}

// Cluster drives n processes; members in Byz are not run (the adversary is the caller).
type Cluster struct {
	N       int
	Inst    int64
	Byz     map[int64]bool
	CFail   map[[2]int64]bool // (process, value): Compare fails
	procs   map[int64]*proc
	Wait    time.Duration
	FIFO    int
	// RealTimer, when set, returns for member p the real round timer's Timer method (core/consensus/timer on a
	// fake clock). The driver keeps the real channel to itself and polls it (TimerDue); Run gets a proxy channel,
	// so a tick is still delivered as one driver-controlled stimulus.
	RealTimer func(p int64) func(round int64) (<-chan time.Time, func())
}

// New creates a cluster.
func New(n int, inst int64, byz []int64, cfail [][2]int64) *Cluster {
	c := &Cluster{N: n, Inst: inst, Byz: map[int64]bool{}, CFail: map[[2]int64]bool{}, procs: map[int64]*proc{}, Wait: 5 * time.Second, FIFO: 1000}
	for _, b := range byz {
		c.Byz[b] = true
	}
	for _, f := range cfail {
		c.CFail[f] = true
	}
	return c
}

func (c *Cluster) leader(round, process int64) bool {
	if process < 0 {
		return false
	}
	return (c.Inst+round)%int64(c.N) == process
}

func (c *Cluster) sentinel() M {
	return M{Typ: qbft.MsgPrePrepare, Src: -1, Rnd: 1, Val: 1, Copy: 1, inst: c.Inst}
}

// Start launches process p (Algorithm 1:11) and returns what it did.
func (c *Cluster) Start(p int64) Effects {
	pr := &proc{id: p, recv: make(chan qbft.Msg[int64, int64, int64]), input: make(chan int64), done: make(chan struct{})}
	pr.eff.Round = 1
	c.procs[p] = pr
	ctx, cancel := context.WithCancel(context.Background())
	pr.cancel = cancel
	var realTimer func(round int64) (<-chan time.Time, func())
	if c.RealTimer != nil {
		realTimer = c.RealTimer(p)
	}
	def := qbft.Definition[int64, int64, int64]{
		IsLeader: func(_ int64, round, process int64) bool { return c.leader(round, process) },
		NewTimer: func(round int64) (<-chan time.Time, func()) {
			ch := make(chan time.Time)
			var rc <-chan time.Time
			rstop := func() {}
			if realTimer != nil {
				rc, rstop = realTimer(round)
			}
			pr.mu.Lock()
			pr.timerCh = ch
			pr.realCh = rc
			pr.eff.Timer = round
			pr.mu.Unlock()
			return ch, func() {
				rstop()
				pr.mu.Lock()
				if pr.timerCh == ch {
					pr.timerCh = nil
					pr.realCh = nil
					pr.eff.Timer = 0
				}
				pr.mu.Unlock()
			}
		},
		Compare: func(_ context.Context, qcommit qbft.Msg[int64, int64, int64], _ <-chan int64, _ int64, returnErr chan error, _ chan int64) {
			if c.CFail[[2]int64{p, qcommit.Value()}] {
				returnErr <- errors.New("compare mismatch (scripted)")
				return
			}
			returnErr <- nil
		},
		Decide: func(_ context.Context, _ int64, value int64, round int64, qcommit []qbft.Msg[int64, int64, int64]) {
			pr.mu.Lock()
			pr.eff.NDec++
			pr.eff.DVal = value
			pr.eff.DRound = round
			pr.eff.QC = nil
			for _, q := range qcommit {
				pr.eff.QC = append(pr.eff.QC, toM(q, c.Inst, false))
			}
			pr.mu.Unlock()
		},
		LogUponRule: func(_ context.Context, _ int64, _, _ int64, _ qbft.Msg[int64, int64, int64], rule qbft.UponRule) {
			pr.mu.Lock()
			pr.eff.Rule = ruleNames[rule]
			pr.mu.Unlock()
		},
		LogRoundChange: func(_ context.Context, _ int64, _, _, newRound int64, _ qbft.UponRule, _ []qbft.Msg[int64, int64, int64]) {
			pr.mu.Lock()
			pr.eff.Round = newRound
			pr.mu.Unlock()
		},
		LogUnjust: func(_ context.Context, _ int64, _ int64, msg qbft.Msg[int64, int64, int64]) {
			if msg.Source() < 0 {
				return // sentinel
			}
			pr.mu.Lock()
			pr.eff.Unjust = true
			pr.mu.Unlock()
		},
		Nodes:     c.N,
		FIFOLimit: c.FIFO,
	}
	tr := qbft.Transport[int64, int64, int64]{
		Broadcast: func(_ context.Context, typ qbft.MsgType, _ int64, source int64, round int64, value int64, prr int64, pv int64, justification []qbft.Msg[int64, int64, int64]) error {
			m := M{Typ: typ, Src: source, Rnd: round, Val: value, PR: prr, PV: pv, Copy: 1, inst: c.Inst}
			for _, j := range justification {
				m.Just = append(m.Just, toM(j, c.Inst, false)) // nested justifications are dropped, as createMsg does
			}
			pr.mu.Lock()
			pr.eff.Bcasts = append(pr.eff.Bcasts, m)
			pr.mu.Unlock()
			return nil
		},
		Receive: pr.recv,
	}
	go func() {
		defer close(pr.done)
		err := qbft.Run[int64, int64, int64](ctx, def, tr, c.Inst, p, pr.input, make(chan int64))
		pr.mu.Lock()
		pr.runErr = err
		pr.mu.Unlock()
	}()
	pr.started = true
	return c.barrier(pr, true)
}

func toM(q qbft.Msg[int64, int64, int64], inst int64, withJust bool) M {
	m := M{Typ: q.Type(), Src: q.Source(), Rnd: q.Round(), Val: q.Value(), PR: q.PreparedRound(), PV: q.PreparedValue(), Copy: 1, inst: inst}
	if mm, ok := q.(M); ok {
		if mm.Copy != 0 {
			m.Copy = mm.Copy
		}
	}
	if withJust {
		for _, j := range q.Justification() {
			m.Just = append(m.Just, toM(j, inst, false))
		}
	}
	return m
}

// send delivers v on ch unless the process is dead or does not accept it within the wait.
func (c *Cluster) send(pr *proc, f func() bool) bool {
	return f()
}

func (c *Cluster) trySendMsg(pr *proc, m qbft.Msg[int64, int64, int64]) bool {
	t := time.NewTimer(c.Wait)
	defer t.Stop()
	select {
	case pr.recv <- m:
		return true
	case <-pr.done:
		return false
	case <-t.C:
		return false
	}
}

// barrier sends the sentinel twice and returns (and resets) the effects of the step.
func (c *Cluster) barrier(pr *proc, accepted bool) Effects {
	dead := false
	for i := 0; i < 2; i++ {
		if !c.trySendMsg(pr, c.sentinel()) {
			dead = true
			break
		}
	}
	pr.mu.Lock()
	defer pr.mu.Unlock()
	e := pr.eff
	e.Bcasts = append([]M(nil), pr.eff.Bcasts...)
	e.QC = append([]M(nil), pr.eff.QC...)
	e.Dead = dead
	e.Ignored = !accepted
	if pr.runErr != nil {
		e.RunErr = pr.runErr.Error()
	}
	pr.eff.Bcasts = nil
	pr.eff.Rule = ""
	pr.eff.Unjust = false
	if e.Rule == "" {
		e.Rule = "NONE"
	}
	return e
}

// Started reports whether p was started.
func (c *Cluster) Started(p int64) bool { _, ok := c.procs[p]; return ok }

// Deliver hands message m to process p.
func (c *Cluster) Deliver(p int64, m M) Effects {
	pr := c.procs[p]
	m.inst = c.Inst
	ok := c.trySendMsg(pr, m)
	return c.barrier(pr, ok)
}

// Input provides p's proposal.
func (c *Cluster) Input(p int64, v int64) Effects {
	pr := c.procs[p]
	t := time.NewTimer(c.Wait)
	defer t.Stop()
	ok := false
	select {
	case pr.input <- v:
		ok = true
	case <-pr.done:
	case <-t.C:
	}
	return c.barrier(pr, ok)
}

// Timeout fires p's currently armed round timer.
func (c *Cluster) Timeout(p int64) Effects {
	pr := c.procs[p]
	pr.mu.Lock()
	ch := pr.timerCh
	pr.mu.Unlock()
	ok := false
	if ch != nil {
		t := time.NewTimer(c.Wait)
		select {
		case ch <- time.Now():
			ok = true
		case <-pr.done:
		case <-t.C:
		}
		t.Stop()
	}
	return c.barrier(pr, ok)
}

// TimerDue reports (and consumes) whether p's real round timer has fired on the fake clock.
func (c *Cluster) TimerDue(p int64) bool {
	pr := c.procs[p]
	pr.mu.Lock()
	rc := pr.realCh
	pr.mu.Unlock()
	if rc == nil {
		return false
	}
	select {
	case <-rc:
		pr.mu.Lock()
		if pr.realCh == rc {
			pr.realCh = nil
		}
		pr.mu.Unlock()
		return true
	default:
		return false
	}
}

// TimerPeek reports whether p's real round timer has fired, without consuming the tick.
func (c *Cluster) TimerPeek(p int64) bool {
	pr := c.procs[p]
	pr.mu.Lock()
	rc := pr.realCh
	pr.mu.Unlock()
	return rc != nil && len(rc) > 0
}

// Crash stops p.
func (c *Cluster) Crash(p int64) {
	pr := c.procs[p]
	pr.cancel()
	<-pr.done
}

// Stop cancels all processes.
func (c *Cluster) Stop() {
	for _, pr := range c.procs {
		pr.cancel()
	}
	for _, pr := range c.procs {
		select {
		case <-pr.done:
		case <-time.After(c.Wait):
		}
	}
}

// EffJSON renders the effects for an event.
func EffJSON(ev map[string]any, e Effects) map[string]any {
	ev["nb"] = len(e.Bcasts)
	if len(e.Bcasts) > 0 {
		ev["bcast"] = e.Bcasts[0].JSON()
	} else {
		ev["bcast"] = map[string]any{"type": "none"}
	}
	ev["rule"] = e.Rule
	ev["unjust"] = e.Unjust
	ev["round"] = e.Round
	ev["timer"] = e.Timer
	ev["ndec"] = e.NDec
	ev["dval"] = e.DVal
	ev["dround"] = e.DRound
	qc := make([]any, 0, len(e.QC))
	js := append([]M(nil), e.QC...)
	sort.Slice(js, func(a, b int) bool { return baseKey(js[a]) < baseKey(js[b]) })
	for _, q := range js {
		qc = append(qc, baseJSON(q))
	}
	ev["qc"] = qc
	if e.Dead {
		ev["dead"] = true
		ev["runerr"] = e.RunErr
	}
	if e.Ignored {
		ev["ignored"] = true
	}
	return ev
}
