package c05

// TestCluster: the last clause of C05 - "the value delivered on decision is exactly the proposed data whose hash was
// agreed".  One real n-node qbft.Consensus cluster per schedule over loopback libp2p, wired exactly as
// core/consensus/qbft/qbft_test.go TestQBFTConsensus wires it; every node proposes DIFFERENT data.  Logged are
// relations only: whose original bytes a subscriber's payload equals, whose original hash its recomputed hash equals
// (the component's own hashing), and whose hash the node's quorum of COMMIT messages (from its sniffer) carries.

import (
	"bytes"
	"context"
	"fmt"
	"math/rand"
	"testing"
	"time"

	"github.com/libp2p/go-libp2p"
	libp2pcrypto "github.com/libp2p/go-libp2p/core/crypto"
	"github.com/libp2p/go-libp2p/core/host"
	"github.com/libp2p/go-libp2p/core/peer"
	"github.com/multiformats/go-multiaddr"
	"google.golang.org/protobuf/proto"

	"github.com/obolnetwork/charon/cluster"
	"github.com/obolnetwork/charon/core"
	cqbft "github.com/obolnetwork/charon/core/consensus/qbft"
	pbv1 "github.com/obolnetwork/charon/core/corepb/v1"
	"github.com/obolnetwork/charon/eth2util/enr"
	"github.com/obolnetwork/charon/p2p"
	"github.com/obolnetwork/charon/testutil"
	"github.com/obolnetwork/charon/testutil/beaconmock"

	"verifharness/drv"
)

type stubDeadliner struct{ ch chan core.Duty }

func (stubDeadliner) Add(core.Duty) core.DeadlineStatus { return core.DeadlineScheduled }
func (d stubDeadliner) C() <-chan core.Duty             { return d.ch }

type delivery struct {
	node int
	set  core.UnsignedDataSet
}

type sniff struct {
	node int
	inst *pbv1.SniffedConsensusInstance
}

func TestCluster(t *testing.T) {
	drv.QuietLogs(t)
	scheds := drv.ReadSchedules(t)
	tr := drv.NewTracer(t)
	defer tr.Close()
	for sid, s := range scheds {
		if len(s) != 1 || drv.Str(s[0]["ev"]) != "Cluster" {
			t.Fatalf("schedule %d: want [Cluster]", sid)
		}
		if stop := runCluster(t, tr, sid, num(s[0], "n"), num(s[0], "slot"), num(s[0], "seed")); stop {
			return
		}
	}
}

func detHash(set core.UnsignedDataSet) ([]byte, [32]byte, error) {
	pb, err := core.UnsignedDataSetToProto(set)
	if err != nil {
		return nil, [32]byte{}, err
	}
	b, err := proto.MarshalOptions{Deterministic: true}.Marshal(pb)
	if err != nil {
		return nil, [32]byte{}, err
	}
	h, err := cqbft.VerifHashProto(pb)

	return b, h, err
}

func runCluster(t *testing.T, tr *drv.Tracer, sid, n, slot, seed int) bool {
	t.Helper()
	tr.Emit(drv.Step{"ev": "Reset", "sid": sid, "NN": n, "slot": slot})
	fail := func(what string) bool {
		tr.Emit(drv.Step{"ev": "Anomaly", "what": what, "sid": sid})
		return true
	}
	random := rand.New(rand.NewSource(int64(seed + 1)))
	lock, p2pkeys, _ := cluster.NewForT(t, 1, n, n, seed+1, random)
	ctx, cancel := context.WithCancel(context.Background())
	defer cancel()
	var (
		peers     []p2p.Peer
		hosts     []host.Host
		hostsInfo []peer.AddrInfo
		comps     []*cqbft.Consensus
		results   = make(chan delivery, 4*n)
		sniffed   = make(chan sniff, 4*n)
		runErrs   = make(chan error, n)
	)
	for i := 0; i < n; i++ {
		addr := testutil.AvailableAddr(t)
		mAddr, err := multiaddr.NewMultiaddr(fmt.Sprintf("/ip4/%s/tcp/%d", addr.IP, addr.Port))
		if err != nil {
			return fail(err.Error())
		}
		h, err := libp2p.New(libp2p.Identity((*libp2pcrypto.Secp256k1PrivateKey)(p2pkeys[i])), libp2p.ListenAddrs(mAddr))
		if err != nil {
			return fail("libp2p: " + err.Error())
		}
		defer h.Close()
		record, err := enr.Parse(lock.Operators[i].ENR)
		if err != nil {
			return fail(err.Error())
		}
		p, err := p2p.NewPeerFromENR(record, i)
		if err != nil {
			return fail(err.Error())
		}
		hostsInfo = append(hostsInfo, peer.AddrInfo{ID: h.ID(), Addrs: h.Addrs()})
		peers = append(peers, p)
		hosts = append(hosts, h)
	}
	for i := 0; i < n; i++ {
		for j := 0; j < n; j++ {
			if i != j {
				if err := hosts[i].Connect(ctx, hostsInfo[j]); err != nil {
					return fail("connect: " + err.Error())
				}
			}
		}
	}
	bmock, err := beaconmock.New(ctx, beaconmock.WithGenesisTime(time.Time{}))
	if err != nil {
		return fail(err.Error())
	}
	defer bmock.Close()
	for i := 0; i < n; i++ {
		i := i
		c, err := cqbft.NewConsensus(ctx, bmock, hosts[i], new(p2p.Sender), peers, p2pkeys[i],
			stubDeadliner{ch: make(chan core.Duty)}, func(core.Duty) bool { return true },
			func(inst *pbv1.SniffedConsensusInstance) { sniffed <- sniff{node: i + 1, inst: inst} }, false)
		if err != nil {
			return fail(err.Error())
		}
		c.Subscribe(func(_ context.Context, _ core.Duty, set core.UnsignedDataSet) error {
			results <- delivery{node: i + 1, set: set}
			return nil
		})
		c.Start(ctx)
		comps = append(comps, c)
	}
	// every node proposes different data for the same validator
	pubkey := testutil.RandomCorePubKey(t)
	duty := core.Duty{Type: core.DutyAttester, Slot: uint64(slot)}
	var (
		origB [][]byte
		origH [][32]byte
	)
	for i := 0; i < n; i++ {
		data := testutil.RandomCoreAttestationData(t)
		set := core.UnsignedDataSet{pubkey: data}
		b, h, err := detHash(set)
		if err != nil {
			return fail(err.Error())
		}
		for _, o := range origB {
			if bytes.Equal(o, b) {
				return fail("two nodes drew the same proposal")
			}
		}
		origB, origH = append(origB, b), append(origH, h)
		tr.Emit(drv.Step{"ev": "Propose", "node": i + 1})
		go func(i int, set core.UnsignedDataSet) { runErrs <- comps[i].Propose(ctx, duty, set) }(i, set)
	}
	whoseBytes := func(b []byte) int {
		for k, o := range origB {
			if bytes.Equal(o, b) {
				return k + 1
			}
		}
		return 0
	}
	whoseHash := func(h []byte) int {
		for k, o := range origH {
			if bytes.Equal(o[:], h) {
				return k + 1
			}
		}
		return 0
	}
	got := map[int]delivery{}
	sn := map[int]*pbv1.SniffedConsensusInstance{}
	timeout := time.After(180 * time.Second)
	for len(got) < n || len(sn) < n {
		select {
		case d := <-results:
			if _, dup := got[d.node]; dup {
				// a second delivery to the same subscriber is logged as such (no spec step matches it)
				b, h, _ := detHash(d.set)
				tr.Emit(drv.Step{"ev": "Deliver", "node": d.node, "bytes": whoseBytes(b), "hash": whoseHash(h[:]), "commit": -1})
				continue
			}
			got[d.node] = d
		case s := <-sniffed:
			sn[s.node] = s.inst
		case err := <-runErrs:
			if err != nil {
				return fail("propose: " + err.Error())
			}
		case <-timeout:
			// termination is not this property's business (C04): an undecided cluster is an infrastructure failure here
			return fail(fmt.Sprintf("cluster did not decide within 180s (delivered %d, sniffed %d)", len(got), len(sn)))
		}
	}
	quorum := (2*n + 2) / 3
	// the hash carried by a quorum of COMMIT messages (same round, distinct members) in a set of sniffed instances;
	// 0: no quorum visible (a node may decide and end its instance just before the sniffer records the last message it
	// consumed, so its own view can be one message short), -2: quorums on two different hashes
	commitOf := func(insts ...*pbv1.SniffedConsensusInstance) int {
		type key struct {
			round int64
			hash  string
		}
		votes := map[key]map[int64]bool{}
		add := func(q *pbv1.QBFTMsg) {
			if q.GetType() != 3 {
				return
			}
			k := key{q.GetRound(), string(q.GetValueHash())}
			if votes[k] == nil {
				votes[k] = map[int64]bool{}
			}
			votes[k][q.GetPeerIdx()] = true
		}
		for _, inst := range insts {
			for _, m := range inst.GetMsgs() {
				add(m.GetMsg().GetMsg())
				for _, j := range m.GetMsg().GetJustification() {
					add(j)
				}
			}
		}
		commit, agreed := 0, map[string]bool{}
		for k, v := range votes {
			if len(v) >= quorum {
				commit = whoseHash([]byte(k.hash))
				agreed[k.hash] = true
			}
		}
		if len(agreed) > 1 {
			return -2
		}

		return commit
	}
	var all []*pbv1.SniffedConsensusInstance
	for i := 1; i <= n; i++ {
		all = append(all, sn[i])
	}
	for i := 1; i <= n; i++ {
		b, h, err := detHash(got[i].set)
		if err != nil {
			return fail(err.Error())
		}
		commit, view := commitOf(sn[i]), "own"
		if commit == 0 {
			commit, view = commitOf(all...), "cluster"
		}
		tr.Emit(drv.Step{"ev": "Deliver", "node": i, "bytes": whoseBytes(b), "hash": whoseHash(h[:]), "commit": commit, "view": view})
	}

	return false
}
