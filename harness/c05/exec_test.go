// Package c05 executes ConsMsgGate schedules on the real consensus wire-message handler
// (core/consensus/qbft Consensus.handle, reached through the build-tag hook VerifHandle) and records what it did.
//
// A schedule is [Cfg, step...]; a step is Recv (an ABSTRACT wire message of the specification: it is instantiated
// here as a real protobuf, really signed with the members' secp256k1 keys), Raw (bytes) or Advance (fake clock).
// The executor contains no expected verdict: it logs error/nil and the receive-buffer / instance counts before and
// after each call.  What it does assert (as Anomaly, i.e. an infrastructure failure, never a verdict) is that its own
// instantiation has the abstract properties the specification's message claims - checked with the protobuf library
// alone - and that the protobuf descriptors have exactly the fields the specification knows.
package c05

import (
	"bytes"
	"context"
	"crypto/sha256"
	"encoding/binary"
	"fmt"
	"math/rand"
	"sort"
	"testing"
	"time"

	k1 "github.com/decred/dcrd/dcrec/secp256k1/v4"
	"github.com/jonboulle/clockwork"
	"github.com/libp2p/go-libp2p"
	libp2pcrypto "github.com/libp2p/go-libp2p/core/crypto"
	"github.com/libp2p/go-libp2p/core/host"
	"google.golang.org/protobuf/encoding/protowire"
	"google.golang.org/protobuf/proto"
	"google.golang.org/protobuf/reflect/protoreflect"
	"google.golang.org/protobuf/types/known/anypb"

	"github.com/obolnetwork/charon/app/k1util"
	"github.com/obolnetwork/charon/core"
	cqbft "github.com/obolnetwork/charon/core/consensus/qbft"
	pbv1 "github.com/obolnetwork/charon/core/corepb/v1"
	"github.com/obolnetwork/charon/p2p"
	"github.com/obolnetwork/charon/testutil/beaconmock"

	"verifharness/drv"
)

const hangAfter = 20 * time.Second

type cfg struct {
	n, slotSec, spe, t0, bufCap int
}

// world holds what is shared by all schedules of one configuration: keys, peers, a listen-less host, the beacon mock.
type world struct {
	t       *testing.T
	cfg     cfg
	host    host.Host
	bmock   beaconmock.Mock
	genesis time.Time
	inner   map[int]proto.Message // value k -> inner message
	innerB  map[int][]byte        // value k -> deterministic encoding of the inner message
	hashes  map[int][32]byte      // value k -> hash (the component's own hashing)
}

func detKey(label string) *k1.PrivateKey {
	h := sha256.Sum256([]byte(label))
	return k1.PrivKeyFromBytes(h[:])
}

func newWorld(t *testing.T, c cfg) *world {
	t.Helper()
	w := &world{t: t, cfg: c, inner: map[int]proto.Message{}, innerB: map[int][]byte{}, hashes: map[int][32]byte{}}
	h, err := libp2p.New(libp2p.NoListenAddrs, libp2p.Identity((*libp2pcrypto.Secp256k1PrivateKey)(detKey("verif-c05-host"))))
	if err != nil {
		t.Fatal(err)
	}
	t.Cleanup(func() { _ = h.Close() })
	w.host = h
	w.genesis = time.Date(2024, 1, 1, 0, 0, 0, 0, time.UTC)
	w.bmock, err = beaconmock.New(context.Background(), beaconmock.WithGenesisTime(w.genesis),
		beaconmock.WithSlotDuration(time.Duration(c.slotSec)*time.Second), beaconmock.WithSlotsPerEpoch(c.spe))
	if err != nil {
		t.Fatal(err)
	}
	t.Cleanup(func() { _ = w.bmock.Close() })

	return w
}

// value returns inner message k (a core UnsignedDataSet with one entry), its deterministic bytes and its hash.
func (w *world) value(k int) (proto.Message, []byte, [32]byte) {
	if m, ok := w.inner[k]; ok {
		return m, w.innerB[k], w.hashes[k]
	}
	pk := sha256.Sum256([]byte(fmt.Sprintf("verif-c05-pubkey-%d", k)))
	m := &pbv1.UnsignedDataSet{Set: map[string][]byte{
		fmt.Sprintf("0x%x%x", pk[:], pk[:16]): []byte(fmt.Sprintf(`{"verif_value":%d,"slot":"40","index":"%d"}`, k, k)),
	}}
	b, err := proto.MarshalOptions{Deterministic: true}.Marshal(m)
	if err != nil {
		w.t.Fatal(err)
	}
	h, err := cqbft.VerifHashProto(m)
	if err != nil {
		w.t.Fatal(err)
	}
	w.inner[k], w.innerB[k], w.hashes[k] = m, b, h

	return m, b, h
}

func num(m map[string]any, k string) int { return drv.Num(m[k]) }
func boolean(v any) bool                 { b, _ := v.(bool); return b }
func obj(v any) map[string]any           { m, _ := v.(map[string]any); return m }
func list(v any) []any                   { l, _ := v.([]any); return l }

// hashBytes turns a hash code of the specification into bytes.
func (w *world) hashBytes(code int) []byte {
	switch {
	case code == 0:
		return make([]byte, 32)
	case code == -1:
		return nil
	case code == -2:
		return bytes.Repeat([]byte{0x11}, 31)
	case code == -3:
		return bytes.Repeat([]byte{0x11}, 33)
	case code >= 1 && code < 90:
		_, _, h := w.value(code)
		return h[:]
	default:
		return bytes.Repeat([]byte{byte(code)}, 32)
	}
}

// content builds the unsigned QBFTMsg for a content record [type, duty, peer, round, pr, vh, pvh, ext].
func (w *world) content(c map[string]any) *pbv1.QBFTMsg {
	q := &pbv1.QBFTMsg{
		Type:              int64(num(c, "type")),
		PeerIdx:           int64(num(c, "peer")),
		Round:             int64(num(c, "round")),
		PreparedRound:     int64(num(c, "pr")),
		ValueHash:         w.hashBytes(num(c, "vh")),
		PreparedValueHash: w.hashBytes(num(c, "pvh")),
	}
	if d := obj(c["duty"]); !boolean(d["nil"]) {
		slot := uint64(num(d, "slot"))
		switch slot { // the specification's stand-ins for slots with the top bit set
		case 100000001:
			slot = 1<<63 + uint64(w.cfg.t0)/12
		case 100000002:
			slot = ^uint64(0)
		case 100000003:
			slot = 1 << 63
		}
		q.Duty = &pbv1.Duty{Slot: slot, Type: int32(num(d, "type"))}
	}
	if ext := num(c, "ext"); ext != 0 { // a field this version of the message does not know (number 15)
		u := protowire.AppendTag(nil, 15, protowire.VarintType)
		q.ProtoReflect().SetUnknown(protowire.AppendVarint(u, uint64(ext)))
	}

	return q
}

// sign returns member by's signature over the content (as signMsg does: hash of the message without signature).
func (r *run) sign(by int, c map[string]any) ([]byte, error) {
	w := r
	q := r.w.content(c)
	wire, err := proto.MarshalOptions{Deterministic: true}.Marshal(q)
	if err != nil {
		return nil, err
	}
	memo := fmt.Sprintf("%d/%x", by, wire)
	if s, ok := w.sigs[memo]; ok {
		return s, nil
	}
	if by < 0 || by >= len(w.keys) {
		return nil, fmt.Errorf("no key %d", by)
	}
	h, err := cqbft.VerifHashProto(q)
	if err != nil {
		return nil, err
	}
	s, err := k1util.Sign(w.keys[by], h[:])
	if err != nil {
		return nil, err
	}
	w.sigs[memo] = s

	return s, nil
}

// part instantiates an abstract QBFTMsg.
func (r *run) part(q map[string]any) (*pbv1.QBFTMsg, error) {
	w := r
	if boolean(q["nil"]) {
		return nil, nil
	}
	pb := r.w.content(q)
	sig := obj(q["sig"])
	switch drv.Str(sig["kind"]) {
	case "ok":
		s, err := w.sign(num(sig, "by"), obj(sig["over"]))
		if err != nil {
			return nil, err
		}
		pb.Signature = s
	case "nil":
	case "empty":
		pb.Signature = []byte{}
	case "junk":
		wire, _ := proto.MarshalOptions{Deterministic: true}.Marshal(pb)
		a, b, c := sha256.Sum256(wire), sha256.Sum256(append([]byte("b"), wire...)), sha256.Sum256(append([]byte("c"), wire...))
		pb.Signature = append(append(a[:], b[:]...), c[0]%4)
	default:
		return nil, fmt.Errorf("unknown signature kind %q", sig["kind"])
	}

	return pb, nil
}

// val instantiates an abstract value and reports what the protobuf library says about it:
// "-" (not altered), or for a byte-altered value "same" / "differs" / "undec".
func (w *world) val(v map[string]any) (*anypb.Any, string, [2]int, error) {
	k, st, p, x := num(v, "id"), drv.Str(v["st"]), num(v, "p"), num(v, "x")
	inner, innerB, _ := w.value(k)
	good, err := anypb.New(inner)
	if err != nil {
		return nil, "", [2]int{}, err
	}
	classify := func(a *anypb.Any) string {
		dec, err := a.UnmarshalNew()
		if err != nil {
			return "undec"
		}
		if _, isAny := dec.(*anypb.Any); isAny {
			return "undec"
		}
		b, err := proto.MarshalOptions{Deterministic: true}.Marshal(dec)
		if err != nil {
			return "undec"
		}
		if bytes.Equal(b, innerB) {
			return "same"
		}

		return "differs"
	}
	switch st {
	case "ok":
		if classify(good) != "same" {
			return nil, "", [2]int{}, fmt.Errorf("value %d does not round-trip", k)
		}

		return good, "-", [2]int{-1, 0}, nil
	case "undec":
		var a *anypb.Any
		switch p {
		case 1:
			a = &anypb.Any{TypeUrl: "type.googleapis.com/core.corepb.v1.NoSuchMessage", Value: good.GetValue()}
		case 2:
			a = &anypb.Any{TypeUrl: good.GetTypeUrl(), Value: good.GetValue()[:len(good.GetValue())-1]}
		case 3:
			a = nil
		default:
			if a, err = anypb.New(good); err != nil {
				return nil, "", [2]int{}, err
			}
		}
		if classify(a) != "undec" {
			return nil, "", [2]int{}, fmt.Errorf("value meant to be undecodable (how=%d) decodes", p)
		}

		return a, "-", [2]int{-1, 0}, nil
	case "byte":
		url, data := []byte(good.GetTypeUrl()), append([]byte(nil), good.GetValue()...)
		if p < 0 {
			p = -p
		}
		pos := p % (len(url) + len(data))
		if pos < len(url) { // keep the type URL a valid UTF-8 (ASCII) string, as a proto3 string on the wire must be
			m := byte(x) & 0x7f
			if m == 0 {
				m = 1
			}
			url[pos] ^= m
			if url[pos] == 0 {
				url[pos] = '!'
			}
		} else {
			m := byte(x)
			if m == 0 {
				m = 1
			}
			data[pos-len(url)] ^= m
		}
		a := &anypb.Any{TypeUrl: string(url), Value: data}

		return a, classify(a), [2]int{pos, len(url) + len(data)}, nil
	}

	return nil, "", [2]int{}, fmt.Errorf("unknown value state %q", st)
}

// build instantiates an abstract QBFTConsensusMsg; obs is the per-value observation list.
func (r *run) build(m map[string]any) (*pbv1.QBFTConsensusMsg, []string, [][2]int, error) {
	w := r
	main, err := w.part(obj(m["msg"]))
	if err != nil {
		return nil, nil, nil, err
	}
	res := &pbv1.QBFTConsensusMsg{Msg: main}
	for _, j := range list(m["just"]) {
		pb, err := w.part(obj(j))
		if err != nil {
			return nil, nil, nil, err
		}
		res.Justification = append(res.Justification, pb)
	}
	obs := []string{}
	bpos := [][2]int{}
	for _, v := range list(m["vals"]) {
		a, o, bp, err := r.w.val(obj(v))
		if err != nil {
			return nil, nil, nil, err
		}
		res.Values = append(res.Values, a)
		obs = append(obs, o)
		bpos = append(bpos, bp)
	}

	return res, obs, bpos, nil
}

// node is one Consensus component with its own deadliner; both share the fake clock of the trace.
type node struct {
	c      *cqbft.Consensus
	sniffs int
}

// Keys, peers and Consensus components are per schedule (derived from the schedule index), so that nothing a
// process-wide cache could remember from one schedule can matter in another: every recorded trace is self-contained.
type run struct {
	w      *world
	keys   []*k1.PrivateKey  // N member keys and one key outside the cluster (index N)
	peers  []p2p.Peer
	sigs   map[string][]byte // signature memo (ECDSA here is deterministic: same key and content, same bytes)
	clock  *clockwork.FakeClock
	ctx    context.Context
	cancel context.CancelFunc
	nodes  map[int]*node
}

func (w *world) newRun(sid int) *run {
	ctx, cancel := context.WithCancel(context.Background())
	r := &run{w: w, ctx: ctx, cancel: cancel, nodes: map[int]*node{}, sigs: map[string][]byte{},
		clock: clockwork.NewFakeClockAt(w.genesis.Add(time.Duration(w.cfg.t0) * time.Second))}
	for i := 0; i <= w.cfg.n; i++ {
		r.keys = append(r.keys, detKey(fmt.Sprintf("verif-c05-key-%d-%d", sid, i)))
	}
	for i := 0; i < w.cfg.n; i++ {
		id, err := p2p.PeerIDFromKey(r.keys[i].PubKey())
		if err != nil {
			w.t.Fatal(err)
		}
		r.peers = append(r.peers, p2p.Peer{ID: id, Index: i, Name: p2p.PeerName(id)})
	}

	return r
}

func (r *run) node(id int) (*node, error) {
	if n, ok := r.nodes[id]; ok {
		return n, nil
	}
	w := r.w
	deadlineFunc, err := core.NewDutyDeadlineFunc(r.ctx, w.bmock)
	if err != nil {
		return nil, err
	}
	deadliner := core.NewDeadlinerForT(r.ctx, w.t, deadlineFunc, r.clock)
	gater, err := core.NewDutyGater(r.ctx, w.bmock, core.WithDutyGaterForT(w.t, r.clock.Now, 2))
	if err != nil {
		return nil, err
	}
	n := &node{}
	n.c, err = cqbft.NewConsensus(r.ctx, w.bmock, w.host, new(p2p.Sender), r.peers, r.keys[0], deadliner, gater,
		func(*pbv1.SniffedConsensusInstance) { n.sniffs++ }, false)
	if err != nil {
		return nil, err
	}
	r.nodes[id] = n

	return n, nil
}

type outcome struct {
	err error
}

// call runs the handler synchronously; ok=false means it did not return (hang).
func call(ctx context.Context, n *node, r *run, req proto.Message) (outcome, bool) {
	done := make(chan outcome, 1)
	go func() {
		_, _, err := n.c.VerifHandle(ctx, r.peers[1].ID, req)
		done <- outcome{err: err}
	}()
	select {
	case o := <-done:
		return o, true
	case <-time.After(hangAfter):
		return outcome{}, false
	}
}

func fieldNames(md protoreflect.MessageDescriptor) []string {
	var res []string
	for i := 0; i < md.Fields().Len(); i++ {
		res = append(res, string(md.Fields().Get(i).Name()))
	}
	sort.Strings(res)

	return res
}

func sortedStrings(v any) []string {
	var res []string
	for _, e := range list(v) {
		res = append(res, drv.Str(e))
	}
	sort.Strings(res)

	return res
}

func equalStrings(a, b []string) bool {
	if len(a) != len(b) {
		return false
	}
	for i := range a {
		if a[i] != b[i] {
			return false
		}
	}

	return true
}

func TestExec(t *testing.T) {
	drv.QuietLogs(t)
	scheds := drv.ReadSchedules(t)
	tr := drv.NewTracer(t)
	defer tr.Close()
	code := map[string][]string{
		"msg":  fieldNames((&pbv1.QBFTMsg{}).ProtoReflect().Descriptor()),
		"cons": fieldNames((&pbv1.QBFTConsensusMsg{}).ProtoReflect().Descriptor()),
		"duty": fieldNames((&pbv1.Duty{}).ProtoReflect().Descriptor()),
	}
	var w *world
	for sid, s := range scheds {
		if len(s) < 1 || drv.Str(s[0]["ev"]) != "Cfg" {
			t.Fatalf("schedule %d: want [Cfg, ...]", sid)
		}
		c := cfg{n: num(s[0], "N"), slotSec: num(s[0], "SlotSec"), spe: num(s[0], "SPE"), t0: num(s[0], "T0"), bufCap: num(s[0], "cap")}
		tr.Emit(drv.Step{"ev": "Reset", "sid": sid, "N": c.n, "SlotSec": c.slotSec, "SPE": c.spe, "T0": c.t0, "cap": c.bufCap})
		model := obj(s[0]["fields"])
		for k, real := range code {
			if spec := sortedStrings(model[k]); !equalStrings(spec, real) {
				tr.Emit(drv.Step{"ev": "Anomaly", "what": "unmodelled field", "message": k, "model": spec, "code": real})
				return
			}
		}
		if w == nil || w.cfg != c {
			w = newWorld(t, c)
		}
		if stop := runSchedule(tr, w, sid, s[1:]); stop {
			return
		}
	}
}

// runSchedule executes the steps on fresh Consensus components; it returns true if the executor must stop.
func runSchedule(tr *drv.Tracer, w *world, sid int, steps []drv.Step) bool {
	r := w.newRun(sid)
	defer r.cancel()
	anomaly := func(what string, st drv.Step) bool {
		tr.Emit(drv.Step{"ev": "Anomaly", "what": what, "sid": sid, "step": st})
		return true
	}
	for _, st := range steps {
		switch drv.Str(st["ev"]) {
		case "Advance":
			r.clock.Advance(time.Duration(num(st, "by")) * time.Second)
			tr.Emit(drv.Step{"ev": "Advance", "by": num(st, "by")})
		case "Recv":
			n, err := r.node(num(st, "c"))
			if err != nil {
				return anomaly(err.Error(), st)
			}
			m := obj(st["m"])
			var (
				req proto.Message
				obs  = []string{}
				bpos = [][2]int{}
				db   = -2
			)
			var duty core.Duty
			if boolean(m["nil"]) {
				req = (*pbv1.QBFTConsensusMsg)(nil)
				if sid%2 == 1 { // a request of another type
					req = &pbv1.QBFTMsg{Type: 1, Round: 1}
				}
			} else {
				pb, o, bp, err := r.build(m)
				if err != nil {
					return anomaly(err.Error(), st)
				}
				obs, bpos = o, bp
				if boolean(st["wire"]) { // as the p2p layer does: decode the bytes into a new message
					if b, err := proto.Marshal(pb); err == nil {
						dec := new(pbv1.QBFTConsensusMsg)
						if err := proto.Unmarshal(b, dec); err == nil {
							pb = dec
						}
					}
				}
				req = pb
				if pb.GetMsg() != nil && pb.GetMsg().GetDuty() != nil {
					duty = core.DutyFromProto(pb.GetMsg().GetDuty())
					db = n.c.VerifRecvBufferLen(duty)
				}
			}
			ctx, cancel := context.WithCancel(r.ctx)
			if boolean(st["ctx"]) {
				cancel()
			} else if db >= w.cfg.bufCap {
				// the duty's buffer is full and nothing drains it: a handler that enqueues can only end with its context
				ctx, cancel = context.WithTimeout(r.ctx, 300*time.Millisecond)
			}
			tb, ib, sn := n.c.VerifRecvBufferTotal(), n.c.VerifInstanceCount(), n.sniffs
			o, ok := call(ctx, n, r, req)
			cancel()
			if !ok {
				tr.Emit(drv.Step{"ev": "Hang", "sid": sid, "step": st})
				return true
			}
			da := db
			if db != -2 {
				da = n.c.VerifRecvBufferLen(duty)
			}
			ev := drv.Step{"ev": "Recv", "c": num(st, "c"), "m": m, "ctx": boolean(st["ctx"]), "obs": obs, "err": o.err != nil,
				"tb": tb, "ta": n.c.VerifRecvBufferTotal(), "ib": ib, "ia": n.c.VerifInstanceCount(), "db": db, "da": da,
				"sniffed": n.sniffs - sn, "bpos": bpos, "wire": boolean(st["wire"])}
			if cs, ok := st["case"]; ok {
				ev["case"] = cs
			}
			tr.Emit(ev)
		case "Raw":
			n, err := r.node(num(st, "c"))
			if err != nil {
				return anomaly(err.Error(), st)
			}
			b := rawBytes(num(st, "seed"), num(st, "len"), drv.Str(st["shape"]))
			dec := new(pbv1.QBFTConsensusMsg)
			ev := drv.Step{"ev": "Raw", "c": num(st, "c"), "parsed": false, "err": true, "tb": 0, "ta": 0, "ib": 0, "ia": 0}
			if err := proto.Unmarshal(b, dec); err == nil {
				tb, ib := n.c.VerifRecvBufferTotal(), n.c.VerifInstanceCount()
				o, ok := call(r.ctx, n, r, dec)
				if !ok {
					tr.Emit(drv.Step{"ev": "Hang", "sid": sid, "step": st})
					return true
				}
				ev = drv.Step{"ev": "Raw", "c": num(st, "c"), "parsed": true, "err": o.err != nil, "tb": tb,
					"ta": n.c.VerifRecvBufferTotal(), "ib": ib, "ia": n.c.VerifInstanceCount()}
			}
			tr.Emit(ev)
		default:
			return anomaly("unknown step", st)
		}
	}

	return false
}

// rawBytes: seeded byte strings; shape "msg" wraps them as field 1 (msg) of the request, "just" as field 2.
func rawBytes(seed, n int, shape string) []byte {
	rnd := rand.New(rand.NewSource(int64(seed)))
	b := make([]byte, n)
	rnd.Read(b)
	switch shape {
	case "msg":
		return protowire.AppendBytes(protowire.AppendTag(nil, 1, protowire.BytesType), b)
	case "just":
		return protowire.AppendBytes(protowire.AppendTag(nil, 2, protowire.BytesType), b)
	case "sig": // a structurally plausible message whose signature is noise
		var seedB [8]byte
		binary.LittleEndian.PutUint64(seedB[:], uint64(seed))
		q := &pbv1.QBFTMsg{Type: 1 + int64(seed%5), Duty: &pbv1.Duty{Slot: 40, Type: 2}, PeerIdx: int64(seed % 4), Round: 1,
			ValueHash: make([]byte, 32), PreparedValueHash: make([]byte, 32), Signature: append(b, seedB[:]...)}
		out, _ := proto.Marshal(&pbv1.QBFTConsensusMsg{Msg: q})
		return out
	}

	return b
}
