package fetcher

// Standalone reproduction of finding GROW-FETCHER-reorg-straddle (not part of the conformance run):
//
//	go test -tags verif -run TestReproReorgStraddle ./fetcher
//
// HandleChainReorg "invalidates the early-fetch cache upon a chain reorg, since cached attestation data was verified against
// a head that may no longer be canonical. Consensus then re-fetches fresh data at the scheduled deadline."  A FetchOnly that is
// waiting for the beacon node when the reorg is handled stores its (pre-reorg) data AFTER the cache was cleared; Fetch then
// serves that data at the deadline without re-fetching.

import (
	"context"
	"testing"
	"testing/synctest"

	eth2v1 "github.com/attestantio/go-eth2-client/api/v1"
	eth2p0 "github.com/attestantio/go-eth2-client/spec/phase0"

	"github.com/obolnetwork/charon/core"
	"github.com/obolnetwork/charon/core/fetcher"
)

func TestReproReorgStraddle(t *testing.T) {
	synctest.Test(t, func(t *testing.T) {
		h := &harness{pending: map[int]*pending{}, calls: map[int]*callState{}, attRoots: map[eth2p0.Root]int{},
			pkName: map[core.PubKey]string{pubkey("a"): "a"}, pkOf: map[string]core.PubKey{"a": pubkey("a")}}

		f, err := fetcher.New(bn{h: h}, func(core.PubKey) string { return "" }, false, nil, 0, false)
		if err != nil {
			t.Fatal(err)
		}

		var got []int // block root tokens the subscriber received

		f.Subscribe(func(_ context.Context, _ core.Duty, set core.UnsignedDataSet) error {
			for _, d := range set {
				got = append(got, int(d.(core.AttestationData).Data.BeaconBlockRoot[0]))
			}

			return nil
		})

		duty := core.NewAttesterDuty(5)
		defs := core.DutyDefinitionSet{pubkey("a"): core.NewAttesterDefinition(&eth2v1.AttesterDuty{Slot: 5, CommitteeIndex: 1, CommitteeLength: 64})}

		// head event (block root 1): early fetch, the beacon node request is in flight
		go func() { _ = f.FetchOnly(context.WithValue(context.Background(), ctxKey{}, 1), duty, defs, "bn1", root(1)) }()
		synctest.Wait()

		// reorg event: the cache is invalidated (it is still empty)
		f.HandleChainReorg(context.Background(), 0)

		// the beacon node answers the early request with data that votes for the old head 1
		h.pending[1].ans <- answer{kind: "val", tok: 1}
		synctest.Wait()

		// scheduled deadline: Fetch must re-fetch (it would block in the beacon node gate); instead it serves the cached data
		done := make(chan struct{})
		go func() {
			_ = f.Fetch(context.WithValue(context.Background(), ctxKey{}, 2), duty, defs)
			close(done)
		}()
		synctest.Wait()

		select {
		case <-done:
			t.Fatalf("Fetch after a chain reorg did not re-fetch: subscribers received early data voting for the pre-reorg head: roots %v", got)
		default:
			t.Logf("Fetch re-fetches after the reorg (pending request: %v)", h.pending[2].req)
			h.pending[2].ans <- answer{kind: "val", tok: 2}
			synctest.Wait()
		}
	})
}
