// Package fetcher executes Fetcher schedules on the real core/fetcher.Fetcher and records what it did.
//
// The fetcher is built with fetcher.New over a beacon client whose duty-data endpoints are GATED (they block until the
// driver answers or the caller's context ends), with gated stubs registered through RegisterAggSigDB / RegisterAwaitAttData,
// a scripted RegisterSyncContributionV2 function and recording subscribers.  Every schedule runs inside a testing/synctest
// bubble: after each stimulus synctest.Wait() returns only when every call of Fetch / FetchOnly is durably blocked in one
// of the gates or has returned -- then the driver logs where each stimulated call is (its pending request, or its result)
// and what the subscribers received.  No verdict depends on wall-clock time.
//
// Values carry tokens: the randao signature, attestation data (block root, source epoch), aggregate attestations, sync
// messages and contributions handed out by the driver are recognisable wherever they show up again (in a later request of
// the fetcher or in the set a subscriber receives).  Each subscriber MUTATES the set it received after recording it, so a
// set shared between subscribers (or with the early-fetch cache) shows.
package fetcher

import (
	"context"
	"crypto/sha256"
	"encoding/binary"
	"fmt"
	"sort"
	"strings"
	"sync"
	"testing"
	"testing/synctest"
	"time"

	eth2api "github.com/attestantio/go-eth2-client/api"
	eth2v1 "github.com/attestantio/go-eth2-client/api/v1"
	eth2spec "github.com/attestantio/go-eth2-client/spec"
	"github.com/attestantio/go-eth2-client/spec/altair"
	eth2p0 "github.com/attestantio/go-eth2-client/spec/phase0"
	"github.com/OffchainLabs/go-bitfield"

	"github.com/obolnetwork/charon/app/errors"
	"github.com/obolnetwork/charon/app/eth2wrap"
	"github.com/obolnetwork/charon/app/version"
	"github.com/obolnetwork/charon/core"
	"github.com/obolnetwork/charon/core/fetcher"
	"github.com/obolnetwork/charon/testutil"
	"github.com/obolnetwork/charon/testutil/beaconmock"

	"verifharness/drv"
)

type ctxKey struct{}

// answer is what the driver hands to a pending request.
type answer struct {
	kind    string // "val", "nil", "err"
	tok     int
	flag    bool
	errKind string
}

type pending struct {
	req drv.Step
	ans chan answer
}

type callState struct {
	done   bool
	err    error
	cancel context.CancelFunc
}

type harness struct {
	mu        sync.Mutex
	pending   map[int]*pending
	calls     map[int]*callState
	delivered []drv.Step
	attRoots  map[eth2p0.Root]int // hash tree root of attestation data handed out by the DutyDB stub -> its token
	aggProof  eth2p0.BLSSignature // a selection proof that selects for every modulo used (1, 2, 4, 8)
	nonProof  eth2p0.BLSSignature // a selection proof that selects for modulo 1 only
	pkName    map[core.PubKey]string
	pkOf      map[string]core.PubKey
}

// gate registers the request as pending for the call found in ctx and blocks until it is answered or ctx ends.
func (h *harness) gate(ctx context.Context, req drv.Step) (answer, error) {
	id, _ := ctx.Value(ctxKey{}).(int)
	p := &pending{req: req, ans: make(chan answer, 1)}

	h.mu.Lock()
	h.pending[id] = p
	h.mu.Unlock()

	defer func() {
		h.mu.Lock()
		delete(h.pending, id)
		h.mu.Unlock()
	}()

	select {
	case a := <-p.ans:
		if a.kind == "err" {
			return a, injected(a.errKind)
		}

		return a, nil
	case <-ctx.Done():
		return answer{}, ctx.Err()
	}
}

func injected(kind string) error {
	switch kind {
	case "bn":
		return errors.Wrap(&eth2api.Error{Method: "GET", Endpoint: "/eth/v1/validator", StatusCode: 500}, "verif:bn")
	default:
		return errors.New("verif:" + kind)
	}
}

// classify names a returned error by what the tracker can later tell about it (the error chain must survive).
func classify(err error) string {
	var apiErr *eth2api.Error

	switch {
	case err == nil:
		return ""
	case errors.Is(err, context.Canceled):
		return "cancel"
	case errors.Is(err, context.DeadlineExceeded):
		return "deadline"
	case errors.As(err, &apiErr):
		return "bn"
	case strings.Contains(err.Error(), "verif:"):
		rest := err.Error()[strings.Index(err.Error(), "verif:")+6:]
		for i, c := range rest {
			if c < 'a' || c > 'z' {
				return rest[:i]
			}
		}

		return rest
	default:
		return "internal"
	}
}

func sig(tok int) eth2p0.BLSSignature {
	var s eth2p0.BLSSignature
	s[0] = byte(tok)

	return s
}

func root(tok int) eth2p0.Root {
	var r eth2p0.Root
	r[0] = byte(tok)

	return r
}

// findProofs searches selection proofs by the consensus-spec rule bytes_to_uint64(hash(sig)[0:8]) % modulo == 0.
func (h *harness) findProofs() {
	var haveAgg, haveNon bool

	for i := 0; i < 1<<16 && !(haveAgg && haveNon); i++ {
		var s eth2p0.BLSSignature
		binary.LittleEndian.PutUint16(s[1:], uint16(i))
		sum := sha256.Sum256(s[:])
		v := binary.LittleEndian.Uint64(sum[:8])

		if v%8 == 0 && !haveAgg {
			h.aggProof, haveAgg = s, true
		}

		if v%2 == 1 && !haveNon {
			h.nonProof, haveNon = s, true
		}
	}
}

func (h *harness) proof(selected bool) eth2p0.BLSSignature {
	if selected {
		return h.aggProof
	}

	return h.nonProof
}

// ---------------------------------------------------------------------------------------------------------------------
// beacon client
// ---------------------------------------------------------------------------------------------------------------------

type bn struct {
	beaconmock.Mock

	h       *harness
	addr    string
	product string // "" = the node version endpoint fails
}

func (b bn) ClientForAddress(addr string) eth2wrap.Client {
	b.addr = addr
	return b
}

func (bn) Spec(context.Context, *eth2api.SpecOpts) (*eth2api.Response[map[string]any], error) {
	return &eth2api.Response[map[string]any]{Data: map[string]any{
		"TARGET_AGGREGATORS_PER_COMMITTEE":         uint64(16),
		"SYNC_COMMITTEE_SIZE":                      uint64(512),
		"SYNC_COMMITTEE_SUBNET_COUNT":              uint64(4),
		"TARGET_AGGREGATORS_PER_SYNC_SUBCOMMITTEE": uint64(16),
	}}, nil
}

func (b bn) NodeVersion(context.Context, *eth2api.NodeVersionOpts) (*eth2api.Response[string], error) {
	if b.product == "" {
		return nil, errors.New("verif:nodeversion")
	}

	return &eth2api.Response[string]{Data: b.product + "/v1.2.3/linux"}, nil
}

func (b bn) AttestationData(ctx context.Context, opts *eth2api.AttestationDataOpts) (*eth2api.Response[*eth2p0.AttestationData], error) {
	a, err := b.h.gate(ctx, drv.Step{"r": "bn_att", "slot": int(opts.Slot), "cidx": int(opts.CommitteeIndex), "addr": b.addr})
	if err != nil {
		return nil, err
	}

	if a.kind == "nil" {
		return &eth2api.Response[*eth2p0.AttestationData]{}, nil
	}

	return &eth2api.Response[*eth2p0.AttestationData]{Data: attData(opts.Slot, opts.CommitteeIndex, a.tok)}, nil
}

func attData(slot eth2p0.Slot, idx eth2p0.CommitteeIndex, tok int) *eth2p0.AttestationData {
	return &eth2p0.AttestationData{Slot: slot, Index: idx, BeaconBlockRoot: root(tok),
		Source: &eth2p0.Checkpoint{Epoch: eth2p0.Epoch(tok)}, Target: &eth2p0.Checkpoint{Epoch: 1000}}
}

func (b bn) Proposal(ctx context.Context, opts *eth2api.ProposalOpts) (*eth2api.Response[*eth2api.VersionedProposal], error) {
	boost := uint64(0)
	if opts.BuilderBoostFactor != nil {
		boost = *opts.BuilderBoostFactor
	}

	a, err := b.h.gate(ctx, drv.Step{"r": "bn_prop", "slot": int(opts.Slot), "randao": int(opts.RandaoReveal[0]),
		"graffiti": strings.TrimRight(string(opts.Graffiti[:]), "\x00"), "maxboost": boost == ^uint64(0)})
	if err != nil {
		return nil, err
	}

	var p *eth2api.VersionedProposal

	if a.flag {
		blk := testutil.RandomCapellaBlindedBeaconBlock()
		blk.Slot = opts.Slot
		blk.ProposerIndex = eth2p0.ValidatorIndex(a.tok)
		p = &eth2api.VersionedProposal{Version: eth2spec.DataVersionCapella, Blinded: true, CapellaBlinded: blk}
	} else {
		blk := testutil.RandomCapellaBeaconBlock()
		blk.Slot = opts.Slot
		blk.ProposerIndex = eth2p0.ValidatorIndex(a.tok)
		p = &eth2api.VersionedProposal{Version: eth2spec.DataVersionCapella, Capella: blk}
	}

	return &eth2api.Response[*eth2api.VersionedProposal]{Data: p}, nil
}

func (b bn) AggregateAttestation(ctx context.Context, opts *eth2api.AggregateAttestationOpts) (*eth2api.Response[*eth2spec.VersionedAttestation], error) {
	b.h.mu.Lock()
	tok, ok := b.h.attRoots[opts.AttestationDataRoot]
	b.h.mu.Unlock()

	if !ok {
		tok = -1
	}

	a, err := b.h.gate(ctx, drv.Step{"r": "bn_agg", "slot": int(opts.Slot), "root": tok, "cidx": int(opts.CommitteeIndex)})
	if err != nil {
		return nil, err
	}

	if a.kind == "nil" {
		return &eth2api.Response[*eth2spec.VersionedAttestation]{}, nil
	}

	att := &eth2p0.Attestation{AggregationBits: bitfield.NewBitlist(8), Data: attData(opts.Slot, opts.CommitteeIndex, 0),
		Signature: sig(a.tok)}
	att.AggregationBits.SetBitAt(uint64(a.tok), true)

	return &eth2api.Response[*eth2spec.VersionedAttestation]{Data: &eth2spec.VersionedAttestation{Version: eth2spec.DataVersionDeneb, Deneb: att}}, nil
}

func (b bn) SyncCommitteeContribution(ctx context.Context, opts *eth2api.SyncCommitteeContributionOpts) (*eth2api.Response[*altair.SyncCommitteeContribution], error) {
	a, err := b.h.gate(ctx, drv.Step{"r": "bn_con", "slot": int(opts.Slot), "sub": int(opts.SubcommitteeIndex),
		"root": int(opts.BeaconBlockRoot[0])})
	if err != nil {
		return nil, err
	}

	if a.kind == "nil" {
		return &eth2api.Response[*altair.SyncCommitteeContribution]{}, nil
	}

	bits := bitfield.NewBitvector128()
	bits.SetBitAt(uint64(a.tok), true)

	return &eth2api.Response[*altair.SyncCommitteeContribution]{Data: &altair.SyncCommitteeContribution{Slot: opts.Slot,
		BeaconBlockRoot: opts.BeaconBlockRoot, SubcommitteeIndex: opts.SubcommitteeIndex, AggregationBits: bits, Signature: sig(a.tok)}}, nil
}

// ---------------------------------------------------------------------------------------------------------------------
// registered functions
// ---------------------------------------------------------------------------------------------------------------------

func (h *harness) aggSigDB(ctx context.Context, duty core.Duty, pk core.PubKey, sub core.SubcommitteeIndex) (core.SignedData, error) {
	a, err := h.gate(ctx, drv.Step{"r": "aggsigdb", "dtype": duty.Type.String(), "slot": int(duty.Slot), "pk": h.pkName[pk], "sub": int(sub)})
	if err != nil {
		return nil, err
	}

	switch duty.Type {
	case core.DutyRandao:
		return core.NewSignedRandao(0, sig(a.tok)), nil
	case core.DutyPrepareAggregator:
		return core.NewBeaconCommitteeSelection(&eth2v1.BeaconCommitteeSelection{Slot: eth2p0.Slot(duty.Slot), SelectionProof: h.proof(a.flag)}), nil
	case core.DutyPrepareSyncContribution:
		return core.NewSyncCommitteeSelection(&eth2v1.SyncCommitteeSelection{Slot: eth2p0.Slot(duty.Slot), SubcommitteeIndex: uint64(sub),
			SelectionProof: h.proof(a.flag)}), nil
	case core.DutySyncMessage:
		return core.NewSignedSyncMessage(&altair.SyncCommitteeMessage{Slot: eth2p0.Slot(duty.Slot), BeaconBlockRoot: root(a.tok)}), nil
	default:
		return nil, errors.New("verif:unexpectedaggsigdbduty")
	}
}

func (h *harness) awaitAttData(ctx context.Context, slot, commIdx uint64) (*eth2p0.AttestationData, error) {
	a, err := h.gate(ctx, drv.Step{"r": "attdata", "slot": int(slot), "cidx": int(commIdx)})
	if err != nil {
		return nil, err
	}

	d := attData(eth2p0.Slot(slot), eth2p0.CommitteeIndex(commIdx), a.tok)

	r, err := d.HashTreeRoot()
	if err != nil {
		return nil, err
	}

	h.mu.Lock()
	h.attRoots[r] = a.tok
	h.mu.Unlock()

	return d, nil
}

// ---------------------------------------------------------------------------------------------------------------------
// subscribers
// ---------------------------------------------------------------------------------------------------------------------

// describe turns a received set into per-validator records and then mutates everything reachable from the set.
func (h *harness) describe(set core.UnsignedDataSet) []any {
	recs := []any{}

	var pks []core.PubKey
	for pk := range set {
		pks = append(pks, pk)
	}

	sort.Slice(pks, func(i, j int) bool { return pks[i] < pks[j] })

	for _, pk := range pks {
		name, ok := h.pkName[pk]
		if !ok {
			name = "unknown:" + string(pk)
		}

		switch d := set[pk].(type) {
		case core.AttestationData:
			recs = append(recs, drv.Step{"pk": name, "root": int(d.Data.BeaconBlockRoot[0]), "idx": int(d.Data.Index),
				"src": int(d.Data.Source.Epoch), "vidx": int(d.Duty.ValidatorIndex), "cidx": int(d.Duty.CommitteeIndex)})
			d.Data.Source.Epoch = 99
			d.Data.Target.Epoch = 99
		case core.VersionedProposal:
			idx, _ := d.ProposerIndex()
			recs = append(recs, drv.Step{"pk": name, "tok": int(idx), "blinded": d.Blinded})

			if d.Blinded {
				d.CapellaBlinded.ProposerIndex = 99
			} else {
				d.Capella.ProposerIndex = 99
			}
		case core.VersionedAggregatedAttestation:
			tok := -1

			for i := uint64(0); i < d.Deneb.AggregationBits.Len(); i++ {
				if d.Deneb.AggregationBits.BitAt(i) {
					tok = int(i)
				}
			}

			recs = append(recs, drv.Step{"pk": name, "tok": tok})
			d.Deneb.AggregationBits.SetBitAt(7, true)
		case core.SyncContribution:
			recs = append(recs, drv.Step{"pk": name, "plural": false, "list": []any{contribRec(d)}})
			d.AggregationBits.SetBitAt(99, true)
		case core.SyncContributions:
			l := []any{}
			for _, c := range d {
				l = append(l, contribRec(c))
				c.AggregationBits.SetBitAt(99, true)
			}

			recs = append(recs, drv.Step{"pk": name, "plural": true, "list": l})
		default:
			recs = append(recs, drv.Step{"pk": name, "unknown": fmt.Sprintf("%T", d)})
		}
	}

	for _, pk := range pks { // ... and the set itself
		delete(set, pk)
	}

	return recs
}

func contribRec(c core.SyncContribution) drv.Step {
	tok := -1

	for i := uint64(0); i < c.AggregationBits.Len(); i++ {
		if c.AggregationBits.BitAt(i) {
			tok = int(i)
		}
	}

	return drv.Step{"sub": int(c.SubcommitteeIndex), "tok": tok}
}

// ---------------------------------------------------------------------------------------------------------------------
// driver
// ---------------------------------------------------------------------------------------------------------------------

func TestExec(t *testing.T) {
	drv.QuietLogs(t)
	scheds := drv.ReadSchedules(t)
	tr := drv.NewTracer(t)

	defer tr.Close()

	for i, s := range scheds {
		synctest.Test(t, func(t *testing.T) { runOne(t, tr, i, s) })
	}
}

func pubkey(name string) core.PubKey {
	return core.PubKey("0x" + strings.Repeat(fmt.Sprintf("%02x", name[0]), 48))
}

func dutyTypeOf(name string) core.DutyType {
	for _, dt := range core.AllDutyTypes() {
		if dt.String() == name {
			return dt
		}
	}

	return core.DutyUnknown
}

func (h *harness) defSet(t *testing.T, duty core.Duty, v any) core.DutyDefinitionSet {
	t.Helper()

	set := core.DutyDefinitionSet{}

	m, _ := v.(map[string]any)
	for name, dv := range m {
		d := dv.(map[string]any)
		pk := h.pkOf[name]

		var bls eth2p0.BLSPubKey
		bls[0] = name[0]

		switch duty.Type {
		case core.DutyAttester, core.DutyAggregator:
			set[pk] = core.NewAttesterDefinition(&eth2v1.AttesterDuty{PubKey: bls, Slot: eth2p0.Slot(duty.Slot),
				ValidatorIndex:  eth2p0.ValidatorIndex(drv.Num(d["vidx"])),
				CommitteeIndex:  eth2p0.CommitteeIndex(drv.Num(d["cidx"])),
				CommitteeLength: uint64(drv.Num(d["clen"])), CommitteesAtSlot: 4})
		case core.DutySyncContribution:
			var idxs []eth2p0.CommitteeIndex
			if l, ok := d["idxs"].([]any); ok {
				for _, x := range l {
					idxs = append(idxs, eth2p0.CommitteeIndex(drv.Num(x)))
				}
			}

			set[pk] = core.NewSyncCommitteeDefinition(&eth2v1.SyncCommitteeDuty{PubKey: bls,
				ValidatorIndex: eth2p0.ValidatorIndex(drv.Num(d["vidx"])), ValidatorSyncCommitteeIndices: idxs})
		default:
			set[pk] = core.NewProposerDefinition(&eth2v1.ProposerDuty{PubKey: bls, Slot: eth2p0.Slot(duty.Slot),
				ValidatorIndex: eth2p0.ValidatorIndex(drv.Num(d["vidx"]))})
		}
	}

	return set
}

func runOne(t *testing.T, tr *drv.Tracer, sid int, sched []drv.Step) {
	t.Helper()

	if len(sched) == 0 || drv.Str(sched[0]["ev"]) != "Config" {
		t.Fatalf("schedule %d does not start with Config", sid)
	}

	cfg := sched[0]
	h := &harness{pending: map[int]*pending{}, calls: map[int]*callState{}, attRoots: map[eth2p0.Root]int{},
		pkName: map[core.PubKey]string{}, pkOf: map[string]core.PubKey{}}
	h.findProofs()

	for _, n := range []string{"a", "b", "c"} {
		h.pkName[pubkey(n)] = n
		h.pkOf[n] = pubkey(n)
	}

	client := bn{h: h, product: drv.Str(cfg["gprod"])}

	// graffiti builder
	var (
		gpks     []core.PubKey
		gpkNames []any
		graffiti []string
	)

	gbase, _ := cfg["gbase"].(map[string]any)

	if l, ok := cfg["gpks"].([]any); ok {
		for _, x := range l {
			gpks = append(gpks, h.pkOf[drv.Str(x)])
			gpkNames = append(gpkNames, drv.Str(x))
		}
	}

	if gpkNames == nil {
		gpkNames = []any{}
	}

	// effective: the graffiti string configured for each validator the builder knows (single mode: one string for all)
	effective := drv.Step{}

	switch drv.Str(cfg["gmode"]) {
	case "single":
		graffiti = []string{drv.Str(gbase[drv.Str(gpkNames[0])])}
		for _, n := range gpkNames {
			effective[drv.Str(n)] = graffiti[0]
		}
	case "multi":
		for _, n := range gpkNames {
			graffiti = append(graffiti, drv.Str(gbase[drv.Str(n)]))
			effective[drv.Str(n)] = drv.Str(gbase[drv.Str(n)])
		}
	}

	gappend, _ := cfg["gappend"].(bool)

	gb, err := fetcher.NewGraffitiBuilder(gpks, graffiti, !gappend, client)
	if err != nil {
		t.Fatalf("graffiti builder: %v", err)
	}

	builder, _ := cfg["builder"].(bool)
	only0, _ := cfg["only0"].(bool)

	f, err := fetcher.New(client, func(core.PubKey) string { return "0x0000000000000000000000000000000000000000" }, builder, gb,
		eth2p0.Slot(drv.Num(cfg["electra"])), only0)
	if err != nil {
		t.Fatalf("fetcher: %v", err)
	}

	f.RegisterAggSigDB(h.aggSigDB)
	f.RegisterAwaitAttData(h.awaitAttData)

	switch drv.Str(cfg["v2"]) {
	case "yes":
		f.RegisterSyncContributionV2(func(uint64) bool { return true })
	case "no":
		f.RegisterSyncContributionV2(func(uint64) bool { return false })
	}

	nsubs, suberr := drv.Num(cfg["nsubs"]), drv.Num(cfg["suberr"])
	for i := 1; i <= nsubs; i++ {
		f.Subscribe(func(ctx context.Context, duty core.Duty, set core.UnsignedDataSet) error {
			id, _ := ctx.Value(ctxKey{}).(int)
			rec := drv.Step{"c": id, "sub": i, "duty": drv.Step{"slot": int(duty.Slot), "type": duty.Type.String()}, "set": h.describe(set)}

			h.mu.Lock()
			h.delivered = append(h.delivered, rec)
			h.mu.Unlock()

			if i == suberr {
				return errors.New("verif:sub")
			}

			return nil
		})
	}

	commit, _ := version.GitCommit()

	tr.Emit(drv.Step{"ev": "Reset", "sid": sid, "electra": drv.Num(cfg["electra"]), "only0": only0, "builder": builder, "nsubs": nsubs,
		"suberr": suberr, "v2": drv.Str(cfg["v2"]), "gmode": drv.Str(cfg["gmode"]), "gbase": effective, "gappend": gappend,
		"gprod": drv.Str(cfg["gprod"]), "gpks": gpkNames, "gdef": fmt.Sprintf("charon/%v-%s", version.Version, commit)})

	// state of a call after quiescence
	state := func(id int) drv.Step {
		h.mu.Lock()
		defer h.mu.Unlock()

		cs, ok := h.calls[id]
		if !ok {
			return drv.Step{"status": "unknown"}
		}

		if cs.done {
			res := "ok"
			if cs.err != nil {
				res = "err"
			}

			return drv.Step{"status": "done", "result": res, "ekind": classify(cs.err)}
		}

		if p, ok := h.pending[id]; ok {
			return drv.Step{"status": "blocked", "req": p.req}
		}

		return drv.Step{"status": "limbo"} // neither returned nor waiting in a gate: no spec state matches
	}
	deliveries := func() []any {
		h.mu.Lock()
		defer h.mu.Unlock()

		res := []any{}
		for _, d := range h.delivered {
			res = append(res, d)
		}

		h.delivered = nil

		return res
	}
	start := func(id int, run func(ctx context.Context) error) {
		ctx, cancel := context.WithCancel(context.WithValue(context.Background(), ctxKey{}, id))
		cs := &callState{cancel: cancel}

		h.mu.Lock()
		h.calls[id] = cs
		h.mu.Unlock()

		go func() {
			err := run(ctx)

			h.mu.Lock()
			cs.done, cs.err = true, err
			h.mu.Unlock()
		}()
	}

	for _, st := range sched[1:] {
		ev := drv.Str(st["ev"])
		out := drv.Step{"ev": ev}

		switch ev {
		case "Fetch", "FetchOnly":
			id := drv.Num(st["c"])
			dm := st["duty"].(map[string]any)
			duty := core.Duty{Slot: uint64(drv.Num(dm["slot"])), Type: dutyTypeOf(drv.Str(dm["type"]))}
			defs := h.defSet(t, duty, st["defs"])
			out["c"], out["duty"], out["defs"] = id, st["duty"], st["defs"]

			if ev == "Fetch" {
				start(id, func(ctx context.Context) error { return f.Fetch(ctx, duty, defs) })
			} else {
				addr, head := drv.Str(st["addr"]), drv.Num(st["head"])
				out["addr"], out["head"] = addr, head

				start(id, func(ctx context.Context) error { return f.FetchOnly(ctx, duty, defs, addr, root(head)) })
			}

			synctest.Wait()

			out["st"] = state(id)
		case "Release":
			id := drv.Num(st["c"])
			am := st["ans"].(map[string]any)
			a := answer{kind: drv.Str(am["a"]), tok: drv.Num(am["tok"]), errKind: drv.Str(am["kind"])}
			a.flag, _ = am["flag"].(bool)
			out["c"], out["ans"] = id, st["ans"]

			h.mu.Lock()
			p, ok := h.pending[id]
			h.mu.Unlock()

			if !ok { // the call is not waiting (it ended earlier than the schedule's author assumed): nothing to release
				out["ev"] = "Noop"
				break
			}

			// only the beacon node's data endpoints can answer "no data"; anywhere else the answer counts as the zero value
			if r := drv.Str(p.req["r"]); a.kind == "nil" && r != "bn_att" && r != "bn_agg" && r != "bn_con" {
				a = answer{kind: "val"}
				out["ans"] = drv.Step{"a": "val", "tok": 0, "flag": false}
			}

			p.ans <- a

			synctest.Wait()

			out["st"] = state(id)
		case "Cancel":
			id := drv.Num(st["c"])
			out["c"], out["how"] = id, "cancel"

			h.mu.Lock()
			cs, ok := h.calls[id]
			_, waiting := h.pending[id]
			h.mu.Unlock()

			if !ok || !waiting {
				out["ev"] = "Noop"
				break
			}

			cs.cancel()
			synctest.Wait()

			out["st"] = state(id)
		case "Reorg":
			f.HandleChainReorg(context.Background(), 0)
			synctest.Wait()
		default:
			t.Fatalf("unknown step %v", st)
		}

		out["del"] = deliveries()
		tr.Emit(out)
	}

	// end of schedule: end whatever is still blocked so that the bubble can end (a dependency call that lost the caller's
	// context does not react to the cancellation: it is answered with an error instead)
	h.mu.Lock()
	for _, cs := range h.calls {
		cs.cancel()
	}
	h.mu.Unlock()

	for range 64 {
		synctest.Wait()

		h.mu.Lock()
		left := len(h.pending)

		for _, p := range h.pending {
			select {
			case p.ans <- answer{kind: "err", errKind: "cleanup"}:
			default:
			}
		}
		h.mu.Unlock()

		if left == 0 {
			break
		}
	}

	time.Sleep(time.Millisecond)
}
