// Package forkjoin executes ForkJoin schedules on the real app/forkjoin and records what it did.
//
// One schedule = one forkjoin.New[int,int] with the options of the schedule's Cfg step, driven inside a
// testing/synctest bubble.  The work function is a scripted stub per input (gated: blocks until the executor opens its
// gate; ctx: blocks until its context is done).  The executor makes ONE environment move at a time (Fork, Join, Cancel,
// RootCancel, Release, Recv, Flatten), logs it BEFORE making it, then waits with synctest.Wait until every goroutine of
// the bubble is durably blocked and logs a Q event: the number of goroutines the component has alive
// (the goroutines created by package app/forkjoin in the runtime's stack dump) and which of the
// executor's calls are still blocked.  What comes back from a call is logged by the goroutine it comes back to
// (ForkRet, CancelRet, FlattenRet, WorkStart, WorkEnd), so the log is a linearisation of happens-before.
//
// The executor holds no expectation.  Moves that cannot be made by a single forker thread (a Fork or Join while a Fork
// is blocked, a second concurrent cancel, a receive without the channel) are skipped and not logged.  After End the
// component is torn down (root context cancelled, gates opened, join, cancel, results drained) without logging; if
// goroutines of the bubble stay blocked for ever the bubble's deadlock panic is recorded as {"ev":"Leak"} and the
// executor stops.
package forkjoin

import (
	"context"
	"errors"
	"fmt"
	"runtime"
	"strings"
	"sync/atomic"
	"testing"
	"testing/synctest"
	"time"

	"github.com/obolnetwork/charon/app/forkjoin"

	"verifharness/drv"
)

type stubErr struct{ i int }

func (e *stubErr) Error() string { return fmt.Sprintf("e%d", e.i) }

// cls names an error value: nil, the stub's own errors by name, context errors by kind.
func cls(err error) string {
	var se *stubErr
	switch {
	case err == nil:
		return "nil"
	case errors.As(err, &se):
		return se.Error()
	case errors.Is(err, context.Canceled):
		return "ctx"
	case errors.Is(err, context.DeadlineExceeded):
		return "dl"
	}
	return "other:" + err.Error()
}

func try(f func()) (panicked bool) {
	defer func() {
		if r := recover(); r != nil {
			panicked = true
		}
	}()
	f()
	return false
}

func TestExec(t *testing.T) {
	drv.QuietLogs(t)
	scheds := drv.ReadSchedules(t)
	tr := drv.NewTracer(t)
	defer tr.Close()
	for sid, s := range scheds {
		if !runBubble(t, tr, sid, s) {
			return // a leak / hang: the remaining schedules would only repeat it
		}
	}
}

func runBubble(t *testing.T, tr *drv.Tracer, sid int, s []drv.Step) (ok bool) {
	defer func() {
		if r := recover(); r != nil {
			tr.Emit(drv.Step{"ev": "Leak", "msg": fmt.Sprint(r)})
			ok = false
		}
	}()
	synctest.Test(t, func(t *testing.T) { runOne(tr, sid, s) })
	return true
}

func runOne(tr *drv.Tracer, sid int, s []drv.Step) {
	if len(s) == 0 || drv.Str(s[0]["ev"]) != "Cfg" {
		panic("schedule does not start with a Cfg step")
	}
	c := s[0]
	var script []string
	for _, k := range c["script"].([]any) {
		script = append(script, drv.Str(k))
	}
	n := len(script)
	workers, buf := drv.Num(c["workers"]), drv.Num(c["buf"])
	failfast, _ := c["failfast"].(bool)
	wait, _ := c["wait"].(bool)
	tr.Emit(drv.Step{"ev": "Reset", "sid": sid, "workers": workers, "buf": buf, "failfast": failfast, "wait": wait,
		"script": append([]string{}, script...)})


	rootParent, rootCancel := context.WithCancel(context.Background())
	root, rootStop := context.WithDeadline(rootParent, time.Now().Add(time.Hour))
	gates := make([]chan struct{}, n+1)
	open := make([]bool, n+1)
	for i := range gates {
		gates[i] = make(chan struct{})
	}
	gated := func(i int) bool { return script[i-1] != "ctx" }

	var muted atomic.Bool // after End (tear down) nothing is logged
	emit := func(e drv.Step) {
		if !muted.Load() {
			tr.Emit(e)
		}
	}
	work := func(ctx context.Context, i int) (int, error) {
		emit(drv.Step{"ev": "WorkStart", "i": i})
		var err error
		switch script[i-1] {
		case "ok":
			<-gates[i]
		case "err":
			<-gates[i]
			err = &stubErr{i}
		case "cerr":
			<-gates[i]
			err = context.Canceled
		case "ctx":
			<-ctx.Done()
			err = ctx.Err()
		case "okc":
			select {
			case <-gates[i]:
			case <-ctx.Done():
				err = ctx.Err()
			}
		default:
			panic("unknown script kind " + script[i-1])
		}
		emit(drv.Step{"ev": "WorkEnd", "i": i, "out": i, "err": cls(err)})
		return i, err
	}

	opts := []forkjoin.Option{forkjoin.WithWorkers(workers), forkjoin.WithInputBuffer(buf)}
	if !failfast {
		opts = append(opts, forkjoin.WithoutFailFast())
	}
	if wait {
		opts = append(opts, forkjoin.WithWaitOnCancel())
	}
	fork, join, cancel := forkjoin.New[int, int](root, work, opts...)

	var (
		nfork                          int
		forkOut, cancelOut, flattenOut atomic.Bool
		flattenStarted, rootDone       bool
		results                        forkjoin.Results[int, int]
		received                       []forkjoin.Result[int, int]
	)
	stackBuf := make([]byte, 1<<20)
	goroutines := func() int {
		// the goroutines the component has started and that are still alive, from the runtime's stack dump: a goroutine
		// that has finished is dead for the dump as soon as synctest.Wait stops counting it (runtime.NumGoroutine lags)
		k := runtime.Stack(stackBuf, true)
		for k == len(stackBuf) {
			stackBuf = make([]byte, 2*len(stackBuf))
			k = runtime.Stack(stackBuf, true)
		}
		c := 0
		for _, g := range strings.Split(string(stackBuf[:k]), "\n\n") {
			if strings.Contains(g, "created by github.com/obolnetwork/charon/app/forkjoin.") {
				c++
			}
		}
		return c
	}
	settle := func() {
		synctest.Wait()
		tr.Emit(drv.Step{"ev": "Q", "g": goroutines(), "fb": forkOut.Load(), "cb": cancelOut.Load(), "fr": flattenOut.Load()})
	}
	ints := func(a []int) []int {
		if a == nil {
			return []int{}
		}
		return a
	}
	settle()

	for _, st := range s[1:] {
		switch drv.Str(st["ev"]) {
		case "Fork":
			if forkOut.Load() || nfork >= n {
				continue
			}
			nfork++
			i := nfork
			tr.Emit(drv.Step{"ev": "Fork", "i": i})
			forkOut.Store(true)
			go func() {
				p := try(func() { fork(i) })
				forkOut.Store(false)
				emit(drv.Step{"ev": "ForkRet", "i": i, "panic": p})
			}()
		case "Join":
			if forkOut.Load() {
				continue
			}
			tr.Emit(drv.Step{"ev": "Join"})
			var res forkjoin.Results[int, int]
			p := try(func() { res = join() })
			if !p && results == nil {
				results = res
			}
			tr.Emit(drv.Step{"ev": "JoinRet", "panic": p})
		case "Cancel":
			if cancelOut.Load() {
				continue
			}
			tr.Emit(drv.Step{"ev": "Cancel"})
			cancelOut.Store(true)
			go func() {
				p := try(cancel)
				cancelOut.Store(false)
				emit(drv.Step{"ev": "CancelRet", "panic": p})
			}()
		case "RootCancel":
			if rootDone {
				continue
			}
			rootDone = true
			kind := drv.Str(st["kind"])
			tr.Emit(drv.Step{"ev": "RootCancel", "kind": kind})
			if kind == "dl" {
				time.Sleep(2 * time.Hour) // virtual time: the root context's deadline passes
			} else {
				rootCancel()
			}
		case "Release":
			i := drv.Num(st["i"])
			if i < 1 || i > n || !gated(i) || open[i] {
				continue
			}
			open[i] = true
			tr.Emit(drv.Step{"ev": "Release", "i": i})
			close(gates[i])
		case "Recv":
			if results == nil || flattenStarted {
				continue
			}
			tr.Emit(drv.Step{"ev": "Recv"})
			select {
			case r, ok := <-results:
				if ok {
					received = append(received, r)
					tr.Emit(drv.Step{"ev": "RecvRet", "k": "res", "in": r.Input, "out": r.Output, "err": cls(r.Err)})
				} else {
					tr.Emit(drv.Step{"ev": "RecvRet", "k": "eof"})
				}
			default:
				tr.Emit(drv.Step{"ev": "RecvRet", "k": "none"})
			}
		case "Flatten":
			if results == nil || flattenStarted {
				continue
			}
			flattenStarted = true
			tr.Emit(drv.Step{"ev": "Flatten"})
			flattenOut.Store(true)
			go func() {
				outs, err := results.Flatten()
				flattenOut.Store(false)
				emit(drv.Step{"ev": "FlattenRet", "outs": ints(outs), "err": cls(err)})
			}()
		case "End":
			continue
		default:
			panic("unknown step " + drv.Str(st["ev"]))
		}
		settle()
	}
	if !flattenStarted {
		// Flatten as a function of exactly the results received so far
		ch := make(chan forkjoin.Result[int, int], len(received))
		for _, r := range received {
			ch <- r
		}
		close(ch)
		outs, err := forkjoin.Results[int, int](ch).Flatten()
		tr.Emit(drv.Step{"ev": "Flat", "outs": ints(outs), "err": cls(err)})
	}
	tr.Emit(drv.Step{"ev": "End"})
	muted.Store(true)

	// tear down, unlogged: everything must be able to leave
	rootCancel()
	rootStop()
	for i := 1; i <= n; i++ {
		if !open[i] {
			close(gates[i])
		}
	}
	synctest.Wait()
	if results == nil {
		try(func() { results = join() })
	}
	if !cancelOut.Load() {
		go try(cancel)
	}
	if results != nil && !flattenStarted {
		go func() {
			for range results {
			}
		}()
	}
	synctest.Wait()
}
