// Package c19 executes MultiClient schedules on the real eth2wrap multi client (provide/submit over forkjoin)
// and records what it did.
//
// Every schedule runs inside a testing/synctest bubble: after each stimulus synctest.Wait() returns only when every
// goroutine of the call (caller loop, forkjoin workers, result senders, gated mock nodes) is durably blocked, i.e.
// the component is quiescent.  No verdict depends on wall-clock time and nothing is awaited with a timeout: after
// Wait() the call either has returned or it has not.
//
// A node can be "deaf": its requests ignore their context (a request blocked on a mutex, in a DNS lookup, in a client
// that does not look at ctx) and return only when the schedule releases them (NodeDone) or at the end of the
// schedule.  The bubble's virtual clock is moved by one second before every stimulus; every event carries the
// virtual time, the Return carries the time at which the calling goroutine got its answer.
package c19

import (
	"context"
	"errors"
	"fmt"
	"net"
	"net/url"
	"os"
	"regexp"
	"strconv"
	"sync"
	"syscall"
	"testing"
	"testing/synctest"
	"time"

	eth2client "github.com/attestantio/go-eth2-client"
	eth2api "github.com/attestantio/go-eth2-client/api"
	eth2v1 "github.com/attestantio/go-eth2-client/api/v1"
	eth2p0 "github.com/attestantio/go-eth2-client/spec/phase0"

	"github.com/obolnetwork/charon/app/eth2wrap"

	"verifharness/drv"
)

// tagErr marks an error value with the node that produced it; it sits at the innermost position of the error
// chains below so that it survives eth2wrap.wrapError's decomposition of url.Error / net.OpError.
type tagErr struct {
	id    int
	inner error
}

func (e tagErr) Error() string { return fmt.Sprintf("%s [vnode%d]", e.inner.Error(), e.id) }
func (e tagErr) Unwrap() error { return e.inner }

// clientTimeout is what net/http reports when http.Client.Timeout fires (a net.Error with Timeout() == true).
type clientTimeout struct{}

func (clientTimeout) Error() string {
	return "context deadline exceeded (Client.Timeout exceeded while awaiting headers)"
}
func (clientTimeout) Timeout() bool   { return true }
func (clientTimeout) Temporary() bool { return true }

var nodeRe = regexp.MustCompile(`vnode(\d+)`)

// node is one gated beacon node: its API methods block until the driver releases them (then they answer with the
// scripted outcome) or until their context is cancelled (then they answer like an aborted http request) -- unless
// the node is deaf: then only the release counts.
type node struct {
	eth2wrap.Client // nil: the multi client is not expected to call anything else on a node

	id      int
	variant string
	deaf    bool
	release chan struct{}

	mu        sync.Mutex
	invoked   int
	released  bool
	sawCancel bool
	addrCalls int
	reqCtx    context.Context // context of the (latest) request

	// warm-up (history before the judged call): > 0: answer at once; < 0: answer only when the request is cancelled
	warm int
}

func (n *node) url(endpoint string) string {
	return fmt.Sprintf("http://vnode%d:5051%s", n.id, endpoint)
}

func (n *node) Address() string {
	n.mu.Lock()
	defer n.mu.Unlock()
	n.addrCalls++

	return fmt.Sprintf("http://vnode%d:5051", n.id)
}

// scripted builds the error value as go-eth2-client's http service would return it.
func (n *node) scripted(method, endpoint string) error {
	tag := func(err error) error { return tagErr{id: n.id, inner: err} }
	apiErr := func(code int, msg string) error {
		var err error = &eth2api.Error{
			Method: method, Endpoint: endpoint, StatusCode: code,
			Data: []byte(fmt.Sprintf(`{"code":%d,"message":"vnode%d: %s"}`, code, n.id, msg)),
		}
		if method == "POST" { // http.get returns the api.Error bare, the submitters wrap what http.post returns
			err = errors.Join(errors.New("failed to submit versioned beacon attestations"), err)
		}

		return err
	}
	call := "failed to call " + method + " endpoint"
	dial := func(errno syscall.Errno) error {
		return errors.Join(errors.New(call), &url.Error{Op: method, URL: n.url(endpoint), Err: &net.OpError{
			Op: "dial", Net: "tcp", Addr: &net.TCPAddr{IP: net.IPv4(10, 0, 0, byte(n.id)), Port: 5051},
			Err: tag(os.NewSyscallError("connect", errno)),
		}})
	}

	switch n.variant {
	case "ok", "nok":
		return nil
	case "timeout": // request context deadline
		return errors.Join(errors.New(call), &url.Error{Op: method, URL: n.url(endpoint), Err: tag(context.DeadlineExceeded)})
	case "clienttimeout": // http.Client.Timeout
		return errors.Join(errors.New(call), &url.Error{Op: method, URL: n.url(endpoint), Err: tag(clientTimeout{})})
	case "notactive":
		return tag(eth2client.ErrNotActive)
	case "notsynced": // http.Service.assertIsSynced: what every duty endpoint of a syncing node answers
		return tag(eth2client.ErrNotSynced)
	case "syncing503":
		return apiErr(503, "beacon node is currently syncing and not serving request on that endpoint")
	case "syncing500":
		return apiErr(500, "node is syncing")
	case "optimistic": // lighthouse while the execution layer is syncing
		return apiErr(500, "UNHANDLED_ERROR: HeadBlockNotFullyVerified")
	case "e502":
		return apiErr(502, "bad gateway")
	case "e503":
		return apiErr(503, "service unavailable")
	case "e504":
		return apiErr(504, "gateway timeout")
	case "refused":
		return dial(syscall.ECONNREFUSED)
	case "reset":
		return dial(syscall.ECONNRESET)
	case "unreach":
		return dial(syscall.EHOSTUNREACH)
	case "dns":
		return errors.Join(errors.New(call), &url.Error{Op: method, URL: n.url(endpoint), Err: &net.OpError{
			Op: "dial", Net: "tcp", Err: tag(&net.DNSError{Err: "no such host", Name: fmt.Sprintf("vnode%d", n.id), IsNotFound: true}),
		}})
	case "e400":
		return apiErr(400, "bad request: invalid slot")
	case "e404":
		return apiErr(404, "not found")
	case "e429":
		return apiErr(429, "too many requests")
	case "e500":
		return apiErr(500, "internal server error")
	case "plain":
		return fmt.Errorf("vnode%d: unexpected response", n.id)
	case "hang": // only reached at tear down (a deaf node that never answers)
		return fmt.Errorf("vnode%d: released at tear down", n.id)
	default:
		panic("unknown outcome variant " + n.variant)
	}
}

// gate blocks until released or cancelled.
func (n *node) gate(ctx context.Context, method, endpoint string) error {
	n.mu.Lock()
	if w := n.warm; w != 0 { // history calls: not counted, not traced
		n.mu.Unlock()
		if w > 0 {
			return nil
		}
		<-ctx.Done()

		return errors.Join(errors.New("failed to call "+method+" endpoint"),
			&url.Error{Op: method, URL: n.url(endpoint), Err: tagErr{id: n.id, inner: ctx.Err()}})
	}
	n.invoked++
	n.reqCtx = ctx
	n.mu.Unlock()

	if n.deaf { // ignores ctx
		<-n.release
		return n.scripted(method, endpoint)
	}

	select {
	case <-n.release:
		return n.scripted(method, endpoint)
	case <-ctx.Done():
		n.mu.Lock()
		n.sawCancel = true
		n.mu.Unlock()

		return errors.Join(errors.New("failed to call "+method+" endpoint"),
			&url.Error{Op: method, URL: n.url(endpoint), Err: tagErr{id: n.id, inner: ctx.Err()}})
	}
}

func (n *node) AttestationData(ctx context.Context, _ *eth2api.AttestationDataOpts) (*eth2api.Response[*eth2p0.AttestationData], error) {
	if err := n.gate(ctx, "GET", "/eth/v1/validator/attestation_data"); err != nil {
		return nil, err
	}

	return &eth2api.Response[*eth2p0.AttestationData]{
		Data:     &eth2p0.AttestationData{Slot: 7, Index: eth2p0.CommitteeIndex(n.id), Source: &eth2p0.Checkpoint{}, Target: &eth2p0.Checkpoint{}},
		Metadata: map[string]any{},
	}, nil
}

func (n *node) NodeSyncing(ctx context.Context, _ *eth2api.NodeSyncingOpts) (*eth2api.Response[*eth2v1.SyncState], error) {
	if err := n.gate(ctx, "GET", "/eth/v1/node/syncing"); err != nil {
		return nil, err
	}

	return &eth2api.Response[*eth2v1.SyncState]{
		Data:     &eth2v1.SyncState{HeadSlot: eth2p0.Slot(n.id), IsSyncing: n.variant == "nok"},
		Metadata: map[string]any{},
	}, nil
}

func (n *node) SubmitAttestations(ctx context.Context, _ *eth2api.SubmitAttestationsOpts) error {
	return n.gate(ctx, "POST", "/eth/v2/beacon/pool/attestations")
}

// answer is what the caller got back, described without judging it.
type answer struct {
	kind string // ok | nok | err | ctx
	by   int    // node whose answer it is (0: not identifiable, -1: malformed)
}

func classify(err error) answer {
	if m := nodeRe.FindStringSubmatch(err.Error()); m != nil {
		id, _ := strconv.Atoi(m[1])
		return answer{"err", id}
	}
	if errors.Is(err, context.Canceled) || errors.Is(err, context.DeadlineExceeded) {
		return answer{"ctx", 0}
	}

	return answer{"err", -1}
}

func doCall(ctx context.Context, m eth2wrap.Client, style string) answer {
	switch style {
	case "att":
		resp, err := m.AttestationData(ctx, &eth2api.AttestationDataOpts{Slot: 7})
		if err != nil {
			return classify(err)
		}
		if resp == nil || resp.Data == nil {
			return answer{"ok", -1}
		}

		return answer{"ok", int(resp.Data.Index)}
	case "sync":
		resp, err := m.NodeSyncing(ctx, &eth2api.NodeSyncingOpts{})
		if err != nil {
			return classify(err)
		}
		if resp == nil || resp.Data == nil {
			return answer{"ok", -1}
		}
		if resp.Data.IsSyncing {
			return answer{"nok", int(resp.Data.HeadSlot)}
		}

		return answer{"ok", int(resp.Data.HeadSlot)}
	case "submit":
		if err := m.SubmitAttestations(ctx, &eth2api.SubmitAttestationsOpts{}); err != nil {
			return classify(err)
		}

		return answer{"ok", 0}
	default:
		panic("unknown style " + style)
	}
}

func TestExec(t *testing.T) {
	drv.QuietLogs(t)
	scheds := drv.ReadSchedules(t)
	tr := drv.NewTracer(t)
	defer tr.Close()
	for i, s := range scheds {
		if len(s) == 0 || drv.Str(s[0]["ev"]) != "Cfg" {
			t.Fatalf("schedule %d does not start with Cfg", i)
		}
		synctest.Test(t, func(t *testing.T) { runOne(t, tr, i, s) })
	}
}

func runOne(t *testing.T, tr *drv.Tracer, sid int, sched []drv.Step) {
	cfg := sched[0]
	np, nb, style := drv.Num(cfg["P"]), drv.Num(cfg["B"]), drv.Str(cfg["style"])
	outs, _ := cfg["out"].([]any)
	if len(outs) != np+nb {
		t.Fatalf("schedule %d: %d outcomes for %d nodes", sid, len(outs), np+nb)
	}
	deaf := make([]bool, np+nb)
	if ds, ok := cfg["deaf"].([]any); ok {
		for i := range deaf {
			if i < len(ds) {
				deaf[i], _ = ds[i].(bool)
			}
		}
	}
	nodes := make([]*node, np+nb+1) // 1-based
	var prim, fall []eth2wrap.Client
	// lazy: every node is reached through the connect-on-first-use wrapper (app/eth2wrap/lazy.go), as NewMultiHTTP builds
	// its nodes; connfail: nodes whose CONNECTION ATTEMPTS fail while the history calls run (the node is down) and succeed
	// from the judged call on (it is back).
	lazy, _ := cfg["lazy"].(bool)
	connDown := map[int]bool{}
	var connMu sync.Mutex
	if l, ok := cfg["connfail"].([]any); ok && lazy {
		for _, x := range l {
			connDown[drv.Num(x)] = true
		}
	}
	for i := 1; i <= np+nb; i++ {
		nodes[i] = &node{id: i, variant: drv.Str(outs[i-1]), deaf: deaf[i-1], release: make(chan struct{})}
		var cl eth2wrap.Client = nodes[i]
		if lazy {
			n := nodes[i]
			cl = eth2wrap.NewLazyVerif(func(context.Context) (eth2wrap.Client, error) {
				connMu.Lock()
				down := connDown[n.id]
				connMu.Unlock()
				if down {
					return nil, errors.Join(errors.New("failed to connect to beacon node"),
						&url.Error{Op: "Get", URL: n.url("/eth/v1/node/version"), Err: tagErr{id: n.id, inner: syscall.ECONNREFUSED}})
				}
				return n, nil
			})
		}
		if i <= np {
			prim = append(prim, cl)
		} else {
			fall = append(fall, cl)
		}
	}
	multi := eth2wrap.NewMultiForT(prim, fall)

	const life = time.Hour
	t0 := time.Now()
	ctx, cancel := context.WithTimeout(context.Background(), life)
	defer cancel()
	deadline, _ := ctx.Deadline()
	vnow := func() int { return int(time.Since(t0) / time.Second) }
	tick := func() { time.Sleep(time.Second) } // virtual: nothing in the bubble is runnable while the driver sleeps

	var (
		ans       answer
		retAt     int
		retCh     = make(chan struct{})
		called    bool
		returned  bool
		cancelled bool
	)
	started := func() []int {
		res := []int{}
		for i := 1; i <= np+nb; i++ {
			nodes[i].mu.Lock()
			if nodes[i].invoked > 0 {
				res = append(res, i)
			}
			nodes[i].mu.Unlock()
		}

		return res
	}
	// sawCancel: nodes whose request returned because its context was cancelled, and deaf nodes still blocked in a
	// request whose context is cancelled by now.
	sawCancel := func() []int {
		res := []int{}
		for i := 1; i <= np+nb; i++ {
			n := nodes[i]
			n.mu.Lock()
			if n.sawCancel || (n.deaf && n.invoked > 0 && !n.released && n.reqCtx.Err() != nil) {
				res = append(res, i)
			}
			n.mu.Unlock()
		}

		return res
	}
	// observe logs the call's return as soon as it is visible after a stimulus has settled.
	observe := func() {
		if !called || returned {
			return
		}
		select {
		case <-retCh:
			returned = true
			a := ans
			if a.kind == "ok" && a.by == 0 { // submit: the node credited by the best-client selector, if exactly one
				sel := 0
				for i := 1; i <= np+nb; i++ {
					nodes[i].mu.Lock()
					if nodes[i].addrCalls > 0 {
						if sel == 0 {
							sel = i
						} else {
							sel = -1
						}
					}
					nodes[i].mu.Unlock()
				}
				a.by = sel
			}
			tr.Emit(drv.Step{"ev": "Return", "kind": a.kind, "by": a.by, "t": retAt})
		default:
		}
	}

	// HISTORY: `warm` earlier calls on the same multi client, all answered by node `warmby` while the others were slower (their
	// requests end when the multi client cancels them).  The statement is about every call on its own; the history only
	// gives an implementation that remembers something (a "best" node) the chance to lean on it in the judged call.
	if k, by := drv.Num(cfg["warm"]), drv.Num(cfg["warmby"]); k > 0 && by >= 1 && by <= np+nb {
		for i := 1; i <= np+nb; i++ {
			nodes[i].mu.Lock()
			nodes[i].warm = -1
			if i == by {
				nodes[i].warm = 1
			}
			nodes[i].mu.Unlock()
		}
		for w := 0; w < k; w++ {
			wctx, wcancel := context.WithTimeout(ctx, time.Minute)
			done := make(chan struct{})
			go func() { defer close(done); _ = doCall(wctx, multi, style) }()
			synctest.Wait()
			select {
			case <-done:
			default: // (a multi client that waits for the slow nodes: let them go)
				wcancel()
				<-done
			}
			wcancel()
			tick()
		}
		synctest.Wait()
		for i := 1; i <= np+nb; i++ {
			nodes[i].mu.Lock()
			nodes[i].warm, nodes[i].addrCalls = 0, 0
			nodes[i].mu.Unlock()
		}
		t0 = time.Now()
	}
	connMu.Lock()
	connDown = map[int]bool{} // every node accepts connections from here on
	connMu.Unlock()
	tr.Emit(drv.Step{"ev": "Reset", "sid": sid, "P": np, "B": nb, "style": style, "out": outs, "deaf": deaf, "t": 0})
	for _, st := range sched[1:] {
		switch drv.Str(st["ev"]) {
		case "Call":
			if called {
				continue
			}
			called = true
			tick()
			go func() {
				defer close(retCh)
				ans = doCall(ctx, multi, style)
				retAt = vnow()
			}()
			synctest.Wait()
			tr.Emit(drv.Step{"ev": "Call", "started": started(), "t": vnow()})
			observe()
		case "NodeDone":
			i := drv.Num(st["i"])
			if !called || returned || i < 1 || i > np+nb {
				continue
			}
			n := nodes[i]
			n.mu.Lock()
			can := n.invoked > 0 && !n.released && !n.sawCancel && n.variant != "hang"
			if can {
				n.released = true
			}
			n.mu.Unlock()
			if !can {
				continue // nothing to release: the node was not consulted (or has answered already)
			}
			tick()
			close(n.release)
			synctest.Wait()
			tr.Emit(drv.Step{"ev": "NodeDone", "i": i, "started": started(), "t": vnow()})
			observe()
		case "CancelCaller":
			if cancelled || returned {
				continue
			}
			cancelled = true
			tick()
			how := drv.Str(st["how"])
			if how == "deadline" {
				time.Sleep(time.Until(deadline))
			} else {
				how = "cancel"
				cancel()
			}
			synctest.Wait()
			tr.Emit(drv.Step{"ev": "CancelCaller", "how": how, "t": vnow()})
			observe()
		default:
			t.Fatalf("unknown step %v", st)
		}
	}
	tick()
	synctest.Wait()
	observe() // a call that returned by itself after the last stimulus (a timer): its Return carries a later time
	tr.Emit(drv.Step{"ev": "End", "started": started(), "cancelled": sawCancel(), "t": vnow()})

	// tear down: give up the call, unblock whatever is still gated
	cancel()
	for i := 1; i <= np+nb; i++ {
		nodes[i].mu.Lock()
		if !nodes[i].released {
			nodes[i].released = true
			close(nodes[i].release)
		}
		nodes[i].mu.Unlock()
	}
	if called {
		<-retCh
	}
}
