package c19

import (
	"context"
	"os"
	"testing"

	eth2client "github.com/attestantio/go-eth2-client"
	eth2api "github.com/attestantio/go-eth2-client/api"
	eth2p0 "github.com/attestantio/go-eth2-client/spec/phase0"

	"github.com/obolnetwork/charon/app/eth2wrap"
)

// stub answers AttestationData immediately.
type stub struct {
	eth2wrap.Client
	err   error
	calls int
}

func (s *stub) Address() string { return "http://stub" }
func (s *stub) AttestationData(context.Context, *eth2api.AttestationDataOpts) (*eth2api.Response[*eth2p0.AttestationData], error) {
	s.calls++
	if s.err != nil {
		return nil, s.err
	}

	return &eth2api.Response[*eth2p0.AttestationData]{Data: &eth2p0.AttestationData{}}, nil
}

// TestReproNotSynced is the standalone reproduction of finding C19-notsynced-no-fallback (run with VERIF_REPRO=1):
// go-eth2-client's http service answers every duty endpoint of a node that is syncing with client.ErrNotSynced
// ("client is not synced", http/service.go assertIsSynced).  eth2wrap.isSyncingError looks for the substring
// "syncing", so a cluster whose only primary is syncing does not consult its healthy fallback node.
func TestReproNotSynced(t *testing.T) {
	if os.Getenv("VERIF_REPRO") == "" {
		t.Skip("VERIF_REPRO not set")
	}
	prim := &stub{err: eth2client.ErrNotSynced}
	fall := &stub{}
	m := eth2wrap.NewMultiForT([]eth2wrap.Client{prim}, []eth2wrap.Client{fall})
	_, err := m.AttestationData(context.Background(), &eth2api.AttestationDataOpts{})
	t.Logf("primary calls=%d fallback calls=%d err=%v", prim.calls, fall.calls, err)
	if err != nil || fall.calls != 1 {
		t.Fatalf("syncing primary, healthy fallback: call failed (%v), fallback consulted %d times", err, fall.calls)
	}
}
