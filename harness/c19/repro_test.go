package c19

import (
	"context"
	"os"
	"testing"
	"testing/synctest"
	"time"

	eth2client "github.com/attestantio/go-eth2-client"
	eth2api "github.com/attestantio/go-eth2-client/api"
	eth2p0 "github.com/attestantio/go-eth2-client/spec/phase0"

	"github.com/obolnetwork/charon/app/eth2wrap"
)

// stub answers AttestationData immediately.
type stub struct {
	eth2wrap.Client
	err   error
	calls int
}

func (s *stub) Address() string { return "http://stub" }
func (s *stub) AttestationData(context.Context, *eth2api.AttestationDataOpts) (*eth2api.Response[*eth2p0.AttestationData], error) {
	s.calls++
	if s.err != nil {
		return nil, s.err
	}

	return &eth2api.Response[*eth2p0.AttestationData]{Data: &eth2p0.AttestationData{}}, nil
}

// TestReproNotSynced is the standalone reproduction of finding C19-notsynced-no-fallback (run with VERIF_REPRO=1):
// go-eth2-client's http service answers every duty endpoint of a node that is syncing with client.ErrNotSynced
// ("client is not synced", http/service.go assertIsSynced).  eth2wrap.isSyncingError looks for the substring
// "syncing", so a cluster whose only primary is syncing does not consult its healthy fallback node.
func TestReproNotSynced(t *testing.T) {
	if os.Getenv("VERIF_REPRO") == "" {
		t.Skip("VERIF_REPRO not set")
	}
	prim := &stub{err: eth2client.ErrNotSynced}
	fall := &stub{}
	m := eth2wrap.NewMultiForT([]eth2wrap.Client{prim}, []eth2wrap.Client{fall})
	_, err := m.AttestationData(context.Background(), &eth2api.AttestationDataOpts{})
	t.Logf("primary calls=%d fallback calls=%d err=%v", prim.calls, fall.calls, err)
	if err != nil || fall.calls != 1 {
		t.Fatalf("syncing primary, healthy fallback: call failed (%v), fallback consulted %d times", err, fall.calls)
	}
}

// deafStub ignores the request context: it answers only when released.
type deafStub struct {
	eth2wrap.Client
	release chan struct{}
}

func (s *deafStub) Address() string { return "http://deaf" }
func (s *deafStub) AttestationData(context.Context, *eth2api.AttestationDataOpts) (*eth2api.Response[*eth2p0.AttestationData], error) {
	<-s.release // blocked on a mutex / in a DNS lookup / in a client that does not look at ctx

	return &eth2api.Response[*eth2p0.AttestationData]{Data: &eth2p0.AttestationData{}}, nil
}

// TestReproCancelDeaf is the standalone reproduction of finding C19-cancel-waits-for-deaf-node (run with
// VERIF_REPRO=1): provide() ranges over the join channel and looks at ctx.Err() only when a result arrives.  When every
// running request of the stage ignores its context, cancelling the caller's context does not return the call: it
// stays blocked until a node answers (here: one virtual hour later).
func TestReproCancelDeaf(t *testing.T) {
	if os.Getenv("VERIF_REPRO") == "" {
		t.Skip("VERIF_REPRO not set")
	}
	synctest.Test(t, func(t *testing.T) {
		node := &deafStub{release: make(chan struct{})}
		m := eth2wrap.NewMultiForT([]eth2wrap.Client{node}, nil)
		ctx, cancel := context.WithCancel(context.Background())
		t0 := time.Now()
		var (
			err   error
			retAt time.Duration
			done  = make(chan struct{})
		)
		go func() {
			defer close(done)
			_, err = m.AttestationData(ctx, &eth2api.AttestationDataOpts{})
			retAt = time.Since(t0)
		}()
		synctest.Wait()
		cancel()
		synctest.Wait() // every goroutine of the call is durably blocked now
		returned := false
		select {
		case <-done:
			returned = true
		default:
		}
		time.Sleep(time.Hour)
		close(node.release)
		<-done
		t.Logf("returned right after cancel: %v; returned at +%v with err=%v", returned, retAt, err)
		if !returned {
			t.Fatalf("cancelled call did not return until the stuck node was released (+%v)", retAt)
		}
	})
}
