package pedersen

import (
	"context"
	"fmt"
	"time"

	k1 "github.com/decred/dcrd/dcrec/secp256k1/v4"
	"github.com/libp2p/go-libp2p/core/peer"
	"github.com/libp2p/go-libp2p/core/protocol"

	"github.com/obolnetwork/charon/cluster"
	"github.com/obolnetwork/charon/dkg/bcast"
	cpedersen "github.com/obolnetwork/charon/dkg/pedersen"
	"github.com/obolnetwork/charon/dkg/share"
	"github.com/obolnetwork/charon/p2p"
)

// the direct-p2p protocols of pedersen.Board (board.go: path.Join(protocolID, ...)); the schedule delivers these
var scheduled = map[protocol.ID]string{
	"/charon/dkg/pedersen/1.0.0/deal_bundle":      "deal",
	"/charon/dkg/pedersen/1.0.0/resp_bundle":      "resp",
	"/charon/dkg/pedersen/1.0.0/just_bundle":      "just",
	"/charon/dkg/pedersen/1.0.0/val_pubkey_share": "share",
}

// phaseDuration: kyber's time phaser and the board's collection timeout (6 phases) never fire: virtual time does not
// advance while the driver runs (testing/synctest), and no verdict depends on time.
const phaseDuration = 1000 * time.Hour

type nodeResult struct {
	shares []share.Share
	err    error
}

// ceremony = n hosts on one in-memory network, each with the real reliable-broadcast component and the real
// pedersen.Board, wired as dkg.Run wires them (node i = peer index i-1 = share index i).
type ceremony struct {
	nw     *memNet
	n      int
	cfgs   []*cpedersen.Config
	boards []*cpedersen.Board
	done   []chan nodeResult
}

func newCeremony(ctx context.Context, n, thr, seed int) *ceremony {
	c := &ceremony{nw: newMemNet(scheduled), n: n}
	var (
		keys  []*k1.PrivateKey
		peers []peer.ID
	)
	peerMap := map[peer.ID]cluster.NodeIdx{}
	for i := 0; i < n; i++ {
		key, err := k1.GeneratePrivateKey()
		if err != nil {
			panic(err)
		}
		id, err := p2p.PeerIDFromKey(key.PubKey())
		if err != nil {
			panic(err)
		}
		keys, peers = append(keys, key), append(peers, id)
		peerMap[id] = cluster.NodeIdx{PeerIdx: i, ShareIdx: i + 1}
	}
	session := []byte(fmt.Sprintf("verif pedersen ceremony %08d......", seed))[:32]
	c.cfgs, c.boards, c.done = make([]*cpedersen.Config, n+1), make([]*cpedersen.Board, n+1), make([]chan nodeResult, n+1)
	for i := 1; i <= n; i++ {
		h := c.nw.addHost(peers[i-1], i)
		pm := map[peer.ID]cluster.NodeIdx{}
		for k, v := range peerMap {
			pm[k] = v
		}
		caster := bcast.New(h, peers, keys[i-1], session)
		c.cfgs[i] = cpedersen.NewConfig(peers[i-1], pm, thr, session, phaseDuration, nil)
		c.boards[i] = cpedersen.NewBoard(ctx, h, c.cfgs[i], caster)
		c.done[i] = make(chan nodeResult, 1)
	}

	return c
}

// start runs the unmodified RunDKG of node i on its own goroutine.
func (c *ceremony) start(ctx context.Context, i, nv int) {
	go func() {
		defer func() { // a node that panics has failed: log it, do not lose the other ceremonies
			if r := recover(); r != nil {
				c.done[i] <- nodeResult{nil, fmt.Errorf("panic: %v", r)}
			}
		}()
		sh, err := cpedersen.RunDKG(ctx, c.cfgs[i], c.boards[i], nv)
		c.done[i] <- nodeResult{sh, err}
	}()
}
