// Package pedersen executes Pedersen schedules (key generation ceremonies) on the real pedersen.RunDKG and records what
// the nodes did and which relations hold between their results.
//
// One ceremony = n goroutines, each running the unmodified RunDKG with its own real pedersen.Board and real
// reliable-broadcast component over an in-memory libp2p host (memnet_test.go).  The node public keys travel over the
// reliable broadcast and are delivered at once; every deal / response / justification bundle and every validator
// public-key-share message becomes a packet that stays in the network until the schedule delivers it: in any order, more
// than once.  The ceremony runs inside testing/synctest: after every stimulus synctest.Wait() returns exactly when all
// goroutines are blocked (exact quiescence, no sleeping); virtual time never advances while the schedule runs, so kyber's
// time phaser, the board's collection timeout and p2p's receive timeouts play no part and no verdict depends on time.
//
// Nothing here knows an expected value: the executor logs which packets a stimulus made appear, which nodes returned,
// and the outcome of real tbls calls on the results (equal, verifies, recovers).  The trace spec demands the model's values.
package pedersen

import (
	"bytes"
	"context"
	"math/rand"
	"sort"
	"testing"
	"testing/synctest"
	"time"

	"github.com/obolnetwork/charon/dkg/share"
	"github.com/obolnetwork/charon/tbls"

	"verifharness/drv"
)

var kindName = map[int]string{1: "deal", 2: "resp", 3: "just", 4: "share"}
var kindCode = map[string]int{"deal": 1, "resp": 2, "just": 3, "share": 4}

func TestExec(t *testing.T) {
	drv.QuietLogs(t)
	scheds := drv.ReadSchedules(t)
	tr := drv.NewTracer(t)
	defer tr.Close()
	for i, s := range scheds {
		for _, e := range runCeremony(t, i, s) {
			tr.Emit(e)
		}
	}
}

func runCeremony(t *testing.T, sid int, sched []drv.Step) []drv.Step {
	t.Helper()
	cfg := sched[0]
	n, thr, nv, p, seed := drv.Num(cfg["n"]), drv.Num(cfg["t"]), drv.Num(cfg["V"]), drv.Num(cfg["p"]), drv.Num(cfg["seed"])
	evs := []drv.Step{{"ev": "Reset", "sid": sid, "n": n, "t": thr, "V": nv, "p": p}}
	results := map[int]nodeResult{}
	complete := false

	synctest.Test(t, func(t *testing.T) {
		ctx, cancel := context.WithCancel(context.Background())
		c := newCeremony(ctx, n, thr, seed*1000+sid)
		defer func() {
			// leave the bubble: release everything that waits (time stops when this function returns)
			cancel()
			for k := 0; k < 3; k++ {
				for i := 1; i <= n; i++ {
					for drained := false; !drained; {
						select {
						case <-c.boards[i].IncomingValidatorPubKeyShares():
						default:
							drained = true
						}
					}
				}
				synctest.Wait()
			}
			time.Sleep(4 * phaseDuration)
		}()
		// observe: what the last stimulus made appear
		observe := func(ev drv.Step) {
			sent := [][]int{}
			for _, pk := range c.nw.newPackets() {
				sent = append(sent, []int{kindCode[pk.kind], pk.from, pk.to, pk.seq})
			}
			sort.Slice(sent, func(a, b int) bool {
				for x := 0; x < 4; x++ {
					if sent[a][x] != sent[b][x] {
						return sent[a][x] < sent[b][x]
					}
				}

				return false
			})
			done, failed, errs := []int{}, []int{}, []string{}
			for i := 1; i <= n; i++ {
				if _, ok := results[i]; ok {
					continue
				}
				select {
				case r := <-c.done[i]:
					results[i] = r
					if r.err == nil {
						done = append(done, i)
					} else {
						failed = append(failed, i)
						errs = append(errs, r.err.Error())
					}
				default:
				}
			}
			ev["sent"], ev["done"], ev["failed"] = sent, done, failed
			if len(errs) > 0 {
				ev["errs"] = errs
			}
			evs = append(evs, ev)
		}
		for _, st := range sched[1:] {
			switch drv.Str(st["ev"]) {
			case "Start":
				i := drv.Num(st["i"])
				c.start(ctx, i, nv)
				synctest.Wait()
				observe(drv.Step{"ev": "Start", "i": i, "c": st["c"]})
			case "D":
				k, i, j, v := drv.Num(st["k"]), drv.Num(st["i"]), drv.Num(st["j"]), drv.Num(st["v"])
				pk := c.nw.find(kindName[k], i, j, v)
				found := pk != nil && c.nw.deliver(pk)
				synctest.Wait()
				observe(drv.Step{"ev": "D", "k": k, "i": i, "j": j, "v": v, "found": found})
				if !found {
					evs = append(evs, drv.Step{"ev": "Abort", "why": "the packet to deliver was never sent"})
					return
				}
			default:
				t.Fatalf("unknown step %v", st)
			}
		}
		ok := len(results) == n
		for _, r := range results {
			ok = ok && r.err == nil
		}
		if !ok {
			evs = append(evs, drv.Step{"ev": "Abort", "why": "the schedule is over and not every node has returned a result"})
			return
		}
		complete = true
	})
	if complete {
		evs = append(evs, relations(n, thr, nv, results, rand.New(rand.NewSource(int64(seed)*7919+int64(sid)))))
	}

	return evs
}

func sortedKeys(m map[int]bool) []int {
	res := []int{}
	for k := range m {
		res = append(res, k)
	}
	sort.Ints(res)

	return res
}

// subsets returns all k-subsets of 1..n when there are at most max of them, otherwise the first, the last and
// max-2 random ones.
func subsets(n, k, max int, rng *rand.Rand) [][]int {
	var all [][]int
	if k <= 0 || k > n {
		return all
	}
	cnt := 1
	for i := 0; i < k; i++ {
		cnt = cnt * (n - i) / (i + 1)
	}
	if cnt <= max {
		var rec func(start int, cur []int)
		rec = func(start int, cur []int) {
			if len(cur) == k {
				all = append(all, append([]int{}, cur...))
				return
			}
			for x := start; x <= n; x++ {
				rec(x+1, append(cur, x))
			}
		}
		rec(1, nil)

		return all
	}
	first, last := []int{}, []int{}
	for i := 1; i <= k; i++ {
		first = append(first, i)
		last = append(last, n-k+i)
	}
	all = append(all, first, last)
	for len(all) < max {
		s := rng.Perm(n)[:k]
		for x := range s {
			s[x]++
		}
		if rng.Intn(2) == 0 {
			sort.Ints(s) // the view used is that of the first listed member: keep some unsorted
		}
		all = append(all, s)
	}

	return all
}

// relations computes, with real tbls calls, the relations between the nodes' results (as harness/c11 does): over EVERY
// subset of exactly t nodes (n <= 6) and over subsets of exactly t-1 nodes.
func relations(n, thr, nv int, results map[int]nodeResult, rng *rand.Rand) drv.Step {
	msg := make([]byte, 32)
	rng.Read(msg)
	at := func(j, v int) (share.Share, bool) {
		sh := results[j].shares
		if v >= len(sh) {
			return share.Share{}, false
		}

		return sh[v], true
	}
	gkeq, pseq := []bool{}, []bool{}
	for v := 0; v < nv; v++ {
		g, p := true, true
		s1, ok1 := at(1, v)
		for j := 2; j <= n; j++ {
			sj, okj := at(j, v)
			if !ok1 || !okj || sj.PubKey != s1.PubKey {
				g = false
			}
			if !ok1 || !okj || len(sj.PublicShares) != len(s1.PublicShares) {
				p = false
				continue
			}
			for k, x := range s1.PublicShares {
				if y, ok := sj.PublicShares[k]; !ok || x != y {
					p = false
				}
			}
		}
		gkeq, pseq = append(gkeq, g), append(pseq, p)
	}
	own, pskeys, nres := [][]bool{}, [][][]int{}, []int{}
	for j := 1; j <= n; j++ {
		row, keys := []bool{}, [][]int{}
		for v := 0; v < nv; v++ {
			sh, ok := at(j, v)
			r := false
			m := map[int]bool{}
			if ok {
				pub, err := tbls.SecretToPublicKey(sh.SecretShare)
				ps, has := sh.PublicShares[j]
				r = err == nil && has && pub == ps
				for k := range sh.PublicShares {
					m[k] = true
				}
			}
			row, keys = append(row, r), append(keys, sortedKeys(m))
		}
		own, pskeys, nres = append(own, row), append(pskeys, keys), append(nres, len(results[j].shares))
	}
	partial := map[[2]int]tbls.Signature{}
	havePartial := map[[2]int]bool{}
	for j := 1; j <= n; j++ {
		for v := 0; v < nv; v++ {
			if sh, ok := at(j, v); ok {
				if sig, err := tbls.Sign(sh.SecretShare, msg); err == nil {
					partial[[2]int{j, v}], havePartial[[2]int{j, v}] = sig, true
				}
			}
		}
	}
	aggregate := func(v int, S []int) (tbls.Signature, bool) {
		m := map[int]tbls.Signature{}
		for _, i := range S {
			if !havePartial[[2]int{i, v}] {
				return tbls.Signature{}, false
			}
			m[i] = partial[[2]int{i, v}]
		}
		sig, err := tbls.ThresholdAggregate(m)

		return sig, err == nil
	}
	subs, below := []drv.Step{}, []drv.Step{}
	for v := 0; v < nv; v++ {
		var first *tbls.Signature
		for _, S := range subsets(n, thr, 30, rng) {
			// the relations of a subset are evaluated in the view (PubKey, PublicShares) of a seeded member k
			k := S[rng.Intn(len(S))]
			view, ok := at(k, v)
			rec, psig, sigok, same := false, ok, false, false
			if ok {
				m := map[int]tbls.PublicKey{}
				for _, i := range S {
					ps, has := view.PublicShares[i]
					if !has {
						psig = false
						continue
					}
					m[i] = ps
					if !havePartial[[2]int{i, v}] || tbls.Verify(ps, msg, partial[[2]int{i, v}]) != nil {
						psig = false
					}
				}
				if len(m) == len(S) {
					pk, err := tbls.RecoverPubkey(m)
					rec = err == nil && pk == view.PubKey
				}
				if sig, ok := aggregate(v, S); ok {
					sigok = tbls.Verify(view.PubKey, msg, sig) == nil
					if first == nil {
						first = &sig
					}
					same = bytes.Equal(first[:], sig[:])
				}
			}
			subs = append(subs, drv.Step{"v": v, "S": S, "k": k, "rec": rec, "psig": psig, "sig": sigok, "same": same})
		}
		for _, S := range subsets(n, thr-1, 6, rng) {
			k := S[0]
			view, ok := at(k, v)
			sigok := false
			if ok {
				if sig, ok := aggregate(v, S); ok {
					sigok = tbls.Verify(view.PubKey, msg, sig) == nil
				}
			}
			below = append(below, drv.Step{"v": v, "S": S, "k": k, "sig": sigok})
		}
	}

	return drv.Step{"ev": "Check", "gkeq": gkeq, "pseq": pseq, "own": own, "pskeys": pskeys, "nres": nres, "subs": subs, "below": below}
}
