package pedersen

// Standalone reproduction of the "stale validator public-key-share" finding (see PedersenTrace.tla, deviation
// "stale-share"): the REAL pedersen.RunDKG on 3 goroutines over the in-memory network, every message delivered exactly
// once -- except ONE identical re-delivery of node 1's validator-0 public-key-share message to node 2 that arrives after
// node 2 completed its validator-0 collection.
//
//	go test -tags verif -run TestStaleShareRepro -v ./pedersen

import (
	"context"
	"testing"
	"testing/synctest"
	"time"

	"github.com/obolnetwork/charon/dkg/share"

	"verifharness/drv"
)

func TestStaleShareRepro(t *testing.T) {
	drv.QuietLogs(t)
	const n, thr, nv = 3, 2, 2
	var (
		res  [n + 1][]share.Share
		errs [n + 1]error
		note []string
	)
	synctest.Test(t, func(t *testing.T) {
		ctx, cancel := context.WithCancel(context.Background())
		defer cancel()
		c := newCeremony(ctx, n, thr, 1)
		for i := 1; i <= n; i++ {
			c.start(ctx, i, nv)
		}
		synctest.Wait()
		all := func(kind string, v int) {
			for i := 1; i <= n; i++ {
				for j := 1; j <= n; j++ {
					if i != j {
						p := c.nw.find(kind, i, j, v)
						if p == nil {
							t.Fatalf("packet %s v=%d %d->%d was not sent", kind, v, i, j)
						}
						c.nw.deliver(p)
						synctest.Wait()
					}
				}
			}
		}
		all("deal", 0)
		all("resp", 0)
		all("share", 0) // every node completes the validator-0 collection and deals for validator 1
		// the one re-delivery: node 1's validator-0 share message reaches node 2 a second time
		c.nw.deliver(c.nw.find("share", 1, 2, 0))
		synctest.Wait()
		all("deal", 1)
		all("resp", 1)
		all("share", 1)
		for i := 1; i <= n; i++ {
			select {
			case r := <-c.done[i]:
				res[i], errs[i] = r.shares, r.err
			default:
				note = append(note, "node did not return")
			}
		}
		cancel()
		time.Sleep(4 * phaseDuration) // virtual: lets kyber's sleeping time phasers run out (time stops when this function returns)
	})
	if len(note) > 0 {
		t.Fatalf("%v", note)
	}
	for i := 1; i <= n; i++ {
		if errs[i] != nil {
			t.Fatalf("node %d: RunDKG failed: %v", i, errs[i])
		}
	}
	bad := false
	for v := 0; v < nv; v++ {
		for i := 2; i <= n; i++ {
			for k := 1; k <= n; k++ {
				a, b := res[i][v].PublicShares[k], res[1][v].PublicShares[k]
				if a != b {
					bad = true
					t.Logf("validator %d: node %d holds public share %x.. for share index %d, node 1 holds %x..",
						v, i, a[:6], k, b[:6])
				}
			}
		}
	}
	if res[2][1].PublicShares[1] == res[2][0].PublicShares[1] {
		t.Logf("node 2: public share of index 1 for validator 1 EQUALS the one for validator 0 (stale message consumed)")
	}
	if bad {
		t.Fatalf("all nodes returned success but hold different public shares")
	}
}

// TestShareChannelFullHang: observation (liveness, not part of C11's statement): the board's validator public-key-share
// channel holds n entries and BroadcastValidatorPubKeyShare pushes the node's OWN entry with a plain blocking send.  A
// slow node that has received the n-1 genuine validator-0 messages plus ONE re-delivery before it finishes its own
// validator-0 DKG blocks forever in that send (the only reader is the same goroutine, later; ctx is not consulted).
func TestShareChannelFullHang(t *testing.T) {
	drv.QuietLogs(t)
	const n, thr, nv = 3, 2, 1
	var returned, returnedAfterDrain [n + 1]bool
	synctest.Test(t, func(t *testing.T) {
		ctx, cancel := context.WithCancel(context.Background())
		defer cancel()
		c := newCeremony(ctx, n, thr, 2)
		for i := 1; i <= n; i++ {
			c.start(ctx, i, nv)
		}
		synctest.Wait()
		send := func(kind string, i, j int) {
			p := c.nw.find(kind, i, j, 0)
			if p == nil {
				t.Fatalf("packet %s %d->%d was not sent", kind, i, j)
			}
			c.nw.deliver(p)
			synctest.Wait()
		}
		for i := 1; i <= n; i++ {
			for j := 1; j <= n; j++ {
				if i != j {
					send("deal", i, j)
				}
			}
		}
		for _, j := range []int{1, 3} { // nodes 1 and 3 finish the DKG; node 2 is slow (its responses are outstanding)
			for i := 1; i <= n; i++ {
				if i != j {
					send("resp", i, j)
				}
			}
		}
		send("share", 1, 2)
		send("share", 3, 2)
		send("share", 1, 2) // the re-delivery: node 2's channel now holds n entries
		send("resp", 1, 2)
		send("resp", 3, 2) // node 2 finishes its DKG, broadcasts its share and pushes its own entry ...
		send("share", 2, 1)
		send("share", 2, 3)
		send("share", 1, 3)
		send("share", 3, 1)
		poll := func(dst *[n + 1]bool) {
			for i := 1; i <= n; i++ {
				select {
				case r := <-c.done[i]:
					dst[i] = r.err == nil
					c.done[i] <- r
				default:
				}
			}
		}
		poll(&returned)
		select {
		case <-c.boards[2].IncomingValidatorPubKeyShares(): // take one entry out: the blocked send completes
		default:
		}
		synctest.Wait()
		poll(&returnedAfterDrain)
		cancel()
		time.Sleep(4 * phaseDuration)
	})
	t.Logf("returned successfully after every message was delivered: %v; after one entry was drained from node 2's channel: %v",
		returned[1:], returnedAfterDrain[1:])
	if !returned[2] {
		t.Fatalf("node 2 is blocked in BroadcastValidatorPubKeyShare (own entry, channel full) although every message was delivered")
	}
}
