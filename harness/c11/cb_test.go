package c11

import (
	"bytes"
	"context"
	"encoding/binary"
	"fmt"
	"runtime"
	"strconv"
	"strings"
	"sync"
	"time"

	"github.com/coinbase/kryptology/pkg/sharing"
	"github.com/libp2p/go-libp2p/core/host"
	p2pnet "github.com/libp2p/go-libp2p/core/network"
	"github.com/libp2p/go-libp2p/core/peer"
	"github.com/libp2p/go-libp2p/core/protocol"
	"google.golang.org/protobuf/proto"

	"github.com/obolnetwork/charon/app/errors"
	"github.com/obolnetwork/charon/dkg/bcast"
	pb "github.com/obolnetwork/charon/dkg/dkgpb/v1"
	"github.com/obolnetwork/charon/p2p"
)

// cbWorld is the wire of mode cb.  Every node runs the REAL frostP2P over a real bcast.Component whose client
// uses the in-memory transport below (hook bcast.VerifUseTransport): signature requests are answered by the peer's
// real handler at once, the resulting BCastMessages are CAPTURED and handed to the addressed node's real server
// handler (hook VerifHandleMessage: signature check, then frost's newBcastCallback) only when the schedule says so
// -- and again when it says "RD".  Round-1 share batches travel over real loopback libp2p streams (p2p.Send inside
// frostP2P.Round1); each incoming frost stream is PARKED in front of the real stream handler (newP2PCallback behind
// p2p.RegisterHandler) until the schedule releases it.
//
// Failing sends (schedule step "Fault"): the wire can make one send of a node's send step FAIL -- a direct share stream
// (gatedHost.NewStream refuses it, or failingStream reports a failed write after the batch is through), a signature
// request or a cast message of its reliable broadcast (the transport functions below) -- with libp2p's stream-reset /
// resource-scope-closed errors or a plain error.  What the node does then (give up, try again) is the node's business:
// the executor records it.  Every stimulus of this mode is followed by settle(): the event is logged, and the next move
// made, only when the stimulated node is quiescent.
type cbWorld struct {
	mu    sync.Mutex
	cond  *sync.Cond
	n     int
	ids   []peer.ID
	comps []*bcast.Component
	raw   []host.Host

	castIDs  map[int][]string            // per source: message ids in the order first broadcast (round 1, round 2)
	captured map[[3]int]*pb.BCastMessage // [src, dst, round] (1-based nodes)
	parked   map[[2]int][]chan struct{}  // [src, dst]: parked frost streams (release channels)
	handled  map[[2]int]int              // [src, dst]: streams whose real handler has returned
	arrived  map[[2]int]int              // [src, dst]: streams that reached the gate
	protos   map[[2]int]protocol.ID      // protocol of the first parked stream (used for re-sending)

	faults []*fault       // failing sends the schedule has armed (steps "Fault")
	resent map[int]int    // per source: sends the wire has seen a SECOND time (the node tried again)
	opened map[[2]int]int // [src, dst]: share streams src has opened to dst
}

// fault is one armed failing send: the k-th matching send of node i in round r fails `times` times in a row.
//
//	what  "p2p": a direct round-1 share stream node i opens (where = "open": NewStream fails; "write": the batch is
//	             written to the real stream and THEN the write reports the error -- the peer may well have it)
//	      "sig": a signature request of its reliable broadcast,  "msg": a cast message of its reliable broadcast
//	err   "reset" / "scope": libp2p's stream reset / resource scope closed (what a recycled relay circuit produces: the
//	      class p2p.IsRelayError accepts), "plain": any other error
type fault struct {
	i, r, k, times int
	what, err      string
	where          string
	seen, fired    int
}

func (f *fault) error() error {
	switch f.err {
	case "reset":
		if f.where == "write" {
			return p2pnet.ErrReset
		}

		return fmt.Errorf("failed to open stream: %w", p2pnet.ErrReset) // as the swarm wraps it
	case "scope":
		return p2pnet.ErrResourceScopeClosed
	default:
		return errors.New("verif wire: connection refused")
	}
}

func (w *cbWorld) arm(f *fault) {
	w.mu.Lock()
	defer w.mu.Unlock()
	w.faults = append(w.faults, f)
}

// hit reports whether this send of node i (round r, kind what) is one that fails.
func (w *cbWorld) hit(i, r int, what string) *fault {
	w.mu.Lock()
	defer w.mu.Unlock()
	for _, f := range w.faults {
		if f.i != i || f.r != r || f.what != what {
			continue
		}
		f.seen++
		if f.seen >= f.k && f.fired < f.times {
			f.fired++

			return f
		}
	}

	return nil
}

// fired: injected failures so far; again: sends of node i the wire has seen a second time.
func (w *cbWorld) stats(i int) (int, int) {
	w.mu.Lock()
	defer w.mu.Unlock()
	n := 0
	for _, f := range w.faults {
		if f.i == i {
			n += f.fired
		}
	}

	return n, w.resent[i]
}

func castRound(id string) int {
	if strings.Contains(id, "round2") {
		return 2
	}

	return 1
}

// NewStream: the direct sends of the real frostP2P.Round1 (p2p.Send) open their streams here.
func (g *gatedHost) NewStream(ctx context.Context, p peer.ID, pids ...protocol.ID) (p2pnet.Stream, error) {
	if len(pids) == 0 || !strings.Contains(string(pids[0]), "/frost/") {
		return g.Host.NewStream(ctx, p, pids...)
	}
	f := g.w.hit(g.self, 1, "p2p")
	if f != nil && f.where != "write" {
		return nil, f.error()
	}
	s, err := g.Host.NewStream(ctx, p, pids...)
	if err == nil {
		g.w.mu.Lock()
		key := [2]int{g.self, g.w.idx(p)}
		if g.w.opened[key]++; g.w.opened[key] > 1 {
			g.w.resent[g.self]++
		}
		g.w.mu.Unlock()
	}
	if err != nil || f == nil {
		return s, err
	}

	return &failingStream{Stream: s, err: f.error()}, nil
}

// failingStream passes the data on and reports a failed write once the whole length-delimited message is through
// (the writer of p2p.Send writes the uvarint length prefix and the body separately): the peer holds the complete batch.
type failingStream struct {
	p2pnet.Stream
	err  error
	head []byte // the first bytes written (length prefix)
	sent int
}

func (s *failingStream) Write(b []byte) (int, error) {
	n, err := s.Stream.Write(b)
	if err != nil {
		return n, err
	}
	if len(s.head) < binary.MaxVarintLen64 {
		s.head = append(s.head, b[:min(n, binary.MaxVarintLen64-len(s.head))]...)
	}
	s.sent += n
	if size, k := binary.Uvarint(s.head); k > 0 && s.sent >= k+int(size) {
		return n, s.err
	}

	return n, nil
}

// releaseAll lets every parked stream through (end of a ceremony: nothing is left blocked behind the gate).
func (w *cbWorld) releaseAll() {
	w.mu.Lock()
	defer w.mu.Unlock()
	for k, l := range w.parked {
		for _, rel := range l {
			close(rel)
		}
		delete(w.parked, k)
	}
}

// ---- quiescence ---------------------------------------------------------------------------------------------
// A node is QUIESCENT when its goroutine is parked in the receive loop of its real transport call (the select of
// frostP2P.Round1 / Round2: the Go runtime parks a goroutine in a select only when every channel of the select is
// empty, and a later send wakes it at once, so a parked node has consumed everything it was given), when the call
// has returned and the node waits for the schedule to hand the answer back (the select in nodeTP), or when it has
// returned from runFrostParallel.  Read off the runtime's own goroutine dump; nothing is inferred from elapsed time.

var stackBuf = make([]byte, 1<<21)

func goid() int64 {
	buf := make([]byte, 64)
	buf = buf[:runtime.Stack(buf, false)] // "goroutine 123 [running]:"
	f := strings.Fields(string(buf))
	if len(f) < 2 {
		return -1
	}
	id, err := strconv.ParseInt(f[1], 10, 64)
	if err != nil {
		return -1
	}

	return id
}

// parked reports whether goroutine id is parked in a select directly inside one of the transport calls (or is gone).
func parked(id int64) bool {
	var dump []byte
	for {
		n := runtime.Stack(stackBuf, true)
		if n < len(stackBuf) {
			dump = stackBuf[:n]
			break
		}
		stackBuf = make([]byte, 2*len(stackBuf))
	}
	hdr := []byte(fmt.Sprintf("goroutine %d [", id))
	at := -1
	if bytes.HasPrefix(dump, hdr) {
		at = 0
	} else if k := bytes.Index(dump, append([]byte("\n\n"), hdr...)); k >= 0 {
		at = k + 2
	}
	if at < 0 {
		return true // the goroutine has ended
	}
	block := dump[at:]
	if k := bytes.Index(block, []byte("\n\n")); k >= 0 {
		block = block[:k]
	}
	lines := strings.Split(string(block), "\n")
	if !strings.HasPrefix(lines[0][len(hdr):], "select") {
		return false
	}
	for _, ln := range lines[1:] {
		if strings.HasPrefix(ln, "\t") || strings.HasPrefix(ln, "runtime.") {
			continue
		}

		return strings.Contains(ln, "dkg.(*frostP2P).Round") || strings.Contains(ln, "c11.(*nodeTP).Round")
	}

	return false
}

// settle waits until node goroutine id is quiescent; false after the generous wait (a node that is stuck).
func settle(id int64) bool {
	deadline := time.Now().Add(waitFor)
	pause := 50 * time.Microsecond
	for !parked(id) {
		if time.Now().After(deadline) {
			return false
		}
		time.Sleep(pause)
		if pause < 4*time.Millisecond {
			pause *= 2
		}
	}

	return true
}

func newCBWorld(n int) *cbWorld {
	w := &cbWorld{
		n: n, castIDs: map[int][]string{}, captured: map[[3]int]*pb.BCastMessage{}, parked: map[[2]int][]chan struct{}{},
		handled: map[[2]int]int{}, arrived: map[[2]int]int{}, protos: map[[2]int]protocol.ID{}, resent: map[int]int{}, opened: map[[2]int]int{},
	}
	w.cond = sync.NewCond(&w.mu)

	return w
}

func (w *cbWorld) idx(p peer.ID) int {
	for i, q := range w.ids {
		if p == q {
			return i + 1
		}
	}

	return 0
}

// gatedHost parks incoming frost streams in front of the handler the real code registered.
type gatedHost struct {
	host.Host
	w    *cbWorld
	self int
}

func (g *gatedHost) SetStreamHandlerMatch(pid protocol.ID, m func(protocol.ID) bool, h p2pnet.StreamHandler) {
	g.Host.SetStreamHandlerMatch(pid, m, func(s p2pnet.Stream) {
		if !strings.Contains(string(s.Protocol()), "/frost/") {
			h(s)
			return
		}
		w := g.w
		key := [2]int{w.idx(s.Conn().RemotePeer()), g.self}
		rel := make(chan struct{})
		w.mu.Lock()
		w.parked[key] = append(w.parked[key], rel)
		w.arrived[key]++
		if _, ok := w.protos[key]; !ok {
			w.protos[key] = s.Protocol()
		}
		w.cond.Broadcast()
		w.mu.Unlock()
		<-rel
		h(s) // the real handler: read the message, newP2PCallback
		w.mu.Lock()
		w.handled[key]++
		w.cond.Broadcast()
		w.mu.Unlock()
	})
}

// transport functions of node a's bcast client
func (w *cbWorld) sendRecv(a int) p2p.SendReceiveFunc {
	return func(ctx context.Context, _ host.Host, peerID peer.ID, req, resp proto.Message, _ protocol.ID, _ ...p2p.SendRecvOption) error {
		b := w.idx(peerID)
		sigReq, ok := req.(*pb.BCastSigRequest)
		if b == 0 || !ok {
			return errors.New("verif wire: unexpected signature request")
		}
		if f := w.hit(a, castRound(sigReq.GetId()), "sig"); f != nil {
			return f.error()
		}
		r, err := w.comps[b-1].VerifHandleSigRequest(ctx, w.ids[a-1], sigReq)
		if err != nil {
			return err
		}
		proto.Merge(resp, r)

		return nil
	}
}

func (w *cbWorld) send(a int) p2p.SendFunc {
	return func(_ context.Context, _ host.Host, _ protocol.ID, peerID peer.ID, msg proto.Message, _ ...p2p.SendRecvOption) error {
		b := w.idx(peerID)
		m, ok := msg.(*pb.BCastMessage)
		if b == 0 || !ok {
			return errors.New("verif wire: unexpected broadcast message")
		}
		if f := w.hit(a, castRound(m.GetId()), "msg"); f != nil {
			return f.error()
		}
		w.mu.Lock()
		defer w.mu.Unlock()
		round := 0
		for k, id := range w.castIDs[a] {
			if id == m.GetId() {
				round = k + 1
			}
		}
		if round == 0 {
			w.castIDs[a] = append(w.castIDs[a], m.GetId())
			round = len(w.castIDs[a])
		}
		if w.captured[[3]int{a, b, round}] != nil {
			w.resent[a]++
		}
		w.captured[[3]int{a, b, round}] = proto.Clone(m).(*pb.BCastMessage)
		w.cond.Broadcast()

		return nil
	}
}

// waitFor blocks until pred holds (checked under the lock on every change); false after a generous wait.
func (w *cbWorld) wait(pred func() bool) bool {
	deadline := time.Now().Add(waitFor)
	stop := time.AfterFunc(waitFor, func() {
		w.mu.Lock()
		w.cond.Broadcast()
		w.mu.Unlock()
	})
	defer stop.Stop()
	w.mu.Lock()
	defer w.mu.Unlock()
	for !pred() {
		if time.Now().After(deadline) {
			return false
		}
		w.cond.Wait()
	}

	return true
}

// sentAll: node i's broadcast of the given round was captured for every peer.
func (w *cbWorld) castCaptured(i, round int) bool {
	return w.wait(func() bool {
		for j := 1; j <= w.n; j++ {
			if j != i && w.captured[[3]int{i, j, round}] == nil {
				return false
			}
		}

		return true
	})
}

// sharesParked: a share stream of node i has reached the gate of every peer.
func (w *cbWorld) sharesParked(i int) bool {
	return w.wait(func() bool {
		for j := 1; j <= w.n; j++ {
			if j != i && w.arrived[[2]int{i, j}] == 0 {
				return false
			}
		}

		return true
	})
}

// deliverCast hands the captured cast to j's real bcast server handler (again, for a re-delivery).
// The second result reports a handler that does not return (a callback stuck on a full channel).
func (w *cbWorld) deliverCast(ctx context.Context, i, j, round int) (error, bool) {
	w.mu.Lock()
	m := w.captured[[3]int{i, j, round}]
	w.mu.Unlock()
	if m == nil {
		return errors.New("verif wire: no such cast was broadcast"), false
	}
	res := make(chan error, 1)
	go func() { res <- w.comps[j-1].VerifHandleMessage(ctx, w.ids[i-1], proto.Clone(m).(*pb.BCastMessage)) }()
	select {
	case err := <-res:
		return err, false
	case <-time.After(waitFor):
		return nil, true
	}
}

// releaseShare lets one parked share stream i->j through to the real handler and waits until it has returned.
func (w *cbWorld) releaseShare(i, j int) bool {
	key := [2]int{i, j}
	var before int
	ok := w.wait(func() bool { return len(w.parked[key]) > 0 })
	if !ok {
		return false
	}
	w.mu.Lock()
	rel := w.parked[key][0]
	w.parked[key] = w.parked[key][1:]
	before = w.handled[key]
	w.mu.Unlock()
	close(rel)

	return w.wait(func() bool { return w.handled[key] > before })
}

// resendShares sends node i's round-1 share batch for j once more (rebuilt from what i handed to its transport),
// over a new stream from i's host, as a re-sending network layer would.
func (w *cbWorld) resendShares(ctx context.Context, i, j int, shares map[mkey]sharing.ShamirShare) error {
	msg := new(pb.FrostRound1P2P)
	for k, sh := range shares {
		if int(k.TargetID) != j {
			continue
		}
		msg.Shares = append(msg.Shares, &pb.FrostRound1ShamirShare{
			Key:   &pb.FrostMsgKey{ValIdx: k.ValIdx, SourceId: k.SourceID, TargetId: k.TargetID},
			Id:    sh.Id,
			Value: sh.Value,
		})
	}
	w.mu.Lock()
	pid := w.protos[[2]int{i, j}]
	w.mu.Unlock()

	return p2p.Send(ctx, w.raw[i-1], pid, w.ids[j-1], msg)
}
