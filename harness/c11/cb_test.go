package c11

import (
	"context"
	"strings"
	"sync"
	"time"

	"github.com/coinbase/kryptology/pkg/sharing"
	"github.com/libp2p/go-libp2p/core/host"
	p2pnet "github.com/libp2p/go-libp2p/core/network"
	"github.com/libp2p/go-libp2p/core/peer"
	"github.com/libp2p/go-libp2p/core/protocol"
	"google.golang.org/protobuf/proto"

	"github.com/obolnetwork/charon/app/errors"
	"github.com/obolnetwork/charon/dkg/bcast"
	pb "github.com/obolnetwork/charon/dkg/dkgpb/v1"
	"github.com/obolnetwork/charon/p2p"
)

// cbWorld is the wire of mode cb.  Every node runs the REAL frostP2P over a real bcast.Component whose client
// uses the in-memory transport below (hook bcast.VerifUseTransport): signature requests are answered by the peer's
// real handler at once, the resulting BCastMessages are CAPTURED and handed to the addressed node's real server
// handler (hook VerifHandleMessage: signature check, then frost's newBcastCallback) only when the schedule says so
// -- and again when it says "RD".  Round-1 share batches travel over real loopback libp2p streams (p2p.Send inside
// frostP2P.Round1); each incoming frost stream is PARKED in front of the real stream handler (newP2PCallback behind
// p2p.RegisterHandler) until the schedule releases it.
type cbWorld struct {
	mu    sync.Mutex
	cond  *sync.Cond
	n     int
	ids   []peer.ID
	comps []*bcast.Component
	raw   []host.Host

	castIDs  map[int][]string                 // per source: message ids in the order first broadcast (round 1, round 2)
	captured map[[3]int]*pb.BCastMessage      // [src, dst, round] (1-based nodes)
	parked   map[[2]int][]chan struct{}       // [src, dst]: parked frost streams (release channels)
	handled  map[[2]int]int                   // [src, dst]: streams whose real handler has returned
	arrived  map[[2]int]int                   // [src, dst]: streams that reached the gate
	protos   map[[2]int]protocol.ID           // protocol of the first parked stream (used for re-sending)
}

func newCBWorld(n int) *cbWorld {
	w := &cbWorld{
		n: n, castIDs: map[int][]string{}, captured: map[[3]int]*pb.BCastMessage{}, parked: map[[2]int][]chan struct{}{},
		handled: map[[2]int]int{}, arrived: map[[2]int]int{}, protos: map[[2]int]protocol.ID{},
	}
	w.cond = sync.NewCond(&w.mu)

	return w
}

func (w *cbWorld) idx(p peer.ID) int {
	for i, q := range w.ids {
		if p == q {
			return i + 1
		}
	}

	return 0
}

// gatedHost parks incoming frost streams in front of the handler the real code registered.
type gatedHost struct {
	host.Host
	w    *cbWorld
	self int
}

func (g *gatedHost) SetStreamHandlerMatch(pid protocol.ID, m func(protocol.ID) bool, h p2pnet.StreamHandler) {
	g.Host.SetStreamHandlerMatch(pid, m, func(s p2pnet.Stream) {
		if !strings.Contains(string(s.Protocol()), "/frost/") {
			h(s)
			return
		}
		w := g.w
		key := [2]int{w.idx(s.Conn().RemotePeer()), g.self}
		rel := make(chan struct{})
		w.mu.Lock()
		w.parked[key] = append(w.parked[key], rel)
		w.arrived[key]++
		if _, ok := w.protos[key]; !ok {
			w.protos[key] = s.Protocol()
		}
		w.cond.Broadcast()
		w.mu.Unlock()
		<-rel
		h(s) // the real handler: read the message, newP2PCallback
		w.mu.Lock()
		w.handled[key]++
		w.cond.Broadcast()
		w.mu.Unlock()
	})
}

// transport functions of node a's bcast client
func (w *cbWorld) sendRecv(a int) p2p.SendReceiveFunc {
	return func(ctx context.Context, _ host.Host, peerID peer.ID, req, resp proto.Message, _ protocol.ID, _ ...p2p.SendRecvOption) error {
		b := w.idx(peerID)
		sigReq, ok := req.(*pb.BCastSigRequest)
		if b == 0 || !ok {
			return errors.New("verif wire: unexpected signature request")
		}
		r, err := w.comps[b-1].VerifHandleSigRequest(ctx, w.ids[a-1], sigReq)
		if err != nil {
			return err
		}
		proto.Merge(resp, r)

		return nil
	}
}

func (w *cbWorld) send(a int) p2p.SendFunc {
	return func(_ context.Context, _ host.Host, _ protocol.ID, peerID peer.ID, msg proto.Message, _ ...p2p.SendRecvOption) error {
		b := w.idx(peerID)
		m, ok := msg.(*pb.BCastMessage)
		if b == 0 || !ok {
			return errors.New("verif wire: unexpected broadcast message")
		}
		w.mu.Lock()
		defer w.mu.Unlock()
		round := 0
		for k, id := range w.castIDs[a] {
			if id == m.GetId() {
				round = k + 1
			}
		}
		if round == 0 {
			w.castIDs[a] = append(w.castIDs[a], m.GetId())
			round = len(w.castIDs[a])
		}
		w.captured[[3]int{a, b, round}] = proto.Clone(m).(*pb.BCastMessage)
		w.cond.Broadcast()

		return nil
	}
}

// waitFor blocks until pred holds (checked under the lock on every change); false after a generous wait.
func (w *cbWorld) wait(pred func() bool) bool {
	deadline := time.Now().Add(waitFor)
	stop := time.AfterFunc(waitFor, func() {
		w.mu.Lock()
		w.cond.Broadcast()
		w.mu.Unlock()
	})
	defer stop.Stop()
	w.mu.Lock()
	defer w.mu.Unlock()
	for !pred() {
		if time.Now().After(deadline) {
			return false
		}
		w.cond.Wait()
	}

	return true
}

// sentAll: node i's broadcast of the given round was captured for every peer.
func (w *cbWorld) castCaptured(i, round int) bool {
	return w.wait(func() bool {
		for j := 1; j <= w.n; j++ {
			if j != i && w.captured[[3]int{i, j, round}] == nil {
				return false
			}
		}

		return true
	})
}

// sharesParked: a share stream of node i has reached the gate of every peer.
func (w *cbWorld) sharesParked(i int) bool {
	return w.wait(func() bool {
		for j := 1; j <= w.n; j++ {
			if j != i && w.arrived[[2]int{i, j}] == 0 {
				return false
			}
		}

		return true
	})
}

// deliverCast hands the captured cast to j's real bcast server handler (again, for a re-delivery).
func (w *cbWorld) deliverCast(ctx context.Context, i, j, round int) error {
	w.mu.Lock()
	m := w.captured[[3]int{i, j, round}]
	w.mu.Unlock()
	if m == nil {
		return errors.New("verif wire: no such cast was broadcast")
	}

	return w.comps[j-1].VerifHandleMessage(ctx, w.ids[i-1], proto.Clone(m).(*pb.BCastMessage))
}

// releaseShare lets one parked share stream i->j through to the real handler and waits until it has returned.
func (w *cbWorld) releaseShare(i, j int) bool {
	key := [2]int{i, j}
	var before int
	ok := w.wait(func() bool { return len(w.parked[key]) > 0 })
	if !ok {
		return false
	}
	w.mu.Lock()
	rel := w.parked[key][0]
	w.parked[key] = w.parked[key][1:]
	before = w.handled[key]
	w.mu.Unlock()
	close(rel)

	return w.wait(func() bool { return w.handled[key] > before })
}

// resendShares sends node i's round-1 share batch for j once more (rebuilt from what i handed to its transport),
// over a new stream from i's host, as a re-sending network layer would.
func (w *cbWorld) resendShares(ctx context.Context, i, j int, shares map[mkey]sharing.ShamirShare) error {
	msg := new(pb.FrostRound1P2P)
	for k, sh := range shares {
		if int(k.TargetID) != j {
			continue
		}
		msg.Shares = append(msg.Shares, &pb.FrostRound1ShamirShare{
			Key:   &pb.FrostMsgKey{ValIdx: k.ValIdx, SourceId: k.SourceID, TargetId: k.TargetID},
			Id:    sh.Id,
			Value: sh.Value,
		})
	}
	w.mu.Lock()
	pid := w.protos[[2]int{i, j}]
	w.mu.Unlock()

	return p2p.Send(ctx, w.raw[i-1], pid, w.ids[j-1], msg)
}
