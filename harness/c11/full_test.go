package c11

import (
	"context"
	"encoding/json"
	"fmt"
	"math/rand"
	"os"
	"path"
	"testing"
	"time"

	eth2p0 "github.com/attestantio/go-eth2-client/spec/phase0"

	"github.com/obolnetwork/charon/app/k1util"
	"github.com/obolnetwork/charon/app/log"
	"github.com/obolnetwork/charon/cluster"
	"github.com/obolnetwork/charon/dkg"
	"github.com/obolnetwork/charon/dkg/share"
	dkgsync "github.com/obolnetwork/charon/dkg/sync"
	"github.com/obolnetwork/charon/eth2util"
	"github.com/obolnetwork/charon/eth2util/deposit"
	"github.com/obolnetwork/charon/eth2util/keystore"
	"github.com/obolnetwork/charon/p2p"
	"github.com/obolnetwork/charon/tbls"
	"github.com/obolnetwork/charon/tbls/tblsconv"
	"github.com/obolnetwork/charon/testutil"
	"github.com/obolnetwork/charon/testutil/relay"

	"verifharness/drv"
)

// runFull runs one complete in-process dkg.Run ceremony (mode full) over a local relay, exactly as dkg_test.go's
// testDKG does, and logs what the written artifacts satisfy:
//
//	{"ev":"Full","run":[Run returned nil, per node],"hashes":[lock.VerifyHashes()==nil per node],
//	 "sigs":[lock.VerifySignatures()==nil per node],"samelock":all lock hashes equal,
//	 "deposit":every deposit data signature verifies under its validator key}
//
// followed by the Check event over (lock public shares, keystore secret shares) per node.
func runFull(t *testing.T, tr sink, sid int, cfg drv.Step) bool {
	t.Helper()
	n, thr, nv, p, seed := drv.Num(cfg["n"]), drv.Num(cfg["t"]), drv.Num(cfg["V"]), drv.Num(cfg["p"]), drv.Num(cfg["seed"])
	tr.Emit(drv.Step{"ev": "Reset", "sid": sid, "n": n, "t": thr, "V": nv, "p": p, "mode": "full", "c": cfg["c"]})

	ctx, cancel := context.WithCancel(context.Background())
	defer cancel()

	random := rand.New(rand.NewSource(int64(seed)))
	lock, keys, _ := cluster.NewForT(t, nv, thr, n, seed, random, func(d *cluster.Definition) {
		d.DKGAlgorithm = "frost"
		d.TargetGasLimit = 30000000
	})
	def := lock.Definition
	dir := t.TempDir()
	relayAddr := relay.StartRelay(ctx, t)

	conf := dkg.Config{
		P2P: p2p.Config{Relays: []string{relayAddr}},
		Log: log.DefaultConfig(),
		TestConfig: dkg.TestConfig{
			Def: &def,
			StoreKeysFunc: func(secrets []tbls.PrivateKey, dir string) error {
				return keystore.StoreKeysInsecure(secrets, dir, keystore.ConfirmInsecureKeys)
			},
			SyncOpts: []func(*dkgsync.Client){dkgsync.WithPeriod(time.Millisecond * 50)},
		},
		ShutdownDelay:  1 * time.Second,
		PublishTimeout: 30 * time.Second,
		Timeout:        20 * time.Second,
	}
	errs := make(chan [2]any, n)
	for i := 0; i < n; i++ {
		c := conf
		c.DataDir = path.Join(dir, fmt.Sprintf("node%d", i))
		c.P2P.TCPAddrs = []string{testutil.AvailableAddr(t).String()}
		if err := os.MkdirAll(c.DataDir, 0o755); err != nil {
			t.Fatal(err)
		}
		if err := k1util.Save(keys[i], p2p.KeyPath(c.DataDir)); err != nil {
			t.Fatal(err)
		}
		go func() {
			errs <- [2]any{i, dkg.Run(ctx, c)}
		}()
		if i == 0 {
			time.Sleep(100 * time.Millisecond) // as dkg_test.go: mitigates startup backoffs, not required
		}
	}
	run := make([]bool, n)
	allOK := true
	errTxt := []string{}
	for k := 0; k < n; k++ {
		select {
		case e := <-errs:
			run[e[0].(int)] = e[1] == nil
			if e[1] != nil {
				errTxt = append(errTxt, fmt.Sprint(e[1]))
				allOK = false
				cancel()
			}
		case <-time.After(3 * time.Minute):
			tr.Emit(drv.Step{"ev": "Hang"})
			return true
		}
	}
	hashes, sigs := make([]bool, n), make([]bool, n)
	samelock, dep := true, true
	results := map[int]result{}
	var first []byte
	for i := 0; allOK && i < n; i++ {
		dataDir := path.Join(dir, fmt.Sprintf("node%d", i))
		var lk cluster.Lock
		b, err := os.ReadFile(path.Join(dataDir, "cluster-lock.json"))
		if err != nil || json.Unmarshal(b, &lk) != nil {
			samelock = false
			continue
		}
		hashes[i], sigs[i] = lk.VerifyHashes() == nil, lk.VerifySignatures(nil) == nil
		if i == 0 {
			first = lk.LockHash
		} else if string(first) != string(lk.LockHash) {
			samelock = false
		}
		network, _ := eth2util.ForkVersionToNetwork(lk.ForkVersion)
		var secrets []tbls.PrivateKey
		if kf, err := keystore.LoadFilesUnordered(path.Join(dataDir, "validator_keys")); err == nil {
			secrets, _ = kf.SequencedKeys()
		}
		var shares []share.Share
		for v, val := range lk.Validators {
			sh := share.Share{PublicShares: map[int]tbls.PublicKey{}}
			if pk, err := tblsconv.PubkeyFromBytes(val.PubKey); err == nil {
				sh.PubKey = pk
			}
			for k, raw := range val.PubShares {
				if ps, err := tblsconv.PubkeyFromBytes(raw); err == nil {
					sh.PublicShares[k+1] = ps // cluster lock: PubShares[k] belongs to share index k+1
				}
			}
			if v < len(secrets) {
				sh.SecretShare = secrets[v]
			}
			shares = append(shares, sh)
			if len(val.PartialDepositData) == 0 {
				dep = false
			}
			for _, dd := range val.PartialDepositData {
				msg := eth2p0.DepositMessage{
					PublicKey:             eth2p0.BLSPubKey(dd.PubKey),
					WithdrawalCredentials: dd.WithdrawalCredentials,
					Amount:                eth2p0.Gwei(dd.Amount),
				}
				root, err := deposit.GetMessageSigningRoot(msg, network)
				sig, err2 := tblsconv.SignatureFromBytes(dd.Signature)
				if err != nil || err2 != nil || string(dd.PubKey) != string(val.PubKey) || tbls.Verify(sh.PubKey, root[:], sig) != nil {
					dep = false
				}
			}
		}
		results[i+1] = result{shares: shares}
	}
	tr.Emit(drv.Step{"ev": "Full", "run": run, "hashes": hashes, "sigs": sigs, "samelock": samelock && allOK, "deposit": dep && allOK, "errs": errTxt})
	if len(results) != n {
		tr.Emit(drv.Step{"ev": "Abort"})
		return false
	}
	tr.Emit(relations(n, thr, nv, results, rand.New(rand.NewSource(int64(seed)+1))))

	return false
}
