// Package c11 executes Frost schedules (key generation ceremonies) on the real dkg.runFrostParallel and records
// what the nodes did and which relations hold between their results.
//
// One ceremony = n goroutines, each running the unmodified runFrostParallel (hook dkg/verif_export.go, build tag
// verif) over a transport facade.  Two modes:
//
//	mem  the facade belongs to an in-memory network that follows the transport contract of dkg/frostp2p.go (per
//	     (source, target) batches routed by msgKey.TargetID, own cast self-delivered); WHICH batch is delivered
//	     when and WHEN a node's Round1/Round2 call is answered is the schedule's (D1C, D1P, D2, Ret1, Ret2).
//	p2p  the facade wraps the REAL frostP2P (newFrostP2P over real libp2p TCP hosts on loopback and the real
//	     reliable-broadcast component, peers and share indices taken from a real cluster.Definition.NodeIdx as
//	     dkg.Run does); the schedule decides the order in which the nodes enter round 1 and in which their
//	     answered Round1/Round2 calls are handed back (deliveries are the network's business).
//
// Nothing here knows an expected value: the executor logs key sets, error/no error, and the outcome of real
// kryptology / tbls calls on the outputs (equal, verifies, recovers).  The trace spec demands the model's values.
package c11

import (
	"bytes"
	"context"
	"fmt"
	"math/rand"
	"os"
	"runtime"
	"sort"
	"strings"
	"sync"
	"sync/atomic"
	"testing"
	"time"

	"github.com/coinbase/kryptology/pkg/dkg/frost"
	"github.com/coinbase/kryptology/pkg/sharing"
	"github.com/libp2p/go-libp2p/core/host"
	"github.com/libp2p/go-libp2p/core/peer"
	"github.com/libp2p/go-libp2p/core/peerstore"

	"github.com/obolnetwork/charon/cluster"
	"github.com/obolnetwork/charon/dkg"
	"github.com/obolnetwork/charon/dkg/bcast"
	"github.com/obolnetwork/charon/dkg/share"
	"github.com/obolnetwork/charon/p2p"
	"github.com/obolnetwork/charon/tbls"
	"github.com/obolnetwork/charon/testutil"

	"verifharness/drv"
)

const waitFor = 60 * time.Second // "must have happened" wait: only exhausted by a real hang

type mkey = dkg.VerifMsgKey

// network is the in-memory transport of one ceremony (mode mem) and the call recorder of both modes.
type network struct {
	mu    sync.Mutex
	n     int
	cast1 map[int]map[mkey]frost.Round1Bcast   // by source node: what it handed to transport Round1
	p2p1  map[int]map[mkey]sharing.ShamirShare // by source node, all targets
	cast2 map[int]map[mkey]frost.Round2Bcast
	got1c map[int]map[int]bool // [target][source]: batch delivered
	got1p map[int]map[int]bool
	got2  map[int]map[int]bool

	called1, called2     []chan struct{} // node entered transport Round1 / Round2
	returned1, returned2 []chan struct{} // p2p: the real transport answered
	rel1, rel2           []chan struct{} // the schedule hands the answer back
	done                 []chan result

	gid      []atomic.Int64 // goroutine of node i (mode cb: quiescence is read off the runtime's goroutine dump)
	in1, in2 []*innerRet    // what the REAL transport call of node i returned (modes p2p, cb)
}

// innerRet: the outcome of a real frostP2P.Round1 / Round2 call, recorded before it is handed back to the node.
type innerRet struct {
	err         error
	used, usedp []int // sources (SourceID) of the casts / share batches in the returned maps
}

type result struct {
	shares []share.Share
	err    error
}

func newNetwork(n int) *network {
	nw := &network{
		n: n, cast1: map[int]map[mkey]frost.Round1Bcast{}, p2p1: map[int]map[mkey]sharing.ShamirShare{},
		cast2: map[int]map[mkey]frost.Round2Bcast{}, got1c: map[int]map[int]bool{}, got1p: map[int]map[int]bool{},
		got2: map[int]map[int]bool{},
	}
	mk := func() []chan struct{} {
		var r []chan struct{}
		for i := 0; i <= n; i++ {
			r = append(r, make(chan struct{}, 1))
		}

		return r
	}
	nw.called1, nw.called2, nw.returned1, nw.returned2, nw.rel1, nw.rel2 = mk(), mk(), mk(), mk(), mk(), mk()
	nw.gid, nw.in1, nw.in2 = make([]atomic.Int64, n+1), make([]*innerRet, n+1), make([]*innerRet, n+1)
	for i := 0; i <= n; i++ {
		nw.done = append(nw.done, make(chan result, 1))
		nw.got1c[i], nw.got1p[i], nw.got2[i] = map[int]bool{}, map[int]bool{}, map[int]bool{}
	}

	return nw
}

// nodeTP is the fTransport handed to node i.
type nodeTP struct {
	nw    *network
	i     int
	inner dkg.VerifFTransport // nil: mode mem
}

func (tp *nodeTP) Round1(ctx context.Context, cast map[mkey]frost.Round1Bcast, p2p map[mkey]sharing.ShamirShare,
) (map[mkey]frost.Round1Bcast, map[mkey]sharing.ShamirShare, error) {
	nw := tp.nw
	nw.mu.Lock()
	nw.cast1[tp.i], nw.p2p1[tp.i] = cast, p2p
	nw.mu.Unlock()
	nw.called1[tp.i] <- struct{}{}

	if tp.inner != nil {
		c, p, err := tp.inner.Round1(ctx, cast, p2p)
		nw.mu.Lock()
		nw.in1[tp.i] = &innerRet{err: err, used: sources(c), usedp: sources(p)}
		nw.mu.Unlock()
		nw.returned1[tp.i] <- struct{}{}
		select {
		case <-nw.rel1[tp.i]:
		case <-ctx.Done():
			return nil, nil, ctx.Err()
		}

		return c, p, err
	}

	select {
	case <-nw.rel1[tp.i]:
	case <-ctx.Done():
		return nil, nil, ctx.Err()
	}
	// frostP2P.Round1 / makeRound1Response: the union of the received cast batches (own included) and of the
	// received share batches; a share batch for a peer holds the entries whose TargetID is that peer.
	nw.mu.Lock()
	defer nw.mu.Unlock()
	cr, pr := map[mkey]frost.Round1Bcast{}, map[mkey]sharing.ShamirShare{}
	for src, m := range nw.cast1 {
		if src == tp.i || nw.got1c[tp.i][src] {
			for k, v := range m {
				cr[k] = v
			}
		}
	}
	for src, m := range nw.p2p1 {
		if nw.got1p[tp.i][src] {
			for k, v := range m {
				if int(k.TargetID) == tp.i {
					pr[k] = v
				}
			}
		}
	}

	return cr, pr, nil
}

func (tp *nodeTP) Round2(ctx context.Context, cast map[mkey]frost.Round2Bcast) (map[mkey]frost.Round2Bcast, error) {
	nw := tp.nw
	nw.mu.Lock()
	nw.cast2[tp.i] = cast
	nw.mu.Unlock()
	nw.called2[tp.i] <- struct{}{}

	if tp.inner != nil {
		c, err := tp.inner.Round2(ctx, cast)
		nw.mu.Lock()
		nw.in2[tp.i] = &innerRet{err: err, used: sources(c)}
		nw.mu.Unlock()
		nw.returned2[tp.i] <- struct{}{}
		select {
		case <-nw.rel2[tp.i]:
		case <-ctx.Done():
			return nil, ctx.Err()
		}

		return c, err
	}

	select {
	case <-nw.rel2[tp.i]:
	case <-ctx.Done():
		return nil, ctx.Err()
	}
	nw.mu.Lock()
	defer nw.mu.Unlock()
	cr := map[mkey]frost.Round2Bcast{}
	for src, m := range nw.cast2 {
		if src == tp.i || nw.got2[tp.i][src] {
			for k, v := range m {
				cr[k] = v
			}
		}
	}

	return cr, nil
}

// sources: the SourceIDs occurring in the keys of a result map of the transport.
func sources[T any](m map[mkey]T) []int {
	set := map[int]bool{}
	for k := range m {
		set[int(k.SourceID)] = true
	}

	return sortedKeys(set)
}

func (nw *network) inner(round, i int) *innerRet {
	nw.mu.Lock()
	defer nw.mu.Unlock()
	if round == 1 {
		return nw.in1[i]
	}

	return nw.in2[i]
}

func keyList[T any](m map[mkey]T) [][]int {
	res := [][]int{}
	for k := range m {
		res = append(res, []int{int(k.ValIdx), int(k.SourceID), int(k.TargetID)})
	}
	sort.Slice(res, func(a, b int) bool {
		for x := 0; x < 3; x++ {
			if res[a][x] != res[b][x] {
				return res[a][x] < res[b][x]
			}
		}

		return false
	})

	return res
}

// sink receives the events of one ceremony.
type sink interface{ Emit(ev drv.Step) }

type buffer struct{ evs []drv.Step }

func (b *buffer) Emit(ev drv.Step) { b.evs = append(b.evs, ev) }

// netTimeout reports whether a ceremony over the real network (modes p2p, full) failed with an error of the
// network's own wall-clock timeouts (p2p.Send 7s, bcast 62s, exchanger): on an overloaded machine that is not
// the implementation's doing, so such a ceremony is run again (at most twice); what the last attempt did is logged.
func netTimeout(evs []drv.Step) bool {
	for _, e := range evs {
		for _, f := range []string{"err", "errs"} {
			txt := fmt.Sprint(e[f])
			if strings.Contains(txt, "deadline exceeded") || strings.Contains(txt, "timeout") || strings.Contains(txt, "timed out") {
				return true
			}
		}
	}

	return false
}

func TestExec(t *testing.T) {
	drv.QuietLogs(t)
	scheds := drv.ReadSchedules(t)
	tr := drv.NewTracer(t)
	defer tr.Close()
	for i, s := range scheds {
		var (
			b    *buffer
			hung bool
		)
		for attempt := 0; attempt < 3; attempt++ {
			b = &buffer{}
			hung = runCeremony(t, b, i, s)
			if drv.Str(s[0]["mode"]) == "" || drv.Str(s[0]["mode"]) == "mem" || hung || !netTimeout(b.evs) {
				break
			}
		}
		if mode := drv.Str(s[0]["mode"]); mode != "" && mode != "mem" && !hung && netTimeout(b.evs) {
			// Three attempts in a row ran into the real network's wall-clock timeouts (overloaded machine): no verdict is
			// drawn from wall-clock time, so only the part before the first timed-out step is kept and the trace
			// ends with a Stop event (an accepted prefix); the deterministic "mem" mode covers the same schedules.
			var keep []drv.Step
			for _, e := range b.evs {
				txt := fmt.Sprint(e["err"]) + fmt.Sprint(e["errs"])
				if strings.Contains(txt, "deadline exceeded") || strings.Contains(txt, "timeout") || strings.Contains(txt, "timed out") {
					break
				}
				keep = append(keep, e)
			}
			b.evs = append(keep, drv.Step{"ev": "Stop", "why": "network wall-clock timeout"})
		}
		for _, e := range b.evs {
			tr.Emit(e)
		}
		if hung {
			break // a hung ceremony: the trace ends with a Hang event no spec step matches
		}
	}
}

// p2pSetup builds n real hosts + bcast components + frostP2P transports, as dkg.Run does.
func p2pSetup(t *testing.T, n, thr, nv, seed int, w *cbWorld) ([]dkg.VerifFTransport, []int, string, func(), error) {
	t.Helper()
	lock, p2pKeys, _ := cluster.NewForT(t, 1, thr, n, seed, rand.New(rand.NewSource(int64(seed))))
	def := lock.Definition
	var (
		hosts []host.Host
		ids   []peer.ID
	)
	for i := 0; i < n; i++ {
		h := testutil.CreateHostWithIdentity(t, testutil.AvailableAddr(t), p2pKeys[i])
		hosts = append(hosts, h)
	}
	closeAll := func() {
		for _, h := range hosts {
			_ = h.Close()
		}
	}
	defPeers, err := def.PeerIDs()
	if err != nil {
		return nil, nil, "", closeAll, err
	}
	ids = defPeers
	if w != nil {
		w.ids, w.raw = ids, hosts
	}
	for i := range hosts {
		for j := range hosts {
			hosts[i].Peerstore().AddAddrs(hosts[j].ID(), hosts[j].Addrs(), peerstore.PermanentAddrTTL)
		}
	}
	var (
		tps      []dkg.VerifFTransport
		shareIdx []int
	)
	for i := 0; i < n; i++ {
		peerMap := make(map[peer.ID]cluster.NodeIdx)
		for _, p := range ids {
			idx, err := def.NodeIdx(p)
			if err != nil {
				return nil, nil, "", closeAll, err
			}
			peerMap[p] = idx
		}
		own, err := def.NodeIdx(hosts[i].ID())
		if err != nil {
			return nil, nil, "", closeAll, err
		}
		var h host.Host = hosts[i]
		if w != nil { // mode cb: frost streams are parked in front of the real handler, the bcast wire is in memory
			h = &gatedHost{Host: hosts[i], w: w, self: i + 1}
		}
		caster := bcast.New(h, ids, p2pKeys[i], def.DefinitionHash)
		if w != nil {
			caster.VerifUseTransport(h, w.sendRecv(i+1), w.send(i+1))
			w.comps = append(w.comps, caster)
		}
		tp, err := dkg.VerifNewFrostP2P(h, peerMap, caster, thr, nv)
		if err != nil {
			return nil, nil, "", closeAll, err
		}
		tps = append(tps, tp)
		shareIdx = append(shareIdx, own.ShareIdx)
	}

	return tps, shareIdx, fmt.Sprintf("%x", def.DefinitionHash[:]), closeAll, nil
}

func runCeremony(t *testing.T, tr sink, sid int, sched []drv.Step) bool {
	t.Helper()
	cfg := sched[0]
	n, thr, nv, p := drv.Num(cfg["n"]), drv.Num(cfg["t"]), drv.Num(cfg["V"]), drv.Num(cfg["p"])
	mode := drv.Str(cfg["mode"])
	if mode == "" {
		mode = "mem"
	}
	if mode == "full" {
		return runFull(t, tr, sid, cfg)
	}
	seed := drv.Num(cfg["seed"])
	rng := rand.New(rand.NewSource(int64(seed)*7919 + int64(sid)))

	ctx, cancel := context.WithCancel(context.Background())
	defer cancel()

	nw := newNetwork(n)
	tr.Emit(drv.Step{"ev": "Reset", "sid": sid, "n": n, "t": thr, "V": nv, "p": p, "mode": mode})

	var (
		inner    []dkg.VerifFTransport
		shareIdx []int
		dkgCtx   = "verif ceremony"
	)
	for i := 1; i <= n; i++ {
		shareIdx = append(shareIdx, i) // node i (peer index i-1) has share index i
	}
	var cb *cbWorld
	if mode == "cb" {
		cb = newCBWorld(n)
		defer cb.releaseAll()
	}
	if mode == "p2p" || mode == "cb" {
		tps, sidx, dctx, closeAll, err := p2pSetup(t, n, thr, nv, seed+sid+1, cb)
		defer closeAll()
		if err != nil {
			t.Fatalf("p2p setup: %v", err)
		}
		inner, shareIdx, dkgCtx = tps, sidx, dctx
	}

	results := map[int]result{}
	// await waits for node i to enter the next transport call (ch) or to return; reports (entered, hung).
	await := func(i int, ch chan struct{}) (bool, bool) {
		select {
		case <-ch:
			return true, false
		case r := <-nw.done[i]:
			results[i] = r
			return false, false
		case <-time.After(waitFor):
			return false, true
		}
	}
	errStr := func(i int) string {
		if r, ok := results[i]; ok && r.err != nil {
			return r.err.Error()
		}

		return ""
	}
	hang := func() bool {
		if path := os.Getenv("VERIF_HANGDUMP"); path != "" { // development aid: where is everybody?
			buf := make([]byte, 1<<24)
			_ = os.WriteFile(path, buf[:runtime.Stack(buf, true)], 0o644)
		}
		tr.Emit(drv.Step{"ev": "Hang"})
		cancel()

		return true
	}
	abort := func() bool {
		tr.Emit(drv.Step{"ev": "Abort"})
		cancel()

		return false
	}

	// mode cb: the stimulated node must be quiescent before the event is logged (and before the next move is made)
	quiet := func(j int) bool {
		if cb == nil || nw.gid[j].Load() == 0 {
			return true // not started yet: what it is given waits in the channels of its transport
		}

		return settle(nw.gid[j].Load())
	}
	// giveUp: the real transport call of node j has returned an ERROR: hand it back, the node returns from runFrostParallel
	giveUp := func(j, round int) (bool, bool) {
		r := nw.inner(round, j)
		if cb == nil || r == nil || r.err == nil {
			return false, false
		}
		if round == 1 {
			nw.rel1[j] <- struct{}{}
		} else {
			nw.rel2[j] <- struct{}{}
		}
		_, hung := await(j, make(chan struct{}))

		return true, hung
	}
	wireStats := func(ev drv.Step, j int) {
		if cb != nil {
			ev["failed"], ev["resent"] = cb.stats(j)
		}
	}

	for _, st := range sched[1:] {
		switch drv.Str(st["ev"]) {
		case "Pause": // a slow peer: real time passes (mode cb runs on the wall clock); nothing is logged, time is not in the contract
			if cb != nil {
				time.Sleep(time.Duration(drv.Num(st["ms"])) * time.Millisecond)
			}
		case "Fault":
			if cb == nil {
				t.Fatalf("Fault step outside mode cb: %v", st)
			}
			f := &fault{i: drv.Num(st["i"]), r: drv.Num(st["r"]), k: drv.Num(st["k"]), times: drv.Num(st["times"]),
				what: drv.Str(st["what"]), err: drv.Str(st["err"]), where: drv.Str(st["where"])}
			if f.k < 1 {
				f.k = 1
			}
			if f.times < 1 {
				f.times = 1
			}
			cb.arm(f)
			tr.Emit(drv.Step{"ev": "Fault", "i": f.i, "r": f.r, "what": f.what, "k": f.k, "err": f.err, "where": f.where,
				"times": f.times, "relay": p2p.IsRelayError(f.error())})
		case "Start":
			i := drv.Num(st["i"])
			tp := &nodeTP{nw: nw, i: i}
			if inner != nil {
				tp.inner = inner[i-1]
			}
			go func() {
				defer func() { // a node that panics has failed: log it, do not lose the other ceremonies
					if r := recover(); r != nil {
						nw.done[i] <- result{nil, fmt.Errorf("panic: %v", r)}
					}
				}()
				nw.gid[i].Store(goid())
				sh, err := dkg.VerifRunFrostParallel(ctx, tp, uint32(nv), uint32(n), uint32(thr), uint32(shareIdx[i-1]), dkgCtx)
				nw.done[i] <- result{sh, err}
			}()
			entered, hung := await(i, nw.called1[i])
			if hung {
				return hang()
			}
			ev := drv.Step{"ev": "Start", "i": i, "c": st["c"], "ok": entered}
			if !entered {
				ev["err"] = errStr(i)
				tr.Emit(ev)

				return abort()
			}
			nw.mu.Lock()
			cast, p2p := nw.cast1[i], nw.p2p1[i]
			nw.mu.Unlock()
			ncomm := map[int]bool{}
			for _, c := range cast {
				ncomm[len(c.Verifiers.Commitments)] = true
			}
			feld, ids := true, true
			for k, sh := range p2p {
				c, ok := cast[mkey{ValIdx: k.ValIdx, SourceID: k.SourceID}]
				sh := sh
				if !ok || c.Verifiers.Verify(&sh) != nil {
					feld = false
				}
				if sh.Id != k.TargetID {
					ids = false
				}
			}
			ev["casts"], ev["p2p"], ev["ncomm"], ev["feld"], ev["ids"] = keyList(cast), keyList(p2p), sortedKeys(ncomm), feld, ids
			if !quiet(i) {
				return hang()
			}
			wireStats(ev, i)
			if gone, hung := giveUp(i, 1); hung {
				return hang()
			} else if gone { // a send of the real Round1 failed and the node gave up
				ev["ok"], ev["err"] = false, errStr(i)
				tr.Emit(ev)

				return abort()
			}
			if cb != nil && !(cb.castCaptured(i, 1) && cb.sharesParked(i)) {
				return hang() // the real Round1 did not hand its cast / shares to the wire
			}
			tr.Emit(ev)
		case "D1C", "D1P", "D2", "RD":
			i, j := drv.Num(st["i"]), drv.Num(st["j"])
			if cb != nil {
				ev := drv.Step{"ev": drv.Str(st["ev"]), "i": i, "j": j}
				kind := drv.Str(st["ev"])
				if kind == "RD" {
					kind = map[string]string{"c1": "D1C", "c2": "D2", "p1": "RP"}[drv.Str(st["k"])]
					ev["k"] = st["k"]
				}
				var err error
				var stuck bool
				switch kind {
				case "D1C":
					err, stuck = cb.deliverCast(ctx, i, j, 1)
				case "D2":
					err, stuck = cb.deliverCast(ctx, i, j, 2)
				case "RP":
					nw.mu.Lock()
					shares := nw.p2p1[i]
					nw.mu.Unlock()
					if err = cb.resendShares(ctx, i, j, shares); err == nil && !cb.releaseShare(i, j) {
						return hang()
					}
				default:
					if !cb.releaseShare(i, j) {
						return hang()
					}
				}
				if stuck || !quiet(j) {
					return hang()
				}
				ev["ok"] = err == nil
				if err != nil {
					ev["err"] = err.Error()
				}
				tr.Emit(ev)

				continue
			}
			if drv.Str(st["ev"]) == "RD" { // the in-memory transport of mode mem keeps sets: a second copy changes nothing
				tr.Emit(drv.Step{"ev": "RD", "i": i, "j": j, "k": st["k"], "ok": true})
				continue
			}
			nw.mu.Lock()
			switch drv.Str(st["ev"]) {
			case "D1C":
				nw.got1c[j][i] = true
			case "D1P":
				nw.got1p[j][i] = true
			default:
				nw.got2[j][i] = true
			}
			nw.mu.Unlock()
			tr.Emit(drv.Step{"ev": drv.Str(st["ev"]), "i": i, "j": j})
		case "Ret1":
			j := drv.Num(st["j"])
			if inner != nil { // the real transport must have answered
				if ok, hung := await(j, nw.returned1[j]); hung {
					return hang()
				} else if !ok {
					tr.Emit(drv.Step{"ev": "Ret1", "j": j, "ok": false, "err": errStr(j), "casts": [][]int{}})
					return abort()
				}
			}
			nw.rel1[j] <- struct{}{}
			entered, hung := await(j, nw.called2[j])
			if hung {
				return hang()
			}
			ev := drv.Step{"ev": "Ret1", "j": j, "ok": entered, "casts": [][]int{}}
			if !entered {
				ev["err"] = errStr(j)
				tr.Emit(ev)

				return abort()
			}
			if r := nw.inner(1, j); r != nil {
				ev["used"], ev["usedp"] = r.used, r.usedp // what the real Round1 returned
			}
			if !quiet(j) {
				return hang()
			}
			wireStats(ev, j)
			if gone, hung := giveUp(j, 2); hung {
				return hang()
			} else if gone { // the broadcast of the real Round2 failed and the node gave up
				ev["ok"], ev["err"] = false, errStr(j)
				tr.Emit(ev)

				return abort()
			}
			if cb != nil && !cb.castCaptured(j, 2) {
				return hang() // the real Round2 did not hand its cast to the wire
			}
			nw.mu.Lock()
			ev["casts"] = keyList(nw.cast2[j])
			nw.mu.Unlock()
			tr.Emit(ev)
		case "Ret2":
			j := drv.Num(st["j"])
			if inner != nil {
				if ok, hung := await(j, nw.returned2[j]); hung {
					return hang()
				} else if !ok {
					tr.Emit(drv.Step{"ev": "Ret2", "j": j, "ok": false, "err": errStr(j), "pskeys": [][]int{}})
					return abort()
				}
			}
			nw.rel2[j] <- struct{}{}
			if _, hung := await(j, make(chan struct{})); hung {
				return hang()
			}
			r := results[j]
			ev := drv.Step{"ev": "Ret2", "j": j, "ok": r.err == nil, "pskeys": [][]int{}}
			if r.err != nil {
				ev["err"] = r.err.Error()
				tr.Emit(ev)

				return abort()
			}
			pk := [][]int{}
			for _, sh := range r.shares {
				m := map[int]bool{}
				for k := range sh.PublicShares {
					m[k] = true
				}
				pk = append(pk, sortedKeys(m))
			}
			ev["pskeys"] = pk
			tr.Emit(ev)
		default:
			t.Fatalf("unknown step %v", st)
		}
	}
	if len(results) != n {
		return abort()
	}
	tr.Emit(relations(n, thr, nv, results, rng))

	return false
}

func sortedKeys(m map[int]bool) []int {
	res := []int{}
	for k := range m {
		res = append(res, k)
	}
	sort.Ints(res)

	return res
}

// subsets returns all k-subsets of 1..n when there are at most max of them, otherwise the first, the last and
// max-2 random ones.
func subsets(n, k, max int, rng *rand.Rand) [][]int {
	var all [][]int
	if k <= 0 || k > n {
		return all
	}
	cnt := 1
	for i := 0; i < k; i++ {
		cnt = cnt * (n - i) / (i + 1)
	}
	if cnt <= max {
		var rec func(start int, cur []int)
		rec = func(start int, cur []int) {
			if len(cur) == k {
				all = append(all, append([]int{}, cur...))
				return
			}
			for x := start; x <= n; x++ {
				rec(x+1, append(cur, x))
			}
		}
		rec(1, nil)

		return all
	}
	first, last := []int{}, []int{}
	for i := 1; i <= k; i++ {
		first = append(first, i)
		last = append(last, n-k+i)
	}
	all = append(all, first, last)
	for len(all) < max {
		s := rng.Perm(n)[:k]
		for x := range s {
			s[x]++
		}
		if rng.Intn(2) == 0 {
			sort.Ints(s) // the view used is that of the first listed member: keep some unsorted
		}
		all = append(all, s)
	}

	return all
}

// relations computes, with real tbls calls, the relations between the nodes' results.
func relations(n, thr, nv int, results map[int]result, rng *rand.Rand) drv.Step {
	msg := make([]byte, 32)
	rng.Read(msg)
	at := func(j, v int) (share.Share, bool) {
		sh := results[j].shares
		if v >= len(sh) {
			return share.Share{}, false
		}

		return sh[v], true
	}
	gkeq, pseq := []bool{}, []bool{}
	for v := 0; v < nv; v++ {
		g, p := true, true
		s1, ok1 := at(1, v)
		for j := 2; j <= n; j++ {
			sj, okj := at(j, v)
			if !ok1 || !okj || sj.PubKey != s1.PubKey {
				g = false
			}
			if !ok1 || !okj || len(sj.PublicShares) != len(s1.PublicShares) {
				p = false
				continue
			}
			for k, x := range s1.PublicShares {
				if y, ok := sj.PublicShares[k]; !ok || x != y {
					p = false
				}
			}
		}
		gkeq, pseq = append(gkeq, g), append(pseq, p)
	}
	own := [][]bool{}
	for j := 1; j <= n; j++ {
		row := []bool{}
		for v := 0; v < nv; v++ {
			sh, ok := at(j, v)
			r := false
			if ok {
				pub, err := tbls.SecretToPublicKey(sh.SecretShare)
				ps, has := sh.PublicShares[j]
				r = err == nil && has && pub == ps
			}
			row = append(row, r)
		}
		own = append(own, row)
	}
	// partial signatures of every node's own secret share
	partial := map[[2]int]tbls.Signature{}
	havePartial := map[[2]int]bool{}
	for j := 1; j <= n; j++ {
		for v := 0; v < nv; v++ {
			if sh, ok := at(j, v); ok {
				if sig, err := tbls.Sign(sh.SecretShare, msg); err == nil {
					partial[[2]int{j, v}], havePartial[[2]int{j, v}] = sig, true
				}
			}
		}
	}
	aggregate := func(v int, S []int) (tbls.Signature, bool) {
		m := map[int]tbls.Signature{}
		for _, i := range S {
			if !havePartial[[2]int{i, v}] {
				return tbls.Signature{}, false
			}
			m[i] = partial[[2]int{i, v}]
		}
		sig, err := tbls.ThresholdAggregate(m)

		return sig, err == nil
	}
	subs, below := []drv.Step{}, []drv.Step{}
	maxSub := 30
	if nv > 2 {
		maxSub = 16
	}
	for v := 0; v < nv; v++ {
		var first *tbls.Signature
		for _, S := range subsets(n, thr, maxSub, rng) {
			k := S[0]
			view, ok := at(k, v)
			rec, psig, sigok, same := false, ok, false, false
			if ok {
				m := map[int]tbls.PublicKey{}
				for _, i := range S {
					ps, has := view.PublicShares[i]
					if !has {
						psig = false
						continue
					}
					m[i] = ps
					if !havePartial[[2]int{i, v}] || tbls.Verify(ps, msg, partial[[2]int{i, v}]) != nil {
						psig = false
					}
				}
				if len(m) == len(S) {
					pk, err := tbls.RecoverPubkey(m)
					rec = err == nil && pk == view.PubKey
				}
				if sig, ok := aggregate(v, S); ok {
					sigok = tbls.Verify(view.PubKey, msg, sig) == nil
					if first == nil {
						first = &sig
					}
					same = bytes.Equal(first[:], sig[:])
				}
			}
			subs = append(subs, drv.Step{"v": v, "S": S, "rec": rec, "psig": psig, "sig": sigok, "same": same})
		}
		for _, S := range subsets(n, thr-1, 4, rng) {
			view, ok := at(S[0], v)
			sigok := false
			if ok {
				if sig, ok := aggregate(v, S); ok {
					sigok = tbls.Verify(view.PubKey, msg, sig) == nil
				}
			}
			below = append(below, drv.Step{"v": v, "S": S, "sig": sigok})
		}
	}

	return drv.Step{"ev": "Check", "gkeq": gkeq, "pseq": pseq, "own": own, "subs": subs, "below": below}
}
