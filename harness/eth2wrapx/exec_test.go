// Package eth2wrapx executes Eth2Wrap schedules on the real app/eth2wrap code and records what it did.
//
// Three modes (first step of a schedule, {"ev":"Cfg","mode":...}), one fresh set of objects per schedule:
//
//	S  eth2wrap.WithSyntheticDuties (the synthWrapper with its synthProposerCache), one instance per node, over a client
//	   (testutil/beaconmock.Mock with the endpoints the wrapper uses replaced) whose answers are GATED: a request of call c
//	   is recorded on arrival and waits until the schedule answers it.  Runs inside a testing/synctest bubble:
//	   synctest.Wait() after every move is the quiescence barrier.
//	L  eth2wrap.NewLazyVerif (= newLazy, exported by pending_hooks/app/eth2wrap/verif_export.go) over a gated connect
//	   function that hands out numbered fake clients.  synctest bubble; the 1 ms ticker of getOrCreateClient runs on the
//	   bubble's virtual clock ("Tick" = the driver sleeps 1 ms).
//	V  eth2wrap.NewValidatorCache over a client whose Validators endpoint is gated.  The cache holds its RWMutex while it
//	   asks the beacon node, and a goroutine waiting for a mutex is not "durably blocked" for synctest: this mode uses real
//	   goroutines and an event channel.  The driver moves on when a call is at the gate (everything else is then waiting
//	   for the lock) or nothing is under way.
//
// Nothing here knows what should happen.  Values are recognisable by tokens: public keys carry the validator's token in
// byte 0, blocks their token in ParentRoot[0], fee recipients in byte 0, fake clients and cache functions answer with
// their numbers.  Eth2WrapTrace.tla decides.
package eth2wrapx

import (
	"context"
	"errors"
	"fmt"
	"sort"
	"strings"
	"sync"
	"sync/atomic"
	"syscall"
	"testing"
	"testing/synctest"
	"time"

	eth2api "github.com/attestantio/go-eth2-client/api"
	eth2v1 "github.com/attestantio/go-eth2-client/api/v1"
	eth2bellatrix "github.com/attestantio/go-eth2-client/api/v1/bellatrix"
	eth2capella "github.com/attestantio/go-eth2-client/api/v1/capella"
	eth2deneb "github.com/attestantio/go-eth2-client/api/v1/deneb"
	eth2electra "github.com/attestantio/go-eth2-client/api/v1/electra"
	eth2fulu "github.com/attestantio/go-eth2-client/api/v1/fulu"
	eth2spec "github.com/attestantio/go-eth2-client/spec"
	"github.com/attestantio/go-eth2-client/spec/altair"
	"github.com/attestantio/go-eth2-client/spec/bellatrix"
	"github.com/attestantio/go-eth2-client/spec/capella"
	"github.com/attestantio/go-eth2-client/spec/deneb"
	"github.com/attestantio/go-eth2-client/spec/electra"
	eth2p0 "github.com/attestantio/go-eth2-client/spec/phase0"

	"github.com/obolnetwork/charon/app/eth2wrap"
	"github.com/obolnetwork/charon/testutil"
	"github.com/obolnetwork/charon/testutil/beaconmock"

	"verifharness/drv"
)

type ctxKey struct{}

var errInjected = errors.New("verif:injected")

func callID(ctx context.Context) int {
	id, _ := ctx.Value(ctxKey{}).(int)
	return id
}

func classify(err error) string {
	if err == nil {
		return ""
	}

	msg := err.Error()

	var apiErr *eth2api.Error

	switch {
	case errors.Is(err, errInjected) || (errors.As(err, &apiErr) && apiErr.StatusCode == 500):
		return "bn"
	case errors.Is(err, context.Canceled):
		return "ctx"
	case strings.Contains(msg, "fetch network spec"):
		return "spec"
	case strings.Contains(msg, "zero slot duration or slots per epoch"):
		return "speczero"
	case strings.Contains(msg, "no signed block for synthetic proposal"):
		return "noblock"
	case strings.Contains(msg, "unsupported proposal version"):
		return "version"
	case strings.Contains(msg, "validator data is nil"):
		return "nilval"
	case strings.Contains(msg, "verif:nocache"):
		return "nocache"
	}

	return "other:" + msg
}

func list(v any) []any {
	l, _ := v.([]any)
	return l
}

func obj(v any) map[string]any {
	m, _ := v.(map[string]any)
	return m
}

func orEmpty(v any) any {
	if l, ok := v.([]any); ok && l != nil {
		return l
	}

	return []any{}
}

// beat counts the driver's steps.  A component that spins without ever blocking (a select that is always ready) never lets
// synctest.Wait() return: the watchdog (a goroutine outside the bubbles, on the wall clock) then records the hang -- no spec
// step matches it -- flushes the trace and ends the process; the remaining schedules are not run.
var beat atomic.Int64

func watchdog(tr *drv.Tracer) {
	last, since := beat.Load(), time.Now()
	for {
		time.Sleep(time.Second)

		if now := beat.Load(); now != last {
			last, since = now, time.Now()
			continue
		}

		if time.Since(since) > 60*time.Second {
			tr.Emit(drv.Step{"ev": "Hang"})
			tr.Close()
			syscall.Exit(0)
		}
	}
}

func TestExec(t *testing.T) {
	drv.QuietLogs(t)
	scheds := drv.ReadSchedules(t)
	tr := drv.NewTracer(t)

	defer tr.Close()

	go watchdog(tr)

	for i, s := range scheds {
		if len(s) == 0 {
			continue
		}

		ok := true

		switch drv.Str(s[0]["mode"]) {
		case "S":
			synctest.Test(t, func(t *testing.T) { runS(t, tr, i, s) })
		case "L":
			synctest.Test(t, func(t *testing.T) { ok = runL(t, tr, i, s) })
		case "V":
			ok = runV(t, tr, i, s)
		default:
			t.Fatalf("schedule %d: unknown mode", i)
		}

		if !ok {
			return // a hung component: the remaining schedules would wait for the timeout again
		}
	}
}

// =====================================================================================================================
// S: the synthetic proposer wrapper
// =====================================================================================================================

type sAnswer struct {
	how  string
	step drv.Step
}

type sPending struct {
	req drv.Step
	ans chan sAnswer
}

type sCall struct {
	id       int
	done     bool
	logged   bool
	err      error
	duties   []*eth2v1.ProposerDuty
	proposal *eth2api.VersionedProposal
}

type sHarness struct {
	tr      *drv.Tracer
	mu      sync.Mutex
	spe     uint64
	world   drv.Step // the beacon node's truth (validators, real duties per epoch, blocks per slot): answers without data come from here
	pending map[int]*sPending
	calls   map[int]*sCall
}

// truth completes an answer "ok" that carries no data from the world: what an honest beacon node would say to the request.
func (h *sHarness) truth(req, st drv.Step) drv.Step {
	res := drv.Step{}
	for k, v := range st {
		res[k] = v
	}

	// "zero" is an answer to a Spec request, "404" to a block request: for any other request they are plain errors
	if how := drv.Str(st["how"]); (how == "zero" && drv.Str(req["k"]) != "spec") || ((how == "404" || how == "500") && drv.Str(req["k"]) != "block") {
		res["how"] = "err"
	}

	if drv.Str(st["how"]) != "ok" {
		return res
	}

	switch drv.Str(req["k"]) {
	case "vals":
		if _, ok := st["vals"]; !ok {
			res["vals"] = orEmpty(h.world["vals"])
		}
	case "duties":
		if _, ok := st["duties"]; !ok {
			want := map[int]bool{}
			for _, i := range list(req["idx"]) {
				want[drv.Num(i)] = true
			}

			ds := []any{}
			for _, d := range list(obj(h.world["real"])[fmt.Sprint(drv.Num(req["epoch"]))]) {
				if want[drv.Num(obj(d)["v"])] {
					ds = append(ds, d)
				}
			}

			res["duties"] = ds
		}
	case "spec":
		if _, ok := st["spe"]; !ok {
			res["spe"] = int(h.spe)
		}
	case "block":
		if _, ok := st["blk"]; !ok {
			if b, ok := obj(h.world["blocks"])[fmt.Sprint(drv.Num(req["slot"]))]; ok && b != nil {
				res["blk"] = b
			} else {
				res["how"] = "404"
			}
		}
	case "prop":
		if _, ok := st["tok"]; !ok {
			res["tok"] = 5
		}
	}

	return res
}

func pkOf(tok int) eth2p0.BLSPubKey {
	var p eth2p0.BLSPubKey
	p[0] = byte(tok)

	return p
}

func graffitiOf(s string) [32]byte {
	var g [32]byte
	copy(g[:], s)

	return g
}

func graffitiStr(g [32]byte) string {
	return strings.TrimRight(string(g[:]), "\x00")
}

// gate records the request of the call the context belongs to and waits for the schedule's answer.
func (h *sHarness) gate(ctx context.Context, req drv.Step) sAnswer {
	id := callID(ctx)
	p := &sPending{req: req, ans: make(chan sAnswer, 1)}
	ev := drv.Step{"ev": "Req", "c": id, "k": "", "epoch": 0, "idx": []any{}, "slot": 0, "g": "", "ver": "", "fees": []any{}}

	for k, v := range req {
		ev[k] = v
	}

	h.mu.Lock()
	h.pending[id] = p
	h.tr.Emit(ev)
	h.mu.Unlock()

	return <-p.ans
}

// sbn is the client under the wrapper: testutil/beaconmock.Mock with the endpoints the wrapper uses replaced by gates.
type sbn struct {
	beaconmock.Mock

	h *sHarness
}

func (b sbn) ActiveValidators(ctx context.Context) (eth2wrap.ActiveValidators, error) {
	a := b.h.gate(ctx, drv.Step{"k": "vals"})
	if a.how != "ok" {
		return nil, errInjected
	}

	res := eth2wrap.ActiveValidators{}
	for _, x := range list(a.step["vals"]) {
		res[eth2p0.ValidatorIndex(drv.Num(obj(x)["v"]))] = pkOf(drv.Num(obj(x)["pk"]))
	}

	return res, nil
}

func (b sbn) ProposerDuties(ctx context.Context, opts *eth2api.ProposerDutiesOpts) (*eth2api.Response[[]*eth2v1.ProposerDuty], error) {
	idx := []int{}
	for _, i := range opts.Indices {
		idx = append(idx, int(i))
	}

	sort.Ints(idx)

	il := []any{}
	for _, i := range idx {
		il = append(il, i)
	}

	a := b.h.gate(ctx, drv.Step{"k": "duties", "epoch": int(opts.Epoch), "idx": il})
	if a.how != "ok" {
		return nil, errInjected
	}

	var res []*eth2v1.ProposerDuty // fresh objects for every answer
	for _, x := range list(a.step["duties"]) {
		res = append(res, &eth2v1.ProposerDuty{PubKey: pkOf(drv.Num(obj(x)["pk"])), Slot: eth2p0.Slot(drv.Num(obj(x)["slot"])),
			ValidatorIndex: eth2p0.ValidatorIndex(drv.Num(obj(x)["v"]))})
	}

	return &eth2api.Response[[]*eth2v1.ProposerDuty]{Data: res, Metadata: map[string]any{}}, nil
}

func (b sbn) Spec(ctx context.Context, _ *eth2api.SpecOpts) (*eth2api.Response[map[string]any], error) {
	a := b.h.gate(ctx, drv.Step{"k": "spec"})

	switch a.how {
	case "ok":
		return &eth2api.Response[map[string]any]{Data: map[string]any{"SECONDS_PER_SLOT": 12 * time.Second,
			"SLOTS_PER_EPOCH": uint64(drv.Num(a.step["spe"]))}}, nil
	case "zero":
		return &eth2api.Response[map[string]any]{Data: map[string]any{"SECONDS_PER_SLOT": 12 * time.Second, "SLOTS_PER_EPOCH": uint64(0)}}, nil
	}

	return nil, errInjected
}

func txs(n int) []bellatrix.Transaction {
	res := []bellatrix.Transaction{}
	for i := 0; i < n; i++ {
		res = append(res, bellatrix.Transaction{byte(i), 1, 2})
	}

	return res
}

// signedBlock builds a block of the given version with a recognisable parent root and n transactions.
func signedBlock(ver string, tok, ntx int) *eth2spec.VersionedSignedBeaconBlock {
	var root eth2p0.Root
	root[0] = byte(tok)

	switch ver {
	case "phase0":
		m := testutil.RandomPhase0BeaconBlock()
		m.ParentRoot = root

		return &eth2spec.VersionedSignedBeaconBlock{Version: eth2spec.DataVersionPhase0, Phase0: &eth2p0.SignedBeaconBlock{Message: m}}
	case "altair":
		m := testutil.RandomAltairBeaconBlock()
		m.ParentRoot = root

		return &eth2spec.VersionedSignedBeaconBlock{Version: eth2spec.DataVersionAltair, Altair: &altair.SignedBeaconBlock{Message: m}}
	case "bellatrix":
		m := testutil.RandomBellatrixBeaconBlock()
		m.ParentRoot = root
		m.Body.ExecutionPayload.Transactions = txs(ntx)

		return &eth2spec.VersionedSignedBeaconBlock{Version: eth2spec.DataVersionBellatrix, Bellatrix: &bellatrix.SignedBeaconBlock{Message: m}}
	case "capella":
		m := testutil.RandomCapellaBeaconBlock()
		m.ParentRoot = root
		m.Body.ExecutionPayload.Transactions = txs(ntx)

		return &eth2spec.VersionedSignedBeaconBlock{Version: eth2spec.DataVersionCapella, Capella: &capella.SignedBeaconBlock{Message: m}}
	case "deneb":
		m := testutil.RandomDenebBeaconBlock()
		m.ParentRoot = root
		m.Body.ExecutionPayload.Transactions = txs(ntx)

		return &eth2spec.VersionedSignedBeaconBlock{Version: eth2spec.DataVersionDeneb, Deneb: &deneb.SignedBeaconBlock{Message: m}}
	case "electra":
		m := testutil.RandomElectraBeaconBlock()
		m.ParentRoot = root
		m.Body.ExecutionPayload.Transactions = txs(ntx)

		return &eth2spec.VersionedSignedBeaconBlock{Version: eth2spec.DataVersionElectra, Electra: &electra.SignedBeaconBlock{Message: m}}
	case "fulu":
		m := testutil.RandomElectraBeaconBlock()
		m.ParentRoot = root
		m.Body.ExecutionPayload.Transactions = txs(ntx)

		return &eth2spec.VersionedSignedBeaconBlock{Version: eth2spec.DataVersionFulu, Fulu: &electra.SignedBeaconBlock{Message: m}}
	}

	return &eth2spec.VersionedSignedBeaconBlock{Version: eth2spec.DataVersionUnknown}
}

func (b sbn) SignedBeaconBlock(ctx context.Context, opts *eth2api.SignedBeaconBlockOpts) (*eth2api.Response[*eth2spec.VersionedSignedBeaconBlock], error) {
	slot := -1
	_, _ = fmt.Sscan(opts.Block, &slot)

	a := b.h.gate(ctx, drv.Step{"k": "block", "slot": slot})

	switch a.how {
	case "ok":
		blk := obj(a.step["blk"])
		return &eth2api.Response[*eth2spec.VersionedSignedBeaconBlock]{Data: signedBlock(drv.Str(blk["ver"]), drv.Num(blk["tok"]), drv.Num(blk["ntx"]))}, nil
	case "404":
		return nil, &eth2api.Error{Method: "GET", Endpoint: "/eth/v2/beacon/blocks/" + opts.Block, StatusCode: 404, Data: []byte("not found")}
	case "500":
		return nil, &eth2api.Error{Method: "GET", Endpoint: "/eth/v2/beacon/blocks/" + opts.Block, StatusCode: 500, Data: []byte("verif:injected")}
	}

	return nil, errInjected
}

func (b sbn) Proposal(ctx context.Context, opts *eth2api.ProposalOpts) (*eth2api.Response[*eth2api.VersionedProposal], error) {
	a := b.h.gate(ctx, drv.Step{"k": "prop", "slot": int(opts.Slot)})
	if a.how != "ok" {
		return nil, errInjected
	}

	blk := testutil.RandomCapellaBeaconBlock()
	blk.Slot = opts.Slot
	blk.ProposerIndex = 0
	blk.ParentRoot = eth2p0.Root{byte(drv.Num(a.step["tok"]))}
	blk.Body.Graffiti = graffitiOf("real")
	blk.Body.ExecutionPayload.Transactions = txs(3)
	blk.Body.ExecutionPayload.FeeRecipient = bellatrix.ExecutionAddress{}

	return &eth2api.Response[*eth2api.VersionedProposal]{Data: &eth2api.VersionedProposal{Version: eth2spec.DataVersionCapella, Capella: blk}}, nil
}

func (b sbn) SubmitProposal(ctx context.Context, opts *eth2api.SubmitProposalOpts) error {
	g, ver := signedFacts(opts.Proposal)
	if a := b.h.gate(ctx, drv.Step{"k": "submit", "g": g, "ver": ver}); a.how != "ok" {
		return errInjected
	}

	return nil
}

func (b sbn) SubmitBlindedProposal(ctx context.Context, opts *eth2api.SubmitBlindedProposalOpts) error {
	g, ver := blindedFacts(opts.Proposal)
	if a := b.h.gate(ctx, drv.Step{"k": "submitb", "g": g, "ver": ver}); a.how != "ok" {
		return errInjected
	}

	return nil
}

func (b sbn) SubmitProposalPreparations(ctx context.Context, preps []*eth2v1.ProposalPreparation) error {
	fees := []any{}
	for _, p := range preps {
		fees = append(fees, drv.Step{"v": int(p.ValidatorIndex), "tok": int(p.FeeRecipient[0])})
	}

	if a := b.h.gate(ctx, drv.Step{"k": "prep", "fees": fees}); a.how != "ok" {
		return errInjected
	}

	return nil
}

// signedProposal builds a signed block of the version with the graffiti.
func signedProposal(ver, g string) *eth2api.VersionedSignedProposal {
	gr := graffitiOf(g)

	switch ver {
	case "phase0":
		m := testutil.RandomPhase0BeaconBlock()
		m.Body.Graffiti = gr

		return &eth2api.VersionedSignedProposal{Version: eth2spec.DataVersionPhase0, Phase0: &eth2p0.SignedBeaconBlock{Message: m}}
	case "altair":
		m := testutil.RandomAltairBeaconBlock()
		m.Body.Graffiti = gr

		return &eth2api.VersionedSignedProposal{Version: eth2spec.DataVersionAltair, Altair: &altair.SignedBeaconBlock{Message: m}}
	case "bellatrix":
		m := testutil.RandomBellatrixBeaconBlock()
		m.Body.Graffiti = gr

		return &eth2api.VersionedSignedProposal{Version: eth2spec.DataVersionBellatrix, Bellatrix: &bellatrix.SignedBeaconBlock{Message: m}}
	case "capella":
		m := testutil.RandomCapellaBeaconBlock()
		m.Body.Graffiti = gr

		return &eth2api.VersionedSignedProposal{Version: eth2spec.DataVersionCapella, Capella: &capella.SignedBeaconBlock{Message: m}}
	case "deneb":
		m := testutil.RandomDenebBeaconBlock()
		m.Body.Graffiti = gr

		return &eth2api.VersionedSignedProposal{Version: eth2spec.DataVersionDeneb,
			Deneb: &eth2deneb.SignedBlockContents{SignedBlock: &deneb.SignedBeaconBlock{Message: m}}}
	case "electra":
		m := testutil.RandomElectraBeaconBlock()
		m.Body.Graffiti = gr

		return &eth2api.VersionedSignedProposal{Version: eth2spec.DataVersionElectra,
			Electra: &eth2electra.SignedBlockContents{SignedBlock: &electra.SignedBeaconBlock{Message: m}}}
	case "fulu":
		m := testutil.RandomElectraBeaconBlock()
		m.Body.Graffiti = gr

		return &eth2api.VersionedSignedProposal{Version: eth2spec.DataVersionFulu,
			Fulu: &eth2fulu.SignedBlockContents{SignedBlock: &electra.SignedBeaconBlock{Message: m}}}
	}

	return &eth2api.VersionedSignedProposal{Version: eth2spec.DataVersionUnknown}
}

// sign wraps what Proposal returned into a signed block (what the validator client and the cluster do).
func sign(p *eth2api.VersionedProposal) *eth2api.VersionedSignedProposal {
	switch p.Version {
	case eth2spec.DataVersionPhase0:
		return &eth2api.VersionedSignedProposal{Version: p.Version, Phase0: &eth2p0.SignedBeaconBlock{Message: p.Phase0}}
	case eth2spec.DataVersionAltair:
		return &eth2api.VersionedSignedProposal{Version: p.Version, Altair: &altair.SignedBeaconBlock{Message: p.Altair}}
	case eth2spec.DataVersionBellatrix:
		return &eth2api.VersionedSignedProposal{Version: p.Version, Bellatrix: &bellatrix.SignedBeaconBlock{Message: p.Bellatrix}}
	case eth2spec.DataVersionCapella:
		return &eth2api.VersionedSignedProposal{Version: p.Version, Capella: &capella.SignedBeaconBlock{Message: p.Capella}}
	case eth2spec.DataVersionDeneb:
		return &eth2api.VersionedSignedProposal{Version: p.Version,
			Deneb: &eth2deneb.SignedBlockContents{SignedBlock: &deneb.SignedBeaconBlock{Message: p.Deneb.Block}}}
	case eth2spec.DataVersionElectra:
		return &eth2api.VersionedSignedProposal{Version: p.Version,
			Electra: &eth2electra.SignedBlockContents{SignedBlock: &electra.SignedBeaconBlock{Message: p.Electra.Block}}}
	case eth2spec.DataVersionFulu:
		return &eth2api.VersionedSignedProposal{Version: p.Version,
			Fulu: &eth2fulu.SignedBlockContents{SignedBlock: &electra.SignedBeaconBlock{Message: p.Fulu.Block}}}
	}

	return &eth2api.VersionedSignedProposal{Version: p.Version}
}

func signedFacts(p *eth2api.VersionedSignedProposal) (string, string) {
	var g [32]byte

	switch p.Version {
	case eth2spec.DataVersionPhase0:
		g = p.Phase0.Message.Body.Graffiti
	case eth2spec.DataVersionAltair:
		g = p.Altair.Message.Body.Graffiti
	case eth2spec.DataVersionBellatrix:
		g = p.Bellatrix.Message.Body.Graffiti
	case eth2spec.DataVersionCapella:
		g = p.Capella.Message.Body.Graffiti
	case eth2spec.DataVersionDeneb:
		g = p.Deneb.SignedBlock.Message.Body.Graffiti
	case eth2spec.DataVersionElectra:
		g = p.Electra.SignedBlock.Message.Body.Graffiti
	case eth2spec.DataVersionFulu:
		g = p.Fulu.SignedBlock.Message.Body.Graffiti
	}

	return graffitiStr(g), p.Version.String()
}

// blindedProposal builds a signed blinded block; versions without blinded blocks carry the version only.
func blindedProposal(ver, g string) *eth2api.VersionedSignedBlindedProposal {
	gr := graffitiOf(g)

	switch ver {
	case "phase0":
		return &eth2api.VersionedSignedBlindedProposal{Version: eth2spec.DataVersionPhase0}
	case "altair":
		return &eth2api.VersionedSignedBlindedProposal{Version: eth2spec.DataVersionAltair}
	case "bellatrix":
		m := testutil.RandomBellatrixBlindedBeaconBlock()
		m.Body.Graffiti = gr

		return &eth2api.VersionedSignedBlindedProposal{Version: eth2spec.DataVersionBellatrix, Bellatrix: &eth2bellatrix.SignedBlindedBeaconBlock{Message: m}}
	case "capella":
		m := testutil.RandomCapellaBlindedBeaconBlock()
		m.Body.Graffiti = gr

		return &eth2api.VersionedSignedBlindedProposal{Version: eth2spec.DataVersionCapella, Capella: &eth2capella.SignedBlindedBeaconBlock{Message: m}}
	case "deneb":
		m := testutil.RandomDenebBlindedBeaconBlock()
		m.Body.Graffiti = gr

		return &eth2api.VersionedSignedBlindedProposal{Version: eth2spec.DataVersionDeneb, Deneb: &eth2deneb.SignedBlindedBeaconBlock{Message: m}}
	case "electra":
		m := testutil.RandomElectraBlindedBeaconBlock()
		m.Body.Graffiti = gr

		return &eth2api.VersionedSignedBlindedProposal{Version: eth2spec.DataVersionElectra, Electra: &eth2electra.SignedBlindedBeaconBlock{Message: m}}
	case "fulu":
		m := testutil.RandomElectraBlindedBeaconBlock()
		m.Body.Graffiti = gr

		return &eth2api.VersionedSignedBlindedProposal{Version: eth2spec.DataVersionFulu, Fulu: &eth2electra.SignedBlindedBeaconBlock{Message: m}}
	}

	return &eth2api.VersionedSignedBlindedProposal{Version: eth2spec.DataVersionUnknown}
}

func blindedFacts(p *eth2api.VersionedSignedBlindedProposal) (string, string) {
	var g [32]byte

	switch p.Version {
	case eth2spec.DataVersionBellatrix:
		g = p.Bellatrix.Message.Body.Graffiti
	case eth2spec.DataVersionCapella:
		g = p.Capella.Message.Body.Graffiti
	case eth2spec.DataVersionDeneb:
		g = p.Deneb.Message.Body.Graffiti
	case eth2spec.DataVersionElectra:
		g = p.Electra.Message.Body.Graffiti
	case eth2spec.DataVersionFulu:
		g = p.Fulu.Message.Body.Graffiti
	default:
		return "", p.Version.String()
	}

	return graffitiStr(g), p.Version.String()
}

func dutyList(ds []*eth2v1.ProposerDuty) []any {
	res := []any{}
	for _, d := range ds {
		res = append(res, drv.Step{"v": int(d.ValidatorIndex), "slot": int(d.Slot), "pk": int(d.PubKey[0])})
	}

	return res
}

// retS describes what call c returned.
func (h *sHarness) retS(c *sCall) drv.Step {
	ev := drv.Step{"ev": "Ret", "c": c.id, "err": classify(c.err), "duties": []any{}, "g": "", "slot": 0, "v": 0, "ver": "", "tok": 0, "ntx": 0, "fee": 0}
	if c.err != nil {
		return ev
	}

	if c.duties != nil {
		ev["duties"] = dutyList(c.duties)
	}

	if p := c.proposal; p != nil {
		if g, err := p.Graffiti(); err == nil {
			ev["g"] = graffitiStr(g)
		}

		if s, err := p.Slot(); err == nil {
			ev["slot"] = int(s)
		}

		if v, err := p.ProposerIndex(); err == nil {
			ev["v"] = int(v)
		}

		if r, err := p.ParentRoot(); err == nil {
			ev["tok"] = int(r[0])
		}

		if x, err := p.Transactions(); err == nil {
			ev["ntx"] = len(x)
		}

		if f, err := p.FeeRecipient(); err == nil {
			ev["fee"] = int(f[0])
		}

		ev["ver"] = p.Version.String()
	}

	return ev
}

func (h *sHarness) lowestPending() (int, bool) {
	h.mu.Lock()
	defer h.mu.Unlock()

	best, ok := 0, false
	for id := range h.pending {
		if !ok || id < best {
			best, ok = id, true
		}
	}

	return best, ok
}

func (h *sHarness) flush() {
	h.mu.Lock()
	defer h.mu.Unlock()

	ids := []int{}
	for id, c := range h.calls {
		if c.done && !c.logged {
			ids = append(ids, id)
		}
	}

	sort.Ints(ids)

	for _, id := range ids {
		h.calls[id].logged = true
		h.tr.Emit(h.retS(h.calls[id]))
	}
}

// answer hands the schedule's answer to the pending request of call c (if there is one) and records it.
func (h *sHarness) answer(c int, st drv.Step) bool {
	h.mu.Lock()

	p, ok := h.pending[c]
	if !ok {
		h.mu.Unlock()
		return false
	}

	delete(h.pending, c)
	st = h.truth(p.req, st)

	blk := obj(st["blk"])
	if blk == nil {
		blk = drv.Step{"ver": "", "tok": 0, "ntx": 0}
	}

	h.tr.Emit(drv.Step{"ev": "Ans", "c": c, "how": drv.Str(st["how"]), "vals": orEmpty(st["vals"]), "duties": orEmpty(st["duties"]),
		"spe": drv.Num(st["spe"]), "blk": drv.Step{"ver": drv.Str(blk["ver"]), "tok": drv.Num(blk["tok"]), "ntx": drv.Num(blk["ntx"])},
		"tok": drv.Num(st["tok"])})
	h.mu.Unlock()

	p.ans <- sAnswer{how: drv.Str(st["how"]), step: st}

	return true
}

func runS(t *testing.T, tr *drv.Tracer, sid int, sched []drv.Step) {
	t.Helper()

	cfg := sched[0]
	h := &sHarness{tr: tr, spe: uint64(drv.Num(cfg["spe"])), world: cfg, pending: map[int]*sPending{}, calls: map[int]*sCall{}}
	wrappers := map[int]eth2wrap.Client{}
	node := func(n int) eth2wrap.Client {
		if _, ok := wrappers[n]; !ok {
			wrappers[n] = eth2wrap.WithSyntheticDuties(sbn{h: h})
		}

		return wrappers[n]
	}

	tr.Emit(drv.Step{"ev": "Reset", "sid": sid, "mode": "S", "spe": int(h.spe)})

	for _, st := range sched[1:] {
		beat.Add(1)

		switch drv.Str(st["ev"]) {
		case "Call":
			id, n, op := drv.Num(st["c"]), drv.Num(st["n"]), drv.Str(st["op"])
			g, ver := drv.Str(st["g"]), drv.Str(st["ver"])

			h.mu.Lock()
			_, dup := h.calls[id]
			from := h.calls[drv.Num(st["from"])]
			h.mu.Unlock()

			if dup {
				continue
			}

			var signed *eth2api.VersionedSignedProposal

			if op == "submit" {
				if from != nil && from.proposal != nil {
					signed = sign(from.proposal)
					g, ver = signedFacts(signed)
				} else {
					signed = signedProposal(ver, g)
					ver = signed.Version.String()
				}
			}

			var blinded *eth2api.VersionedSignedBlindedProposal
			if op == "submitb" {
				blinded = blindedProposal(ver, g)
				g, ver = blindedFacts(blinded)
			}

			var preps []*eth2v1.ProposalPreparation
			for _, x := range list(st["fees"]) {
				preps = append(preps, &eth2v1.ProposalPreparation{ValidatorIndex: eth2p0.ValidatorIndex(drv.Num(obj(x)["v"])),
					FeeRecipient: bellatrix.ExecutionAddress{byte(drv.Num(obj(x)["tok"]))}})
			}

			c := &sCall{id: id}
			cl := node(n)

			h.mu.Lock()
			h.calls[id] = c
			tr.Emit(drv.Step{"ev": "Call", "c": id, "n": n, "op": op, "epoch": drv.Num(st["epoch"]), "slot": drv.Num(st["slot"]), "g": g,
				"ver": ver, "fees": orEmpty(st["fees"])})
			h.mu.Unlock()

			ctx := context.WithValue(t.Context(), ctxKey{}, id)
			epoch, slot := eth2p0.Epoch(drv.Num(st["epoch"])), eth2p0.Slot(drv.Num(st["slot"]))

			go func() {
				var (
					err      error
					duties   []*eth2v1.ProposerDuty
					proposal *eth2api.VersionedProposal
				)

				switch op {
				case "duties":
					var resp *eth2api.Response[[]*eth2v1.ProposerDuty]
					if resp, err = cl.ProposerDuties(ctx, &eth2api.ProposerDutiesOpts{Epoch: epoch}); err == nil {
						duties = resp.Data
					}
				case "dutiesc":
					var resp eth2wrap.ProposerDutyWithMeta
					if resp, err = cl.ProposerDutiesCache(ctx, epoch, nil); err == nil {
						duties = resp.Duties
					}
				case "proposal":
					var resp *eth2api.Response[*eth2api.VersionedProposal]
					if resp, err = cl.Proposal(ctx, &eth2api.ProposalOpts{Slot: slot}); err == nil {
						proposal = resp.Data
					}
				case "submit":
					err = cl.SubmitProposal(ctx, &eth2api.SubmitProposalOpts{Proposal: signed})
				case "submitb":
					err = cl.SubmitBlindedProposal(ctx, &eth2api.SubmitBlindedProposalOpts{Proposal: blinded})
				case "prep":
					err = cl.SubmitProposalPreparations(ctx, preps)
				default:
					err = errors.New("verif: unknown op")
				}

				h.mu.Lock()
				c.err, c.duties, c.proposal, c.done = err, duties, proposal, true
				if err == nil && duties == nil && (op == "duties" || op == "dutiesc") {
					c.duties = []*eth2v1.ProposerDuty{}
				}
				h.mu.Unlock()
			}()

			synctest.Wait()

			for _, a := range list(st["auto"]) {
				as := obj(a)
				if how, ok := a.(string); ok {
					as = drv.Step{"how": how}
				}

				if !h.answer(id, as) {
					break
				}

				synctest.Wait()
			}

			h.flush()
		case "Ans":
			if h.answer(drv.Num(st["c"]), st) {
				synctest.Wait()
				h.flush()
			}
		case "AnsAny": // the waiting call with the lowest number
			if id, ok := h.lowestPending(); ok && h.answer(id, st) {
				synctest.Wait()
				h.flush()
			}
		case "World": // the chain moves on: other validators, duties, blocks
			h.mu.Lock()
			w := drv.Step{}
			for k, v := range h.world {
				w[k] = v
			}
			for k, v := range st {
				if k != "ev" {
					w[k] = v
				}
			}
			h.world = w
			h.mu.Unlock()
		case "Scribble":
			h.mu.Lock()
			c := h.calls[drv.Num(st["c"])]

			if c != nil && c.done && c.err == nil && c.duties != nil {
				for _, d := range c.duties {
					d.PubKey = pkOf(99) // what core/validatorapi.ProposerDuties does with the answer: root key -> public share
				}

				tr.Emit(drv.Step{"ev": "Scribble", "c": c.id})
			}
			h.mu.Unlock()
		}
	}

	// nothing may stay blocked inside the bubble: whatever still waits is answered with an error
	for range 1000 {
		beat.Add(1)
		h.mu.Lock()
		ids := []int{}
		for id := range h.pending {
			ids = append(ids, id)
		}
		h.mu.Unlock()

		if len(ids) == 0 {
			break
		}

		sort.Ints(ids)
		h.answer(ids[0], drv.Step{"how": "err"})
		synctest.Wait()
		h.flush()
	}

	tr.Emit(drv.Step{"ev": "End"})
}

// =====================================================================================================================
// L: the lazy client
// =====================================================================================================================

type fake struct {
	beaconmock.Mock

	id int
	mu sync.Mutex
	vc func(context.Context) (eth2wrap.ActiveValidators, eth2wrap.CompleteValidators, error)
	pd func(context.Context, eth2p0.Epoch, []eth2p0.ValidatorIndex) (eth2wrap.ProposerDutyWithMeta, error)
	ad func(context.Context, eth2p0.Epoch, []eth2p0.ValidatorIndex) (eth2wrap.AttesterDutyWithMeta, error)
	sd func(context.Context, eth2p0.Epoch, []eth2p0.ValidatorIndex) (eth2wrap.SyncDutyWithMeta, error)
}

var errNoCache = errors.New("verif:nocache")

func (f *fake) SetValidatorCache(vc func(context.Context) (eth2wrap.ActiveValidators, eth2wrap.CompleteValidators, error)) {
	f.mu.Lock()
	f.vc = vc
	f.mu.Unlock()
}

func (f *fake) SetDutiesCache(
	pd func(context.Context, eth2p0.Epoch, []eth2p0.ValidatorIndex) (eth2wrap.ProposerDutyWithMeta, error),
	ad func(context.Context, eth2p0.Epoch, []eth2p0.ValidatorIndex) (eth2wrap.AttesterDutyWithMeta, error),
	sd func(context.Context, eth2p0.Epoch, []eth2p0.ValidatorIndex) (eth2wrap.SyncDutyWithMeta, error),
) {
	f.mu.Lock()
	f.pd, f.ad, f.sd = pd, ad, sd
	f.mu.Unlock()
}

// the fake client answers the cached endpoints like the http adapter: through the function it was handed; the answer
// carries the function's token (as validator index) and the client's number (in the public key / the slot)
func (f *fake) ActiveValidators(ctx context.Context) (eth2wrap.ActiveValidators, error) {
	f.mu.Lock()
	vc := f.vc
	f.mu.Unlock()

	if vc == nil {
		return nil, errNoCache
	}

	a, _, err := vc(ctx)
	if err != nil {
		return nil, err
	}

	res := eth2wrap.ActiveValidators{}
	for k := range a {
		res[k] = pkOf(f.id)
	}

	return res, nil
}

func (f *fake) CompleteValidators(ctx context.Context) (eth2wrap.CompleteValidators, error) {
	f.mu.Lock()
	vc := f.vc
	f.mu.Unlock()

	if vc == nil {
		return nil, errNoCache
	}

	_, c, err := vc(ctx)
	if err != nil {
		return nil, err
	}

	res := eth2wrap.CompleteValidators{}
	for k := range c {
		res[k] = &eth2v1.Validator{Index: k, Validator: &eth2p0.Validator{PublicKey: pkOf(f.id)}}
	}

	return res, nil
}

func (f *fake) ProposerDutiesCache(ctx context.Context, e eth2p0.Epoch, idx []eth2p0.ValidatorIndex) (eth2wrap.ProposerDutyWithMeta, error) {
	f.mu.Lock()
	pd := f.pd
	f.mu.Unlock()

	if pd == nil {
		return eth2wrap.ProposerDutyWithMeta{}, errNoCache
	}

	r, err := pd(ctx, e, idx)
	if err != nil || len(r.Duties) != 1 {
		return eth2wrap.ProposerDutyWithMeta{}, errors.New("verif: duties cache function")
	}

	return eth2wrap.ProposerDutyWithMeta{Duties: []*eth2v1.ProposerDuty{{ValidatorIndex: r.Duties[0].ValidatorIndex, Slot: eth2p0.Slot(f.id)}}}, nil
}

func (f *fake) AttesterDutiesCache(ctx context.Context, e eth2p0.Epoch, idx []eth2p0.ValidatorIndex) (eth2wrap.AttesterDutyWithMeta, error) {
	f.mu.Lock()
	ad := f.ad
	f.mu.Unlock()

	if ad == nil {
		return eth2wrap.AttesterDutyWithMeta{}, errNoCache
	}

	r, err := ad(ctx, e, idx)
	if err != nil || len(r.Duties) != 1 {
		return eth2wrap.AttesterDutyWithMeta{}, errors.New("verif: duties cache function")
	}

	return eth2wrap.AttesterDutyWithMeta{Duties: []*eth2v1.AttesterDuty{{ValidatorIndex: r.Duties[0].ValidatorIndex, Slot: eth2p0.Slot(f.id)}}}, nil
}

func (f *fake) SyncCommDutiesCache(ctx context.Context, e eth2p0.Epoch, idx []eth2p0.ValidatorIndex) (eth2wrap.SyncDutyWithMeta, error) {
	f.mu.Lock()
	sd := f.sd
	f.mu.Unlock()

	if sd == nil {
		return eth2wrap.SyncDutyWithMeta{}, errNoCache
	}

	r, err := sd(ctx, e, idx)
	if err != nil || len(r.Duties) != 1 {
		return eth2wrap.SyncDutyWithMeta{}, errors.New("verif: duties cache function")
	}

	return eth2wrap.SyncDutyWithMeta{Duties: []*eth2v1.SyncCommitteeDuty{{ValidatorIndex: r.Duties[0].ValidatorIndex,
		ValidatorSyncCommitteeIndices: []eth2p0.CommitteeIndex{eth2p0.CommitteeIndex(f.id)}}}}, nil
}

func (f *fake) Spec(context.Context, *eth2api.SpecOpts) (*eth2api.Response[map[string]any], error) {
	return &eth2api.Response[map[string]any]{Data: map[string]any{"client": f.id}}, nil
}

func (f *fake) Address() string                          { return fmt.Sprintf("addr-%d", f.id) }
func (f *fake) Name() string                             { return fmt.Sprintf("fake-%d", f.id) }
func (f *fake) IsActive() bool                           { return true }
func (f *fake) IsSynced() bool                           { return true }
func (f *fake) ClientForAddress(string) eth2wrap.Client  { return f }
func (f *fake) SetForkVersion([4]byte)                   {}
func (f *fake) Headers() map[string]string               { return nil }

type lCall struct {
	id     int
	op     string
	cancel context.CancelFunc
	canc   bool
	done   bool
	logged bool
	ret    drv.Step
}

type lHarness struct {
	tr    *drv.Tracer
	mu    sync.Mutex
	calls map[int]*lCall
	prov  map[int]chan string // call id -> the gate of its connect attempt
	nprov int
}

func (h *lHarness) flush() {
	h.mu.Lock()
	defer h.mu.Unlock()

	ids := []int{}
	for id, c := range h.calls {
		if c.done && !c.logged {
			ids = append(ids, id)
		}
	}

	sort.Ints(ids)

	for _, id := range ids {
		h.calls[id].logged = true
		h.tr.Emit(h.calls[id].ret)
	}
}

func (h *lHarness) allReturned() bool {
	h.mu.Lock()
	defer h.mu.Unlock()

	for _, c := range h.calls {
		if !c.done {
			return false
		}
	}

	return true
}

func runL(t *testing.T, tr *drv.Tracer, sid int, sched []drv.Step) bool {
	t.Helper()

	h := &lHarness{tr: tr, calls: map[int]*lCall{}, prov: map[int]chan string{}}

	provider := func(ctx context.Context) (eth2wrap.Client, error) {
		id := callID(ctx)
		gate := make(chan string, 1)

		h.mu.Lock()
		h.nprov++
		pid := h.nprov
		h.prov[id] = gate
		tr.Emit(drv.Step{"ev": "Prov", "c": id, "pid": pid})
		h.mu.Unlock()

		switch <-gate {
		case "ok":
			return &fake{id: pid}, nil
		case "errcl":
			return &fake{id: pid}, errInjected
		}

		return nil, errInjected
	}

	lazy := eth2wrap.NewLazyVerif(provider)

	tr.Emit(drv.Step{"ev": "Reset", "sid": sid, "mode": "L"})

	pans := func(c int, how string) bool {
		h.mu.Lock()

		gate, ok := h.prov[c]
		if !ok {
			h.mu.Unlock()
			return false
		}

		delete(h.prov, c)
		tr.Emit(drv.Step{"ev": "PAns", "c": c, "how": how})
		h.mu.Unlock()

		gate <- how

		return true
	}
	tick := func() {
		tr.Emit(drv.Step{"ev": "Tick"})
		time.Sleep(time.Millisecond)
		synctest.Wait()
	}

	// cache functions: the token comes back as the (only) validator index of the answer
	vcFunc := func(tok int) func(context.Context) (eth2wrap.ActiveValidators, eth2wrap.CompleteValidators, error) {
		return func(context.Context) (eth2wrap.ActiveValidators, eth2wrap.CompleteValidators, error) {
			return eth2wrap.ActiveValidators{eth2p0.ValidatorIndex(tok): {}}, eth2wrap.CompleteValidators{eth2p0.ValidatorIndex(tok): nil}, nil
		}
	}

	for _, st := range sched[1:] {
		beat.Add(1)

		switch drv.Str(st["ev"]) {
		case "Call":
			id, op, tok := drv.Num(st["c"]), drv.Str(st["op"]), drv.Num(st["tok"])

			h.mu.Lock()
			_, dup := h.calls[id]
			h.mu.Unlock()

			if dup {
				continue
			}

			ctx, cancel := context.WithCancel(context.WithValue(t.Context(), ctxKey{}, id))
			c := &lCall{id: id, op: op, cancel: cancel}

			h.mu.Lock()
			h.calls[id] = c
			tr.Emit(drv.Step{"ev": "Call", "c": id, "op": op, "tok": tok})
			h.mu.Unlock()

			go func() {
				ret := drv.Step{"ev": "Ret", "c": id, "err": "", "cl": 0, "tok": 0, "s": "", "b": false}

				switch op {
				case "av":
					a, err := lazy.ActiveValidators(ctx)
					ret["err"] = classify(err)

					for k, pk := range a {
						ret["tok"], ret["cl"] = int(k), int(pk[0])
					}
				case "cv":
					a, err := lazy.CompleteValidators(ctx)
					ret["err"] = classify(err)

					for k, v := range a {
						ret["tok"], ret["cl"] = int(k), int(v.Validator.PublicKey[0])
					}
				case "pdc":
					r, err := lazy.ProposerDutiesCache(ctx, 0, nil)
					ret["err"] = classify(err)

					if err == nil {
						ret["tok"], ret["cl"] = int(r.Duties[0].ValidatorIndex), int(r.Duties[0].Slot)
					}
				case "adc":
					r, err := lazy.AttesterDutiesCache(ctx, 0, nil)
					ret["err"] = classify(err)

					if err == nil {
						ret["tok"], ret["cl"] = int(r.Duties[0].ValidatorIndex), int(r.Duties[0].Slot)
					}
				case "sdc":
					r, err := lazy.SyncCommDutiesCache(ctx, 0, nil)
					ret["err"] = classify(err)

					if err == nil {
						ret["tok"], ret["cl"] = int(r.Duties[0].ValidatorIndex), int(r.Duties[0].ValidatorSyncCommitteeIndices[0])
					}
				case "gen":
					r, err := lazy.Spec(ctx, &eth2api.SpecOpts{})
					ret["err"] = classify(err)

					if err == nil {
						ret["cl"], _ = r.Data["client"].(int)
					}
				case "addr":
					ret["s"] = lazy.Address()
				case "name":
					ret["s"] = lazy.Name()
				case "active":
					ret["b"] = lazy.IsActive()
				case "synced":
					ret["b"] = lazy.IsSynced()
				case "cfa":
					if f, ok := lazy.ClientForAddress("x").(*fake); ok {
						ret["cl"] = f.id
					}
				case "setvc":
					lazy.SetValidatorCache(vcFunc(tok))
				case "setdc":
					lazy.SetDutiesCache(
						func(context.Context, eth2p0.Epoch, []eth2p0.ValidatorIndex) (eth2wrap.ProposerDutyWithMeta, error) {
							return eth2wrap.ProposerDutyWithMeta{Duties: []*eth2v1.ProposerDuty{{ValidatorIndex: eth2p0.ValidatorIndex(tok)}}}, nil
						},
						func(context.Context, eth2p0.Epoch, []eth2p0.ValidatorIndex) (eth2wrap.AttesterDutyWithMeta, error) {
							return eth2wrap.AttesterDutyWithMeta{Duties: []*eth2v1.AttesterDuty{{ValidatorIndex: eth2p0.ValidatorIndex(tok)}}}, nil
						},
						func(context.Context, eth2p0.Epoch, []eth2p0.ValidatorIndex) (eth2wrap.SyncDutyWithMeta, error) {
							return eth2wrap.SyncDutyWithMeta{Duties: []*eth2v1.SyncCommitteeDuty{{ValidatorIndex: eth2p0.ValidatorIndex(tok)}}}, nil
						})
				}

				if ret["err"] == "bn" { // the connect function's error
					ret["err"] = "prov"
				}

				h.mu.Lock()
				c.ret, c.done = ret, true
				h.mu.Unlock()
			}()

			synctest.Wait()
			h.flush()
		case "PAns":
			if pans(drv.Num(st["c"]), drv.Str(st["how"])) {
				synctest.Wait()
				h.flush()
			}
		case "PAnsAny":
			h.mu.Lock()
			best, ok := 0, false
			for id := range h.prov {
				if !ok || id < best {
					best, ok = id, true
				}
			}
			h.mu.Unlock()

			if ok && pans(best, drv.Str(st["how"])) {
				synctest.Wait()
				h.flush()
			}
		case "Cancel":
			h.mu.Lock()
			c := h.calls[drv.Num(st["c"])]
			h.mu.Unlock()

			if c != nil && !c.canc {
				c.canc = true
				tr.Emit(drv.Step{"ev": "Cancel", "c": c.id})
				c.cancel()
				synctest.Wait()
				h.flush()
			}
		case "Tick":
			tick()
			h.flush()
		}
	}

	// drain: every waiting connect fails, the ticker runs until everything has returned
	for i := 0; !h.allReturned(); i++ {
		beat.Add(1)

		if i > 2000 {
			tr.Emit(drv.Step{"ev": "Hang"})

			for _, c := range h.calls {
				c.cancel()
			}

			for c := range h.prov {
				pans(c, "err")
			}

			return false
		}

		h.mu.Lock()
		ids := []int{}
		for id := range h.prov {
			ids = append(ids, id)
		}
		h.mu.Unlock()

		sort.Ints(ids)

		if len(ids) > 0 {
			pans(ids[0], "err")
			synctest.Wait()
			h.flush()

			continue
		}

		tick()
		h.flush()
	}

	for _, c := range h.calls {
		c.cancel()
	}

	tr.Emit(drv.Step{"ev": "End"})

	return true
}

// =====================================================================================================================
// V: the validator cache
// =====================================================================================================================

type vAnswer struct {
	how  string
	vals []any
}

type vEvent struct {
	ret drv.Step     // a call returned
	req drv.Step     // ... or a request arrived at the beacon node
	c   int
	ans chan vAnswer // the gate of the request
}

type vbn struct {
	beaconmock.Mock

	ev chan vEvent
}

func stateOf(s string) eth2v1.ValidatorState {
	var st eth2v1.ValidatorState
	_ = st.UnmarshalJSON([]byte(`"` + s + `"`))

	return st
}

func (b vbn) Validators(ctx context.Context, opts *eth2api.ValidatorsOpts) (*eth2api.Response[map[eth2p0.ValidatorIndex]*eth2v1.Validator], error) {
	pks := []any{}
	for _, pk := range opts.PubKeys {
		pks = append(pks, int(pk[0]))
	}

	gate := make(chan vAnswer, 1)
	b.ev <- vEvent{c: callID(ctx), req: drv.Step{"ev": "Req", "c": callID(ctx), "state": opts.State, "pks": pks, "nidx": len(opts.Indices)}, ans: gate}
	a := <-gate

	switch a.how {
	case "ok":
		res := map[eth2p0.ValidatorIndex]*eth2v1.Validator{}
		for _, x := range a.vals {
			i := eth2p0.ValidatorIndex(drv.Num(obj(x)["i"]))
			res[i] = &eth2v1.Validator{Index: i, Status: stateOf(drv.Str(obj(x)["st"])),
				Validator: &eth2p0.Validator{PublicKey: pkOf(drv.Num(obj(x)["pk"]))}}
		}

		return &eth2api.Response[map[eth2p0.ValidatorIndex]*eth2v1.Validator]{Data: res}, nil
	case "nilmap":
		return &eth2api.Response[map[eth2p0.ValidatorIndex]*eth2v1.Validator]{}, nil
	case "nilval":
		return &eth2api.Response[map[eth2p0.ValidatorIndex]*eth2v1.Validator]{Data: map[eth2p0.ValidatorIndex]*eth2v1.Validator{1: nil}}, nil
	}

	return nil, errInjected
}

func describeV(act eth2wrap.ActiveValidators, all eth2wrap.CompleteValidators) ([]any, []any) {
	ai := []int{}
	for i := range act {
		ai = append(ai, int(i))
	}

	sort.Ints(ai)

	al := []any{}
	for _, i := range ai {
		al = append(al, drv.Step{"i": i, "pk": int(act[eth2p0.ValidatorIndex(i)][0])})
	}

	ci := []int{}
	for i := range all {
		ci = append(ci, int(i))
	}

	sort.Ints(ci)

	cl := []any{}
	for _, i := range ci {
		v := all[eth2p0.ValidatorIndex(i)]
		cl = append(cl, drv.Step{"i": int(v.Index), "pk": int(v.Validator.PublicKey[0]), "st": v.Status.String()})
	}

	return al, cl
}

func runV(t *testing.T, tr *drv.Tracer, sid int, sched []drv.Step) bool {
	t.Helper()

	cfg := sched[0]

	var pubkeys []eth2p0.BLSPubKey
	for _, p := range list(cfg["pubkeys"]) {
		pubkeys = append(pubkeys, pkOf(drv.Num(p)))
	}

	evs := make(chan vEvent, 1024)
	cache := eth2wrap.NewValidatorCache(vbn{ev: evs}, pubkeys)

	tr.Emit(drv.Step{"ev": "Reset", "sid": sid, "mode": "V", "pubkeys": orEmpty(cfg["pubkeys"])})

	outstanding := map[int]bool{}
	atGate := map[int]chan vAnswer{}
	started := map[int]bool{}

	handle := func(e vEvent) {
		if e.ret != nil {
			delete(outstanding, e.c)
			tr.Emit(e.ret)

			return
		}

		atGate[e.c] = e.ans
		tr.Emit(e.req)
	}
	// settle: the driver moves on when a call waits at the beacon node (it holds the cache's lock, everybody else waits
	// for it) or when nothing is under way
	settle := func() bool {
		for {
			drained := false
			for !drained {
				select {
				case e := <-evs:
					handle(e)
				default:
					drained = true
				}
			}

			if len(outstanding) == 0 || len(atGate) > 0 {
				return true
			}

			select {
			case e := <-evs:
				handle(e)
			case <-time.After(20 * time.Second):
				tr.Emit(drv.Step{"ev": "Hang"})
				return false
			}
		}
	}
	launch := func(st drv.Step) {
		id, op, slot := drv.Num(st["c"]), drv.Str(st["op"]), drv.Num(st["slot"])
		if started[id] {
			return
		}

		started[id] = true
		outstanding[id] = true

		tr.Emit(drv.Step{"ev": "Call", "c": id, "op": op, "slot": slot})

		ctx := context.WithValue(context.Background(), ctxKey{}, id)

		go func() {
			ret := drv.Step{"ev": "Ret", "c": id, "err": "", "act": []any{}, "all": []any{}, "byslot": false}

			switch op {
			case "head":
				act, all, err := cache.GetByHead(ctx)
				ret["err"] = classify(err)

				if err == nil {
					ret["act"], ret["all"] = describeV(act, all)
				}
			case "slot":
				act, all, byslot, err := cache.GetBySlot(ctx, uint64(slot))
				ret["err"] = classify(err)
				ret["byslot"] = byslot

				if err == nil {
					ret["act"], ret["all"] = describeV(act, all)
				}
			case "trim":
				cache.Trim()
			}

			evs <- vEvent{c: id, ret: ret}
		}()
	}
	answer := func(c int, how string, vals []any) bool {
		gate, ok := atGate[c]
		if !ok {
			return false
		}

		delete(atGate, c)

		if vals == nil {
			vals = []any{}
		}

		tr.Emit(drv.Step{"ev": "Ans", "c": c, "how": how, "vals": vals})
		gate <- vAnswer{how: how, vals: vals}

		return true
	}

	for _, st := range sched[1:] {
		beat.Add(1)

		switch drv.Str(st["ev"]) {
		case "Call":
			launch(st)
		case "Burst": // several calls started together
			for _, x := range list(st["calls"]) {
				launch(obj(x))
			}
		case "Ans":
			if !answer(drv.Num(st["c"]), drv.Str(st["how"]), list(st["vals"])) {
				continue
			}
		case "AnsAny": // the call at the beacon node with the lowest number
			best, ok := 0, false
			for id := range atGate {
				if !ok || id < best {
					best, ok = id, true
				}
			}

			if !ok || !answer(best, drv.Str(st["how"]), list(st["vals"])) {
				continue
			}
		default:
			continue
		}

		if !settle() {
			return false
		}

		// answers given right away to the call just made (as long as it is the one at the beacon node)
		for _, a := range list(st["auto"]) {
			if !answer(drv.Num(st["c"]), drv.Str(obj(a)["how"]), list(obj(a)["vals"])) {
				break
			}

			if !settle() {
				return false
			}
		}
	}

	for len(outstanding) > 0 {
		beat.Add(1)

		ids := []int{}
		for id := range atGate {
			ids = append(ids, id)
		}

		sort.Ints(ids)

		if len(ids) > 0 {
			answer(ids[0], "err", nil)
		}

		if !settle() {
			return false
		}

		if len(ids) == 0 && len(atGate) == 0 && len(outstanding) > 0 {
			tr.Emit(drv.Step{"ev": "Hang"})
			return false
		}
	}

	tr.Emit(drv.Step{"ev": "End"})

	return true
}
