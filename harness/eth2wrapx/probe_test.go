package eth2wrapx

import (
	"context"
	"fmt"
	"sync"
	"testing"
	"time"

	eth2api "github.com/attestantio/go-eth2-client/api"
	eth2v1 "github.com/attestantio/go-eth2-client/api/v1"
	eth2spec "github.com/attestantio/go-eth2-client/spec"
	eth2p0 "github.com/attestantio/go-eth2-client/spec/phase0"

	"github.com/obolnetwork/charon/app/eth2wrap"
	"github.com/obolnetwork/charon/testutil"
	"github.com/obolnetwork/charon/testutil/beaconmock"
)

type pbn struct {
	beaconmock.Mock

	spe   uint64
	vals  eth2wrap.ActiveValidators
	real  map[eth2p0.Epoch][]*eth2v1.ProposerDuty
	mu    *sync.Mutex
	props *[]eth2p0.Slot
	gate  chan struct{}
	arr   chan struct{}
}

func (b pbn) ActiveValidators(context.Context) (eth2wrap.ActiveValidators, error) {
	if b.gate != nil {
		b.arr <- struct{}{}
		<-b.gate
	}
	return b.vals, nil
}

func (b pbn) ProposerDuties(_ context.Context, opts *eth2api.ProposerDutiesOpts) (*eth2api.Response[[]*eth2v1.ProposerDuty], error) {
	var out []*eth2v1.ProposerDuty
	for _, d := range b.real[opts.Epoch] {
		c := *d
		out = append(out, &c)
	}
	return &eth2api.Response[[]*eth2v1.ProposerDuty]{Data: out}, nil
}

func (b pbn) Spec(context.Context, *eth2api.SpecOpts) (*eth2api.Response[map[string]any], error) {
	return &eth2api.Response[map[string]any]{Data: map[string]any{"SECONDS_PER_SLOT": 12 * time.Second, "SLOTS_PER_EPOCH": b.spe}}, nil
}

func (b pbn) SignedBeaconBlock(context.Context, *eth2api.SignedBeaconBlockOpts) (*eth2api.Response[*eth2spec.VersionedSignedBeaconBlock], error) {
	return &eth2api.Response[*eth2spec.VersionedSignedBeaconBlock]{Data: &eth2spec.VersionedSignedBeaconBlock{
		Version: eth2spec.DataVersionCapella, Capella: testutil.RandomCapellaVersionedSignedBeaconBlock().Capella}}, nil
}

func (b pbn) Proposal(_ context.Context, opts *eth2api.ProposalOpts) (*eth2api.Response[*eth2api.VersionedProposal], error) {
	b.mu.Lock()
	*b.props = append(*b.props, opts.Slot)
	b.mu.Unlock()
	blk := testutil.RandomCapellaBeaconBlock()
	blk.Slot = opts.Slot
	return &eth2api.Response[*eth2api.VersionedProposal]{Data: &eth2api.VersionedProposal{Version: eth2spec.DataVersionCapella, Capella: blk}}, nil
}

func pk(i int) eth2p0.BLSPubKey {
	var p eth2p0.BLSPubKey
	p[0] = byte(i)
	return p
}

func newPBN(spe uint64, idx ...int) pbn {
	b := pbn{spe: spe, vals: eth2wrap.ActiveValidators{}, real: map[eth2p0.Epoch][]*eth2v1.ProposerDuty{}, mu: new(sync.Mutex), props: new([]eth2p0.Slot)}
	for _, i := range idx {
		b.vals[eth2p0.ValidatorIndex(i)] = pk(i)
	}
	return b
}

// F1: a synthetic duty lands on the slot of another validator's real duty; Proposal for that slot is answered synthetically.
func TestProbeSynthOnRealSlot(t *testing.T) {
	b := newPBN(4, 1, 5)
	// validator 1 really proposes slot 5 of epoch 1; validator 5 has no real duty: 5 % 4 = 1 -> synthetic duty in slot 5
	b.real[1] = []*eth2v1.ProposerDuty{{PubKey: pk(1), Slot: 5, ValidatorIndex: 1}}
	w := eth2wrap.WithSyntheticDuties(b)
	resp, err := w.ProposerDuties(context.Background(), &eth2api.ProposerDutiesOpts{Epoch: 1})
	if err != nil {
		t.Fatal(err)
	}
	for _, d := range resp.Data {
		t.Logf("duty slot=%d vidx=%d", d.Slot, d.ValidatorIndex)
	}
	p, err := w.Proposal(context.Background(), &eth2api.ProposalOpts{Slot: 5})
	if err != nil {
		t.Fatal(err)
	}
	g, _ := p.Data.Graffiti()
	pi, _ := p.Data.ProposerIndex()
	t.Logf("proposal for slot 5: graffiti=%q proposer=%d forwarded=%v", string(g[:]), pi, *b.props)
}

// F2: the winner among colliding validators depends on map iteration order.
func TestProbeSynthOrder(t *testing.T) {
	seen := map[string]int{}
	for i := 0; i < 200; i++ {
		b := newPBN(4, 1, 5, 9, 13, 2, 6, 10)
		w := eth2wrap.WithSyntheticDuties(b)
		resp, err := w.ProposerDuties(context.Background(), &eth2api.ProposerDutiesOpts{Epoch: 3})
		if err != nil {
			t.Fatal(err)
		}
		s := ""
		m := map[eth2p0.Slot]eth2p0.ValidatorIndex{}
		for _, d := range resp.Data {
			m[d.Slot] = d.ValidatorIndex
		}
		for sl := eth2p0.Slot(12); sl < 16; sl++ {
			s += fmt.Sprintf("%d:%d ", sl, m[sl])
		}
		seen[s]++
	}
	t.Logf("distinct assignments for the same epoch and validator set: %v", seen)
}

// F4: the cached duties are handed out by reference.
func TestProbeSynthAlias(t *testing.T) {
	b := newPBN(4, 1, 2)
	b.real[0] = []*eth2v1.ProposerDuty{{PubKey: pk(1), Slot: 3, ValidatorIndex: 1}}
	w := eth2wrap.WithSyntheticDuties(b)
	r1, _ := w.ProposerDuties(context.Background(), &eth2api.ProposerDutiesOpts{Epoch: 0})
	for _, d := range r1.Data {
		d.PubKey = pk(99) // what validatorapi.ProposerDuties does (root key -> public share)
	}
	r2, _ := w.ProposerDuties(context.Background(), &eth2api.ProposerDutiesOpts{Epoch: 0})
	for _, d := range r2.Data {
		t.Logf("second answer: slot=%d vidx=%d pk0=%d", d.Slot, d.ValidatorIndex, d.PubKey[0])
	}
}

// F3: two overlapping fetches of one epoch leave the epoch twice in the fifo; after its eviction and a re-fetch the entry
// is deleted by the very store that added it.
func TestProbeSynthFifoDup(t *testing.T) {
	b := newPBN(4, 2)
	b.gate = make(chan struct{})
	b.arr = make(chan struct{})
	w := eth2wrap.WithSyntheticDuties(b)
	done := make(chan struct{})
	for i := 0; i < 2; i++ {
		go func() {
			_, _ = w.ProposerDuties(context.Background(), &eth2api.ProposerDutiesOpts{Epoch: 0})
			done <- struct{}{}
		}()
	}
	<-b.arr
	<-b.arr
	b.gate <- struct{}{}
	b.gate <- struct{}{}
	<-done
	<-done
	// the rest without gate
	b2 := b
	b2.gate = nil
	_ = b2
	close(b.gate)
	go func() {
		for range b.arr {
		}
	}()
	for e := 1; e <= 9; e++ {
		_, _ = w.ProposerDuties(context.Background(), &eth2api.ProposerDutiesOpts{Epoch: eth2p0.Epoch(e)})
	}
	// epoch 0 evicted (fifo had it twice: 11 entries)
	p, err := w.Proposal(context.Background(), &eth2api.ProposalOpts{Slot: 2})
	if err != nil {
		t.Fatal(err)
	}
	g, _ := p.Data.Graffiti()
	t.Logf("proposal for synthetic slot 2: graffiti=%q forwarded to BN: %v", string(g[:12]), *b.props)
}

type lcl struct {
	beaconmock.Mock
	pd *bool
}

func (c lcl) SetDutiesCache(
	p func(context.Context, eth2p0.Epoch, []eth2p0.ValidatorIndex) (eth2wrap.ProposerDutyWithMeta, error),
	_ func(context.Context, eth2p0.Epoch, []eth2p0.ValidatorIndex) (eth2wrap.AttesterDutyWithMeta, error),
	_ func(context.Context, eth2p0.Epoch, []eth2p0.ValidatorIndex) (eth2wrap.SyncDutyWithMeta, error),
) {
	*c.pd = p != nil
}

func (c lcl) Spec(context.Context, *eth2api.SpecOpts) (*eth2api.Response[map[string]any], error) {
	return &eth2api.Response[map[string]any]{}, nil
}

// F5: duties caches set before the connect never reach the client.
func TestProbeLazyDutiesCache(t *testing.T) {
	got := new(bool)
	l := eth2wrap.NewLazyVerif(func(context.Context) (eth2wrap.Client, error) { return lcl{pd: got}, nil })
	l.SetDutiesCache(
		func(context.Context, eth2p0.Epoch, []eth2p0.ValidatorIndex) (eth2wrap.ProposerDutyWithMeta, error) {
			return eth2wrap.ProposerDutyWithMeta{}, nil
		}, nil, nil)
	_, _ = l.Spec(context.Background(), &eth2api.SpecOpts{})
	t.Logf("client connected after SetDutiesCache: duties cache handed to the client = %v", *got)
}
