// Package c12 executes ClusterArtifacts schedules on the real code and records what happened.
//
// Two artifact sources:
//   - "create": `charon create cluster` (cmd.New() cobra root, in-process, insecure keys) into a scratch directory; the
//     lock, keystores, deposit-data files of the node directories are loaded with charon's own loaders and
//     `combine.Combine` is run on subsets of node directories;
//   - "fort": cluster.NewForT locks (every format version via cluster.WithVersion), completed with deposit data and
//     re-signed with the returned key shares / p2p keys, marshalled with charon's MarshalJSON.
//
// Tamper cases are applied to the marshalled JSON by a generic leaf walker; the altered file is then loaded
// (json.Unmarshal into cluster.Lock / cluster.Definition) and verified (VerifyHashes, VerifySignatures(nil)).  The
// executor only records verdicts and facts about the input (was the value actually changed); what the verdict must be
// is decided by the trace specification.
package c12

import (
	"bytes"
	"context"
	"encoding/base64"
	"encoding/hex"
	"encoding/json"
	"fmt"
	"io"
	"math/rand"
	"os"
	"path/filepath"
	"sort"
	"strconv"
	"strings"
	"sync"
	"testing"
	"time"

	eth2v1 "github.com/attestantio/go-eth2-client/api/v1"
	"github.com/attestantio/go-eth2-client/spec/bellatrix"
	eth2p0 "github.com/attestantio/go-eth2-client/spec/phase0"
	k1 "github.com/decred/dcrd/dcrec/secp256k1/v4"
	"github.com/herumi/bls-eth-go-binary/bls"

	"github.com/obolnetwork/charon/app/k1util"
	"github.com/obolnetwork/charon/cluster"
	"github.com/obolnetwork/charon/cmd"
	"github.com/obolnetwork/charon/cmd/combine"
	"github.com/obolnetwork/charon/eth2util"
	"github.com/obolnetwork/charon/eth2util/deposit"
	"github.com/obolnetwork/charon/eth2util/keystore"
	"github.com/obolnetwork/charon/eth2util/registration"
	"github.com/obolnetwork/charon/tbls"
	"github.com/obolnetwork/charon/tbls/tblsconv"

	"verifharness/drv"
)

type step = drv.Step

// config of one schedule (first step "Cfg").
type config struct {
	Src     string // create | fort
	Art     string // lock | def
	Ver     string
	N, T, V int
	Net     string
	Amounts []int // ETH
	DefFile bool  // source "create": the configuration travels in a cluster definition file (--definition-file)
	Comp    bool
	Gas     int
	Fee, Wd []string // 40 hex digits, no 0x
	Seed    int
	Msig    int    // >0: every EIP712 signature leaf holds this many concatenated 65-byte signatures (v1.11, fort only)
	Flaw    string // none | extrashare | firstshare | aggsig | opsig | enrsig | creatorsig  (fort only)
}

func ints(v any) []int {
	var out []int
	if l, ok := v.([]any); ok {
		for _, x := range l {
			out = append(out, drv.Num(x))
		}
	}
	return out
}

func strs(v any) []string {
	var out []string
	if l, ok := v.([]any); ok {
		for _, x := range l {
			out = append(out, drv.Str(x))
		}
	}
	return out
}

func parseCfg(s step) config {
	b, _ := s["comp"].(bool)
	return config{Src: drv.Str(s["src"]), Art: drv.Str(s["art"]), Ver: drv.Str(s["ver"]), N: drv.Num(s["n"]),
		T: drv.Num(s["t"]), V: drv.Num(s["v"]), Net: drv.Str(s["net"]), Amounts: ints(s["amounts"]), Comp: b,
		Gas: drv.Num(s["gas"]), Fee: strs(s["fee"]), Wd: strs(s["wd"]), Seed: drv.Num(s["seed"]), Flaw: drv.Str(s["flaw"]), Msig: drv.Num(s["msig"]), DefFile: s["deffile"] == true}
}

func verNum(v string) int {
	p := strings.Split(strings.TrimPrefix(v, "v1."), ".")
	n, _ := strconv.Atoi(p[0])
	return n
}

func okfail(err error) string {
	if err == nil {
		return "ok"
	}
	return "fail"
}

func hx(b []byte) string {
	if len(b) == 0 {
		return ""
	}
	return "0x" + hex.EncodeToString(b)
}

// ---------------------------------------------------------------------------------------------------------------
// one schedule
// ---------------------------------------------------------------------------------------------------------------

type run struct {
	t    *testing.T
	sid  int
	cfg  config
	dir  string // scratch directory of this schedule
	out  []step
	rng  *rand.Rand
	made bool

	// pristine artifact
	raw     []byte // the file as written (lock or definition JSON)
	prLock  cluster.Lock
	prDef   cluster.Definition
	prHash  [3][]byte // recomputed config, definition, lock hash of the pristine artifact
	current []byte    // the file the next Load/Verify looks at
	curLock *cluster.Lock
	curDef  *cluster.Definition
}

func (r *run) emit(s step) { r.out = append(r.out, s) }

func (r *run) exec(steps []step) {
	for _, s := range steps[1:] {
		switch drv.Str(s["ev"]) {
		case "Create":
			r.create()
		case "Load":
			r.load(drv.Num(s["node"]))
		case "Verify":
			r.verify()
		case "Leaves":
			r.leaves()
		case "Keystores":
			r.keystores(drv.Num(s["node"]))
		case "Deposits":
			r.deposits(drv.Num(s["node"]))
		case "Combine":
			r.combine(ints(s["nodes"]))
		case "Tamper":
			r.tamper(s)
		default:
			r.emit(step{"ev": "BadStep", "step": s})
		}
	}
}

// ---------------------------------------------------------------------------------------------------------------
// Create
// ---------------------------------------------------------------------------------------------------------------

func with0x(l []string) []string {
	var out []string
	for _, a := range l {
		out = append(out, "0x"+a)
	}
	return out
}

func (r *run) create() {
	var err error
	if r.cfg.Src == "create" {
		err = r.createCluster()
	} else {
		err = r.createForT()
	}
	ev := step{"ev": "Create", "ok": err == nil}
	if err != nil {
		ev["err"] = err.Error()
	}
	r.made = err == nil
	r.emit(ev)
}

// createFromDefinition: the operator hands `create cluster` a (creator-less, unsigned) cluster definition file that carries the
// whole configuration, as `create dkg` / the launchpad produce it.
func (r *run) createFromDefinition() error {
	c := r.cfg
	fv, err := eth2util.NetworkToForkVersion(c.Net)
	if err != nil {
		return err
	}
	t := c.T
	if t <= 0 {
		t = (2*c.N + 2) / 3
	}
	fee, wd := with0x(c.Fee), with0x(c.Wd)
	for len(fee) < c.V {
		fee = append(fee, fee[0])
	}
	for len(wd) < c.V {
		wd = append(wd, wd[0])
	}
	for _, l := range [][]string{fee, wd} { // a definition file carries EIP-55 checksummed addresses
		for i := range l {
			if l[i], err = eth2util.ChecksumAddress(l[i]); err != nil {
				return err
			}
		}
	}
	def, err := cluster.NewDefinition("x", c.V, t, fee[:c.V], wd[:c.V], fv, cluster.Creator{}, make([]cluster.Operator, c.N),
		c.Amounts, "", uint(c.Gas), c.Comp, rand.New(rand.NewSource(int64(c.Seed))))
	if err != nil {
		return err
	}
	b, err := json.MarshalIndent(def, "", " ")
	if err != nil {
		return err
	}
	path := filepath.Join(r.dir, "cluster-definition.json")
	if err := os.WriteFile(path, b, 0o600); err != nil {
		return err
	}
	root := cmd.New()
	root.SetArgs([]string{"create", "cluster", "--definition-file=" + path, "--insecure-keys", "--cluster-dir=" + r.dir, "--network=" + c.Net})
	root.SetOut(io.Discard)
	root.SetErr(io.Discard)
	ctx, cancel := context.WithTimeout(context.Background(), 5*time.Minute)
	defer cancel()
	return root.ExecuteContext(ctx)
}

func (r *run) createCluster() error {
	c := r.cfg
	if c.DefFile {
		return r.createFromDefinition()
	}
	args := []string{"create", "cluster",
		fmt.Sprintf("--nodes=%d", c.N), fmt.Sprintf("--num-validators=%d", c.V), "--network=" + c.Net,
		"--insecure-keys", "--cluster-dir=" + r.dir, "--name=x",
		"--fee-recipient-addresses=" + strings.Join(with0x(c.Fee), ","),
		"--withdrawal-addresses=" + strings.Join(with0x(c.Wd), ","),
		fmt.Sprintf("--target-gas-limit=%d", c.Gas)}
	if c.T > 0 {
		args = append(args, fmt.Sprintf("--threshold=%d", c.T))
	}
	if len(c.Amounts) > 0 {
		var a []string
		for _, x := range c.Amounts {
			a = append(a, strconv.Itoa(x))
		}
		args = append(args, "--deposit-amounts="+strings.Join(a, ","))
	}
	if c.Comp {
		args = append(args, "--compounding")
	}
	root := cmd.New()
	root.SetArgs(args)
	root.SetOut(io.Discard)
	root.SetErr(io.Discard)
	ctx, cancel := context.WithTimeout(context.Background(), 5*time.Minute)
	defer cancel()
	return root.ExecuteContext(ctx)
}

func hasInt(l []int, x int) bool {
	for _, y := range l {
		if y == x {
			return true
		}
	}
	return false
}

func (r *run) createForT() (err error) {
	defer func() {
		if p := recover(); p != nil {
			err = fmt.Errorf("panic: %v", p)
		}
	}()
	c := r.cfg
	vn := verNum(c.Ver)
	fv, err := eth2util.NetworkToForkVersionBytes(c.Net)
	if err != nil {
		return err
	}
	opts := []func(*cluster.Definition){cluster.WithVersion(c.Ver), cluster.WithForkVersion(fv)}
	if vn <= 4 {
		opts = append(opts, cluster.WithLegacyVAddrs("0x"+c.Fee[0], "0x"+c.Wd[0]))
	}
	opts = append(opts, func(d *cluster.Definition) {
		if vn < 10 {
			d.TargetGasLimit = 0
		} else {
			d.TargetGasLimit = uint(c.Gas)
			d.Compounding = c.Comp
		}
		if vn >= 8 && len(c.Amounts) > 0 {
			d.DepositAmounts = deposit.EthsToGweis(c.Amounts)
		}
		if vn >= 9 {
			d.ConsensusProtocol = "qbft"
		}
	})
	// NewForT derives node key i from the constant byte (seed+i+1)&0xff; 0x00 and 0xff make ecdsa.GenerateKey spin forever
	lock, p2pKeys, shares := cluster.NewForT(r.t, c.V, c.T, c.N, c.Seed%200+1, rand.New(rand.NewSource(int64(c.Seed))), opts...)
	// complete with deposit data (NewForT creates none): signed by the validator's root key recovered from the shares
	if vn >= 6 {
		amounts := []eth2p0.Gwei{deposit.DefaultDepositAmount}
		if vn >= 8 && len(c.Amounts) > 0 {
			amounts = deposit.DedupAmounts(deposit.EthsToGweis(c.Amounts))
		}
		wds := lock.WithdrawalAddresses()
		for i := range lock.Validators {
			sm := map[int]tbls.PrivateKey{}
			for j, s := range shares[i] {
				sm[j+1] = s
			}
			root, err := tbls.RecoverSecret(sm, uint(c.N), uint(c.T))
			if err != nil {
				return err
			}
			pk, err := tbls.SecretToPublicKey(root)
			if err != nil {
				return err
			}
			for _, a := range amounts {
				msg, err := deposit.NewMessage(eth2p0.BLSPubKey(pk), wds[i], a, vn >= 10 && c.Comp)
				if err != nil {
					return err
				}
				sr, err := deposit.GetMessageSigningRoot(msg, c.Net)
				if err != nil {
					return err
				}
				sig, err := tbls.Sign(root, sr[:])
				if err != nil {
					return err
				}
				lock.Validators[i].PartialDepositData = append(lock.Validators[i].PartialDepositData, cluster.DepositData{
					PubKey: msg.PublicKey[:], WithdrawalCredentials: msg.WithdrawalCredentials, Amount: int(msg.Amount), Signature: sig[:]})
			}
		}
	}
	// Safe multisig style signatures: k concatenated 65-byte signatures per leaf (the first one is the real EOA
	// signature); the definition hashes are recomputed with the package's own setter
	if c.Msig > 1 {
		more := func(sig []byte) []byte {
			out := append([]byte{}, sig...)
			for len(out) < 65*c.Msig {
				b := make([]byte, 65)
				r.rng.Read(b)
				out = append(out, b...)
			}
			return out
		}
		for i := range lock.Definition.Operators {
			lock.Definition.Operators[i].ConfigSignature = more(lock.Definition.Operators[i].ConfigSignature)
			lock.Definition.Operators[i].ENRSignature = more(lock.Definition.Operators[i].ENRSignature)
		}
		lock.Definition.Creator.ConfigSignature = more(lock.Definition.Creator.ConfigSignature)
		lock.Definition, err = lock.Definition.SetDefinitionHashes()
		if err != nil {
			return err
		}
	}
	// a flaw built in by the writer; hashes and the remaining signatures are made consistent with it afterwards
	switch c.Flaw {
	case "extrashare", "firstshare":
		idx := 0
		if c.Flaw == "extrashare" {
			idx = c.N - 1
		}
		sk, err := tbls.GenerateSecretKey()
		if err != nil {
			return err
		}
		pk, err := tbls.SecretToPublicKey(sk)
		if err != nil {
			return err
		}
		shares[0][idx] = sk
		lock.Validators[0].PubShares[idx] = pk[:]
	case "twopoly":
		// validator 0's shares on two polynomials p and q = p + c*x*prod_{a in A}(x - a), |A| = t-2: q(0) = p(0), q = p on
		// A; the shares of B (non-empty, not everything outside A) move to q, the others stay on p.  Every share is then on
		// a polynomial of degree t-1 through the validator's key, but the shares are not all on ONE.
		var all []int
		for i := 1; i <= c.N; i++ {
			all = append(all, i)
		}
		var a []int
		switch r.rng.Intn(4) {
		case 0: // the indices common to the first t and the last t shares, padded from the front
			for i := c.N - c.T + 1; i <= c.T && len(a) < c.T-2; i++ {
				a = append(a, i)
			}
			for i := 1; len(a) < c.T-2; i++ {
				if !hasInt(a, i) {
					a = append(a, i)
				}
			}
		case 1: // the first t-2
			a = append(a, all[:c.T-2]...)
		default:
			perm := r.rng.Perm(c.N)
			for _, k := range perm[:c.T-2] {
				a = append(a, k+1)
			}
		}
		var rest []int
		for _, i := range all {
			if !hasInt(a, i) {
				rest = append(rest, i)
			}
		}
		var b []int
		if r.rng.Intn(2) == 0 { // the trailing ones
			b = append(b, rest[1+r.rng.Intn(len(rest)-1):]...)
		} else {
			perm := r.rng.Perm(len(rest))
			for _, k := range perm[:1+r.rng.Intn(len(rest)-1)] {
				b = append(b, rest[k])
			}
		}
		var cf bls.Fr
		cf.SetByCSPRNG()
		for _, x := range b {
			var d, f bls.Fr
			f.SetInt64(int64(x))
			bls.FrMul(&d, &cf, &f)
			for _, ai := range a {
				f.SetInt64(int64(x - ai))
				bls.FrMul(&d, &d, &f)
			}
			var sk bls.SecretKey
			if err := sk.Deserialize(shares[0][x-1][:]); err != nil {
				return err
			}
			fr := bls.CastFromSecretKey(&sk)
			bls.FrAdd(fr, fr, &d)
			nsk := tbls.PrivateKey(sk.Serialize())
			pk, err := tbls.SecretToPublicKey(nsk)
			if err != nil {
				return err
			}
			shares[0][x-1] = nsk
			lock.Validators[0].PubShares[x-1] = pk[:]
		}
	case "opsig":
		o := lock.Definition.Operators
		o[0].ConfigSignature, o[1].ConfigSignature = o[1].ConfigSignature, o[0].ConfigSignature
	case "enrsig":
		o := lock.Definition.Operators
		o[0].ENRSignature, o[1].ENRSignature = o[1].ENRSignature, o[0].ENRSignature
	case "creatorsig":
		other, err := k1.GeneratePrivateKey()
		if err != nil {
			return err
		}
		lock.Definition.Creator.ConfigSignature, err = cluster.SignClusterDefinitionHash(other, lock.Definition)
		if err != nil {
			return err
		}
	}
	if c.Flaw == "opsig" || c.Flaw == "enrsig" || c.Flaw == "creatorsig" {
		lock.Definition, err = lock.Definition.SetDefinitionHashes()
		if err != nil {
			return err
		}
	}
	lock, err = lock.SetLockHash()
	if err != nil {
		return err
	}
	var sigs []tbls.Signature
	for vi, ss := range shares {
		for si, s := range ss {
			if c.Flaw == "aggsig" && vi == len(shares)-1 && si == len(ss)-1 {
				continue // the aggregate lacks one share's signature
			}
			sig, err := tbls.Sign(s, lock.LockHash)
			if err != nil {
				return err
			}
			sigs = append(sigs, sig)
		}
	}
	agg, err := tbls.Aggregate(sigs)
	if err != nil {
		return err
	}
	lock.SignatureAggregate = agg[:]
	lock.NodeSignatures = nil
	if vn >= 7 {
		for _, k := range p2pKeys {
			ns, err := k1util.Sign(k, lock.LockHash)
			if err != nil {
				return err
			}
			lock.NodeSignatures = append(lock.NodeSignatures, ns)
		}
	}
	var b []byte
	if c.Art == "def" {
		b, err = json.MarshalIndent(lock.Definition, "", " ")
	} else {
		b, err = json.MarshalIndent(lock, "", " ")
	}
	if err != nil {
		return err
	}
	return os.WriteFile(filepath.Join(r.dir, "artifact.json"), b, 0o600)
}

// ---------------------------------------------------------------------------------------------------------------
// Load / Verify of the current file
// ---------------------------------------------------------------------------------------------------------------

func (r *run) artifactPath(node int) string {
	if r.cfg.Src == "create" {
		return filepath.Join(r.dir, fmt.Sprintf("node%d", node), "cluster-lock.json")
	}
	return filepath.Join(r.dir, "artifact.json")
}

func hashesOf(isDef bool, l *cluster.Lock, d *cluster.Definition) (h [3][]byte, err error) {
	dd := d
	if !isDef {
		dd = &l.Definition
	}
	d2, err := dd.SetDefinitionHashes()
	if err != nil {
		return h, err
	}
	h[0], h[1] = d2.ConfigHash, d2.DefinitionHash
	if !isDef {
		l2, err := l.SetLockHash()
		if err != nil {
			return h, err
		}
		h[2] = l2.LockHash
	}
	return h, nil
}

func (r *run) parse(b []byte) (err error) {
	defer func() {
		if p := recover(); p != nil {
			err = fmt.Errorf("panic: %v", p)
		}
	}()
	r.curLock, r.curDef = nil, nil
	if r.cfg.Art == "def" {
		var d cluster.Definition
		if err := json.Unmarshal(b, &d); err != nil {
			return err
		}
		r.curDef = &d
		return nil
	}
	var l cluster.Lock
	if err := json.Unmarshal(b, &l); err != nil {
		return err
	}
	r.curLock = &l
	return nil
}

// load reads the pristine artifact from disk (the Load step of the schedule).
func (r *run) load(node int) {
	ev := step{"ev": "Load", "node": node, "ok": false}
	defer func() { r.emit(ev) }()
	if !r.made {
		return
	}
	b, err := os.ReadFile(r.artifactPath(node))
	if err != nil {
		ev["err"] = err.Error()
		return
	}
	same := true
	if r.cfg.Src == "create" {
		for i := 0; i < r.cfg.N; i++ {
			o, err := os.ReadFile(r.artifactPath(i))
			if err != nil || !bytes.Equal(o, b) {
				same = false
			}
		}
		if _, err := os.Stat(r.artifactPath(r.cfg.N)); err == nil {
			same = false // more node directories than nodes
		}
	}
	ev["same"] = same
	if err := r.parse(b); err != nil {
		ev["err"] = err.Error()
		return
	}
	r.raw, r.current = b, b
	isDef := r.cfg.Art == "def"
	if isDef {
		r.prDef = *r.curDef
		ev["view"] = defView(r.prDef)
	} else {
		r.prLock = *r.curLock
		r.prDef = r.curLock.Definition
		ev["view"] = lockView(r.prLock)
	}
	h, err := hashesOf(isDef, r.curLock, r.curDef)
	if err != nil {
		ev["err"] = err.Error()
		return
	}
	r.prHash = h
	ev["ok"] = true
}

func (r *run) verify() {
	ev := step{"ev": "Verify", "hashes": "-", "sigs": "-"}
	defer func() { r.emit(ev) }()
	func() {
		defer func() {
			if p := recover(); p != nil {
				ev["panic"] = fmt.Sprint(p)
				if ev["hashes"] == "-" {
					ev["hashes"] = "fail"
				}
				ev["sigs"] = "fail"
			}
		}()
		switch {
		case r.curLock != nil:
			ev["hashes"] = okfail(r.curLock.VerifyHashes())
			ev["sigs"] = okfail(r.curLock.VerifySignatures(nil))
		case r.curDef != nil:
			ev["hashes"] = okfail(r.curDef.VerifyHashes())
			ev["sigs"] = okfail(r.curDef.VerifySignatures(nil))
		}
	}()
}

func defView(d cluster.Definition) step {
	var ops []string
	unsigned := true
	for _, o := range d.Operators {
		ops = append(ops, o.ENR)
		if len(o.ConfigSignature) > 0 || len(o.ENRSignature) > 0 {
			unsigned = false
		}
	}
	var am []string
	for _, a := range d.DepositAmounts {
		am = append(am, strconv.FormatUint(uint64(a), 10))
	}
	if am == nil {
		am = []string{}
	}
	return step{"version": d.Version, "nops": len(d.Operators), "threshold": d.Threshold, "nv": d.NumValidators,
		"fork": hx(d.ForkVersion), "fee": lower(d.FeeRecipientAddresses()), "wd": lower(d.WithdrawalAddresses()),
		"amounts": am, "comp": d.Compounding, "gas": int(d.TargetGasLimit), "unsigned": unsigned, "enrs": ops}
}

func lower(l []string) []string {
	out := []string{}
	for _, s := range l {
		out = append(out, strings.ToLower(s))
	}
	return out
}

func lockView(l cluster.Lock) step {
	v := defView(l.Definition)
	pubkeys, pubshares, regs, deps := []string{}, [][]string{}, []step{}, [][]step{}
	fees := l.FeeRecipientAddresses()
	_ = fees
	for _, val := range l.Validators {
		pubkeys = append(pubkeys, hx(val.PubKey))
		sh := []string{}
		for _, s := range val.PubShares {
			sh = append(sh, hx(s))
		}
		pubshares = append(pubshares, sh)
		reg := val.BuilderRegistration
		rs := step{"pubkey": hx(reg.Message.PubKey), "fee": hx(reg.Message.FeeRecipient), "gas": reg.Message.GasLimit,
			"present": len(reg.Signature) > 0, "sig_ok": regSigOK(val, l.ForkVersion)}
		regs = append(regs, rs)
		dl := []step{}
		for _, dd := range val.PartialDepositData {
			dl = append(dl, step{"pubkey": hx(dd.PubKey), "wc": hx(dd.WithdrawalCredentials), "amount": strconv.Itoa(dd.Amount),
				"sig": hx(dd.Signature)})
		}
		deps = append(deps, dl)
	}
	v["pubkeys"], v["pubshares"], v["regs"], v["deps"] = pubkeys, pubshares, regs, deps
	v["nodesigs"] = len(l.NodeSignatures)
	v["aggsig"] = len(l.SignatureAggregate) > 0
	return v
}

// regSigOK: does the registration's signature verify under the validator's key for the message in the lock.
func regSigOK(val cluster.DistValidator, fork []byte) (ok bool) {
	defer func() {
		if recover() != nil {
			ok = false
		}
	}()
	reg := val.BuilderRegistration
	if len(reg.Signature) != 96 || len(reg.Message.PubKey) != 48 || len(reg.Message.FeeRecipient) != 20 || len(fork) != 4 {
		return false
	}
	msg := &eth2v1.ValidatorRegistration{FeeRecipient: bellatrix.ExecutionAddress(reg.Message.FeeRecipient),
		GasLimit: uint64(reg.Message.GasLimit), Timestamp: reg.Message.Timestamp, Pubkey: eth2p0.BLSPubKey(reg.Message.PubKey)}
	root, err := registration.GetMessageSigningRoot(msg, eth2p0.Version(fork))
	if err != nil {
		return false
	}
	pk, err := tblsconv.PubkeyFromBytes(val.PubKey)
	if err != nil {
		return false
	}
	sig, err := tblsconv.SignatureFromBytes(reg.Signature)
	if err != nil {
		return false
	}
	return tbls.Verify(pk, root[:], sig) == nil
}

// ---------------------------------------------------------------------------------------------------------------
// keystores, deposit files, combine (created clusters)
// ---------------------------------------------------------------------------------------------------------------

func pubsOfKeys(dir string) ([]string, error) {
	kf, err := keystore.LoadFilesUnordered(dir)
	if err != nil {
		return nil, err
	}
	keys, err := kf.SequencedKeys()
	if err != nil {
		return nil, err
	}
	out := []string{}
	for _, k := range keys {
		p, err := tbls.SecretToPublicKey(k)
		if err != nil {
			return nil, err
		}
		out = append(out, hx(p[:]))
	}
	return out, nil
}

func (r *run) keystores(node int) {
	ev := step{"ev": "Keystores", "node": node, "ok": false, "pubs": []string{}}
	pubs, err := pubsOfKeys(filepath.Join(r.dir, fmt.Sprintf("node%d", node), "validator_keys"))
	if err != nil {
		ev["err"] = err.Error()
	} else {
		ev["ok"], ev["pubs"] = true, pubs
	}
	r.emit(ev)
}

func (r *run) deposits(node int) {
	ev := step{"ev": "Deposits", "node": node, "ok": false, "files": []step{}}
	defer func() { r.emit(ev) }()
	nd := filepath.Join(r.dir, fmt.Sprintf("node%d", node))
	names, _ := filepath.Glob(filepath.Join(nd, "deposit-data*.json"))
	sort.Strings(names)
	files := []step{}
	for _, name := range names {
		b, err := os.ReadFile(name)
		if err != nil {
			ev["err"] = err.Error()
			return
		}
		var list []struct {
			PubKey                string `json:"pubkey"`
			WithdrawalCredentials string `json:"withdrawal_credentials"`
			Amount                uint64 `json:"amount"`
			Signature             string `json:"signature"`
			ForkVersion           string `json:"fork_version"`
			NetworkName           string `json:"network_name"`
		}
		if err := json.Unmarshal(b, &list); err != nil {
			ev["err"] = err.Error()
			return
		}
		entries := []step{}
		for _, e := range list {
			entries = append(entries, step{"pubkey": "0x" + e.PubKey, "wc": "0x" + e.WithdrawalCredentials,
				"amount": strconv.FormatUint(e.Amount, 10), "sig": "0x" + e.Signature, "fork": "0x" + e.ForkVersion, "net": e.NetworkName,
				"sig_ok": depositSigOK(e.PubKey, e.WithdrawalCredentials, e.Amount, e.Signature, e.NetworkName)})
		}
		files = append(files, step{"file": filepath.Base(name), "entries": entries})
	}
	// charon's own reader must accept the files as well
	_, err := deposit.ReadDepositDataFiles(nd)
	ev["ok"], ev["files"] = err == nil, files
}

func depositSigOK(pub, wc string, amount uint64, sig, network string) (ok bool) {
	defer func() {
		if recover() != nil {
			ok = false
		}
	}()
	pb, e1 := hex.DecodeString(pub)
	wb, e2 := hex.DecodeString(wc)
	sb, e3 := hex.DecodeString(sig)
	if e1 != nil || e2 != nil || e3 != nil || len(pb) != 48 || len(sb) != 96 {
		return false
	}
	msg := eth2p0.DepositMessage{PublicKey: eth2p0.BLSPubKey(pb), WithdrawalCredentials: wb, Amount: eth2p0.Gwei(amount)}
	root, err := deposit.GetMessageSigningRoot(msg, network)
	if err != nil {
		return false
	}
	return tbls.Verify(tbls.PublicKey(pb), root[:], tbls.Signature(sb)) == nil
}

func linkTree(src, dst string) error {
	return filepath.Walk(src, func(p string, info os.FileInfo, err error) error {
		if err != nil {
			return err
		}
		rel, _ := filepath.Rel(src, p)
		if info.IsDir() {
			return os.MkdirAll(filepath.Join(dst, rel), 0o755)
		}
		return os.Link(p, filepath.Join(dst, rel))
	})
}

func (r *run) combine(nodes []int) {
	ev := step{"ev": "Combine", "nodes": nodes, "ok": false, "pubs": []string{}}
	defer func() { r.emit(ev) }()
	in := filepath.Join(r.dir, "comb_in")
	out := filepath.Join(r.dir, "comb_out")
	defer os.RemoveAll(in)
	defer os.RemoveAll(out)
	os.RemoveAll(in)
	os.RemoveAll(out)
	if err := os.MkdirAll(in, 0o755); err != nil {
		ev["err"] = err.Error()
		return
	}
	for _, n := range nodes {
		name := fmt.Sprintf("node%d", n)
		if err := linkTree(filepath.Join(r.dir, name), filepath.Join(in, name)); err != nil {
			ev["err"] = "link: " + err.Error()
			return
		}
	}
	err := func() (err error) {
		defer func() {
			if p := recover(); p != nil {
				err = fmt.Errorf("panic: %v", p)
			}
		}()
		return combine.Combine(context.Background(), in, out, false, false, "", eth2util.Network{}, combine.WithInsecureKeysForT(r.t))
	}()
	if err != nil {
		ev["err"] = err.Error()
		return
	}
	pubs, err := pubsOfKeys(out)
	if err != nil {
		ev["err"] = "result: " + err.Error()
		return
	}
	ev["ok"], ev["pubs"] = true, pubs
}

// ---------------------------------------------------------------------------------------------------------------
// JSON leaf walker
// ---------------------------------------------------------------------------------------------------------------

type leaf struct {
	schema string
	path   []any // string keys / int indexes
	val    any   // string | json.Number | bool | nil
}

func decodeTree(b []byte) (any, error) {
	d := json.NewDecoder(bytes.NewReader(b))
	d.UseNumber()
	var v any
	err := d.Decode(&v)
	return v, err
}

func walk(v any, schema string, path []any, out *[]leaf) {
	switch x := v.(type) {
	case map[string]any:
		keys := make([]string, 0, len(x))
		for k := range x {
			keys = append(keys, k)
		}
		sort.Strings(keys)
		for _, k := range keys {
			s := k
			if schema != "" {
				s = schema + "." + k
			}
			walk(x[k], s, append(append([]any{}, path...), k), out)
		}
	case []any:
		for i, e := range x {
			walk(e, schema+"[]", append(append([]any{}, path...), i), out)
		}
	default:
		*out = append(*out, leaf{schema: schema, path: path, val: v})
	}
}

func setAt(root any, path []any, val any) {
	cur := root
	for i, p := range path {
		last := i == len(path)-1
		switch k := p.(type) {
		case string:
			m := cur.(map[string]any)
			if last {
				m[k] = val
			} else {
				cur = m[k]
			}
		case int:
			a := cur.([]any)
			if last {
				a[k] = val
			} else {
				cur = a[k]
			}
		}
	}
}

func pathStr(p []any) string {
	var sb strings.Builder
	for i, e := range p {
		switch k := e.(type) {
		case string:
			if i > 0 {
				sb.WriteByte('.')
			}
			sb.WriteString(k)
		case int:
			fmt.Fprintf(&sb, "[%d]", k)
		}
	}
	return sb.String()
}

func (r *run) leaves() {
	tree, err := decodeTree(r.raw)
	if err != nil {
		r.emit(step{"ev": "Leaves", "paths": []string{}, "err": err.Error()})
		return
	}
	var ls []leaf
	walk(tree, "", nil, &ls)
	seen := map[string]bool{}
	paths := []string{}
	for _, l := range ls {
		if !seen[l.schema] {
			seen[l.schema] = true
			paths = append(paths, l.schema)
		}
	}
	sort.Strings(paths)
	r.emit(step{"ev": "Leaves", "paths": paths})
}

// ---------------------------------------------------------------------------------------------------------------
// alterations
// ---------------------------------------------------------------------------------------------------------------

// decodeBytes / encodeBytes: the byte value behind a leaf of type hex | b64 | addr | hexstr.
func decodeBytes(ty, s string) ([]byte, bool) {
	switch ty {
	case "b64":
		b, err := base64.StdEncoding.DecodeString(s)
		return b, err == nil
	default:
		if s == "" {
			return nil, true
		}
		if !strings.HasPrefix(s, "0x") {
			return nil, false
		}
		b, err := hex.DecodeString(s[2:])
		return b, err == nil
	}
}

func encodeBytes(ty string, b []byte) string {
	if ty == "b64" {
		return base64.StdEncoding.EncodeToString(b)
	}
	return hx(b)
}

func isBytesTy(ty string) bool { return ty == "hex" || ty == "b64" || ty == "addr" || ty == "hexstr" }

// alter returns the new JSON value of a leaf, whether the operation was applicable and whether the VALUE differs.
func (r *run) alter(ty, kind string, val any, sib any, to string) (nv any, applied, changed bool) {
	if isBytesTy(ty) {
		s, ok := val.(string)
		if !ok {
			return val, false, false
		}
		b, ok := decodeBytes(ty, s)
		if !ok {
			return val, false, false
		}
		nb := append([]byte{}, b...)
		if strings.HasPrefix(kind, "flip_") { // one bit of the byte at a given position
			pos := -1
			switch kind {
			case "flip_first":
				pos = 0
			case "flip_mid":
				pos = len(nb) / 2
			case "flip_last":
				pos = len(nb) - 1
			case "flip_seg1", "flip_seg2", "flip_seg3":
				k := int(kind[len(kind)-1] - '1')
				if len(nb) >= 65*(k+1) {
					pos = 65*k + r.rng.Intn(65)
				}
			}
			if pos < 0 || pos >= len(nb) {
				return val, false, false
			}
			nb[pos] ^= 1 << uint(r.rng.Intn(8))
			return encodeBytes(ty, nb), true, true
		}
		switch kind {
		case "flip":
			if len(nb) == 0 {
				return val, false, false
			}
			nb[r.rng.Intn(len(nb))] ^= 1 << uint(r.rng.Intn(8))
		case "zero":
			for i := range nb {
				nb[i] = 0
			}
		case "trunc":
			if len(nb) == 0 {
				return val, false, false
			}
			nb = nb[:len(nb)-1]
		case "ext0":
			nb = append(nb, 0)
		case "ext1":
			nb = append(nb, 1)
		case "empty":
			nb = nil
		case "addr":
			nb = make([]byte, 20)
			r.rng.Read(nb)
		case "swap":
			ss, ok := sib.(string)
			if !ok {
				return val, false, false
			}
			sb, ok := decodeBytes(ty, ss)
			if !ok {
				return val, false, false
			}
			nb = sb
		default:
			return val, false, false
		}
		return encodeBytes(ty, nb), true, !bytes.Equal(nb, b)
	}
	switch ty {
	case "str", "ver":
		s, ok := val.(string)
		if !ok {
			return val, false, false
		}
		ns := s
		switch kind {
		case "flip":
			if s == "" {
				return val, false, false
			}
			i := r.rng.Intn(len(s))
			if ty == "ver" {
				i = len(s) - 1
			}
			c := s[i]
			n := byte('A' + (c-'A'+1)%26)
			if c >= '0' && c <= '9' {
				n = '0' + (c-'0'+1)%10
			} else if c >= 'a' && c <= 'z' {
				n = 'a' + (c-'a'+1)%26
			} else if c < 'A' || c > 'Z' {
				n = 'x'
			}
			ns = s[:i] + string(n) + s[i+1:]
		case "trunc":
			if s == "" {
				return val, false, false
			}
			ns = s[:len(s)-1]
		case "ext":
			ns = s + "0"
		case "empty":
			ns = ""
		case "ver":
			ns = to
		case "swap":
			ss, ok := sib.(string)
			if !ok {
				return val, false, false
			}
			ns = ss
		default:
			return val, false, false
		}
		return ns, true, ns != s
	case "num", "numstr":
		var txt string
		switch x := val.(type) {
		case json.Number:
			txt = x.String()
		case string:
			txt = x
		default:
			return val, false, false
		}
		n, err := strconv.ParseInt(txt, 10, 64)
		if err != nil {
			return val, false, false
		}
		nn := n
		switch kind {
		case "incr":
			nn = n + 1
		case "zero":
			nn = 0
		case "swap":
			var st string
			switch y := sib.(type) {
			case json.Number:
				st = y.String()
			case string:
				st = y
			default:
				return val, false, false
			}
			m, err := strconv.ParseInt(st, 10, 64)
			if err != nil {
				return val, false, false
			}
			nn = m
		default:
			return val, false, false
		}
		if ty == "numstr" {
			return strconv.FormatInt(nn, 10), true, nn != n
		}
		return json.Number(strconv.FormatInt(nn, 10)), true, nn != n
	case "bool":
		b, ok := val.(bool)
		if !ok || kind != "neg" {
			return val, false, false
		}
		return !b, true, true
	}
	return val, false, false
}

func upperHex(s string) string {
	if strings.HasPrefix(s, "0x") {
		return "0x" + strings.ToUpper(s[2:])
	}
	return s
}

func marshalRev(v any, sb *bytes.Buffer) {
	switch x := v.(type) {
	case map[string]any:
		keys := make([]string, 0, len(x))
		for k := range x {
			keys = append(keys, k)
		}
		sort.Sort(sort.Reverse(sort.StringSlice(keys)))
		sb.WriteByte('{')
		for i, k := range keys {
			if i > 0 {
				sb.WriteByte(',')
			}
			kb, _ := json.Marshal(k)
			sb.Write(kb)
			sb.WriteByte(':')
			marshalRev(x[k], sb)
		}
		sb.WriteByte('}')
	case []any:
		sb.WriteByte('[')
		for i, e := range x {
			if i > 0 {
				sb.WriteByte(',')
			}
			marshalRev(e, sb)
		}
		sb.WriteByte(']')
	default:
		b, _ := json.Marshal(x)
		sb.Write(b)
	}
}

func valueEq(a, b any) bool { return fmt.Sprint(a) == fmt.Sprint(b) }

// tamper builds the altered file from the pristine one, then loads and verifies it.
func (r *run) tamper(s step) {
	leafName, ty, kind, sel := drv.Str(s["leaf"]), drv.Str(s["ty"]), drv.Str(s["kind"]), drv.Str(s["sel"])
	ev := step{"ev": "Tamper", "leaf": leafName, "ty": ty, "kind": kind, "sel": sel, "applied": false, "changed": false, "inst": ""}
	if to := drv.Str(s["to"]); to != "" {
		ev["to"] = to
	}
	var file []byte
	tree, err := decodeTree(r.raw)
	if err != nil || r.raw == nil {
		r.emit(ev)
		return
	}
	if leafName == "*" {
		switch kind {
		case "reencode":
			if r.cfg.Art == "def" {
				file, err = json.Marshal(r.prDef)
			} else {
				file, err = json.Marshal(r.prLock)
			}
		case "keyorder":
			var sb bytes.Buffer
			marshalRev(tree, &sb)
			file = sb.Bytes()
		case "indent":
			var sb bytes.Buffer
			err = json.Indent(&sb, r.raw, "\t ", "\t\t")
			sb.WriteString("\n\n")
			file = sb.Bytes()
		case "hexcase", "addrcase":
			over := map[string]bool{}
			for _, o := range strs(s["over"]) {
				over[o] = true
			}
			var ls []leaf
			walk(tree, "", nil, &ls)
			n := 0
			for _, l := range ls {
				if sv, ok := l.val.(string); ok && over[l.schema] && upperHex(sv) != sv {
					setAt(tree, l.path, upperHex(sv))
					n++
				}
			}
			ev["n"] = n
			file, err = json.Marshal(tree)
		default:
			err = fmt.Errorf("unknown rewrite")
		}
		if err != nil {
			ev["err"] = err.Error()
			r.emit(ev)
			return
		}
		ev["applied"] = true
	} else {
		var ls, inst []leaf
		walk(tree, "", nil, &ls)
		for _, l := range ls {
			if l.schema == leafName {
				inst = append(inst, l)
			}
		}
		if len(inst) == 0 { // the leaf does not exist in this file (e.g. an empty list): nothing is altered
			inst = []leaf{{schema: leafName}}
			kind = "none"
		}
		i := 0
		if sel == "last" {
			i = len(inst) - 1
		} else if sel == "rand" {
			i = r.rng.Intn(len(inst))
		}
		target := inst[i]
		var sib any
		var sibLeaf *leaf
		if kind == "swap" {
			cands := inst
			if sn := drv.Str(s["sib"]); sn != "" {
				cands = nil
				for _, l := range ls {
					if l.schema == sn {
						cands = append(cands, l)
					}
				}
			}
			for k := 1; k <= len(cands); k++ {
				c := cands[(i+k)%len(cands)]
				if pathStr(c.path) != pathStr(target.path) && !valueEq(c.val, target.val) {
					cc := c
					sibLeaf, sib = &cc, c.val
					break
				}
			}
		}
		switch target.val.(type) {
		case string:
			ev["jk"] = "string"
		case json.Number:
			ev["jk"] = "number"
		case bool:
			ev["jk"] = "bool"
		default:
			ev["jk"] = "absent"
		}
		nv, applied, changed := r.alter(ty, kind, target.val, sib, drv.Str(s["to"]))
		ev["applied"], ev["changed"], ev["inst"] = applied, changed, pathStr(target.path)
		if applied && target.path != nil {
			setAt(tree, target.path, nv)
			if sibLeaf != nil {
				setAt(tree, sibLeaf.path, target.val)
			}
		}
		file, err = json.Marshal(tree)
		if err != nil {
			ev["err"] = err.Error()
			r.emit(ev)
			return
		}
	}
	r.emit(ev)
	if drv.Str(s["via"]) == "combine" { // the altered lock reaches verification through `combine` (one node directory holds it)
		r.combineTampered(drv.Num(s["at"]), file)
		return
	}
	// load + verify the altered file
	r.current = file
	lev := step{"ev": "LoadT", "ok": false, "heq": false}
	if err := r.parse(file); err != nil {
		lev["err"] = trunc(err.Error())
		r.emit(lev)
		return
	}
	lev["ok"] = true
	func() {
		defer func() { _ = recover() }()
		h, err := hashesOf(r.cfg.Art == "def", r.curLock, r.curDef)
		stored := [3][]byte{}
		if r.curLock != nil {
			stored = [3][]byte{r.curLock.ConfigHash, r.curLock.DefinitionHash, r.curLock.LockHash}
		} else {
			stored = [3][]byte{r.curDef.ConfigHash, r.curDef.DefinitionHash, nil}
		}
		pst := [3][]byte{r.prDef.ConfigHash, r.prDef.DefinitionHash, r.prLock.LockHash}
		eq := err == nil
		for k := 0; k < 3; k++ {
			eq = eq && bytes.Equal(h[k], r.prHash[k]) && bytes.Equal(stored[k], pst[k])
		}
		lev["heq"] = eq
	}()
	r.emit(lev)
	r.verify()
}

// combineTampered hands ALL node directories to combine.Combine, node j's cluster-lock.json being the altered file.
func (r *run) combineTampered(j int, file []byte) {
	ev := step{"ev": "CombineT", "node": j, "ok": false}
	defer func() { r.emit(ev) }()
	in := filepath.Join(r.dir, "combt_in")
	out := filepath.Join(r.dir, "combt_out")
	os.RemoveAll(in)
	os.RemoveAll(out)
	defer os.RemoveAll(in)
	defer os.RemoveAll(out)
	if err := os.MkdirAll(in, 0o755); err != nil {
		ev["err"] = err.Error()
		return
	}
	for n := 0; n < r.cfg.N; n++ {
		name := fmt.Sprintf("node%d", n)
		if err := linkTree(filepath.Join(r.dir, name), filepath.Join(in, name)); err != nil {
			ev["err"] = "link: " + err.Error()
			return
		}
	}
	lf := filepath.Join(in, fmt.Sprintf("node%d", j), "cluster-lock.json")
	_ = os.Remove(lf) // a hard link to the pristine file: replace, never write through
	if err := os.WriteFile(lf, file, 0o644); err != nil {
		ev["err"] = "write: " + err.Error()
		return
	}
	err := func() (err error) {
		defer func() {
			if p := recover(); p != nil {
				err = fmt.Errorf("panic: %v", p)
			}
		}()
		return combine.Combine(context.Background(), in, out, false, false, "", eth2util.Network{}, combine.WithInsecureKeysForT(r.t))
	}()
	if err != nil {
		ev["err"] = trunc(err.Error())
		return
	}
	ev["ok"] = true
}

func trunc(s string) string {
	if len(s) > 160 {
		return s[:160]
	}
	return s
}

// ---------------------------------------------------------------------------------------------------------------
// TestExec
// ---------------------------------------------------------------------------------------------------------------

func TestExec(t *testing.T) {
	drv.QuietLogs(t)
	scheds := drv.ReadSchedules(t)
	tr := drv.NewTracer(t)
	defer tr.Close()
	base := os.Getenv("VERIF_SCRATCH")
	if base == "" {
		base = "/verif/.work/C12/scratch"
	}
	base = filepath.Join(base, fmt.Sprintf("p%d", os.Getpid()))
	if err := os.MkdirAll(base, 0o755); err != nil {
		t.Fatal(err)
	}
	defer os.RemoveAll(base)

	results := make([][]step, len(scheds))
	one := func(i int) {
		s := scheds[i]
		if len(s) == 0 || drv.Str(s[0]["ev"]) != "Cfg" {
			results[i] = []step{{"ev": "Reset", "sid": i}, {"ev": "BadStep"}}
			return
		}
		cfg := parseCfg(s[0])
		dir := filepath.Join(base, fmt.Sprintf("s%d", i))
		_ = os.MkdirAll(dir, 0o755)
		r := &run{t: t, sid: i, cfg: cfg, dir: dir, rng: rand.New(rand.NewSource(int64(cfg.Seed)*7919 + 13))}
		reset := step{"ev": "Reset", "sid": i}
		for k, v := range s[0] {
			if k != "ev" {
				reset[k] = v
			}
		}
		r.emit(reset)
		func() {
			defer func() {
				if p := recover(); p != nil {
					r.emit(step{"ev": "Panic", "msg": fmt.Sprint(p)})
				}
			}()
			r.exec(s)
			r.emit(step{"ev": "End"})
		}()
		_ = filepath.Walk(dir, func(p string, info os.FileInfo, err error) error { // lock files are read-only
			if err == nil {
				_ = os.Chmod(p, 0o700)
			}
			return nil
		})
		_ = os.RemoveAll(dir)
		results[i] = r.out
	}
	// created clusters one after the other (the command is not designed for concurrent in-process use), NewForT
	// artifacts in parallel
	var wg sync.WaitGroup
	sem := make(chan struct{}, 6)
	for i := range scheds {
		if len(scheds[i]) > 0 && drv.Str(scheds[i][0]["src"]) == "create" {
			continue
		}
		wg.Add(1)
		sem <- struct{}{}
		go func(i int) {
			defer wg.Done()
			defer func() { <-sem }()
			one(i)
		}(i)
	}
	for i := range scheds {
		if len(scheds[i]) > 0 && drv.Str(scheds[i][0]["src"]) == "create" {
			one(i)
		}
	}
	wg.Wait()
	for _, evs := range results {
		for _, e := range evs {
			tr.Emit(e)
		}
	}
}
