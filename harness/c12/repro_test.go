package c12

import (
	"encoding/json"
	"math/rand"
	"os"
	"strings"
	"testing"

	"github.com/obolnetwork/charon/cluster"
)

// TestReproRegFeePadding: standalone reproduction of finding C12-regfee-padding.  A v1.7+ lock whose
// builder_registration.message.fee_recipient (a lock-hashed Bytes20 field) got a zero byte appended still passes
// VerifyHashes and VerifySignatures, while the registration it carries is no longer usable (Eth2Registration fails).
// Run: VERIF_REPRO=1 go test -tags verif -run TestReproRegFeePadding ./c12   (fails on a tree without the fix)
func TestReproRegFeePadding(t *testing.T) {
	if os.Getenv("VERIF_REPRO") == "" {
		t.Skip("VERIF_REPRO not set")
	}
	lock, _, _ := cluster.NewForT(t, 1, 3, 4, 1, rand.New(rand.NewSource(1)))
	b, err := json.Marshal(lock)
	if err != nil {
		t.Fatal(err)
	}
	var pristine cluster.Lock
	if err := json.Unmarshal(b, &pristine); err != nil {
		t.Fatal(err)
	}
	if pristine.VerifyHashes() != nil || pristine.VerifySignatures(nil) != nil {
		t.Fatal("pristine lock does not verify")
	}
	fee := "0x" + hexOf(lock.Validators[0].BuilderRegistration.Message.FeeRecipient)
	if strings.Count(string(b), `"fee_recipient":"`+fee+`"`) != 1 {
		t.Fatal("fee recipient leaf not found")
	}
	tampered := strings.Replace(string(b), `"fee_recipient":"`+fee+`"`, `"fee_recipient":"`+fee+`00"`, 1)
	var l2 cluster.Lock
	if err := json.Unmarshal([]byte(tampered), &l2); err != nil {
		t.Logf("altered lock rejected by the loader: %v", err)
		return
	}
	eh, es := l2.VerifyHashes(), l2.VerifySignatures(nil)
	_, er := l2.Validators[0].Eth2Registration()
	t.Logf("fee recipient now %d bytes; VerifyHashes=%v VerifySignatures=%v Eth2Registration err=%v",
		len(l2.Validators[0].BuilderRegistration.Message.FeeRecipient), eh, es, er)
	if eh == nil && es == nil {
		t.Fatalf("altered lock (fee_recipient extended by 0x00) passes full verification")
	}
}

func hexOf(b []byte) string {
	const d = "0123456789abcdef"
	out := make([]byte, 0, 2*len(b))
	for _, x := range b {
		out = append(out, d[x>>4], d[x&15])
	}
	return string(out)
}
