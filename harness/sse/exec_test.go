// Package sseexec executes SSE schedules on the real app/sse listener (StartListener and the clients it starts) and records
// what it did.
//
// Every schedule runs inside a testing/synctest bubble.  The beacon nodes are one real net/http server behind an in-memory
// listener; the clients reach it through a real http.Transport (installed as http.DefaultTransport for the duration of the
// bubble: sse.newClient builds an http.Client without transport) whose DialContext hands out net.Pipe connections -- so the
// HTTP/1.1 framing (chunked body, clean end, truncated body, status codes) is the standard library's and time is virtual
// and exact.  The schedule decides what a dial is answered with (refused / status code / stream), which bytes are written
// when (chunks cut at arbitrary byte positions), how and when a stream ends (handler returns / connection cut / read error),
// when subscribers are added and when the listener's context ends.  Subscribers record what they are called with; after
// every chunk the executor reads the listener's prometheus series (head delay, block delays, reorg depth, block processing
// time, head slot) and records what changed.  Nothing here knows what should happen: SSETrace.tla decides.
package sseexec

import (
	"context"
	"fmt"
	"math"
	"net"
	"net/http"
	"strings"
	"sync"
	"sync/atomic"
	"syscall"
	"testing"
	"testing/synctest"
	"time"

	eth2api "github.com/attestantio/go-eth2-client/api"
	eth2v1 "github.com/attestantio/go-eth2-client/api/v1"
	eth2p0 "github.com/attestantio/go-eth2-client/spec/phase0"
	"github.com/prometheus/client_golang/prometheus"
	dto "github.com/prometheus/client_model/go"

	"github.com/obolnetwork/charon/app/expbackoff"
	"github.com/obolnetwork/charon/app/promauto"
	"github.com/obolnetwork/charon/app/sse"
	"github.com/obolnetwork/charon/testutil/beaconmock"

	"verifharness/drv"
)

// client answers the two questions StartListener asks (no HTTP inside the bubble).
type client struct {
	beaconmock.Mock

	genesis time.Time
	spec    map[string]any
}

func (c client) Genesis(context.Context, *eth2api.GenesisOpts) (*eth2api.Response[*eth2v1.Genesis], error) {
	return &eth2api.Response[*eth2v1.Genesis]{Data: &eth2v1.Genesis{GenesisTime: c.genesis}, Metadata: map[string]any{}}, nil
}

func (c client) Spec(context.Context, *eth2api.SpecOpts) (*eth2api.Response[map[string]any], error) {
	return &eth2api.Response[map[string]any]{Data: c.spec, Metadata: map[string]any{}}, nil
}

// pipeListener is the server's listener: connections are handed over by the transport's DialContext.
type pipeListener struct {
	ch   chan net.Conn
	done chan struct{}
	once sync.Once
}

func (l *pipeListener) Accept() (net.Conn, error) {
	select {
	case c := <-l.ch:
		return c, nil
	case <-l.done:
		return nil, net.ErrClosed
	}
}
func (l *pipeListener) Close() error   { l.once.Do(func() { close(l.done) }); return nil }
func (l *pipeListener) Addr() net.Addr { return &net.TCPAddr{IP: net.IPv4(127, 0, 0, 1), Port: 5052} }

// clientConn is the client's end of a connection; once `reset` is set a failing Read reports ECONNRESET.
type clientConn struct {
	net.Conn

	reset *atomic.Bool
}

func (c clientConn) Read(p []byte) (int, error) {
	n, err := c.Conn.Read(p)
	if err != nil && c.reset.Load() {
		return n, &net.OpError{Op: "read", Net: "tcp", Err: syscall.ECONNRESET}
	}

	return n, err
}

type cmd struct {
	b   []byte
	how string
}

type conn struct {
	k     int
	cmds  chan cmd
	done  chan struct{}
	reset *atomic.Bool
	pend  bool // an incomplete line has been written
}

type addrState struct {
	idx    int
	addr   string // as configured
	k      int    // dials so far
	script []map[string]any
	code   int // what the handler answers the pending dial with
	reset  *atomic.Bool
	cur    *conn
}

type env struct {
	t      *testing.T
	mu     sync.Mutex
	events []drv.Step
	t0     time.Time
	addrs  []*addrState
	byHost map[string]*addrState
	calls  []any
	quit   chan struct{}
	ln     *pipeListener
	prev   map[string][2]float64
	ended  bool
}

func (e *env) ms() int { return int(time.Since(e.t0) / time.Millisecond) }

// log appends an event stamped with the virtual time (under the mutex: the log is a linearisation).
func (e *env) log(ev drv.Step) {
	e.mu.Lock()
	defer e.mu.Unlock()
	if e.ended {
		return
	}
	ev["t"] = e.ms()
	e.events = append(e.events, ev)
}

func hostOf(s string) string {
	if i := strings.LastIndex(s, ":"); i >= 0 {
		return s[:i]
	}

	return s
}

func (e *env) dial(ctx context.Context, _, target string) (net.Conn, error) {
	st := e.byHost[hostOf(target)]
	if st == nil {
		e.log(drv.Step{"ev": "Dial", "a": 0, "k": 0, "how": "unknown:" + target, "code": 0, "path": "", "topics": []string{}, "accept": "", "hdr": ""})
		return nil, &net.OpError{Op: "dial", Net: "tcp", Err: syscall.EHOSTUNREACH}
	}
	e.mu.Lock()
	st.k++
	k := st.k
	out := map[string]any{"how": "http", "code": float64(200)}
	if k <= len(st.script) {
		out = st.script[k-1]
	}
	st.code = drv.Num(out["code"])
	st.reset = &atomic.Bool{}
	reset := st.reset
	e.mu.Unlock()
	if drv.Str(out["how"]) == "refuse" {
		e.log(drv.Step{"ev": "Dial", "a": st.idx, "k": k, "how": "refuse", "code": 0, "path": "", "topics": []string{}, "accept": "", "hdr": ""})
		return nil, &net.OpError{Op: "dial", Net: "tcp", Err: syscall.ECONNREFUSED}
	}
	c, s := net.Pipe()
	select {
	case e.ln.ch <- s:
	case <-ctx.Done():
		return nil, ctx.Err()
	case <-e.quit:
		return nil, net.ErrClosed
	}

	return clientConn{c, reset}, nil
}

func (e *env) serve(w http.ResponseWriter, r *http.Request) {
	st := e.byHost[hostOf(r.Host)]
	if st == nil {
		st = e.byHost[r.Host]
	}
	if st == nil {
		e.log(drv.Step{"ev": "Dial", "a": 0, "k": 0, "how": "unknownhost:" + r.Host, "code": 0, "path": "", "topics": []string{}, "accept": "", "hdr": ""})
		w.WriteHeader(http.StatusNotFound)

		return
	}
	e.mu.Lock()
	k, code, reset := st.k, st.code, st.reset
	e.mu.Unlock()
	topics := r.URL.Query()["topics"]
	if topics == nil {
		topics = []string{}
	}
	e.log(drv.Step{"ev": "Dial", "a": st.idx, "k": k, "how": "http", "code": code, "path": r.URL.Path, "topics": topics,
		"accept": r.Header.Get("Accept"), "hdr": r.Header.Get("X-Verif")})
	if code != http.StatusOK {
		http.Error(w, "scripted", code)
		return
	}
	w.Header().Set("Content-Type", "text/event-stream")
	w.WriteHeader(http.StatusOK)
	w.(http.Flusher).Flush()
	c := &conn{k: k, cmds: make(chan cmd), done: make(chan struct{}), reset: reset}
	e.mu.Lock()
	st.cur = c
	e.mu.Unlock()
	defer func() {
		e.mu.Lock()
		if st.cur == c {
			st.cur = nil
		}
		e.mu.Unlock()
		close(c.done)
	}()
	for {
		select {
		case <-r.Context().Done():
			e.log(drv.Step{"ev": "Gone", "a": st.idx, "k": k})
			return
		case <-e.quit:
			return
		case m := <-c.cmds:
			switch m.how {
			case "":
				_, _ = w.Write(m.b)
				w.(http.Flusher).Flush()
			case "eof":
				return
			case "abrupt", "reset":
				if m.how == "reset" {
					c.reset.Store(true)
				}
				if nc, _, err := w.(http.Hijacker).Hijack(); err == nil {
					_ = nc.Close()
				}

				return
			}
		}
	}
}

// ---- prometheus series of the listener ----

var (
	regOnce sync.Once
	reg     *prometheus.Registry
)

var series = map[string]string{
	"app_beacon_node_sse_head_delay":            "hd",
	"app_beacon_node_sse_chain_reorg_depth":     "rd",
	"app_beacon_node_sse_block_gossip":          "bg",
	"app_beacon_node_sse_block":                 "bl",
	"app_beacon_node_sse_block_processing_time": "pt",
	"app_beacon_node_sse_head_slot":             "hs",
}

// snapshot returns per "metric|addr" the pair (count, sum) of a histogram or (1, value) of a gauge.
func snapshot(t *testing.T) map[string][2]float64 {
	mfs, err := reg.Gather()
	if err != nil {
		t.Fatalf("gather: %v", err)
	}
	out := map[string][2]float64{}
	for _, mf := range mfs {
		m, ok := series[mf.GetName()]
		if !ok {
			continue
		}
		for _, s := range mf.GetMetric() {
			addr := ""
			for _, l := range s.GetLabel() {
				if l.GetName() == "addr" {
					addr = l.GetValue()
				}
			}
			if mf.GetType() == dto.MetricType_HISTOGRAM {
				out[m+"|"+addr] = [2]float64{float64(s.GetHistogram().GetSampleCount()), s.GetHistogram().GetSampleSum()}
			} else {
				out[m+"|"+addr] = [2]float64{1, s.GetGauge().GetValue()}
			}
		}
	}

	return out
}

// observe records what changed in the listener's series since the last look.
func (e *env) observe(a int) drv.Step {
	cur := snapshot(e.t)
	obs := []any{}
	for _, st := range e.addrs {
		for _, m := range []string{"hd", "rd", "bg", "bl", "pt"} {
			key := m + "|" + st.addr
			d0, d1 := cur[key][0]-e.prev[key][0], cur[key][1]-e.prev[key][1]
			if d0 == 0 && d1 == 0 {
				continue
			}
			sum := d1 * 1000 // seconds -> ms
			if m == "rd" {
				sum = d1
			}
			obs = append(obs, drv.Step{"a": st.idx, "m": m, "cnt": int(d0), "sum": int(math.Round(sum))})
		}
	}
	hs := -1
	if a >= 1 && a <= len(e.addrs) {
		if v, ok := cur["hs|"+e.addrs[a-1].addr]; ok {
			hs = int(v[1])
			if v[1] >= 1<<31 {
				hs = -2
			}
		}
	}
	e.prev = cur
	e.mu.Lock()
	calls := e.calls
	e.calls = nil
	e.mu.Unlock()
	if calls == nil {
		calls = []any{}
	}

	return drv.Step{"ev": "Out", "a": a, "calls": calls, "obs": obs, "hs": hs}
}

func (e *env) addrIndex(s string) int {
	for _, st := range e.addrs {
		if st.addr == s {
			return st.idx
		}
	}

	return 0
}

func small(v uint64) int {
	if v >= 1<<31 {
		return -2
	}

	return int(v)
}

func TestExec(t *testing.T) {
	drv.QuietLogs(t)
	scheds := drv.ReadSchedules(t)
	tr := drv.NewTracer(t)
	defer tr.Close()
	regOnce.Do(func() {
		var err error
		if reg, err = promauto.NewRegistry(prometheus.Labels{}); err != nil {
			t.Fatalf("registry: %v", err)
		}
	})
	for i, s := range scheds {
		hung := false
		synctest.Test(t, func(t *testing.T) { hung = runOne(t, tr, i, s) })
		if hung {
			break
		}
	}
}

func strs(v any) []string {
	var out []string
	if l, ok := v.([]any); ok {
		for _, x := range l {
			out = append(out, drv.Str(x))
		}
	}

	return out
}

func runOne(t *testing.T, tr *drv.Tracer, sid int, sched []drv.Step) (hung bool) {
	cfg := sched[0]
	if drv.Str(cfg["ev"]) != "Cfg" {
		t.Fatalf("schedule %d does not start with Cfg", sid)
	}
	e := &env{t: t, t0: time.Now(), byHost: map[string]*addrState{}, quit: make(chan struct{}),
		ln: &pipeListener{ch: make(chan net.Conn), done: make(chan struct{})}}
	addrs, akind, hosts := strs(cfg["addrs"]), strs(cfg["akind"]), strs(cfg["hosts"])
	dials, _ := cfg["dials"].(map[string]any)
	for i, a := range addrs {
		st := &addrState{idx: i + 1, addr: a}
		if l, ok := dials[fmt.Sprint(i+1)].([]any); ok {
			for _, x := range l {
				st.script = append(st.script, x.(map[string]any))
			}
		}
		e.addrs = append(e.addrs, st)
		if hosts[i] != "" {
			e.byHost[hosts[i]] = st
		}
	}
	slot := time.Duration(drv.Num(cfg["slotms"])) * time.Millisecond
	spe := drv.Num(cfg["spe"])
	gen := drv.Num(cfg["gen"])
	rfp := drv.Num(cfg["rfp"])
	hdrok := cfg["hdrok"] == true
	if rfp >= 0 {
		expbackoff.SetRandFloatForT(t, func() float64 { return float64(rfp) / 1000 })
	}
	e.events = append(e.events, drv.Step{"ev": "Reset", "sid": sid, "t": 0, "n": len(addrs), "akind": akind, "gen": gen,
		"slotms": drv.Num(cfg["slotms"]), "spe": spe, "hdrok": hdrok, "rfp": rfp, "tag": drv.Str(cfg["tag"])})

	srv := &http.Server{Handler: http.HandlerFunc(e.serve)}
	go func() { _ = srv.Serve(e.ln) }()
	transport := &http.Transport{DisableKeepAlives: true, DialContext: e.dial}
	old := http.DefaultTransport
	http.DefaultTransport = transport
	defer func() { http.DefaultTransport = old }()
	ctx, cancel := context.WithCancel(context.Background())
	cl := client{genesis: e.t0.Add(time.Duration(gen) * time.Millisecond), spec: map[string]any{"SECONDS_PER_SLOT": slot, "SLOTS_PER_EPOCH": uint64(spe)}}
	e.prev = snapshot(t)
	var lst sse.Listener

	stray := func() {
		e.mu.Lock()
		n := len(e.calls)
		e.mu.Unlock()
		if n > 0 {
			o := e.observe(0)
			o["ev"] = "Stray"
			e.log(o)
		}
	}
	for _, st := range sched[1:] {
		if at, ok := st["at"]; ok {
			if d := time.Until(e.t0.Add(time.Duration(drv.Num(at)) * time.Millisecond)); d > 0 {
				time.Sleep(d)
				synctest.Wait()
				stray()
			}
		}
		switch drv.Str(st["ev"]) {
		case "Start":
			var err error
			e.log(drv.Step{"ev": "Start"}) // the clients dial before StartListener returns
			lst, err = sse.StartListener(ctx, cl, addrs, strs(cfg["headers"]))
			e.log(drv.Step{"ev": "Started", "ok": err == nil})
			if err != nil {
				lst = nil
			}
		case "Sub":
			if lst == nil {
				e.log(drv.Step{"ev": "NoListener"})
				break
			}
			id := drv.Num(st["id"])
			e.log(drv.Step{"ev": "Sub", "kind": drv.Str(st["kind"]), "id": id})
			if drv.Str(st["kind"]) == "head" {
				lst.SubscribeHeadEvent(func(_ context.Context, slot eth2p0.Slot, root eth2p0.Root, addr string) {
					e.mu.Lock()
					defer e.mu.Unlock()
					e.calls = append(e.calls, drv.Step{"k": "head", "sub": id, "slot": small(uint64(slot)), "root": fmt.Sprintf("%#x", root[:]),
						"a": e.addrIndex(addr), "epoch": 0})
				})
			} else {
				lst.SubscribeChainReorgEvent(func(_ context.Context, epoch eth2p0.Epoch) {
					e.mu.Lock()
					defer e.mu.Unlock()
					e.calls = append(e.calls, drv.Step{"k": "reorg", "sub": id, "slot": 0, "root": "", "a": 0, "epoch": small(uint64(epoch))})
				})
			}
		case "Chunk", "Close":
			a := drv.Num(st["a"])
			as := e.addrs[a-1]
			e.mu.Lock()
			c := as.cur
			e.mu.Unlock()
			isChunk := drv.Str(st["ev"]) == "Chunk"
			if c == nil {
				e.log(drv.Step{"ev": "NoConn", "a": a})
				break
			}
			m := cmd{how: drv.Str(st["how"])}
			if isChunk {
				m = cmd{b: []byte(drv.Str(st["b"]))}
				ln, _ := st["ln"].([]any)
				if ln == nil {
					ln = []any{}
				}
				if n := strings.Count(string(m.b), "\n"); n != len(ln) {
					t.Fatalf("schedule %d: chunk %q completes %d lines, annotated %d", sid, m.b, n, len(ln))
				}
				if c.pend != (st["cont"] == true) {
					// the chunk continues a line whose beginning went to another connection (or nowhere): its descriptors
					// do not describe what this connection would read
					e.log(drv.Step{"ev": "Skip", "a": a})
					break
				}
				if len(m.b) > 0 {
					c.pend = m.b[len(m.b)-1] != '\n'
				}
				if c.pend != (st["part"] == true) {
					t.Fatalf("schedule %d: chunk %q: pending line %v, annotated %v", sid, m.b, c.pend, st["part"])
				}
				e.log(drv.Step{"ev": "Chunk", "a": a, "k": c.k, "ln": ln, "part": c.pend})
			} else {
				e.log(drv.Step{"ev": "Close", "a": a, "k": c.k, "how": m.how})
			}
			select {
			case c.cmds <- m:
			case <-c.done:
			}
			synctest.Wait()
			if isChunk {
				e.log(e.observe(a))
			}
		case "Cancel":
			e.log(drv.Step{"ev": "Cancel"})
			cancel()
		case "Wait":
		default:
			t.Fatalf("unknown step %v", st)
		}
		synctest.Wait()
		stray()
	}
	// drain: pending reconnects show up
	time.Sleep(time.Duration(drv.Num(cfg["drain"])) * time.Millisecond)
	synctest.Wait()
	stray()
	e.log(drv.Step{"ev": "End"})
	e.mu.Lock()
	e.ended = true
	e.mu.Unlock()
	cancel()
	close(e.quit)
	_ = srv.Close()
	_ = e.ln.Close()
	transport.CloseIdleConnections()
	synctest.Wait()
	for _, ev := range e.events {
		tr.Emit(ev)
	}

	return false
}
