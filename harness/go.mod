module verifharness

go 1.26

require (
	github.com/OffchainLabs/go-bitfield v0.0.0-20251031151322-f427d04d8506
	github.com/attestantio/go-eth2-client v0.29.0
	github.com/coinbase/kryptology v1.5.6-0.20220316191335-269410e1b06b
	github.com/decred/dcrd/dcrec/secp256k1/v4 v4.4.1
	github.com/fsnotify/fsnotify v1.10.1
	github.com/herumi/bls-eth-go-binary v1.36.4
	github.com/jonboulle/clockwork v0.5.0
	github.com/libp2p/go-libp2p v0.48.0
	github.com/libp2p/go-msgio v0.3.0
	github.com/multiformats/go-multiaddr v0.16.1
	github.com/multiformats/go-varint v0.0.7
	github.com/obolnetwork/charon v0.0.0
	github.com/prometheus/client_golang v1.24.1
	github.com/prometheus/client_model v0.6.2
	go.uber.org/zap v1.28.0
	google.golang.org/protobuf v1.36.12
)

require (
	filippo.io/bigmod v0.1.1-0.20260103110540-f8a47775ebe5 // indirect
	filippo.io/keygen v0.0.0-20260114151900-8e2790ea4c5b // indirect
	github.com/attestantio/go-builder-client v0.8.0 // indirect
	github.com/benbjohnson/clock v1.3.5 // indirect
	github.com/beorn7/perks v1.0.1 // indirect
	github.com/bits-and-blooms/bitset v1.24.4 // indirect
	github.com/casbin/govaluate v1.10.0 // indirect
	github.com/cenkalti/backoff/v5 v5.0.3 // indirect
	github.com/cespare/xxhash/v2 v2.3.0 // indirect
	github.com/consensys/gnark-crypto v0.19.2 // indirect
	github.com/crate-crypto/go-eth-kzg v1.5.0 // indirect
	github.com/davidlazar/go-crypto v0.0.0-20200604182044-b73af7476f6c // indirect
	github.com/deckarep/golang-set/v2 v2.8.0 // indirect
	github.com/drand/kyber v1.3.2 // indirect
	github.com/drand/kyber-bls12381 v0.3.4 // indirect
	github.com/dunglas/httpsfv v1.1.0 // indirect
	github.com/emicklei/dot v1.8.0 // indirect
	github.com/ethereum/go-ethereum v1.17.5 // indirect
	github.com/ferranbt/fastssz v1.0.0 // indirect
	github.com/fjl/jsonw v0.1.0 // indirect
	github.com/flynn/noise v1.1.0 // indirect
	github.com/go-logr/logr v1.4.4 // indirect
	github.com/go-logr/stdr v1.2.2 // indirect
	github.com/go-viper/mapstructure/v2 v2.5.0 // indirect
	github.com/goccy/go-yaml v1.17.0 // indirect
	github.com/golang/snappy v1.0.1-0.20260716114414-9ae09f520e93 // indirect
	github.com/google/gofuzz v1.2.0 // indirect
	github.com/google/uuid v1.6.0 // indirect
	github.com/gorilla/mux v1.8.1 // indirect
	github.com/gorilla/websocket v1.5.3 // indirect
	github.com/grpc-ecosystem/grpc-gateway/v2 v2.29.0 // indirect
	github.com/holiman/uint256 v1.3.2 // indirect
	github.com/huandu/go-clone v1.7.2 // indirect
	github.com/huin/goupnp v1.3.0 // indirect
	github.com/ipfs/go-cid v0.5.0 // indirect
	github.com/ipfs/go-log/v2 v2.9.2 // indirect
	github.com/jackpal/go-nat-pmp v1.0.2 // indirect
	github.com/jbenet/go-temp-err-catcher v0.1.0 // indirect
	github.com/jsternberg/zap-logfmt v1.3.0 // indirect
	github.com/kilic/bls12-381 v0.1.0 // indirect
	github.com/klauspost/cpuid/v2 v2.3.0 // indirect
	github.com/koron/go-ssdp v0.0.6 // indirect
	github.com/libp2p/go-buffer-pool v0.1.0 // indirect
	github.com/libp2p/go-flow-metrics v0.2.0 // indirect
	github.com/libp2p/go-libp2p-asn-util v0.4.1 // indirect
	github.com/libp2p/go-netroute v0.4.0 // indirect
	github.com/libp2p/go-reuseport v0.4.0 // indirect
	github.com/libp2p/go-yamux/v5 v5.0.1 // indirect
	github.com/marten-seemann/tcp v0.0.0-20210406111302-dfbc87cc63fd // indirect
	github.com/mattn/go-colorable v0.1.15 // indirect
	github.com/mattn/go-isatty v0.0.23 // indirect
	github.com/miekg/dns v1.1.66 // indirect
	github.com/mikioh/tcpinfo v0.0.0-20190314235526-30a79bb1804b // indirect
	github.com/mikioh/tcpopt v0.0.0-20190314235656-172688c1accc // indirect
	github.com/minio/sha256-simd v1.0.1 // indirect
	github.com/mitchellh/mapstructure v1.5.0 // indirect
	github.com/mr-tron/base58 v1.2.0 // indirect
	github.com/multiformats/go-base32 v0.1.0 // indirect
	github.com/multiformats/go-base36 v0.2.0 // indirect
	github.com/multiformats/go-multiaddr-dns v0.4.1 // indirect
	github.com/multiformats/go-multiaddr-fmt v0.1.0 // indirect
	github.com/multiformats/go-multibase v0.2.0 // indirect
	github.com/multiformats/go-multicodec v0.9.1 // indirect
	github.com/multiformats/go-multihash v0.2.3 // indirect
	github.com/multiformats/go-multistream v0.6.1 // indirect
	github.com/munnerz/goautoneg v0.0.0-20191010083416-a7dc8b61c822 // indirect
	github.com/pbnjay/memory v0.0.0-20210728143218-7b4eea64cf58 // indirect
	github.com/pelletier/go-toml/v2 v2.2.4 // indirect
	github.com/pion/datachannel v1.5.10 // indirect
	github.com/pion/dtls/v3 v3.1.4 // indirect
	github.com/pion/ice/v4 v4.0.10 // indirect
	github.com/pion/interceptor v0.1.40 // indirect
	github.com/pion/logging v0.2.4 // indirect
	github.com/pion/mdns/v2 v2.0.7 // indirect
	github.com/pion/randutil v0.1.0 // indirect
	github.com/pion/rtcp v1.2.16 // indirect
	github.com/pion/rtp v1.8.19 // indirect
	github.com/pion/sctp v1.8.39 // indirect
	github.com/pion/sdp/v3 v3.0.18 // indirect
	github.com/pion/srtp/v3 v3.0.6 // indirect
	github.com/pion/stun/v3 v3.1.5 // indirect
	github.com/pion/transport/v3 v3.0.7 // indirect
	github.com/pion/transport/v4 v4.0.2 // indirect
	github.com/pion/turn/v4 v4.0.2 // indirect
	github.com/pion/webrtc/v4 v4.1.2 // indirect
	github.com/pk910/dynamic-ssz v1.3.2 // indirect
	github.com/pk910/hashtree-bindings v0.2.2 // indirect
	github.com/pkg/errors v0.9.1 // indirect
	github.com/prometheus/common v0.70.1 // indirect
	github.com/prometheus/procfs v0.21.1 // indirect
	github.com/protolambda/eth2-shuffle v1.1.0 // indirect
	github.com/quic-go/qpack v0.6.0 // indirect
	github.com/quic-go/quic-go v0.60.0 // indirect
	github.com/quic-go/webtransport-go v0.11.1 // indirect
	github.com/r3labs/sse/v2 v2.10.0 // indirect
	github.com/rs/zerolog v1.35.1 // indirect
	github.com/sagikazarmark/locafero v0.12.0 // indirect
	github.com/shirou/gopsutil v3.21.11+incompatible // indirect
	github.com/showwin/speedtest-go v1.7.11 // indirect
	github.com/spaolacci/murmur3 v1.1.0 // indirect
	github.com/spf13/afero v1.15.0 // indirect
	github.com/spf13/cast v1.10.0 // indirect
	github.com/spf13/cobra v1.10.2 // indirect
	github.com/spf13/pflag v1.0.10 // indirect
	github.com/spf13/viper v1.21.0 // indirect
	github.com/stretchr/testify v1.12.1 // indirect
	github.com/subosito/gotenv v1.6.0 // indirect
	github.com/tklauser/go-sysconf v0.3.15 // indirect
	github.com/tklauser/numcpus v0.10.0 // indirect
	github.com/wealdtech/go-eth2-wallet-encryptor-keystorev4 v1.4.1 // indirect
	github.com/wlynxg/anet v0.0.5 // indirect
	go.opentelemetry.io/auto/sdk v1.2.1 // indirect
	go.opentelemetry.io/otel v1.45.0 // indirect
	go.opentelemetry.io/otel/exporters/otlp/otlptrace v1.45.0 // indirect
	go.opentelemetry.io/otel/exporters/otlp/otlptrace/otlptracegrpc v1.45.0 // indirect
	go.opentelemetry.io/otel/exporters/stdout/stdouttrace v1.45.0 // indirect
	go.opentelemetry.io/otel/metric v1.45.0 // indirect
	go.opentelemetry.io/otel/sdk v1.45.0 // indirect
	go.opentelemetry.io/otel/trace v1.45.0 // indirect
	go.opentelemetry.io/proto/otlp v1.11.0 // indirect
	go.uber.org/automaxprocs v1.6.0 // indirect
	go.uber.org/dig v1.19.0 // indirect
	go.uber.org/fx v1.24.0 // indirect
	go.uber.org/multierr v1.11.0 // indirect
	go.yaml.in/yaml/v3 v3.0.5 // indirect
	golang.org/x/crypto v0.55.0 // indirect
	golang.org/x/exp v0.0.0-20260709172345-9ea1abe57597 // indirect
	golang.org/x/net v0.58.0 // indirect
	golang.org/x/sync v0.22.0 // indirect
	golang.org/x/sys v0.47.0 // indirect
	golang.org/x/term v0.45.0 // indirect
	golang.org/x/text v0.41.0 // indirect
	golang.org/x/time v0.15.0 // indirect
	google.golang.org/genproto/googleapis/api v0.0.0-20260803160001-6ac0973c030d // indirect
	google.golang.org/genproto/googleapis/rpc v0.0.0-20260803160001-6ac0973c030d // indirect
	google.golang.org/grpc v1.83.0 // indirect
	gopkg.in/cenkalti/backoff.v1 v1.1.0 // indirect
	gopkg.in/natefinch/lumberjack.v2 v2.2.1 // indirect
	gopkg.in/yaml.v2 v2.4.0 // indirect
	lukechampine.com/blake3 v1.4.1 // indirect
)

replace github.com/obolnetwork/charon => /repo

replace github.com/coinbase/kryptology => github.com/ObolNetwork/kryptology v0.1.0

replace github.com/attestantio/go-eth2-client => github.com/ObolNetwork/go-eth2-client v0.28.1-obol
