// Package depositflowexec executes DepositFlow schedules on the real code of the partial-deposit flow and records what
// happened on the wire and on disk.
//
// What is real: the charon CLI (`cmd.New()` with `deposit sign | fetch` and their flags: cmd/deposit*.go), the
// app/obolapi.Client (PostPartialDeposits, GetFullDeposit: aggregation and verification), eth2util/deposit (signing root,
// MarshalDepositData, WriteDepositDataFile), the key material on disk (cluster lock, ENR key, EIP-2335 key shares of a
// cluster.NewForT cluster), tbls, loopback HTTP.
//
// What is the environment (this file): a SCRIPTED Obol API.  It records every partial deposit that is posted (by an
// operator's command or, directly, by a Byzantine operator whose requests are assembled here from the key material) and
// answers a full-deposit request with whatever the schedule says: any subset / order / duplication / relabelling of
// what was posted, blank, junk and truncated entries, other credentials, other amounts, failure codes, garbage.
//
// Nothing here knows what should happen.  Everything is recorded in ABSTRACT terms by observation functions that do not
// use the code under test: own SSZ merkleisation of the deposit message / deposit data, own deposit domain from the
// lock's fork version, tbls.Verify against the lock's public shares / group keys.  DepositFlowTrace.tla decides.
package depositflowexec

import (
	"bytes"
	"context"
	"crypto/sha256"
	"encoding/binary"
	"encoding/hex"
	"encoding/json"
	"fmt"
	"io"
	"math/rand"
	"net/http"
	"net/http/httptest"
	"os"
	"path/filepath"
	"regexp"
	"sort"
	"strconv"
	"strings"
	"sync"
	"testing"
	"time"

	eth2p0 "github.com/attestantio/go-eth2-client/spec/phase0"

	"github.com/obolnetwork/charon/app/k1util"
	"github.com/obolnetwork/charon/cluster"
	"github.com/obolnetwork/charon/cmd"
	"github.com/obolnetwork/charon/eth2util/deposit"
	"github.com/obolnetwork/charon/eth2util/keystore"
	"github.com/obolnetwork/charon/tbls"

	"verifharness/drv"
)

// ----------------------------------------------------------------------------------------------------------------------
// independent SSZ merkleisation
// ----------------------------------------------------------------------------------------------------------------------

type chunk = [32]byte

func hash2(a, b chunk) chunk { return sha256.Sum256(append(a[:], b[:]...)) }

func u64(v uint64) chunk {
	var c chunk
	binary.LittleEndian.PutUint64(c[:], v)

	return c
}

func pack(b []byte) []chunk {
	var out []chunk
	for i := 0; i < len(b); i += 32 {
		var c chunk
		copy(c[:], b[i:min(i+32, len(b))])
		out = append(out, c)
	}
	if len(out) == 0 {
		out = append(out, chunk{})
	}

	return out
}

// merkle of a fixed number of chunks (padded with zero chunks to a power of two).
func merkle(cs []chunk) chunk {
	n := 1
	for n < len(cs) {
		n *= 2
	}
	layer := append([]chunk{}, cs...)
	for len(layer) < n {
		layer = append(layer, chunk{})
	}
	for len(layer) > 1 {
		next := make([]chunk, 0, len(layer)/2)
		for i := 0; i < len(layer); i += 2 {
			next = append(next, hash2(layer[i], layer[i+1]))
		}
		layer = next
	}

	return layer[0]
}

func bytesRoot(b []byte) chunk { return merkle(pack(b)) }

// depositMsgRoot: Container{pubkey: Bytes48, withdrawal_credentials: Bytes32, amount: uint64}.
func depositMsgRoot(pk, wc []byte, gwei uint64) chunk {
	var w chunk
	copy(w[:], wc)

	return merkle([]chunk{bytesRoot(pk), w, u64(gwei)})
}

// depositDataRoot: Container{pubkey, withdrawal_credentials, amount, signature: Bytes96}.
func depositDataRoot(pk, wc []byte, gwei uint64, sig []byte) chunk {
	var w chunk
	copy(w[:], wc)

	return merkle([]chunk{bytesRoot(pk), w, u64(gwei), bytesRoot(sig)})
}

// depositDomain: DOMAIN_DEPOSIT ++ hash_tree_root(ForkData{fork version, zero genesis validators root})[:28].
func depositDomain(forkVersion []byte) chunk {
	var fv chunk
	copy(fv[:], forkVersion)
	fd := merkle([]chunk{fv, {}})
	var d chunk
	copy(d[:4], []byte{3, 0, 0, 0})
	copy(d[4:], fd[:28])

	return d
}

// ----------------------------------------------------------------------------------------------------------------------
// abstract <-> concrete tables
// ----------------------------------------------------------------------------------------------------------------------

const (
	addrA = "1111111111111111111111111111111111111111"
	addrB = "2222222222222222222222222222222222222222"
	pad11 = "0000000000000000000000"
	gweiE = uint64(1000000000)
)

// the withdrawal "addresses" an operator may type: 1..5 are 32-byte credentials, 6 a 20-byte address, 7 is not hex
var wTable = map[int]string{
	1: "0x01" + pad11 + addrA, 2: "0x02" + pad11 + addrA, 3: "0x01" + pad11 + addrB, 4: "0x02" + pad11 + addrB,
	5: "0x00" + "9f" + pad11 + addrA[2:], 6: "0x" + addrA, 7: "0xzz11",
}

func absW(b []byte) int {
	h := "0x" + hex.EncodeToString(b)
	for k, v := range wTable {
		if v == h {
			return k
		}
	}

	return 0
}

func absAmt(gwei uint64) int {
	if gwei%gweiE != 0 {
		return -1
	}

	return int(gwei / gweiE)
}

func unhex(s string) []byte {
	b, err := hex.DecodeString(strings.TrimPrefix(s, "0x"))
	if err != nil {
		return nil
	}

	return b
}

// ----------------------------------------------------------------------------------------------------------------------
// cluster material (one per shape, shared by all schedules of the run; read-only after creation)
// ----------------------------------------------------------------------------------------------------------------------

type material struct {
	n, t, nv   int
	comp       bool
	lock       cluster.Lock
	lockHex    string
	lockJSON   []byte
	shares     [][]tbls.PrivateKey // [validator][operator]
	pubShares  [][]tbls.PublicKey
	groupPub   []tbls.PublicKey
	pkHex      []string // 0x.. lower case
	foreignHex string
	foreignSK  tbls.PrivateKey
	root       string
	domain     chunk
	forkHex    string
}

func (m *material) opDir(op int) string { return filepath.Join(m.root, fmt.Sprintf("op%d", op)) }

type world struct {
	t    *testing.T
	mu   sync.Mutex
	mats map[string]*material
	tmp  string
}

func (w *world) material(n, t, nv int, comp bool) *material {
	w.mu.Lock()
	defer w.mu.Unlock()
	key := fmt.Sprintf("%d_%d_%d_%v", n, t, nv, comp)
	if m, ok := w.mats[key]; ok {
		return m
	}
	seed := 20 + 7*n + t
	lock, enrs, shares := cluster.NewForT(w.t, nv, t, n, seed, rand.New(rand.NewSource(int64(seed))),
		func(d *cluster.Definition) { d.Compounding = comp })
	m := &material{n: n, t: t, nv: nv, comp: comp, lock: lock, lockHex: "0x" + hex.EncodeToString(lock.LockHash), shares: shares,
		root: filepath.Join(w.tmp, key), forkHex: hex.EncodeToString(lock.ForkVersion)}
	for _, dv := range lock.Validators {
		m.groupPub = append(m.groupPub, tbls.PublicKey(dv.PubKey))
		m.pkHex = append(m.pkHex, dv.PublicKeyHex())
		var ps []tbls.PublicKey
		for _, b := range dv.PubShares {
			ps = append(ps, tbls.PublicKey(b))
		}
		m.pubShares = append(m.pubShares, ps)
	}
	var err error
	if m.foreignSK, err = tbls.GenerateSecretKey(); err != nil {
		w.t.Fatal(err)
	}
	fpk, err := tbls.SecretToPublicKey(m.foreignSK)
	if err != nil {
		w.t.Fatal(err)
	}
	m.foreignHex = "0x" + hex.EncodeToString(fpk[:])
	if m.lockJSON, err = json.Marshal(lock); err != nil {
		w.t.Fatal(err)
	}
	for op := range n {
		d := m.opDir(op + 1)
		kd := filepath.Join(d, "validator_keys")
		if err := os.MkdirAll(kd, 0o755); err != nil {
			w.t.Fatal(err)
		}
		if err := k1util.Save(enrs[op], filepath.Join(d, "charon-enr-private-key")); err != nil {
			w.t.Fatal(err)
		}
		var mine []tbls.PrivateKey
		for v := range nv {
			mine = append(mine, shares[v][op])
		}
		if err := keystore.StoreKeysInsecure(mine, kd, keystore.ConfirmInsecureKeys); err != nil {
			w.t.Fatal(err)
		}
		if err := os.WriteFile(filepath.Join(d, "cluster-lock.json"), m.lockJSON, 0o644); err != nil {
			w.t.Fatal(err)
		}
	}
	m.domain = depositDomain(lock.ForkVersion)
	w.mats[key] = m

	return m
}

// ----------------------------------------------------------------------------------------------------------------------
// one schedule
// ----------------------------------------------------------------------------------------------------------------------

type run struct {
	w      *world
	m      *material
	sid    int
	mu     sync.Mutex
	events []drv.Step
	srv    *httptest.Server
	out    string            // root of this run's output directories
	sigs   map[string]string // registry: token key -> signature hex (first seen)
	toks   map[string]drv.Step
	sigIDs map[string]int
	// the script of the command that is running
	curOp    int
	postCode int
	gets     []drv.Step
}

func (r *run) log(ev drv.Step) {
	r.mu.Lock()
	defer r.mu.Unlock()
	r.events = append(r.events, ev)
}

// --- observation functions --------------------------------------------------------------------------------------------

func (r *run) valOf(pk string) int {
	pk = strings.ToLower(pk)
	for v, h := range r.m.pkHex {
		if pk == h {
			return v + 1
		}
	}
	if pk == r.m.foreignHex {
		return 0
	}

	return -1
}

func (r *run) valHex(v int) string {
	switch {
	case v >= 1 && v <= r.m.nv:
		return r.m.pkHex[v-1]
	case v == 0:
		return r.m.foreignHex
	case v == -1:
		return "0x1234" // short
	default:
		return "0xzz"
	}
}

func (r *run) sigRoot(pk, wc []byte, gwei uint64) chunk {
	return merkle([]chunk{depositMsgRoot(pk, wc, gwei), r.m.domain})
}

// partialBy returns (validator, share) whose public share verifies sig over root; (0,0) if none.
func (r *run) partialBy(root chunk, sig []byte, hintV, hintK int) (int, int) {
	if len(sig) != 96 {
		return 0, 0
	}
	if hintV >= 1 && hintV <= r.m.nv && hintK >= 1 && hintK <= r.m.n {
		if tbls.Verify(r.m.pubShares[hintV-1][hintK-1], root[:], tbls.Signature(sig)) == nil {
			return hintV, hintK
		}
	}
	for v := range r.m.pubShares {
		for k, ps := range r.m.pubShares[v] {
			if tbls.Verify(ps, root[:], tbls.Signature(sig)) == nil {
				return v + 1, k + 1
			}
		}
	}

	return 0, 0
}

// fullBy returns the cluster validator whose group key verifies sig over root, 0 if none.
func (r *run) fullBy(root chunk, sig []byte) int {
	if len(sig) != 96 {
		return 0
	}
	for v, pk := range r.m.groupPub {
		if tbls.Verify(pk, root[:], tbls.Signature(sig)) == nil {
			return v + 1
		}
	}

	return 0
}

func tokKey(sv, sk, v, w, a int) string { return fmt.Sprintf("%d/%d/%d/%d/%d", sv, sk, v, w, a) }

func (r *run) sigID(sigHex string) int {
	r.mu.Lock()
	defer r.mu.Unlock()
	if id, ok := r.sigIDs[sigHex]; ok {
		return id
	}
	r.sigIDs[sigHex] = len(r.sigIDs) + 1

	return len(r.sigIDs)
}

// pkOf names a partial_public_key string: [validator, share] of the public share it is, [0,0] unknown, [-1,-1] empty.
func (r *run) pkOf(s string) []int {
	if s == "" {
		return []int{-1, -1}
	}
	s = strings.TrimPrefix(strings.ToLower(s), "0x")
	for v := range r.m.pubShares {
		for k, ps := range r.m.pubShares[v] {
			if hex.EncodeToString(ps[:]) == s {
				return []int{v + 1, k + 1}
			}
		}
	}

	return []int{0, 0}
}

// --- the scripted API ---------------------------------------------------------------------------------------------------

type wireDD struct {
	PubKey string `json:"pubkey"`
	WC     string `json:"withdrawal_credentials"`
	Amount string `json:"amount"`
	Sig    string `json:"signature"`
}

type wirePartial struct {
	PK  string `json:"partial_public_key"`
	Sig string `json:"partial_deposit_signature"`
}

type wireAmount struct {
	Amount   string        `json:"amount"`
	Partials []wirePartial `json:"partials"`
}

type wireFull struct {
	PubKey  string       `json:"pubkey"`
	WC      string       `json:"withdrawal_credentials"`
	Amounts []wireAmount `json:"amounts"`
}

var (
	rePost = regexp.MustCompile(`^/deposit_data/partial_deposits/([^/]+)/([^/]+)$`)
	reGet  = regexp.MustCompile(`^/deposit_data/([^/]+)/([^/]+)$`)
)

func (r *run) ServeHTTP(w http.ResponseWriter, req *http.Request) {
	body, _ := io.ReadAll(req.Body)
	if m := rePost.FindStringSubmatch(req.URL.Path); m != nil && req.Method == http.MethodPost {
		r.servePost(w, m[1], m[2], body)
		return
	}
	if m := reGet.FindStringSubmatch(req.URL.Path); m != nil && req.Method == http.MethodGet {
		r.serveGet(w, m[1], m[2])
		return
	}
	r.log(drv.Step{"ev": "Other", "op": r.curOp, "m": req.Method, "path": req.URL.Path})
	w.WriteHeader(http.StatusNotFound)
}

func (r *run) servePost(w http.ResponseWriter, lockHex, shareStr string, body []byte) {
	share, err := strconv.Atoi(shareStr)
	if err != nil {
		share = -1
	}
	ev := drv.Step{"ev": "Post", "op": r.curOp, "lock": lockHex == r.m.lockHex, "share": share, "code": r.postCode}
	var q struct {
		Data []wireDD `json:"partial_deposit_data"`
	}
	if err := json.Unmarshal(body, &q); err != nil {
		ev["malformed"] = true
	}
	blobs := []drv.Step{}
	for _, d := range q.Data {
		pk, wc, sig := unhex(d.PubKey), unhex(d.WC), unhex(d.Sig)
		gwei, err := strconv.ParseUint(d.Amount, 10, 64)
		if err != nil || len(pk) != 48 || len(wc) != 32 {
			blobs = append(blobs, drv.Step{"v": -1, "w": 0, "a": -2, "sv": 0, "k": 0, "id": 0})
			continue
		}
		v, wa, a := r.valOf(d.PubKey), absW(wc), absAmt(gwei)
		sv, k := r.partialBy(r.sigRoot(pk, wc, gwei), sig, v, share)
		sigHex := hex.EncodeToString(sig)
		if k != 0 {
			key := tokKey(sv, k, v, wa, a)
			r.mu.Lock()
			if _, ok := r.sigs[key]; !ok {
				r.sigs[key] = sigHex
			}
			r.toks[sigHex] = drv.Step{"sv": sv, "k": k, "v": v, "w": wa, "a": a}
			r.mu.Unlock()
		}
		blobs = append(blobs, drv.Step{"v": v, "w": wa, "a": a, "sv": sv, "k": k, "id": r.sigID(sigHex)})
	}
	ev["blobs"] = blobs
	r.log(ev)
	w.WriteHeader(r.postCode)
	_, _ = w.Write([]byte(`{"message":"scripted"}`))
}

func (r *run) token(sigHex string) drv.Step {
	sigHex = strings.TrimPrefix(sigHex, "0x")
	if sigHex == "" {
		return drv.Step{"sv": 0, "k": -1, "v": 0, "w": 0, "a": 0}
	}
	if b := unhex(sigHex); len(b) != 96 {
		return drv.Step{"sv": 0, "k": -2, "v": 0, "w": 0, "a": 0}
	}
	r.mu.Lock()
	defer r.mu.Unlock()
	if t, ok := r.toks[sigHex]; ok {
		return t
	}

	return drv.Step{"sv": 0, "k": 0, "v": 0, "w": 0, "a": 0}
}

func (r *run) junkSig() string {
	sk, _ := tbls.GenerateSecretKey()
	s, _ := tbls.Sign(sk, []byte("junk"))

	return "0x" + hex.EncodeToString(s[:])
}

// materialise builds the response body from the recipe of the schedule.
func (r *run) materialise(rc drv.Step, askedV int) []byte {
	if drv.Str(rc["garbage"]) != "" {
		return []byte(drv.Str(rc["garbage"]))
	}
	full := wireFull{PubKey: r.valHex(askedV), Amounts: []wireAmount{}}
	if pv, ok := rc["pkfield"]; ok {
		full.PubKey = r.valHex(drv.Num(pv))
	}
	switch wf := drv.Str(rc["wform"]); wf {
	case "plain":
		full.WC = strings.TrimPrefix(wTable[drv.Num(rc["w"])], "0x")
	case "upper":
		full.WC = "0x" + strings.ToUpper(strings.TrimPrefix(wTable[drv.Num(rc["w"])], "0x"))
	default:
		full.WC = wTable[drv.Num(rc["w"])]
	}
	ams, _ := rc["amounts"].([]any)
	for _, x := range ams {
		am, _ := x.(map[string]any)
		wa := wireAmount{Amount: strconv.FormatUint(uint64(drv.Num(am["a"]))*gweiE, 10), Partials: []wirePartial{}}
		if s := drv.Str(am["araw"]); s != "" {
			wa.Amount = s
		}
		parts, _ := am["parts"].([]any)
		for _, y := range parts {
			p, _ := y.(map[string]any)
			var wp wirePartial
			pk, _ := p["pk"].([]any)
			if len(pk) == 2 {
				pv, pi := drv.Num(pk[0]), drv.Num(pk[1])
				switch {
				case pv >= 1 && pv <= r.m.nv && pi >= 1 && pi <= r.m.n:
					ps := r.m.pubShares[pv-1][pi-1]
					wp.PK = hex.EncodeToString(ps[:])
				case pv == 0:
					wp.PK = strings.TrimPrefix(r.m.foreignHex, "0x")
				}
			}
			switch drv.Str(p["form"]) {
			case "0x":
				wp.PK = "0x" + wp.PK
			case "upper":
				wp.PK = "0x" + strings.ToUpper(wp.PK)
			}
			switch drv.Str(p["kind"]) {
			case "blank":
			case "junk":
				wp.Sig = r.junkSig()
			case "trunc":
				wp.Sig = r.junkSig()[:100]
			default:
				s, _ := p["sig"].(map[string]any)
				key := tokKey(drv.Num(s["sv"]), drv.Num(s["k"]), drv.Num(s["v"]), drv.Num(s["w"]), drv.Num(s["a"]))
				r.mu.Lock()
				sh, ok := r.sigs[key]
				r.mu.Unlock()
				if ok {
					wp.Sig = "0x" + sh
				} else {
					wp.Sig = r.junkSig() // the API cannot hand out what nobody ever posted
				}
			}
			wa.Partials = append(wa.Partials, wp)
		}
		full.Amounts = append(full.Amounts, wa)
	}
	b, _ := json.Marshal(full)

	return b
}

// observe names the response body that goes out.
func (r *run) observe(body []byte) drv.Step {
	var f wireFull
	if err := json.Unmarshal(body, &f); err != nil {
		return drv.Step{"garbage": true, "w": 0, "amounts": []drv.Step{}}
	}
	wc, err := hex.DecodeString(strings.TrimPrefix(f.WC, "0x"))
	wa := absW(wc)
	if err != nil {
		wa = 7
	}
	out := drv.Step{"garbage": false, "w": wa, "pkfield": r.valOf(f.PubKey)}
	ams := []drv.Step{}
	for _, am := range f.Amounts {
		a := -2
		if g, err := strconv.ParseUint(am.Amount, 10, 64); err == nil {
			a = absAmt(g)
		}
		parts := []drv.Step{}
		for _, p := range am.Partials {
			parts = append(parts, drv.Step{"pk": r.pkOf(p.PK), "tok": r.token(p.Sig)})
		}
		ams = append(ams, drv.Step{"a": a, "parts": parts})
	}
	out["amounts"] = ams

	return out
}

func (r *run) serveGet(w http.ResponseWriter, lockHex, pk string) {
	v := r.valOf(pk)
	rc := drv.Step{"code": 404}
	r.mu.Lock()
	if len(r.gets) > 0 {
		rc = r.gets[0]
		r.gets = r.gets[1:]
	}
	r.mu.Unlock()
	code := drv.Num(rc["code"])
	if code == 0 {
		code = 200
	}
	ev := drv.Step{"ev": "Get", "op": r.curOp, "lock": lockHex == r.m.lockHex, "v": v, "code": code}
	if code/100 == 2 {
		body := r.materialise(rc, v)
		ev["resp"] = r.observe(body)
		r.log(ev)
		w.WriteHeader(code)
		_, _ = w.Write(body)

		return
	}
	r.log(ev)
	w.WriteHeader(code)
	_, _ = w.Write([]byte(`{"message":"scripted"}`))
}

// --- commands -------------------------------------------------------------------------------------------------------

func runCLI(args []string) (err error, panicked bool) {
	defer func() {
		if p := recover(); p != nil {
			err, panicked = fmt.Errorf("panic: %v", p), true
		}
	}()
	root := cmd.New()
	root.SetArgs(args)
	root.SetOut(io.Discard)
	root.SetErr(io.Discard)

	return root.ExecuteContext(context.Background()), false
}

func ints(v any) []int {
	xs, _ := v.([]any)
	out := make([]int, 0, len(xs))
	for _, x := range xs {
		out = append(out, drv.Num(x))
	}

	return out
}

func (r *run) common(op int) []string {
	d := r.m.opDir(op)

	return []string{"--private-key-file=" + filepath.Join(d, "charon-enr-private-key"), "--validator-keys-dir=" + filepath.Join(d, "validator_keys"),
		"--lock-file=" + filepath.Join(d, "cluster-lock.json"), "--publish-address=" + r.srv.URL, "--publish-timeout=60s"}
}

func (r *run) lockSame(op int) bool {
	b, err := os.ReadFile(filepath.Join(r.m.opDir(op), "cluster-lock.json"))

	return err == nil && bytes.Equal(b, r.m.lockJSON)
}

func (r *run) doSign(st drv.Step) {
	c, op := drv.Num(st["c"]), drv.Num(st["op"])
	vals, ws, amts := ints(st["vals"]), ints(st["ws"]), ints(st["amts"])
	var pks, was, ams []string
	for _, v := range vals {
		pks = append(pks, r.valHex(v))
	}
	for _, w := range ws {
		was = append(was, wTable[w])
	}
	for _, a := range amts {
		ams = append(ams, strconv.Itoa(a))
	}
	r.curOp, r.postCode, r.gets = op, drv.Num(st["code"]), nil
	if r.postCode == 0 {
		r.postCode = 201
	}
	r.log(drv.Step{"ev": "Start", "c": c, "op": op, "kind": "sign", "vals": vals, "ws": ws, "amts": amts, "dir": 0})
	args := append([]string{"deposit", "sign", "--validator-public-keys=" + strings.Join(pks, ","), "--withdrawal-addresses=" + strings.Join(was, ","),
		"--deposit-amounts=" + strings.Join(ams, ",")}, r.common(op)...)
	err, pan := runCLI(args)
	ev := drv.Step{"ev": "Done", "c": c, "ok": err == nil, "panic": pan, "lockSame": r.lockSame(op), "files": []drv.Step{}}
	if err != nil {
		ev["err"] = trim(err.Error())
	}
	r.log(ev)
}

func trim(s string) string {
	if len(s) > 160 {
		return s[:160]
	}

	return s
}

func (r *run) outDir(op, d int) string { return filepath.Join(r.out, fmt.Sprintf("op%d_dir%d", op, d)) }

var reFile = regexp.MustCompile(`^deposit-data-([0-9.]+)eth\.json$`)

// listing names the deposit-data files of a directory.
func (r *run) listing(dir string) []drv.Step {
	out := []drv.Step{}
	ents, err := os.ReadDir(dir)
	if err != nil {
		return out
	}
	for _, e := range ents {
		name := e.Name()
		fa := -1
		if name == "deposit-data.json" {
			fa = 32
		} else if m := reFile.FindStringSubmatch(name); m != nil {
			if x, err := strconv.Atoi(m[1]); err == nil {
				fa = x
			}
		}
		b, err := os.ReadFile(filepath.Join(dir, name))
		if err != nil {
			out = append(out, drv.Step{"name": name, "fa": fa, "unreadable": true, "entries": []drv.Step{}})
			continue
		}
		var list []struct {
			PubKey  string `json:"pubkey"`
			WC      string `json:"withdrawal_credentials"`
			Amount  uint64 `json:"amount"`
			Sig     string `json:"signature"`
			MsgRoot string `json:"deposit_message_root"`
			DDRoot  string `json:"deposit_data_root"`
			Fork    string `json:"fork_version"`
			Network string `json:"network_name"`
		}
		f := drv.Step{"name": name, "fa": fa, "wellformed": json.Unmarshal(b, &list) == nil}
		entries := []drv.Step{}
		for _, x := range list {
			pk, wc, sig := unhex(x.PubKey), unhex(x.WC), unhex(x.Sig)
			mr := depositMsgRoot(pk, wc, x.Amount)
			dr := depositDataRoot(pk, wc, x.Amount, sig)
			entries = append(entries, drv.Step{"v": r.valOf("0x" + x.PubKey), "w": absW(wc), "a": absAmt(x.Amount),
				"by":    r.fullBy(r.sigRoot(pk, wc, x.Amount), sig),
				"roots": x.MsgRoot == hex.EncodeToString(mr[:]) && x.DDRoot == hex.EncodeToString(dr[:]) && len(wc) == 32 && len(pk) == 48,
				"fork":  x.Fork == r.m.forkHex})
		}
		sort.SliceStable(entries, func(i, j int) bool {
			a, b := entries[i], entries[j]
			if a["v"] != b["v"] {
				return drv.Num(a["v"]) < drv.Num(b["v"])
			}

			return drv.Num(a["w"]) < drv.Num(b["w"])
		})
		f["entries"] = entries
		out = append(out, f)
	}
	sort.Slice(out, func(i, j int) bool { return drv.Str(out[i]["name"]) < drv.Str(out[j]["name"]) })

	return out
}

func (r *run) doFetch(st drv.Step) {
	c, op, d := drv.Num(st["c"]), drv.Num(st["op"]), drv.Num(st["dir"])
	vals := ints(st["vals"])
	var pks []string
	for _, v := range vals {
		h := r.valHex(v)
		if drv.Str(st["pkform"]) == "upper" && v >= 0 {
			h = "0x" + strings.ToUpper(h[2:])
		}
		pks = append(pks, h)
	}
	r.curOp, r.postCode, r.gets = op, 201, nil
	gs, _ := st["gets"].([]any)
	for _, g := range gs {
		if gm, ok := g.(map[string]any); ok {
			r.gets = append(r.gets, gm)
		}
	}
	r.log(drv.Step{"ev": "Start", "c": c, "op": op, "kind": "fetch", "vals": vals, "ws": []int{}, "amts": []int{}, "dir": d})
	dir := r.outDir(op, d)
	args := append([]string{"deposit", "fetch", "--validator-public-keys=" + strings.Join(pks, ","), "--deposit-data-dir=" + dir}, r.common(op)...)
	err, pan := runCLI(args)
	ev := drv.Step{"ev": "Done", "c": c, "ok": err == nil, "panic": pan, "lockSame": r.lockSame(op), "files": r.listing(dir)}
	if err != nil {
		ev["err"] = trim(err.Error())
	}
	r.log(ev)
}

// doByz: a Byzantine operator posts partial deposits it assembled itself: share sk of validator sv over (v, w, a).
func (r *run) doByz(st drv.Step) {
	share := drv.Num(st["share"])
	var q struct {
		Data []wireDD `json:"partial_deposit_data"`
	}
	q.Data = []wireDD{}
	bl, _ := st["blobs"].([]any)
	for _, x := range bl {
		b, _ := x.(map[string]any)
		v, w, a, sv, sk := drv.Num(b["v"]), drv.Num(b["w"]), drv.Num(b["a"]), drv.Num(b["sv"]), drv.Num(b["sk"])
		if v < 0 || v > r.m.nv || w < 1 || w > 5 || a < 0 {
			continue
		}
		pk, wc, gwei := unhex(r.valHex(v)), unhex(wTable[w]), uint64(a)*gweiE
		root := r.sigRoot(pk, wc, gwei)
		key := r.m.foreignSK
		if sv >= 1 && sv <= r.m.nv && sk >= 1 && sk <= r.m.n {
			key = r.m.shares[sv-1][sk-1]
		}
		sig, err := tbls.Sign(key, root[:])
		if err != nil {
			continue
		}
		q.Data = append(q.Data, wireDD{PubKey: r.valHex(v), WC: wTable[w], Amount: strconv.FormatUint(gwei, 10), Sig: "0x" + hex.EncodeToString(sig[:])})
	}
	body, _ := json.Marshal(q)
	r.curOp, r.postCode, r.gets = 0, drv.Num(st["code"]), nil
	if r.postCode == 0 {
		r.postCode = 201
	}
	lh := r.m.lockHex
	if l, ok := st["lock"].(bool); ok && !l {
		lh = "0x" + strings.Repeat("ab", 32)
	}
	cl := &http.Client{Timeout: 30 * time.Second}
	resp, err := cl.Post(fmt.Sprintf("%s/deposit_data/partial_deposits/%s/%d", r.srv.URL, lh, share), "application/json", bytes.NewReader(body))
	if err == nil {
		_, _ = io.Copy(io.Discard, resp.Body)
		resp.Body.Close()
	}
}

// the addresses NewMessage may be given
var addrTable = map[string]string{"A": "0x" + addrA, "B": "0x" + addrB, "short": "0x" + addrA[2:], "no0x": addrA, "nothex": "0x" + addrA[:38] + "zz",
	"creds32": "0x01" + pad11 + addrA, "empty": ""}

func gweis(v any) []eth2p0.Gwei {
	xs, _ := v.([]any)
	out := []eth2p0.Gwei{}
	for _, x := range xs {
		f, _ := x.(float64)
		out = append(out, eth2p0.Gwei(uint64(f)))
	}

	return out
}

// pair names an amount of g Gwei as [e, d] with g = e * 10^9 + d (TLC's integers have 32 bits).
func pair(g uint64) []int64 {
	e := (g + gweiE/2) / gweiE

	return []int64{int64(e), int64(g) - int64(e*gweiE)}
}

func pairs(gs []eth2p0.Gwei) [][]int64 {
	out := [][]int64{}
	for _, g := range gs {
		out = append(out, pair(uint64(g)))
	}

	return out
}

// doFn calls one of the pure functions of eth2util/deposit (or reads a written directory back) and records the result.
func (r *run) doFn(st drv.Step) {
	ev := drv.Step{"ev": "Fn", "f": drv.Str(st["f"])}
	comp, _ := st["comp"].(bool)
	switch drv.Str(st["f"]) {
	case "newmsg":
		v := drv.Num(st["v"])
		g, _ := st["gwei"].(float64)
		var pk eth2p0.BLSPubKey
		copy(pk[:], unhex(r.valHex(v)))
		msg, err := deposit.NewMessage(pk, addrTable[drv.Str(st["addr"])], eth2p0.Gwei(uint64(g)), comp)
		ev["v"], ev["addr"], ev["gwei"], ev["comp"], ev["ok"] = v, drv.Str(st["addr"]), pair(uint64(g)), comp, err == nil
		ev["creds"], ev["outgwei"], ev["outv"] = absW(msg.WithdrawalCredentials), pair(uint64(msg.Amount)), r.valOf("0x"+hex.EncodeToString(msg.PublicKey[:]))
	case "verify":
		a := gweis(st["amts"])
		if n, ok := st["nil"].(bool); ok && n {
			a = nil
		}
		ev["amts"], ev["comp"], ev["ok"] = pairs(a), comp, deposit.VerifyDepositAmounts(a, comp) == nil
	case "dedup":
		a := gweis(st["amts"])
		in := append([]eth2p0.Gwei{}, a...)
		out := deposit.DedupAmounts(a)
		if out == nil {
			out = []eth2p0.Gwei{}
		}
		same := len(in) == len(a)
		for i := range in {
			same = same && in[i] == a[i]
		}
		ev["amts"], ev["out"], ev["inputKept"] = pairs(in), pairs(out), same
	case "max":
		ev["comp"], ev["out"] = comp, pair(uint64(deposit.MaxDepositAmount(comp)))
	case "readback":
		op, d := drv.Num(st["op"]), drv.Num(st["dir"])
		sets, err := deposit.ReadDepositDataFiles(r.outDir(op, d))
		files := []drv.Step{}
		for _, set := range sets {
			f := drv.Step{"a": -1, "n": len(set), "entries": []drv.Step{}}
			es := []drv.Step{}
			for _, dd := range set {
				f["a"] = absAmt(uint64(dd.Amount))
				es = append(es, drv.Step{"v": r.valOf("0x" + hex.EncodeToString(dd.PublicKey[:])), "w": absW(dd.WithdrawalCredentials), "a": absAmt(uint64(dd.Amount)),
					"by": r.fullBy(r.sigRoot(dd.PublicKey[:], dd.WithdrawalCredentials, uint64(dd.Amount)), dd.Signature[:])})
			}
			f["entries"] = es
			files = append(files, f)
		}
		ev["op"], ev["dir"], ev["ok"], ev["files"] = op, d, err == nil, files
	default:
		return
	}
	r.log(ev)
}

func (w *world) exec(sid int, sched []drv.Step) []drv.Step {
	r := &run{w: w, sid: sid, sigs: map[string]string{}, toks: map[string]drv.Step{}, sigIDs: map[string]int{}}
	for _, st := range sched {
		switch drv.Str(st["ev"]) {
		case "Cfg":
			comp, _ := st["comp"].(bool)
			r.m = w.material(drv.Num(st["n"]), drv.Num(st["t"]), drv.Num(st["nv"]), comp)
			r.out = filepath.Join(w.tmp, fmt.Sprintf("out_%d", sid))
			r.srv = httptest.NewServer(r)
			defer r.srv.Close()
			r.log(drv.Step{"ev": "Reset", "sid": sid, "n": r.m.n, "t": r.m.t, "nv": r.m.nv, "comp": comp})
		case "Sign":
			r.doSign(st)
		case "Fetch":
			r.doFetch(st)
		case "Byz":
			r.doByz(st)
		case "Fn":
			r.doFn(st)
		}
	}
	r.log(drv.Step{"ev": "End"})
	_ = os.RemoveAll(r.out)

	return r.events
}

func TestExec(t *testing.T) {
	drv.QuietLogs(t)
	scheds := drv.ReadSchedules(t)
	tr := drv.NewTracer(t)
	defer tr.Close()
	w := &world{t: t, mats: map[string]*material{}, tmp: t.TempDir()}
	par, _ := strconv.Atoi(os.Getenv("VERIF_DEPOSITFLOW_PAR"))
	if par <= 0 {
		par = 4
	}
	out := make([][]drv.Step, len(scheds))
	var wg sync.WaitGroup
	jobs := make(chan int)
	for range par {
		wg.Add(1)
		go func() {
			defer wg.Done()
			for sid := range jobs {
				out[sid] = w.exec(sid, scheds[sid])
			}
		}()
	}
	for sid := range scheds {
		jobs <- sid
	}
	close(jobs)
	wg.Wait()
	for _, evs := range out {
		for _, e := range evs {
			tr.Emit(e)
		}
	}
}
