// Package c15 executes Scheduler schedules on the real core/scheduler.Scheduler and records what it did.
//
// A schedule is [Cfg, Advance*]: the Cfg step scripts the beacon node (validators with activation/exit epochs,
// attester/proposer/sync assignments, the ordinals of the beacon calls that fail) and picks how the scheduler
// reaches the beacon node ("direct": the client's cached-duties functions answer from the script, "cache": a real
// eth2wrap.DutiesCache sits between the scheduler and the scripted node, "nocache": feature DisableDutiesCache).
// Advance steps move a clockwork.FakeClock to an absolute time (ms after genesis).
//
// Feature flags fetch_att_on_block / fetch_att_on_block_with_delay (Cfg "feat": "off" | "on" | "delay" | "both") and SSE
// head events (step {"ev":"Head","slot":n}: Scheduler.HandleHeadEvent is called at that point of the schedule; Cfg "hs":
// [{"at":s,"slot":n}]: it is called from inside schedSlotFunc of slot s, i.e. after the tick of s and before
// scheduleSlot(s) has done anything; Cfg "fo": the fetcher's FetchOnly is registered).  With a flag on the scheduler's
// attester wait mixes time.Until with the scheduler clock, so a fake clock cannot drive it: Cfg "clock":"virt" runs the
// scheduler on the real clock API, which inside the synctest bubble is the bubble's virtual clock (genesis = bubble
// time - start).  An Advance step then sleeps until that instant; every timer of the scheduler in between fires at
// its own instant, and the recorder puts an Advance event in front of the first event of every new instant, so the
// trace carries the exact virtual time of everything.  A head event "before the slot's tick" is a Head step at slot
// start minus some ms, or one from inside schedSlotFunc.
//
// Every schedule runs inside a testing/synctest bubble: synctest.Wait() returns when every goroutine the scheduler
// started (run loop, slot ticker, one goroutine per triggered duty, one per slot subscriber) is durably blocked,
// which is the quiescence barrier the driver needs -- nothing is ever asserted by sleeping.
// The executor contains no expected values: it records
//
//	Sched    schedSlotFunc called (start of scheduleSlot, on the run goroutine)
//	SlotSub  slot subscriber called
//	Call     a request of the scheduler to its beacon client with the answer it got
//	Delay    delayFunc called: the deadline the scheduler wants to wait for before triggering
//	Trigger  duty subscriber called with the definition set ("at": the scheduler clock at the call)
//	Head     HandleHeadEvent about to be called (stimulus)
//	FetchOnly the fetcher's FetchOnly called with the definition set
package c15

import (
	"context"
	"errors"
	"fmt"
	"sort"
	"sync"
	"testing"
	"testing/synctest"
	"time"

	eth2api "github.com/attestantio/go-eth2-client/api"
	eth2v1 "github.com/attestantio/go-eth2-client/api/v1"
	eth2p0 "github.com/attestantio/go-eth2-client/spec/phase0"
	"github.com/jonboulle/clockwork"

	"github.com/obolnetwork/charon/app/eth2wrap"
	"github.com/obolnetwork/charon/app/featureset"
	"github.com/obolnetwork/charon/core"
	"github.com/obolnetwork/charon/core/scheduler"
	"github.com/obolnetwork/charon/testutil/beaconmock"

	"verifharness/drv"
)

var fakeGenesis = time.Date(2022, 3, 1, 0, 0, 0, 0, time.UTC)

// client is the scheduler's beacon client: beaconmock.Mock's overridable functions carry the script; Spec is
// answered locally (no HTTP inside the synctest bubble).
type client struct {
	beaconmock.Mock

	spec map[string]any
}

func (c client) Spec(context.Context, *eth2api.SpecOpts) (*eth2api.Response[map[string]any], error) {
	return &eth2api.Response[map[string]any]{Data: c.spec, Metadata: map[string]any{}}, nil
}

type mval struct {
	ID        string
	Known     bool // part of the cluster: appears in the validators answer
	Act, Exit int  // active in epochs [Act, Exit)
	Unsol     bool // the node returns this validator's duties even when its index was not requested
	Idx       eth2p0.ValidatorIndex
	Pub       eth2p0.BLSPubKey
}

type massign struct {
	V    string
	Slot int // att, pro
	Ep   int // sync
	Tag  int
}

type env struct {
	mu      sync.Mutex
	tr      *drv.Tracer
	clk     clockwork.Clock
	fclk    *clockwork.FakeClock // nil: the scheduler runs on the bubble's virtual clock
	genesis time.Time
	emu     sync.Mutex
	lastMs  int
	s       int
	slotDur time.Duration
	vals    []mval
	att     []massign
	pro     []massign
	sync    []massign
	fails   map[int]bool
	ncall   int
}

func (e *env) byID(id string) (mval, bool) {
	for _, v := range e.vals {
		if v.ID == id {
			return v, true
		}
	}

	return mval{}, false
}

func (e *env) idOfIdx(idx eth2p0.ValidatorIndex) string {
	for _, v := range e.vals {
		if v.Idx == idx {
			return v.ID
		}
	}

	return fmt.Sprintf("?%d", idx)
}

func (e *env) idOfPub(pk core.PubKey) string {
	for _, v := range e.vals {
		if core.PubKeyFrom48Bytes(v.Pub) == pk {
			return v.ID
		}
	}

	return "?" + pk.String()
}

func (e *env) idsOf(idxs []eth2p0.ValidatorIndex) []string {
	res := []string{}
	for _, i := range idxs {
		res = append(res, e.idOfIdx(i))
	}
	sort.Strings(res)

	return res
}

// failNow consumes one ordinal of the failure script.
func (e *env) failNow() bool {
	e.mu.Lock()
	defer e.mu.Unlock()
	n := e.ncall
	e.ncall++

	return e.fails[n]
}

func (e *env) wallEpoch() int {
	return int(e.clk.Since(e.genesis)/e.slotDur) / e.s
}

func (e *env) nowMs() int {
	return int(e.clk.Since(e.genesis) / time.Millisecond)
}

// emit records one event; on the virtual clock the first event of a new instant is preceded by an Advance event.
func (e *env) emit(st drv.Step) {
	e.emu.Lock()
	defer e.emu.Unlock()
	if e.fclk == nil {
		if t := e.nowMs(); t > e.lastMs {
			e.lastMs = t
			e.tr.Emit(drv.Step{"ev": "Advance", "to": t})
		}
	}
	e.tr.Emit(st)
}

var errScripted = errors.New("scripted beacon node failure")

// --- the scripted beacon node -------------------------------------------------------------------

func (e *env) nodeValidators(context.Context) (eth2wrap.ActiveValidators, eth2wrap.CompleteValidators, error) {
	if e.failNow() {
		return nil, nil, errScripted
	}
	w := e.wallEpoch()
	active := make(eth2wrap.ActiveValidators)
	complete := make(eth2wrap.CompleteValidators)
	for _, v := range e.vals {
		if !v.Known {
			continue
		}
		st := eth2v1.ValidatorStateActiveOngoing
		switch {
		case w < v.Act:
			st = eth2v1.ValidatorStatePendingQueued
		case w >= v.Exit:
			st = eth2v1.ValidatorStateExitedUnslashed
		case w == v.Exit-1:
			st = eth2v1.ValidatorStateActiveExiting
		}
		complete[v.Idx] = &eth2v1.Validator{
			Index: v.Idx, Balance: 32_000_000_000, Status: st,
			Validator: &eth2p0.Validator{PublicKey: v.Pub, ActivationEpoch: eth2p0.Epoch(v.Act), ExitEpoch: eth2p0.Epoch(v.Exit)},
		}
		if st.IsActive() {
			active[v.Idx] = v.Pub
		}
	}

	return active, complete, nil
}

func wanted(v mval, idxs []eth2p0.ValidatorIndex) bool {
	if v.Unsol {
		return true
	}
	for _, i := range idxs {
		if i == v.Idx {
			return true
		}
	}

	return false
}

func (e *env) nodeAtt(_ context.Context, ep eth2p0.Epoch, idxs []eth2p0.ValidatorIndex) ([]*eth2v1.AttesterDuty, error) {
	if e.failNow() {
		return nil, errScripted
	}
	res := []*eth2v1.AttesterDuty{}
	for _, a := range e.att {
		v, ok := e.byID(a.V)
		if !ok || a.Slot/e.s != int(ep) || !wanted(v, idxs) {
			continue
		}
		res = append(res, &eth2v1.AttesterDuty{
			PubKey: v.Pub, Slot: eth2p0.Slot(a.Slot), ValidatorIndex: v.Idx, CommitteeIndex: eth2p0.CommitteeIndex(a.Tag),
			CommitteeLength: 8, CommitteesAtSlot: 4, ValidatorCommitteeIndex: uint64(a.Tag % 8),
		})
	}

	return res, nil
}

func (e *env) nodePro(_ context.Context, ep eth2p0.Epoch, idxs []eth2p0.ValidatorIndex) ([]*eth2v1.ProposerDuty, error) {
	if e.failNow() {
		return nil, errScripted
	}
	res := []*eth2v1.ProposerDuty{}
	for _, a := range e.pro {
		v, ok := e.byID(a.V)
		if !ok || a.Slot/e.s != int(ep) || !wanted(v, idxs) {
			continue
		}
		res = append(res, &eth2v1.ProposerDuty{PubKey: v.Pub, Slot: eth2p0.Slot(a.Slot), ValidatorIndex: v.Idx})
	}

	return res, nil
}

func (e *env) nodeSync(_ context.Context, ep eth2p0.Epoch, idxs []eth2p0.ValidatorIndex) ([]*eth2v1.SyncCommitteeDuty, error) {
	if e.failNow() {
		return nil, errScripted
	}
	res := []*eth2v1.SyncCommitteeDuty{}
	for _, a := range e.sync {
		v, ok := e.byID(a.V)
		if !ok || a.Ep != int(ep) || !wanted(v, idxs) {
			continue
		}
		res = append(res, &eth2v1.SyncCommitteeDuty{
			PubKey: v.Pub, ValidatorIndex: v.Idx, ValidatorSyncCommitteeIndices: []eth2p0.CommitteeIndex{eth2p0.CommitteeIndex(a.Tag)},
		})
	}

	return res, nil
}

// --- recording at the scheduler <-> client boundary ----------------------------------------------

func (e *env) logVals(c eth2wrap.CompleteValidators, err error) {
	resp := []drv.Step{}
	for idx, v := range c {
		st := "exited"
		switch {
		case v.Status.IsActive():
			st = "active"
		case v.Status.IsPending():
			st = "pending"
		}
		resp = append(resp, drv.Step{"v": e.idOfIdx(idx), "st": st, "act": int(v.Validator.ActivationEpoch)})
	}
	sort.Slice(resp, func(i, j int) bool { return resp[i]["v"].(string) < resp[j]["v"].(string) })
	e.emit(drv.Step{"ev": "Call", "kind": "vals", "ok": err == nil, "resp": resp})
}

func (e *env) logDuties(kind string, ep eth2p0.Epoch, idxs []eth2p0.ValidatorIndex, resp []drv.Step, err error) {
	sort.Slice(resp, func(i, j int) bool {
		a, b := resp[i], resp[j]
		if a["v"].(string) != b["v"].(string) {
			return a["v"].(string) < b["v"].(string)
		}

		return drv.Num(a["slot"]) < drv.Num(b["slot"])
	})
	e.emit(drv.Step{"ev": "Call", "kind": kind, "ep": int(ep), "idxs": e.idsOf(idxs), "ok": err == nil, "resp": resp})
}

func (e *env) attSteps(ds []*eth2v1.AttesterDuty) []drv.Step {
	res := []drv.Step{}
	for _, d := range ds {
		if d == nil {
			res = append(res, drv.Step{"v": "?nil", "slot": -1, "tag": -1})
			continue
		}
		res = append(res, drv.Step{"v": e.idOfIdx(d.ValidatorIndex), "slot": int(d.Slot), "tag": int(d.CommitteeIndex)})
	}

	return res
}

func (e *env) proSteps(ds []*eth2v1.ProposerDuty) []drv.Step {
	res := []drv.Step{}
	for _, d := range ds {
		if d == nil {
			res = append(res, drv.Step{"v": "?nil", "slot": -1, "tag": -1})
			continue
		}
		res = append(res, drv.Step{"v": e.idOfIdx(d.ValidatorIndex), "slot": int(d.Slot), "tag": 0})
	}

	return res
}

func (e *env) syncSteps(ds []*eth2v1.SyncCommitteeDuty, ep eth2p0.Epoch) []drv.Step {
	res := []drv.Step{}
	for _, d := range ds {
		if d == nil || len(d.ValidatorSyncCommitteeIndices) != 1 {
			res = append(res, drv.Step{"v": "?nil", "ep": -1, "tag": -1, "slot": 0})
			continue
		}
		res = append(res, drv.Step{"v": e.idOfIdx(d.ValidatorIndex), "ep": int(ep), "tag": int(d.ValidatorSyncCommitteeIndices[0]), "slot": 0})
	}

	return res
}

func (e *env) defSteps(set core.DutyDefinitionSet) []drv.Step {
	res := []drv.Step{}
	for pk, def := range set {
		st := drv.Step{"v": e.idOfPub(pk)}
		switch d := def.(type) {
		case core.AttesterDefinition:
			st["dv"], st["slot"], st["tag"], st["k"] = e.idOfIdx(d.ValidatorIndex), int(d.Slot), int(d.CommitteeIndex), "att"
		case core.ProposerDefinition:
			st["dv"], st["slot"], st["tag"], st["k"] = e.idOfIdx(d.ValidatorIndex), int(d.Slot), 0, "pro"
		case core.SyncCommitteeDefinition:
			tag := -1
			if len(d.ValidatorSyncCommitteeIndices) == 1 {
				tag = int(d.ValidatorSyncCommitteeIndices[0])
			}
			st["dv"], st["slot"], st["tag"], st["k"] = e.idOfIdx(d.ValidatorIndex), -1, tag, "sync"
		default:
			st["dv"], st["slot"], st["tag"], st["k"] = "?", -1, -1, fmt.Sprintf("%T", def)
		}
		res = append(res, st)
	}
	sort.Slice(res, func(i, j int) bool { return res[i]["v"].(string) < res[j]["v"].(string) })

	return res
}

var typeName = map[core.DutyType]string{
	core.DutyProposer: "pro", core.DutyAttester: "att", core.DutyAggregator: "agg", core.DutySyncContribution: "sync",
}

func tyName(t core.DutyType) string {
	if n, ok := typeName[t]; ok {
		return n
	}

	return t.String()
}

func TestExec(t *testing.T) {
	drv.QuietLogs(t)
	scheds := drv.ReadSchedules(t)
	tr := drv.NewTracer(t)
	defer tr.Close()
	for i, s := range scheds {
		t.Run(fmt.Sprintf("s%d", i), func(t *testing.T) {
			if len(s) == 0 || drv.Str(s[0]["ev"]) != "Cfg" {
				t.Fatalf("schedule %d does not start with Cfg", i)
			}
			if drv.Str(s[0]["mode"]) == "nocache" {
				featureset.EnableForT(t, featureset.DisableDutiesCache)
			} else {
				featureset.DisableForT(t, featureset.DisableDutiesCache)
			}
			feat := drv.Str(s[0]["feat"])
			if feat == "on" || feat == "both" {
				featureset.EnableForT(t, featureset.FetchAttOnBlock)
			} else {
				featureset.DisableForT(t, featureset.FetchAttOnBlock)
			}
			if feat == "delay" || feat == "both" {
				featureset.EnableForT(t, featureset.FetchAttOnBlockWithDelay)
			} else {
				featureset.DisableForT(t, featureset.FetchAttOnBlockWithDelay)
			}
			synctest.Test(t, func(t *testing.T) { runOne(t, tr, i, s) })
		})
	}
}

func assigns(v any, sync bool) []massign {
	res := []massign{}
	l, _ := v.([]any)
	for _, x := range l {
		m := x.(map[string]any)
		a := massign{V: drv.Str(m["v"]), Tag: drv.Num(m["tag"])}
		if sync {
			a.Ep = drv.Num(m["ep"])
		} else {
			a.Slot = drv.Num(m["slot"])
		}
		res = append(res, a)
	}

	return res
}

func runOne(t *testing.T, tr *drv.Tracer, sid int, sched []drv.Step) {
	cfg := sched[0]
	e := &env{
		tr: tr, s: drv.Num(cfg["S"]), slotDur: time.Duration(drv.Num(cfg["slotms"])) * time.Millisecond,
		att: assigns(cfg["att"], false), pro: assigns(cfg["pro"], false), sync: assigns(cfg["sync"], true),
		fails: map[int]bool{},
	}
	for i, x := range cfg["vals"].([]any) {
		m := x.(map[string]any)
		v := mval{
			ID: drv.Str(m["id"]), Known: m["known"] == true, Act: drv.Num(m["act"]), Exit: drv.Num(m["exit"]),
			Unsol: m["unsol"] == true, Idx: eth2p0.ValidatorIndex(100 + i),
		}
		v.Pub[0], v.Pub[1], v.Pub[47] = 0xa0, byte(i+1), byte(i+1)
		e.vals = append(e.vals, v)
	}
	if l, ok := cfg["fails"].([]any); ok {
		for _, x := range l {
			e.fails[drv.Num(x)] = true
		}
	}
	start := time.Duration(drv.Num(cfg["start"])) * time.Millisecond
	feat := drv.Str(cfg["feat"])
	if feat == "" {
		feat = "off"
	}
	virt := drv.Str(cfg["clock"]) == "virt" || feat != "off"
	if virt {
		e.genesis = time.Now().Add(-start) // bubble time
		e.clk = clockwork.NewRealClock()
	} else {
		e.genesis = fakeGenesis
		e.fclk = clockwork.NewFakeClockAt(e.genesis.Add(start))
		e.clk = e.fclk
	}
	e.lastMs = drv.Num(cfg["start"])
	genesis := e.genesis
	mode := drv.Str(cfg["mode"])

	spec := map[string]any{"SECONDS_PER_SLOT": e.slotDur, "SLOTS_PER_EPOCH": uint64(e.s)}
	// the scripted node (answers of the beacon API proper)
	node := client{spec: spec}
	node.GenesisFunc = func(context.Context, *eth2api.GenesisOpts) (*eth2v1.Genesis, error) {
		return &eth2v1.Genesis{GenesisTime: genesis}, nil
	}
	node.NodeSyncingFunc = func(context.Context, *eth2api.NodeSyncingOpts) (*eth2v1.SyncState, error) {
		return &eth2v1.SyncState{IsSyncing: false}, nil
	}
	node.AttesterDutiesFunc, node.ProposerDutiesFunc, node.SyncCommitteeDutiesFunc = e.nodeAtt, e.nodePro, e.nodeSync

	// what the scheduler talks to: same node, every request/answer recorded; in "cache" mode through a real DutiesCache
	cl := node
	cl.CachedValidatorsFunc = func(ctx context.Context) (eth2wrap.ActiveValidators, eth2wrap.CompleteValidators, error) {
		a, c, err := e.nodeValidators(ctx)
		e.logVals(c, err)

		return a, c, err
	}
	var (
		attC func(context.Context, eth2p0.Epoch, []eth2p0.ValidatorIndex) (eth2wrap.AttesterDutyWithMeta, error)
		proC func(context.Context, eth2p0.Epoch, []eth2p0.ValidatorIndex) (eth2wrap.ProposerDutyWithMeta, error)
		synC func(context.Context, eth2p0.Epoch, []eth2p0.ValidatorIndex) (eth2wrap.SyncDutyWithMeta, error)
	)
	if mode == "cache" {
		dc := eth2wrap.NewDutiesCache(node, []eth2p0.ValidatorIndex{})
		attC, proC, synC = dc.AttesterDutiesCache, dc.ProposerDutiesCache, dc.SyncCommDutiesCache
	} else {
		attC = func(ctx context.Context, ep eth2p0.Epoch, idxs []eth2p0.ValidatorIndex) (eth2wrap.AttesterDutyWithMeta, error) {
			d, err := e.nodeAtt(ctx, ep, idxs)
			return eth2wrap.AttesterDutyWithMeta{Duties: d}, err
		}
		proC = func(ctx context.Context, ep eth2p0.Epoch, idxs []eth2p0.ValidatorIndex) (eth2wrap.ProposerDutyWithMeta, error) {
			d, err := e.nodePro(ctx, ep, idxs)
			return eth2wrap.ProposerDutyWithMeta{Duties: d}, err
		}
		synC = func(ctx context.Context, ep eth2p0.Epoch, idxs []eth2p0.ValidatorIndex) (eth2wrap.SyncDutyWithMeta, error) {
			d, err := e.nodeSync(ctx, ep, idxs)
			return eth2wrap.SyncDutyWithMeta{Duties: d}, err
		}
	}
	cl.CachedAttesterDutiesFunc = func(ctx context.Context, ep eth2p0.Epoch, idxs []eth2p0.ValidatorIndex) (eth2wrap.AttesterDutyWithMeta, error) {
		r, err := attC(ctx, ep, idxs)
		e.logDuties("att", ep, idxs, e.attSteps(r.Duties), err)

		return r, err
	}
	cl.CachedProposerDutiesFunc = func(ctx context.Context, ep eth2p0.Epoch, idxs []eth2p0.ValidatorIndex) (eth2wrap.ProposerDutyWithMeta, error) {
		r, err := proC(ctx, ep, idxs)
		e.logDuties("pro", ep, idxs, e.proSteps(r.Duties), err)

		return r, err
	}
	cl.CachedSyncCommDutiesFunc = func(ctx context.Context, ep eth2p0.Epoch, idxs []eth2p0.ValidatorIndex) (eth2wrap.SyncDutyWithMeta, error) {
		r, err := synC(ctx, ep, idxs)
		e.logDuties("sync", ep, idxs, e.syncSteps(r.Duties, ep), err)

		return r, err
	}
	// feature DisableDutiesCache: the scheduler uses the plain duties endpoints
	cl.AttesterDutiesFunc = func(ctx context.Context, ep eth2p0.Epoch, idxs []eth2p0.ValidatorIndex) ([]*eth2v1.AttesterDuty, error) {
		r, err := e.nodeAtt(ctx, ep, idxs)
		e.logDuties("att", ep, idxs, e.attSteps(r), err)

		return r, err
	}
	cl.ProposerDutiesFunc = func(ctx context.Context, ep eth2p0.Epoch, idxs []eth2p0.ValidatorIndex) ([]*eth2v1.ProposerDuty, error) {
		r, err := e.nodePro(ctx, ep, idxs)
		e.logDuties("pro", ep, idxs, e.proSteps(r), err)

		return r, err
	}
	cl.SyncCommitteeDutiesFunc = func(ctx context.Context, ep eth2p0.Epoch, idxs []eth2p0.ValidatorIndex) ([]*eth2v1.SyncCommitteeDuty, error) {
		r, err := e.nodeSync(ctx, ep, idxs)
		e.logDuties("sync", ep, idxs, e.syncSteps(r, ep), err)

		return r, err
	}

	ms := func(tm time.Time) int { return int(tm.Sub(genesis) / time.Millisecond) }
	delay := func(d core.Duty, deadline time.Time) <-chan time.Time {
		e.emit(drv.Step{"ev": "Delay", "slot": int(d.Slot), "type": tyName(d.Type), "dl": ms(deadline)})
		ch := make(chan time.Time, 1)
		ch <- deadline

		return ch
	}
	var s *scheduler.Scheduler
	head := func(ctx context.Context, slot int) {
		e.emit(drv.Step{"ev": "Head", "slot": slot})
		s.HandleHeadEvent(ctx, eth2p0.Slot(slot), eth2p0.Root{0x01, byte(slot)}, "http://bn")
	}
	atSched := map[int][]int{} // slot being scheduled -> slots of the head events delivered from schedSlotFunc
	if l, ok := cfg["hs"].([]any); ok {
		for _, x := range l {
			m := x.(map[string]any)
			atSched[drv.Num(m["at"])] = append(atSched[drv.Num(m["at"])], drv.Num(m["slot"]))
		}
	}
	schedSlot := func(ctx context.Context, slot core.Slot) {
		e.emit(drv.Step{"ev": "Sched", "slot": int(slot.Slot), "time": ms(slot.Time)})
		for _, n := range atSched[int(slot.Slot)] {
			head(ctx, n)
		}
	}

	rcfg := drv.Step{"feat": feat, "clock": map[bool]string{true: "virt", false: "fake"}[virt]}
	for _, k := range []string{"S", "slotms", "start", "vals", "att", "pro", "sync", "mode", "fails", "fo", "hs"} {
		if v, ok := cfg[k]; ok {
			rcfg[k] = v
		}
	}
	tr.Emit(drv.Step{"ev": "Reset", "sid": sid, "cfg": rcfg})

	s = scheduler.NewForT(t, e.clk, delay, nil, cl, schedSlot, false)
	s.SubscribeSlots(func(_ context.Context, slot core.Slot) error {
		e.emit(drv.Step{"ev": "SlotSub", "slot": int(slot.Slot)})
		return nil
	})
	s.SubscribeDuties(func(_ context.Context, d core.Duty, set core.DutyDefinitionSet) error {
		e.emit(drv.Step{"ev": "Trigger", "slot": int(d.Slot), "type": tyName(d.Type), "defs": e.defSteps(set), "at": e.nowMs()})
		return nil
	})
	if cfg["fo"] != false {
		s.RegisterFetcherFetchOnly(func(_ context.Context, d core.Duty, set core.DutyDefinitionSet, _ string, _ eth2p0.Root) error {
			e.emit(drv.Step{"ev": "FetchOnly", "slot": int(d.Slot), "type": tyName(d.Type), "defs": e.defSteps(set)})
			return nil
		})
	}
	done := make(chan error, 1)
	go func() { done <- s.Run() }()
	synctest.Wait()

	for _, st := range sched[1:] {
		switch drv.Str(st["ev"]) {
		case "Advance":
			to := time.Duration(drv.Num(st["to"])) * time.Millisecond
			by := genesis.Add(to).Sub(e.clk.Now())
			if virt {
				// virtual clock: sleep until that instant (timers in between fire at their own instants and the recorder
				// logs those instants); a target that is not ahead is skipped
				if by > 0 {
					time.Sleep(by)
				}
				synctest.Wait()

				continue
			}
			if by <= 0 {
				t.Fatalf("schedule %d: clock must move forward (to=%v)", sid, to)
			}
			e.emit(drv.Step{"ev": "Advance", "to": drv.Num(st["to"])})
			e.fclk.Advance(by)
			synctest.Wait()
		case "Head":
			head(context.Background(), drv.Num(st["slot"]))
			synctest.Wait()
		default:
			t.Fatalf("unknown step %v", st)
		}
	}
	e.emit(drv.Step{"ev": "End"})
	s.Stop()
	<-done
	synctest.Wait() // stragglers after the end would be logged behind End: no spec step matches them
}
