package c18

// Standalone reproduction of the DutyDB aliasing (pinned tree): run with
//   cd /verif/harness && GOFLAGS=-mod=mod GOPROXY=off go test -count=1 -vet=off -run TestReproDutyDBAlias -v ./c18
// It prints what happens and never fails: the verdict is the trace spec's, this is only the demonstration.

import (
	"context"
	"testing"
	"time"

	eth2v1 "github.com/attestantio/go-eth2-client/api/v1"
	eth2p0 "github.com/attestantio/go-eth2-client/spec/phase0"

	"github.com/obolnetwork/charon/core"
	"github.com/obolnetwork/charon/core/dutydb"
	"github.com/obolnetwork/charon/testutil"
)

func TestReproDutyDBAlias(t *testing.T) {
	ctx := context.Background()
	db := dutydb.NewMemDB(stubDeadliner{})

	// attestation
	data := testutil.RandomAttestationDataPhase0()
	data.Slot, data.Index = 7, 3
	duty := testutil.RandomAttestationDuty(t)
	duty.Slot, duty.CommitteeIndex = 7, 3
	set := core.UnsignedDataSet{testutil.RandomCorePubKey(t): core.AttestationData{Data: *data, Duty: *duty}}
	if err := db.Store(ctx, core.NewAttesterDuty(7), set); err != nil {
		t.Fatal(err)
	}
	r1, _ := db.AwaitAttestation(ctx, 7, 3)
	r2, _ := db.AwaitAttestation(ctx, 7, 3)
	r0, _ := db.AwaitAttestation(ctx, 7, 0)
	t.Logf("AwaitAttestation: two readers same pointer: %v; commIdx 0 same pointer: %v", r1 == r2, r1 == r0)
	r1.BeaconBlockRoot = eth2p0.Root{0xff}
	r3, _ := db.AwaitAttestation(ctx, 7, 3)
	t.Logf("after reader 1 overwrote BeaconBlockRoot a third reader gets %x (stored was %x)", r3.BeaconBlockRoot[:2], data.BeaconBlockRoot[:2])

	// proposal
	prop := testutil.RandomDenebVersionedProposal()
	cp, err := core.NewVersionedProposal(prop)
	if err != nil {
		t.Fatal(err)
	}
	slot, _ := prop.Slot()
	if err := db.Store(ctx, core.NewProposerDuty(uint64(slot)), core.UnsignedDataSet{testutil.RandomCorePubKey(t): cp}); err != nil {
		t.Fatal(err)
	}
	p1, _ := db.AwaitProposal(ctx, uint64(slot))
	p2, _ := db.AwaitProposal(ctx, uint64(slot))
	t.Logf("AwaitProposal: two readers same pointer: %v, shared region: %q", p1 == p2, shared(inspect(p1), inspect(p2)))

	// sync contribution
	c := testutil.RandomCoreSyncContribution()
	if err := db.Store(ctx, core.NewSyncContributionDuty(uint64(c.Slot)), core.UnsignedDataSet{testutil.RandomCorePubKey(t): c}); err != nil {
		t.Fatal(err)
	}
	c1, _ := db.AwaitSyncContribution(ctx, uint64(c.Slot), c.SubcommitteeIndex, c.BeaconBlockRoot)
	c2, _ := db.AwaitSyncContribution(ctx, uint64(c.Slot), c.SubcommitteeIndex, c.BeaconBlockRoot)
	t.Logf("AwaitSyncContribution: two readers same pointer: %v", c1 == c2)
}

// Observation (not counted as a violation, see the assumptions in evidence/C18.json): the scheduler keeps the
// ValidatorSyncCommitteeIndices slice of the beacon client's SyncCommitteeDuty answer without copying it, so a later write
// to the answer object shows up in GetDutyDefinition.
//   go test -count=1 -vet=off -run TestObsSchedulerKeepsBeaconAnswerSlice -v ./c18
func TestObsSchedulerKeepsBeaconAnswerSlice(t *testing.T) {
	ctx, cancel := context.WithTimeout(context.Background(), 20*time.Second)
	defer cancel()
	r := &run{t: t, ctx: ctx, cfg: map[string]any{"comp": "scheduler", "typ": "syncdef"}, fresh: map[string]string{}}
	c := &schedC{}
	answer := c.New(r, "w1").([]*eth2v1.SyncCommitteeDuty)
	if err := c.Put(r, "Resolve", "w1", func(string, string, any) {}); err != nil {
		t.Fatal(err)
	}
	before, _, _, err := c.Get(r, "GetDutyDefinition", "w1", 0)
	if err != nil {
		t.Fatal(err)
	}
	for _, d := range answer {
		d.ValidatorSyncCommitteeIndices[0] ^= 1
	}
	after, _, _, _ := c.Get(r, "GetDutyDefinition", "w1", 0)
	t.Logf("GetDutyDefinition changed after the beacon answer was written to: %v", inspect(before).hash != inspect(after).hash)
}
