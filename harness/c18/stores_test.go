package c18

// Adapters for the stores (DutyDB, ParSigDB, both AggSigDBs) and SigAgg.

import (
	"context"
	"fmt"
	"sync"
	"time"

	eth2api "github.com/attestantio/go-eth2-client/api"
	eth2p0 "github.com/attestantio/go-eth2-client/spec/phase0"

	"github.com/obolnetwork/charon/core"
	"github.com/obolnetwork/charon/core/aggsigdb"
	"github.com/obolnetwork/charon/core/dutydb"
	"github.com/obolnetwork/charon/core/parsigdb"
	"github.com/obolnetwork/charon/core/sigagg"
	"github.com/obolnetwork/charon/core/validatorapi"
	"github.com/obolnetwork/charon/tbls"
	"github.com/obolnetwork/charon/tbls/tblsconv"
	"github.com/obolnetwork/charon/testutil"

	"verifharness/drv"
)

func verOf(r *run) string { return drv.Str(r.cfg["ver"]) }

func widx(w string) int {
	if len(w) >= 2 && w[1] >= '1' && w[1] <= '9' {
		return int(w[1] - '0')
	}
	return 1
}

func newComponent(r *run) component {
	typ, n := drv.Str(r.cfg["typ"]), drv.Num(r.cfg["n"])
	switch drv.Str(r.cfg["comp"]) {
	case "dutydb":
		r.cfg["ver"] = pick(unsignedVersions[typ], verOf(r), n)
		return &dutydbC{db: dutydb.NewMemDB(stubDeadliner{}), keys: map[string]ddKey{}}
	case "parsigdb":
		r.cfg["ver"] = pick(signedVersions[typ], verOf(r), n)
		t := max(drv.Num(r.cfg["t"]), 1)
		c := &parsigC{db: parsigdb.NewMemDB(t, stubDeadliner{}, parsigdb.NewMemDBMetadata(12, time.Now())), w: map[string]psW{}}
		for range 2 {
			c.db.SubscribeInternal(func(_ context.Context, d core.Duty, set core.ParSignedDataSet) error {
				c.sub("internal", d.String(), set)
				return nil
			})
			c.db.SubscribeThreshold(func(_ context.Context, d core.Duty, set map[core.PubKey][]core.ParSignedData) error {
				c.sub("threshold", d.String(), set)
				return nil
			})
		}
		return c
	case "aggsigdb1", "aggsigdb2":
		r.cfg["ver"] = pick(signedVersions[typ], verOf(r), n)
		c := &aggsigC{w: map[string]asW{}}
		if drv.Str(r.cfg["comp"]) == "aggsigdb1" {
			db := aggsigdb.NewMemDB(stubDeadliner{})
			go db.Run(r.ctx)
			c.db = db
		} else {
			db := aggsigdb.NewMemDBV2(stubDeadliner{})
			go db.Run(r.ctx)
			c.db = db
		}
		return c
	case "sigagg":
		r.cfg["ver"] = pick(signedVersions[typ], verOf(r), n)
		agg, err := sigagg.New(2, func(context.Context, core.PubKey, core.SignedData) error { return nil })
		if err != nil {
			r.t.Fatal(err)
		}
		c := &sigaggC{agg: agg, w: map[string]core.Duty{}}
		for range 2 {
			agg.Subscribe(func(_ context.Context, d core.Duty, set core.SignedDataSet) error {
				c.sub("sub", d.String(), set)
				return nil
			})
		}
		return c
	default:
		return newFanComponent(r)
	}
}

// ------------------------------------------------------------------------------------------------ DutyDB
type ddKey struct {
	duty                      core.Duty
	slot, commIdx, valIdx     uint64
	pk                        core.PubKey
	root                      eth2p0.Root // agg: attestation data root; contrib: beacon block root
	aggComm                   eth2p0.CommitteeIndex
	subcomm                   []uint64
	roots                     []eth2p0.Root
	put                       bool
	orig                      core.UnsignedData // pristine copy of the datum (re-stored by later writers when cfg same=true)
	canon                     string            // the writer whose key this is (w1 for re-stores)
}

type dutydbC struct {
	mu   sync.Mutex
	db   *dutydb.MemDB
	keys map[string]ddKey
	vapi *validatorapi.Component
}

func (c *dutydbC) New(r *run, w string) any {
	typ, n := drv.Str(r.cfg["typ"]), drv.Num(r.cfg["n"])
	if first, ok := c.keys["w1"]; ok && w != "w1" && r.cfg["same"] == true {
		// a re-store: another writer hands in an equal datum for the same key
		d, err := first.orig.Clone()
		if err != nil {
			r.t.Fatal(err)
		}
		k := first
		k.put = false
		c.keys[w] = k
		return core.UnsignedDataSet{first.pk: d}
	}
	slot := uint64(1000 + 10*widx(w))
	d, dt, _ := buildUnsigned(r.t, typ, verOf(r), n, slot)
	pk := testutil.RandomCorePubKey(r.t)
	k := ddKey{duty: core.Duty{Slot: slot, Type: dt}, slot: slot, pk: pk}
	switch x := d.(type) {
	case core.AttestationData:
		k.commIdx, k.valIdx = uint64(x.Duty.CommitteeIndex), uint64(x.Duty.ValidatorIndex)
	case core.VersionedAggregatedAttestation:
		data, err := x.Data()
		if err != nil {
			r.t.Fatal(err)
		}
		k.root, _ = data.HashTreeRoot()
		k.aggComm, _ = x.CommitteeIndex()
	case core.SyncContribution:
		k.subcomm, k.roots = []uint64{x.SubcommitteeIndex}, []eth2p0.Root{x.BeaconBlockRoot}
	case core.SyncContributions:
		for _, e := range x {
			k.subcomm, k.roots = append(k.subcomm, e.SubcommitteeIndex), append(k.roots, e.BeaconBlockRoot)
		}
	}
	orig, err := d.Clone()
	if err != nil {
		r.t.Fatal(err)
	}
	k.orig, k.canon = orig, w
	c.keys[w] = k
	return core.UnsignedDataSet{pk: d}
}

func (c *dutydbC) Put(r *run, _, w string, _ func(string, string, any)) error {
	k := c.keys[w]
	err := c.db.Store(r.ctx, k.duty, r.holder(w).val.(core.UnsignedDataSet))
	if err == nil && !k.put && r.pristine(w) {
		k.put = true
		c.mu.Lock()
		c.keys[w] = k
		c.mu.Unlock()
	}
	return err
}

func (c *dutydbC) Get(r *run, p, of string, arg int) (any, string, bool, error) {
	c.mu.Lock()
	k, ok := c.keys[of]
	c.mu.Unlock()
	if !ok || (!k.put && !r.force) {
		return nil, "", false, nil
	}
	ctx, cancel := context.WithTimeout(r.ctx, 10*time.Second)
	defer cancel()
	of = k.canon
	switch p {
	case "AwaitAttestation":
		ci := k.commIdx
		if arg%2 == 1 {
			ci = 0
		}
		v, err := c.db.AwaitAttestation(ctx, k.slot, ci)
		return v, fmt.Sprintf("%s/%d", of, ci), true, err
	case "PubKeyByAttestation":
		ci := k.commIdx
		if arg%2 == 1 {
			ci = 0
		}
		v, err := c.db.PubKeyByAttestation(ctx, k.slot, ci, k.valIdx)
		return v, fmt.Sprintf("%s/%d", of, ci), true, err
	case "AwaitProposal":
		v, err := c.db.AwaitProposal(ctx, k.slot)
		return v, of, true, err
	case "VapiProposal":
		if c.vapi == nil {
			bmock := sharedMock(r, "plain")
			var err error
			c.vapi, err = validatorapi.NewComponentInsecure(r.t, bmock, 1)
			if err != nil {
				r.t.Fatal(err)
			}
			c.vapi.RegisterAwaitProposal(c.db.AwaitProposal)
			c.vapi.RegisterGetDutyDefinition(func(_ context.Context, d core.Duty) (core.DutyDefinitionSet, error) {
				return core.DutyDefinitionSet{k.pk: core.NewProposerDefinition(testutil.RandomProposerDuty(r.t))}, nil
			})
		}
		resp, err := c.vapi.Proposal(ctx, &eth2api.ProposalOpts{Slot: eth2p0.Slot(k.slot), RandaoReveal: testutil.RandomEth2Signature()})
		if err != nil {
			return nil, of, true, err
		}
		return resp.Data, of, true, nil
	case "AwaitAggAttestation":
		v, err := c.db.AwaitAggAttestation(ctx, k.slot, k.root, k.aggComm)
		return v, of, true, err
	case "AwaitSyncContribution":
		i := arg % len(k.subcomm)
		v, err := c.db.AwaitSyncContribution(ctx, k.slot, k.subcomm[i], k.roots[i])
		return v, fmt.Sprintf("%s/%d", of, i), true, err
	}
	return nil, "", false, nil
}

// ------------------------------------------------------------------------------------------------ ParSigDB
type psW struct {
	duty core.Duty
	pk   core.PubKey
	orig core.SignedData // pristine copy of the datum (w2 with same=true carries it under share index 2)
}

type parsigC struct {
	db  *parsigdb.MemDB
	w   map[string]psW
	sub func(string, string, any)
}

func (c *parsigC) New(r *run, w string) any {
	typ, n := drv.Str(r.cfg["typ"]), drv.Num(r.cfg["n"])
	if first, ok := c.w["w1"]; ok && w != "w1" && r.cfg["same"] == true {
		d, err := first.orig.Clone()
		if err != nil {
			r.t.Fatal(err)
		}
		c.w[w] = first
		return core.ParSignedDataSet{first.pk: core.ParSignedData{SignedData: d, ShareIdx: widx(w)}}
	}
	d, dt, _ := buildSigned(r.t, typ, verOf(r), n)
	orig, err := d.Clone()
	if err != nil {
		r.t.Fatal(err)
	}
	k := psW{duty: core.Duty{Slot: uint64(2000 + 10*widx(w)), Type: dt}, pk: testutil.RandomCorePubKey(r.t), orig: orig}
	c.w[w] = k
	return core.ParSignedDataSet{k.pk: core.ParSignedData{SignedData: d, ShareIdx: widx(w)}}
}

func (c *parsigC) Put(r *run, p, w string, sub func(string, string, any)) error {
	c.sub = sub
	set := r.holder(w).val.(core.ParSignedDataSet)
	if p == "StoreInternal" {
		return c.db.StoreInternal(r.ctx, c.w[w].duty, set)
	}
	return c.db.StoreExternal(r.ctx, c.w[w].duty, set)
}

func (*parsigC) Get(*run, string, string, int) (any, string, bool, error) { return nil, "", false, nil }

// ------------------------------------------------------------------------------------------------ AggSigDB
type asW struct {
	duty    core.Duty
	pk      core.PubKey
	subcomm core.SubcommitteeIndex
	put     bool
	orig    core.SignedData // pristine copy (re-stored by later writers when cfg same=true)
	canon   string
}

type aggsigC struct {
	mu sync.Mutex
	db core.AggSigDB
	w  map[string]asW
}

func (c *aggsigC) New(r *run, w string) any {
	if first, ok := c.w["w1"]; ok && w != "w1" && r.cfg["same"] == true {
		d, err := first.orig.Clone()
		if err != nil {
			r.t.Fatal(err)
		}
		k := first
		k.put = false
		c.w[w] = k
		return core.SignedDataSet{first.pk: d}
	}
	d, dt, _ := buildSigned(r.t, drv.Str(r.cfg["typ"]), verOf(r), drv.Num(r.cfg["n"]))
	k := asW{duty: core.Duty{Slot: uint64(3000 + 10*widx(w)), Type: dt}, pk: testutil.RandomCorePubKey(r.t)}
	k.subcomm, _ = core.SyncSubcommitteeIndex(dt, d)
	orig, err := d.Clone()
	if err != nil {
		r.t.Fatal(err)
	}
	k.orig, k.canon = orig, w
	c.w[w] = k
	return core.SignedDataSet{k.pk: d}
}

func (c *aggsigC) Put(r *run, _, w string, _ func(string, string, any)) error {
	k := c.w[w]
	ctx, cancel := context.WithTimeout(r.ctx, 10*time.Second)
	defer cancel()
	err := c.db.Store(ctx, k.duty, r.holder(w).val.(core.SignedDataSet))
	if err == nil && !k.put && r.pristine(w) {
		k.put = true
		c.mu.Lock()
		c.w[w] = k
		c.mu.Unlock()
	}
	return err
}

func (c *aggsigC) Get(r *run, _, of string, _ int) (any, string, bool, error) {
	c.mu.Lock()
	k, ok := c.w[of]
	c.mu.Unlock()
	if !ok || (!k.put && !r.force) {
		return nil, "", false, nil
	}
	ctx, cancel := context.WithTimeout(r.ctx, 10*time.Second)
	defer cancel()
	v, err := c.db.Await(ctx, k.duty, k.pk, k.subcomm)
	return v, k.canon, true, err
}

// ------------------------------------------------------------------------------------------------ SigAgg
type sigaggC struct {
	agg *sigagg.Aggregator
	w   map[string]core.Duty
	sub func(string, string, any)
}

func (c *sigaggC) New(r *run, w string) any {
	d, dt, _ := buildSigned(r.t, drv.Str(r.cfg["typ"]), verOf(r), drv.Num(r.cfg["n"]))
	secret, err := tbls.GenerateSecretKey()
	if err != nil {
		r.t.Fatal(err)
	}
	shares, err := tbls.ThresholdSplit(secret, 3, 2)
	if err != nil {
		r.t.Fatal(err)
	}
	root, err := d.MessageRoot()
	if err != nil {
		r.t.Fatal(err)
	}
	var pars []core.ParSignedData
	for idx := 1; idx <= 2; idx++ {
		sig, err := tbls.Sign(shares[idx], root[:])
		if err != nil {
			r.t.Fatal(err)
		}
		sd, err := d.SetSignature(tblsconv.SigToCore(sig))
		if err != nil {
			r.t.Fatal(err)
		}
		pars = append(pars, core.ParSignedData{SignedData: sd, ShareIdx: idx})
	}
	c.w[w] = core.Duty{Slot: uint64(4000 + 10*widx(w)), Type: dt}
	return map[core.PubKey][]core.ParSignedData{testutil.RandomCorePubKey(r.t): pars}
}

func (c *sigaggC) Put(r *run, _, w string, sub func(string, string, any)) error {
	c.sub = sub
	return c.agg.Aggregate(r.ctx, c.w[w], r.holder(w).val.(map[core.PubKey][]core.ParSignedData))
}

func (*sigaggC) Get(*run, string, string, int) (any, string, bool, error) { return nil, "", false, nil }
