package c18

// Value builders: every core.SignedData / core.UnsignedData implementation (versioned ones in several fork versions),
// built with the /repo/testutil random helpers.

import (
	"testing"

	eth2api "github.com/attestantio/go-eth2-client/api"
	eth2spec "github.com/attestantio/go-eth2-client/spec"
	"github.com/attestantio/go-eth2-client/spec/electra"
	eth2p0 "github.com/attestantio/go-eth2-client/spec/phase0"

	"github.com/obolnetwork/charon/core"
	"github.com/obolnetwork/charon/testutil"
)

// stubDeadliner schedules everything and never expires anything.
type stubDeadliner struct{}

func (stubDeadliner) Add(core.Duty) core.DeadlineStatus { return core.DeadlineScheduled }
func (stubDeadliner) C() <-chan core.Duty               { return nil }

// signedVersions lists the variants of every signed type.
var signedVersions = map[string][]string{
	"signature":     {"-"},
	"proposal":      {"bellatrix", "capella", "deneb", "electra", "fulu"},
	"blinded":       {"bellatrix", "capella", "deneb", "electra", "fulu"},
	"attestation":   {"deneb", "electra", "fulu"},
	"exit":          {"-"},
	"registration":  {"-"},
	"randao":        {"-"},
	"bcselection":   {"-"},
	"scselection":   {"-"},
	"aggproof":      {"-"},
	"vaggproof":     {"deneb", "electra"},
	"syncmsg":       {"-"},
	"contribproof":  {"-"},
	"scontribproof": {"-"},
}

func pick(vers []string, ver string, n int) string {
	for _, v := range vers {
		if v == ver {
			return v
		}
	}
	return vers[n%len(vers)]
}

// buildSigned returns a random signed datum of the given type/version and the duty type it travels under.
func buildSigned(t *testing.T, typ, ver string, n int) (core.SignedData, core.DutyType, string) {
	t.Helper()
	ver = pick(signedVersions[typ], ver, n)
	switch typ {
	case "signature":
		return testutil.RandomCoreSignature(), core.DutySignature, ver
	case "proposal":
		switch ver {
		case "bellatrix":
			return testutil.RandomBellatrixCoreVersionedSignedProposal(), core.DutyProposer, ver
		case "capella":
			return testutil.RandomCapellaCoreVersionedSignedProposal(), core.DutyProposer, ver
		case "deneb":
			return testutil.RandomDenebCoreVersionedSignedProposal(), core.DutyProposer, ver
		case "electra":
			return testutil.RandomElectraCoreVersionedSignedProposal(), core.DutyProposer, ver
		default:
			return testutil.RandomFuluCoreVersionedSignedProposal(), core.DutyProposer, ver
		}
	case "blinded":
		switch ver {
		case "bellatrix":
			return testutil.RandomBellatrixVersionedSignedBlindedProposal(), core.DutyProposer, ver
		case "capella":
			return testutil.RandomCapellaVersionedSignedBlindedProposal(), core.DutyProposer, ver
		case "deneb":
			return testutil.RandomDenebVersionedSignedBlindedProposal(), core.DutyProposer, ver
		case "electra":
			return testutil.RandomElectraVersionedSignedBlindedProposal(), core.DutyProposer, ver
		default:
			return testutil.RandomFuluVersionedSignedBlindedProposal(), core.DutyProposer, ver
		}
	case "attestation":
		var att core.VersionedAttestation
		switch ver {
		case "deneb":
			att = testutil.RandomDenebCoreVersionedAttestation()
		case "electra":
			att = testutil.RandomElectraCoreVersionedAttestation()
		default:
			att = testutil.RandomFuluCoreVersionedAttestation()
		}
		if n%2 == 1 { // as submitted by the local validator client: the envelope carries the validator index (a pointer)
			vi := eth2p0.ValidatorIndex(1000 + n)
			att.ValidatorIndex = &vi
		}
		return att, core.DutyAttester, ver
	case "exit":
		return core.NewSignedVoluntaryExit(testutil.RandomExit()), core.DutyExit, ver
	case "registration":
		return testutil.RandomCoreVersionedSignedValidatorRegistration(t), core.DutyBuilderRegistration, ver
	case "randao":
		return core.NewSignedRandao(testutil.RandomEpoch(), testutil.RandomEth2Signature()), core.DutyRandao, ver
	case "bcselection":
		return testutil.RandomCoreBeaconCommitteeSelection(), core.DutyPrepareAggregator, ver
	case "scselection":
		return testutil.RandomCoreSyncCommitteeSelection(), core.DutyPrepareSyncContribution, ver
	case "aggproof":
		return core.NewSignedAggregateAndProof(testutil.RandomSignedAggregateAndProof()), core.DutyAggregator, ver
	case "vaggproof":
		if ver == "deneb" {
			return core.NewVersionedSignedAggregateAndProof(testutil.RandomDenebVersionedSignedAggregateAndProof()), core.DutyAggregator, ver
		}
		return core.NewVersionedSignedAggregateAndProof(&eth2spec.VersionedSignedAggregateAndProof{
			Version: eth2spec.DataVersionElectra,
			Electra: &electra.SignedAggregateAndProof{
				Message: &electra.AggregateAndProof{
					AggregatorIndex: testutil.RandomVIdx(),
					Aggregate:       testutil.RandomElectraAttestation(),
					SelectionProof:  testutil.RandomEth2Signature(),
				},
				Signature: testutil.RandomEth2Signature(),
			},
		}), core.DutyAggregator, ver
	case "syncmsg":
		return core.NewSignedSyncMessage(testutil.RandomSyncCommitteeMessage()), core.DutySyncMessage, ver
	case "contribproof":
		return core.NewSyncContributionAndProof(testutil.RandomSyncContributionAndProof()), core.DutyAttester, ver
	case "scontribproof":
		return testutil.RandomCoreSignedSyncContributionAndProof(), core.DutySyncContribution, ver
	}
	t.Fatalf("unknown signed type %q", typ)
	return nil, 0, ""
}

var unsignedVersions = map[string][]string{
	"att":      {"phase0", "electra"},
	"pro":      {"capella", "deneb", "electra", "fulu", "bellatrix-blinded", "capella-blinded"},
	"agg":      {"deneb", "electra"},
	"contrib":  {"-"},
	"contribs": {"-"},
}

// buildUnsigned returns a random unsigned datum for a DutyDB duty at the given slot.
func buildUnsigned(t *testing.T, typ, ver string, n int, slot uint64) (core.UnsignedData, core.DutyType, string) {
	t.Helper()
	ver = pick(unsignedVersions[typ], ver, n)
	switch typ {
	case "att":
		var data *eth2p0.AttestationData
		if ver == "phase0" {
			data = testutil.RandomAttestationDataPhase0()
		} else {
			data = testutil.RandomAttestationDataElectra()
		}
		duty := testutil.RandomAttestationDuty(t)
		data.Slot, duty.Slot = eth2p0.Slot(slot), eth2p0.Slot(slot)
		duty.CommitteeIndex = eth2p0.CommitteeIndex(3 + n%5)
		if ver == "phase0" {
			data.Index = duty.CommitteeIndex
		}
		return core.AttestationData{Data: *data, Duty: *duty}, core.DutyAttester, ver
	case "pro":
		var p core.VersionedProposal
		switch ver {
		case "capella":
			p = mustProposal(t, testutil.RandomCapellaVersionedProposal())
		case "deneb":
			p = mustProposal(t, testutil.RandomDenebVersionedProposal())
		case "electra":
			p = mustProposal(t, testutil.RandomElectraVersionedProposal())
		case "fulu":
			p = mustProposal(t, testutil.RandomFuluVersionedProposal())
		case "bellatrix-blinded":
			p = testutil.RandomBellatrixVersionedBlindedProposal()
		default:
			p = testutil.RandomCapellaVersionedBlindedProposal()
		}
		setProposalSlot(&p.VersionedProposal, eth2p0.Slot(slot))
		return p, core.DutyProposer, ver
	case "agg":
		var a core.VersionedAggregatedAttestation
		if ver == "deneb" {
			a = testutil.RandomDenebCoreVersionedAggregateAttestation()
			a.Deneb.Data.Slot = eth2p0.Slot(slot)
		} else {
			va := testutil.RandomElectraVersionedAttestation()
			va.Electra.Data.Slot = eth2p0.Slot(slot)
			var err error
			if a, err = core.NewVersionedAggregatedAttestation(va); err != nil {
				t.Fatalf("agg: %v", err)
			}
		}
		return a, core.DutyAggregator, ver
	case "contrib":
		c := testutil.RandomCoreSyncContribution()
		c.Slot = eth2p0.Slot(slot)
		return c, core.DutySyncContribution, ver
	case "contribs":
		c1, c2 := testutil.RandomCoreSyncContribution(), testutil.RandomCoreSyncContribution()
		c1.Slot, c2.Slot = eth2p0.Slot(slot), eth2p0.Slot(slot)
		c1.SubcommitteeIndex, c2.SubcommitteeIndex = 1, 2
		return core.SyncContributions{c1, c2}, core.DutySyncContribution, ver
	}
	t.Fatalf("unknown unsigned type %q", typ)
	return nil, 0, ""
}

func mustProposal(t *testing.T, p *eth2api.VersionedProposal) core.VersionedProposal {
	t.Helper()
	cp, err := core.NewVersionedProposal(p)
	if err != nil {
		t.Fatalf("proposal: %v", err)
	}
	return cp
}

func setProposalSlot(p *eth2api.VersionedProposal, slot eth2p0.Slot) {
	switch {
	case p.Bellatrix != nil:
		p.Bellatrix.Slot = slot
	case p.BellatrixBlinded != nil:
		p.BellatrixBlinded.Slot = slot
	case p.Capella != nil:
		p.Capella.Slot = slot
	case p.CapellaBlinded != nil:
		p.CapellaBlinded.Slot = slot
	case p.Deneb != nil:
		p.Deneb.Block.Slot = slot
	case p.DenebBlinded != nil:
		p.DenebBlinded.Slot = slot
	case p.Electra != nil:
		p.Electra.Block.Slot = slot
	case p.ElectraBlinded != nil:
		p.ElectraBlinded.Slot = slot
	case p.Fulu != nil:
		p.Fulu.Block.Slot = slot
	case p.FuluBlinded != nil:
		p.FuluBlinded.Slot = slot
	}
}
