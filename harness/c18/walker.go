// Package c18 executes Isolation schedules on the real workflow components and records what every holder of a
// value observes.  This file is the REFLECTION WALKER: it enumerates every pointer, slice and map reachable from a value
// (through interfaces, nested structs, arrays, map values), computes a deterministic content hash of the whole value
// graph, the memory regions through which the value could be mutated, and performs "mutate the k-th reference".
// It contains no expectation about any component: it only describes values.
package c18

import (
	"crypto/sha1"
	"encoding/hex"
	"encoding/json"
	"fmt"
	"reflect"
	"sort"
	"strings"

	"github.com/obolnetwork/charon/core"
)

// region is a span of mutable memory reachable from a value: the pointee of a pointer, the backing array of a slice
// (up to its capacity) or a map header.
type region struct {
	lo, hi uintptr
	path   string
}

// ref is one mutable reference: how to reach it and how to change what is behind it.
type ref struct {
	path string
	kind string        // "ptr", "slice", "map"
	v    reflect.Value // the pointer / slice / map value itself
	ro   bool          // reached through an unexported field: cannot be written with reflection
}

type walk struct {
	sb      strings.Builder
	regions []region
	refs    []ref
	elems   []string
	seen    map[uintptr]bool
}

var (
	tParSigned = reflect.TypeOf(core.ParSignedData{})
	tSigned    = reflect.TypeOf((*core.SignedData)(nil)).Elem()
	tUnsigned  = reflect.TypeOf((*core.UnsignedData)(nil)).Elem()
	tDef       = reflect.TypeOf((*core.DutyDefinition)(nil)).Elem()
)

func sha(s string) string {
	h := sha1.Sum([]byte(s))
	return hex.EncodeToString(h[:6])
}

// isElem: v is a workflow element (a partial / signed / unsigned datum or a duty definition) whose domain encoding
// (MarshalJSON) identifies it independently of the container it travels in.
func isElem(t reflect.Type) bool {
	if t.Kind() == reflect.Map || t.Kind() == reflect.Interface || t.Kind() == reflect.Pointer {
		return false
	}
	if t.Kind() == reflect.Slice && t.Elem().Kind() != reflect.Uint8 { // core.SyncContributions is a list of elements
		return false
	}
	return t == tParSigned || t.Implements(tSigned) || t.Implements(tUnsigned) || t.Implements(tDef)
}

func elemHash(v reflect.Value) (h string, ok bool) {
	if !v.CanInterface() {
		return "", false
	}
	defer func() { // the domain encoding of a datum a holder has mutated into something malformed may fail or panic
		if x := recover(); x != nil || !ok {
			sw := &walk{seen: map[uintptr]bool{}}
			sw.visit(v, "", true, true)
			h, ok = "x"+sha(sw.sb.String()), true
		}
	}()
	var (
		b   []byte
		err error
	)
	if v.Type() == tParSigned {
		p := v.Interface().(core.ParSignedData)
		if p.SignedData == nil {
			return "", false
		}
		b, err = p.SignedData.MarshalJSON()
		b = append(b, []byte(fmt.Sprintf("#%d", p.ShareIdx))...)
	} else {
		b, err = json.Marshal(v.Interface())
	}
	if err != nil {
		return "", false
	}
	return sha(v.Type().String() + string(b)), true
}

// visit writes a canonical dump of v and collects regions / references / elements.
func (w *walk) visit(v reflect.Value, path string, ro, inElem bool) {
	if !v.IsValid() {
		w.sb.WriteString("<invalid>")
		return
	}
	t := v.Type()
	if !inElem && isElem(t) {
		if h, ok := elemHash(v); ok {
			w.elems = append(w.elems, h)
			inElem = true
		}
	}
	switch v.Kind() {
	case reflect.Bool:
		fmt.Fprintf(&w.sb, "%v", v.Bool())
	case reflect.Int, reflect.Int8, reflect.Int16, reflect.Int32, reflect.Int64:
		fmt.Fprintf(&w.sb, "%d", v.Int())
	case reflect.Uint, reflect.Uint8, reflect.Uint16, reflect.Uint32, reflect.Uint64, reflect.Uintptr:
		fmt.Fprintf(&w.sb, "%d", v.Uint())
	case reflect.Float32, reflect.Float64:
		fmt.Fprintf(&w.sb, "%v", v.Float())
	case reflect.String:
		fmt.Fprintf(&w.sb, "%q", v.String())
	case reflect.Array:
		w.sb.WriteString("[")
		if t.Elem().Kind() == reflect.Uint8 {
			for i := range v.Len() {
				fmt.Fprintf(&w.sb, "%02x", v.Index(i).Uint())
			}
		} else {
			for i := range v.Len() {
				w.visit(v.Index(i), fmt.Sprintf("%s[%d]", path, i), ro, inElem)
				w.sb.WriteString(",")
			}
		}
		w.sb.WriteString("]")
	case reflect.Struct:
		w.sb.WriteString(t.String() + "{")
		for i := range v.NumField() {
			f := t.Field(i)
			w.sb.WriteString(f.Name + ":")
			w.visit(v.Field(i), path+"."+f.Name, ro || !f.IsExported(), inElem)
			w.sb.WriteString(";")
		}
		w.sb.WriteString("}")
	case reflect.Interface:
		if v.IsNil() {
			w.sb.WriteString("nil")
			return
		}
		w.sb.WriteString("(" + v.Elem().Type().String() + ")")
		w.visit(v.Elem(), path, ro, inElem)
	case reflect.Pointer:
		if v.IsNil() {
			w.sb.WriteString("nil")
			return
		}
		w.sb.WriteString("&")
		size := t.Elem().Size()
		addr := v.Pointer()
		if size > 0 && !ro { // behind an unexported field (time.Time's *Location, big.Int's words): not writable, not compared
			w.regions = append(w.regions, region{addr, addr + size, path})
			w.refs = append(w.refs, ref{path, "ptr", v, ro})
		}
		if w.seen[addr] && size > 0 { // cyclic / repeated pointee: dump once
			w.sb.WriteString("<again>")
			return
		}
		w.seen[addr] = true
		w.visit(v.Elem(), path+"*", ro, inElem)
	case reflect.Slice:
		if v.IsNil() {
			w.sb.WriteString("nil[]")
			return
		}
		esz := t.Elem().Size()
		if v.Cap() > 0 && esz > 0 && !ro {
			addr := v.Pointer()
			w.regions = append(w.regions, region{addr, addr + uintptr(v.Cap())*esz, path})
			if v.Len() > 0 {
				w.refs = append(w.refs, ref{path, "slice", v, ro})
			}
		}
		w.sb.WriteString("[")
		if t.Elem().Kind() == reflect.Uint8 {
			for i := range v.Len() {
				fmt.Fprintf(&w.sb, "%02x", v.Index(i).Uint())
			}
		} else {
			for i := range v.Len() {
				w.visit(v.Index(i), fmt.Sprintf("%s[%d]", path, i), ro, inElem)
				w.sb.WriteString(",")
			}
		}
		w.sb.WriteString("]")
	case reflect.Map:
		if v.IsNil() {
			w.sb.WriteString("nilmap")
			return
		}
		addr := v.Pointer()
		if !ro {
			w.regions = append(w.regions, region{addr, addr + 1, path})
			w.refs = append(w.refs, ref{path, "map", v, ro})
		}
		type kv struct {
			k string
			v reflect.Value
		}
		var kvs []kv
		for _, k := range v.MapKeys() {
			kw := &walk{seen: map[uintptr]bool{}}
			kw.visit(k, "", true, true)
			kvs = append(kvs, kv{kw.sb.String(), v.MapIndex(k)})
		}
		sort.Slice(kvs, func(i, j int) bool { return kvs[i].k < kvs[j].k })
		w.sb.WriteString("map{")
		for _, e := range kvs {
			w.sb.WriteString(e.k + "=>")
			w.visit(e.v, path+"["+sha(e.k)+"]", ro, inElem)
			w.sb.WriteString(";")
		}
		w.sb.WriteString("}")
	case reflect.Chan, reflect.Func, reflect.UnsafePointer:
		w.sb.WriteString("<" + v.Kind().String() + ">")
	default:
		w.sb.WriteString("<?>")
	}
}

// view is what the walker reports about one value.
type view struct {
	hash    string
	elems   []string
	regions []region
	refs    []ref
}

func inspect(val any) view {
	w := &walk{seen: map[uintptr]bool{}}
	w.visit(reflect.ValueOf(val), "$", false, false)
	es := append([]string{}, w.elems...)
	sort.Strings(es)
	es = dedup(es)
	return view{hash: sha(w.sb.String()), elems: es, regions: w.regions, refs: w.refs}
}

func dedup(s []string) []string {
	out := s[:0]
	for i, x := range s {
		if i == 0 || x != s[i-1] {
			out = append(out, x)
		}
	}
	return out
}

// shared returns the path (inside a) of one memory region that values a and b both reach, or "".
func shared(a, b view) string {
	for _, x := range a.regions {
		for _, y := range b.regions {
			if x.lo < y.hi && y.lo < x.hi {
				return x.path + "~" + y.path
			}
		}
	}
	return ""
}

// writable references of a value, in walk order.
func (vw view) writable() []ref {
	var out []ref
	for _, r := range vw.refs {
		if !r.ro {
			out = append(out, r)
		}
	}
	return out
}

// perturb changes the content of a settable value in place; false when nothing could be changed.
func perturb(v reflect.Value, depth int) bool {
	if !v.CanSet() || depth > 6 {
		return false
	}
	switch v.Kind() {
	case reflect.Bool:
		v.SetBool(!v.Bool())
	case reflect.Int, reflect.Int8, reflect.Int16, reflect.Int32, reflect.Int64:
		v.SetInt(v.Int() ^ 1)
	case reflect.Uint, reflect.Uint8, reflect.Uint16, reflect.Uint32, reflect.Uint64:
		v.SetUint(v.Uint() ^ 1)
	case reflect.Float32, reflect.Float64:
		v.SetFloat(v.Float() + 1)
	case reflect.String:
		v.SetString(v.String() + "~")
	case reflect.Array:
		if v.Len() == 0 {
			return false
		}
		return perturb(v.Index(v.Len()-1), depth+1)
	case reflect.Struct:
		for i := range v.NumField() {
			if perturb(v.Field(i), depth+1) {
				return true
			}
		}
		return false
	case reflect.Pointer: // overwrite the pointer field itself (like `obj.Field = newValue`): the value stays well-formed
		if v.IsNil() {
			return false // nil stays nil: an optional part is not invented
		}
		nv := reflect.New(v.Type().Elem())
		nv.Elem().Set(v.Elem())
		if !perturb(nv.Elem(), depth+1) {
			return false
		}
		v.Set(nv)
	case reflect.Slice:
		if v.Len() == 0 {
			return false
		}
		return perturb(v.Index(0), depth+1)
	case reflect.Map: // replace the map by a copy with one more entry
		if v.Len() == 0 {
			return false
		}
		nm := reflect.MakeMap(v.Type())
		for _, k := range v.MapKeys() {
			nm.SetMapIndex(k, v.MapIndex(k))
			nm.SetMapIndex(reflect.Zero(v.Type().Key()), v.MapIndex(k)) // one existing entry once more, under the zero key
		}
		v.Set(nm)
	default:
		return false
	}
	return true
}

// mutate overwrites what is behind the k-th writable reference of val (k taken modulo their number) and returns the
// path it wrote through ("" when the value has no writable reference).  Writes keep the value well-formed: a leaf is
// changed, a pointer field is pointed at a changed copy (like a handler that assigns a field of the object it was
// given), a map entry is deleted or duplicated; nil parts stay nil.
func mutate(val any, k int) string {
	rs := inspect(val).writable()
	if len(rs) == 0 {
		return ""
	}
	for off := range rs {
		r := rs[(k+off)%len(rs)]
		switch r.kind {
		case "ptr":
			if perturb(r.v.Elem(), 0) {
				return r.path
			}
		case "slice":
			if perturb(r.v.Index((k/len(rs))%r.v.Len()), 0) {
				return r.path
			}
		case "map":
			keys := r.v.MapKeys()
			if len(keys) == 0 {
				continue
			}
			sort.Slice(keys, func(i, j int) bool { return fmt.Sprint(keys[i]) < fmt.Sprint(keys[j]) })
			if zk := reflect.Zero(r.v.Type().Key()); (k/len(rs))%2 == 1 && !r.v.MapIndex(zk).IsValid() {
				r.v.SetMapIndex(zk, r.v.MapIndex(keys[0])) // insert: an existing entry once more, under the zero key
			} else {
				r.v.SetMapIndex(keys[0], reflect.Value{}) // delete
			}
			return r.path
		}
	}
	return ""
}
