package c18

// Executor: runs Isolation histories (New / Put / Get / Mutate / Read) on the REAL components and records, per step,
// the holder, the hand-off point, the content hash of the holder's value (walker.go), the domain hashes of the
// workflow elements in it, and with which other holders' values it shares mutable memory.  It never judges: what a
// hash must be and whether sharing is allowed is decided by specs/Isolation/IsolationTrace.tla.
//
// Schedule: [{"ev":"Cfg","comp":..,"typ":..,"ver":..,"t":threshold,"same":bool}, steps...]
//   {"ev":"New","h":w}                    writer w builds a value (same=true: w2 = the datum of w1 under share index 2)
//   {"ev":"Put","p":point,"h":w}          hands it to the component; for fan-out components the subscribers' callbacks
//                                         run inside: the j-th following {"ev":"Get","to":name} names the j-th callback's
//                                         holder and the steps up to the next Get run INSIDE that callback
//   {"ev":"Get","p":point,"to":r,"of":w[,"arg":n]}   (stores) a reader queries what w stored
//   {"ev":"Mutate","h":holder,"k":n}      overwrite what is behind the k-th writable reference of the holder's value
//   {"ev":"Read","h":holder}
// Events: Reset, New, Put, PutRet, Get, Mutate, Read (+ Hang / Race, which no spec step matches).

import (
	"context"
	"errors"
	"fmt"
	"os"
	"path/filepath"
	"sync"
	"testing"
	"time"

	"verifharness/drv"
)

type holder struct {
	name string
	val  any
}

// component adapts one real component to the history engine.
type component interface {
	// New builds writer w's value.
	New(r *run, w string) any
	// Put hands w's value in at in-point p; sub is called from every subscriber callback of a fan-out component.
	Put(r *run, p, w string, sub func(point, key string, val any)) error
	// Get queries a store at out-point p for what w handed in; ok=false: nothing to query.
	Get(r *run, p, of string, arg int) (val any, key string, ok bool, err error)
}

type run struct {
	t       *testing.T
	tr      *drv.Tracer
	ctx     context.Context
	cfg     drv.Step
	comp    component
	holders []*holder
	conc    bool
	hung    bool
	force   bool // readers of a blocked list query before the hand-in
	nauto   int
	fresh   map[string]string // writer -> content hash when it was built
}

// pristine: the writer has not written to its value since it built it (a query for what it stored makes sense).
func (r *run) pristine(w string) bool {
	h := r.holder(w)
	return h != nil && inspect(h.val).hash == r.fresh[w]
}

func (r *run) holder(name string) *holder {
	for _, h := range r.holders {
		if h.name == name {
			return h
		}
	}
	return nil
}

func (r *run) hold(name string, val any) *holder {
	if h := r.holder(name); h != nil { // a re-used name: the old value is dropped
		h.val = val
		return h
	}
	h := &holder{name, val}
	r.holders = append(r.holders, h)
	return h
}

func strs(s []string) []any {
	out := make([]any, 0, len(s))
	for _, x := range s {
		out = append(out, x)
	}
	return out
}

// emitGet records the hand-out of val to holder `to`.
func (r *run) emitGet(p, key, to string, val any) {
	vw := inspect(val)
	var shares []string
	for _, h := range r.holders {
		if h.name == to {
			continue
		}
		if shared(inspect(h.val), vw) != "" {
			shares = append(shares, h.name)
		}
	}
	r.hold(to, val)
	r.tr.Emit(drv.Step{"ev": "Get", "p": p, "key": key, "to": to, "hash": vw.hash, "elems": strs(vw.elems),
		"shares": strs(shares), "nrefs": len(vw.writable())})
}

// op executes a Mutate / Read step.
func (r *run) op(st drv.Step) {
	if drv.Str(st["ev"]) == "Get" {
		r.query(st)
		return
	}
	h := r.holder(drv.Str(st["h"]))
	if h == nil || r.hung {
		return
	}
	switch drv.Str(st["ev"]) {
	case "Read":
		r.tr.Emit(drv.Step{"ev": "Read", "h": h.name, "hash": inspect(h.val).hash})
	case "Mutate":
		before := inspect(h.val).hash
		var wg sync.WaitGroup
		if r.conc { // thorough tier, -race: every other holder looks at its value while h writes
			for _, o := range r.holders {
				if o != h {
					wg.Add(1)
					go func() { defer wg.Done(); _ = inspect(o.val) }()
				}
			}
		}
		path := mutate(h.val, drv.Num(st["k"]))
		wg.Wait()
		after := inspect(h.val)
		if path == "" || after.hash == before {
			return // nothing writable behind this value (e.g. a string): no event
		}
		r.tr.Emit(drv.Step{"ev": "Mutate", "h": h.name, "path": path, "hash": after.hash, "elems": strs(after.elems)})
	}
}

// isQuery: a Get step that is a query of its own (not the marker of a subscriber callback).
func isQuery(st drv.Step) bool { return drv.Str(st["p"]) == "GetDutyDefinition" }

// query executes a store-style Get step.
func (r *run) query(st drv.Step) {
	if r.hung || drv.Str(st["to"]) == "" || r.holder(drv.Str(st["to"])) != nil {
		return
	}
	val, key, ok, err := r.get(drv.Str(st["p"]), drv.Str(st["of"]), drv.Num(st["arg"]))
	if !ok {
		return
	}
	if errors.Is(err, context.DeadlineExceeded) { // a query for something that was stored did not return
		r.tr.Emit(drv.Step{"ev": "Hang", "p": drv.Str(st["p"]), "err": err.Error()})
		r.hung = true
		return
	} else if err != nil {
		return // the component refused: nothing was handed out
	}
	r.emitGet(drv.Str(st["p"]), key, drv.Str(st["to"]), val)
}

func isFan(comp string) bool {
	switch comp {
	case "parsigdb", "sigagg", "fetcher", "scheduler", "vapi":
		return true
	}
	return false
}

func (r *run) exec(sched []drv.Step) {
	fan := isFan(drv.Str(r.cfg["comp"]))
	for i := 0; i < len(sched) && !r.hung; i++ {
		st := sched[i]
		switch drv.Str(st["ev"]) {
		case "New":
			w := drv.Str(st["h"])
			if r.holder(w) != nil {
				continue // a writer builds its value once
			}
			val := r.comp.New(r, w)
			if val == nil {
				continue
			}
			vw := inspect(val)
			r.hold(w, val)
			r.fresh[w] = vw.hash
			r.tr.Emit(drv.Step{"ev": "New", "h": w, "hash": vw.hash, "elems": strs(vw.elems), "nrefs": len(vw.writable())})
		case "Put":
			w := r.holder(drv.Str(st["h"]))
			if w == nil {
				continue
			}
			// fan-out: the following steps up to the next New/Put belong to the subscriber callbacks
			var segs [][]drv.Step // segs[j] = marker + steps of the j-th callback
			if fan {
				j := i + 1
				for ; j < len(sched); j++ {
					ev := drv.Str(sched[j]["ev"])
					if ev == "New" || ev == "Put" {
						break
					}
					if ev == "Get" && !isQuery(sched[j]) {
						segs = append(segs, []drv.Step{sched[j]})
					} else if len(segs) > 0 {
						segs[len(segs)-1] = append(segs[len(segs)-1], sched[j])
					} else {
						segs = append(segs, []drv.Step{nil, sched[j]}) // steps before the first marker: run after the call
					}
				}
				i = j - 1
			}
			vw := inspect(w.val)
			p := drv.Str(st["p"])
			r.tr.Emit(drv.Step{"ev": "Put", "p": p, "h": w.name, "hash": vw.hash, "elems": strs(vw.elems)})
			var after []drv.Step
			if len(segs) > 0 && segs[0][0] == nil {
				after, segs = segs[0][1:], segs[1:]
			}
			// what follows the LAST marker runs after the call has returned (the component may call further subscribers
			// the schedule does not name); only steps between two markers run inside a callback
			if n := len(segs); n > 0 && len(segs[n-1]) > 1 {
				after = append(after, segs[n-1][1:]...)
				segs[n-1] = segs[n-1][:1]
			}
			// store-style components: readers named by the Put step's "blocked" list call their out-point BEFORE the hand-in
			// (they block inside the component) and are answered by it; their results are logged after the call returned, in
			// the listed order.  A reader that had not reached the component yet when the hand-in happened is simply an
			// ordinary reader after it: the recorded events are the same, so the timing below decides nothing.
			type blockedRes struct {
				val any
				key string
				ok  bool
				err error
			}
			var blocked []drv.Step
			var bres []chan blockedRes
			if !fan {
				if l, ok := st["blocked"].([]any); ok {
					for _, x := range l {
						if m, ok := x.(map[string]any); ok && drv.Str(m["to"]) != "" && r.holder(drv.Str(m["to"])) == nil {
							blocked = append(blocked, drv.Step(m))
						}
					}
				}
				r.force = true
				for _, b := range blocked {
					ch := make(chan blockedRes, 1)
					bres = append(bres, ch)
					go func() {
						val, key, ok, err := r.get(drv.Str(b["p"]), w.name, drv.Num(b["arg"]))
						ch <- blockedRes{val, key, ok, err}
					}()
				}
				if len(blocked) > 0 {
					time.Sleep(40 * time.Millisecond)
				}
			}
			ncb := 0
			var mu sync.Mutex
			err := r.put(p, w.name, func(point, key string, val any) {
				mu.Lock()
				defer mu.Unlock()
				var seg []drv.Step
				if ncb < len(segs) {
					seg = segs[ncb]
				}
				ncb++
				to := ""
				if len(seg) > 0 {
					to = drv.Str(seg[0]["to"]) // the marker names this callback's holder
				}
				if to == "" || r.holder(to) != nil {
					r.nauto++
					to = fmt.Sprintf("s%d", r.nauto)
				}
				r.emitGet(point, key, to, val)
				for _, o := range seg[min(1, len(seg)):] {
					r.op(o)
				}
			})
			r.tr.Emit(drv.Step{"ev": "PutRet", "err": err != nil})
			for i, b := range blocked {
				x := <-bres[i]
				if err != nil || !x.ok || r.hung {
					continue // the hand-in was refused: nobody was to be answered
				}
				if errors.Is(x.err, context.DeadlineExceeded) {
					r.tr.Emit(drv.Step{"ev": "Hang", "p": drv.Str(b["p"]), "err": x.err.Error()})
					r.hung = true
					continue
				} else if x.err != nil {
					continue
				}
				r.emitGet(drv.Str(b["p"]), x.key, drv.Str(b["to"]), x.val)
			}
			r.force = false
			for _, o := range after {
				r.op(o)
			}
			for _, seg := range segs[min(ncb, len(segs)):] { // markers without a callback: their steps run after the call
				for _, o := range seg[1:] {
					r.op(o)
				}
			}
		case "Get":
			if fan && !isQuery(st) {
				continue
			}
			r.query(st)
		case "Mutate", "Read":
			r.op(st)
		default:
			r.t.Fatalf("unknown step %v", st)
		}
	}
}

// put / get call into the component; a panic of the component (it was handed a value a writer had mutated into
// something malformed) is recorded as an error, not as a crash of the executor.
func (r *run) put(p, w string, sub func(string, string, any)) (err error) {
	defer func() {
		if x := recover(); x != nil {
			err = fmt.Errorf("panic: %v", x)
		}
	}()
	return r.comp.Put(r, p, w, sub)
}

func (r *run) get(p, of string, arg int) (val any, key string, ok bool, err error) {
	defer func() {
		if x := recover(); x != nil {
			ok = false
		}
	}()
	return r.comp.Get(r, p, of, arg)
}

func raceLogSize() int64 {
	pre := os.Getenv("VERIF_RACELOG")
	if pre == "" {
		return 0
	}
	var n int64
	ms, _ := filepath.Glob(pre + "*")
	for _, m := range ms {
		if fi, err := os.Stat(m); err == nil {
			n += fi.Size()
		}
	}
	return n
}

func TestExec(t *testing.T) {
	drv.QuietLogs(t)
	scheds := drv.ReadSchedules(t)
	tr := drv.NewTracer(t)
	defer tr.Close()
	conc := os.Getenv("VERIF_CONC") == "1"
	for i, s := range scheds {
		if len(s) == 0 || drv.Str(s[0]["ev"]) != "Cfg" {
			t.Fatalf("schedule %d: no Cfg step", i)
		}
		ctx, cancel := context.WithTimeout(context.Background(), 20*time.Second)
		r := &run{t: t, tr: tr, ctx: ctx, cfg: s[0], conc: conc, fresh: map[string]string{}}
		r.comp = newComponent(r)
		tr.Emit(drv.Step{"ev": "Reset", "sid": i, "comp": s[0]["comp"], "typ": s[0]["typ"], "ver": verOf(r)})
		before := raceLogSize()
		r.exec(s[1:])
		if raceLogSize() > before {
			tr.Emit(drv.Step{"ev": "Race"}) // the race detector saw two holders touch the same memory
		}
		cancel()
		if r.hung {
			break
		}
	}
}
