package c18

// Adapters for the subscriber fan-outs of fetcher, scheduler and validatorapi (Subscribe wrappers).

import (
	"context"
	"errors"
	"sync"
	"sync/atomic"
	"time"

	eth2api "github.com/attestantio/go-eth2-client/api"
	eth2v1 "github.com/attestantio/go-eth2-client/api/v1"
	"github.com/attestantio/go-eth2-client/spec/altair"
	eth2p0 "github.com/attestantio/go-eth2-client/spec/phase0"
	"github.com/jonboulle/clockwork"

	"github.com/obolnetwork/charon/app/eth2wrap"
	"github.com/obolnetwork/charon/core"
	"github.com/obolnetwork/charon/core/fetcher"
	"github.com/obolnetwork/charon/core/scheduler"
	"github.com/obolnetwork/charon/core/validatorapi"
	"github.com/obolnetwork/charon/testutil"
	"github.com/obolnetwork/charon/testutil/beaconmock"

	"verifharness/drv"
)

var bmocks = map[string]beaconmock.Mock{}

// sharedMock returns one beacon mock per option set for the whole executor run (callers copy the struct before they
// override its functions).
func sharedMock(r *run, name string, opts ...beaconmock.Option) beaconmock.Mock {
	if m, ok := bmocks[name]; ok {
		return m
	}
	m, err := beaconmock.New(r.t.Context(), opts...)
	if err != nil {
		r.t.Fatal(err)
	}
	bmocks[name] = m
	return m
}

func newFanComponent(r *run) component {
	typ, n := drv.Str(r.cfg["typ"]), drv.Num(r.cfg["n"])
	switch drv.Str(r.cfg["comp"]) {
	case "fetcher":
		if typ == "pro" {
			r.cfg["ver"] = pick([]string{"capella", "deneb", "electra", "fulu"}, verOf(r), n)
		} else {
			r.cfg["ver"] = pick(unsignedVersions["att"], verOf(r), n)
		}
		return &fetcherC{}
	case "scheduler":
		r.cfg["ver"] = "-"
		return &schedC{}
	case "vapi":
		r.cfg["ver"] = "-"
		return &vapiC{}
	}
	r.t.Fatalf("unknown component %v", r.cfg["comp"])
	return nil
}

// ------------------------------------------------------------------------------------------------ fetcher
// The writer is the beacon node: its answer object is what the fetcher is handed.
type fetcherC struct {
	f    *fetcher.Fetcher
	sub  func(string, string, any)
	duty map[string]core.Duty
	defs map[string]core.DutyDefinitionSet
	cur  string
	vals map[string]any
}

func (c *fetcherC) init(r *run) {
	if c.f != nil {
		return
	}
	bmock := sharedMock(r, "plain")
	var err error
	c.duty, c.defs, c.vals = map[string]core.Duty{}, map[string]core.DutyDefinitionSet{}, map[string]any{}
	bmock.AttestationDataFunc = func(context.Context, eth2p0.Slot, eth2p0.CommitteeIndex) (*eth2p0.AttestationData, error) {
		return c.vals[c.cur].(*eth2p0.AttestationData), nil
	}
	bmock.ProposalFunc = func(context.Context, *eth2api.ProposalOpts) (*eth2api.VersionedProposal, error) {
		return c.vals[c.cur].(*eth2api.VersionedProposal), nil
	}
	c.f, err = fetcher.New(bmock, func(core.PubKey) string { return "0x0000000000000000000000000000000000000000" }, false,
		&fetcher.GraffitiBuilder{}, 0, false)
	if err != nil {
		r.t.Fatal(err)
	}
	c.f.RegisterAggSigDB(func(context.Context, core.Duty, core.PubKey, core.SubcommitteeIndex) (core.SignedData, error) {
		return core.NewSignedRandao(1, testutil.RandomEth2Signature()), nil
	})
	for range 2 {
		c.f.Subscribe(func(_ context.Context, d core.Duty, set core.UnsignedDataSet) error {
			c.sub("sub", d.String(), set)
			return nil
		})
	}
}

func (c *fetcherC) New(r *run, w string) any {
	c.init(r)
	slot := uint64(5000 + 10*widx(w))
	if drv.Str(r.cfg["typ"]) == "pro" {
		d, _, _ := buildUnsigned(r.t, "pro", verOf(r), 0, slot)
		p := d.(core.VersionedProposal).VersionedProposal
		c.duty[w] = core.NewProposerDuty(slot)
		c.defs[w] = core.DutyDefinitionSet{testutil.RandomCorePubKey(r.t): core.NewProposerDefinition(testutil.RandomProposerDuty(r.t))}
		c.vals[w] = &p
		return &p
	}
	d, _, _ := buildUnsigned(r.t, "att", verOf(r), 0, slot)
	ad := d.(core.AttestationData)
	c.duty[w] = core.NewAttesterDuty(slot)
	defs := core.DutyDefinitionSet{}
	for i := range 2 { // two validators of one committee are served from one beacon node answer
		duty := ad.Duty
		duty.ValidatorIndex = eth2p0.ValidatorIndex(10 + i)
		defs[testutil.RandomCorePubKey(r.t)] = core.NewAttesterDefinition(&duty)
	}
	c.defs[w] = defs
	c.vals[w] = &ad.Data
	return &ad.Data
}

func (c *fetcherC) Put(r *run, _, w string, sub func(string, string, any)) error {
	c.sub, c.cur = sub, w
	return c.f.Fetch(r.ctx, c.duty[w], c.defs[w])
}

func (*fetcherC) Get(*run, string, string, int) (any, string, bool, error) { return nil, "", false, nil }

// ------------------------------------------------------------------------------------------------ scheduler
// autoClock jumps to whatever time the scheduler waits for (the slot ticker blocks on an unbuffered channel, so time
// only passes as fast as the scheduler consumes slots).
type autoClock struct {
	clockwork.Clock
	mu     sync.Mutex
	now    time.Time
	frozen atomic.Bool
}

func (c *autoClock) Now() time.Time { c.mu.Lock(); defer c.mu.Unlock(); return c.now }
func (c *autoClock) Since(t time.Time) time.Duration { return c.Now().Sub(t) }
func (c *autoClock) Sleep(d time.Duration) {
	c.mu.Lock()
	defer c.mu.Unlock()
	if d > 0 {
		c.now = c.now.Add(d)
	}
}

func (c *autoClock) After(d time.Duration) <-chan time.Time {
	ch := make(chan time.Time, 1)
	if c.frozen.Load() {
		return ch // time stands still once the observed duty has been triggered
	}
	c.Sleep(d)
	ch <- c.Now()
	return ch
}

type schedC struct {
	s      *scheduler.Scheduler
	mu     sync.Mutex
	target *core.Duty
	ncb    int
	done   chan struct{}
	sub    func(string, string, any)
	want   core.DutyType
	resp   any
}

func (c *schedC) New(r *run, w string) any {
	if c.s != nil || w != "w1" {
		return nil // one scheduler, one resolution per history
	}
	var t0 time.Time
	bmock := sharedMock(r, "sched", beaconmock.WithValidatorSet(beaconmock.ValidatorSetA),
		beaconmock.WithGenesisTime(t0), beaconmock.WithDeterministicAttesterDuties(0),
		beaconmock.WithDeterministicProposerDuties(0), beaconmock.WithDeterministicSyncCommDuties(2, 2))
	var err error
	// the writer is the beacon node: it answers every duties request of the target type with the same objects
	switch drv.Str(r.cfg["typ"]) {
	case "attdef":
		c.want = core.DutyAttester
		orig := bmock.AttesterDutiesFunc
		var resp []*eth2v1.AttesterDuty
		f := func(ctx context.Context, e eth2p0.Epoch, idx []eth2p0.ValidatorIndex) ([]*eth2v1.AttesterDuty, error) {
			if e != 0 {
				return orig(ctx, e, idx)
			}
			return resp, nil
		}
		resp, err = orig(r.ctx, 0, []eth2p0.ValidatorIndex{1, 2, 3})
		bmock.AttesterDutiesFunc = f
		bmock.CachedAttesterDutiesFunc = func(ctx context.Context, e eth2p0.Epoch, idx []eth2p0.ValidatorIndex) (eth2wrap.AttesterDutyWithMeta, error) {
			d, err := f(ctx, e, idx)
			return eth2wrap.AttesterDutyWithMeta{Duties: d}, err
		}
		c.resp = resp
	case "prodef":
		c.want = core.DutyProposer
		orig := bmock.ProposerDutiesFunc
		var resp []*eth2v1.ProposerDuty
		f := func(ctx context.Context, e eth2p0.Epoch, idx []eth2p0.ValidatorIndex) ([]*eth2v1.ProposerDuty, error) {
			if e != 0 {
				return orig(ctx, e, idx)
			}
			return resp, nil
		}
		resp, err = orig(r.ctx, 0, []eth2p0.ValidatorIndex{1, 2, 3})
		bmock.ProposerDutiesFunc = f
		bmock.CachedProposerDutiesFunc = func(ctx context.Context, e eth2p0.Epoch, idx []eth2p0.ValidatorIndex) (eth2wrap.ProposerDutyWithMeta, error) {
			d, err := f(ctx, e, idx)
			return eth2wrap.ProposerDutyWithMeta{Duties: d}, err
		}
		c.resp = resp
	default:
		c.want = core.DutySyncContribution
		orig := bmock.SyncCommitteeDutiesFunc
		var resp []*eth2v1.SyncCommitteeDuty
		f := func(ctx context.Context, e eth2p0.Epoch, idx []eth2p0.ValidatorIndex) ([]*eth2v1.SyncCommitteeDuty, error) {
			if e != 0 {
				return orig(ctx, e, idx)
			}
			return resp, nil
		}
		resp, err = orig(r.ctx, 0, []eth2p0.ValidatorIndex{1, 2, 3})
		bmock.SyncCommitteeDutiesFunc = f
		bmock.CachedSyncCommDutiesFunc = func(ctx context.Context, e eth2p0.Epoch, idx []eth2p0.ValidatorIndex) (eth2wrap.SyncDutyWithMeta, error) {
			d, err := f(ctx, e, idx)
			return eth2wrap.SyncDutyWithMeta{Duties: d}, err
		}
		c.resp = resp
	}
	if err != nil {
		r.t.Fatal(err)
	}
	c.done = make(chan struct{})
	delay := func(core.Duty, time.Time) <-chan time.Time {
		ch := make(chan time.Time, 1)
		ch <- time.Time{}
		return ch
	}
	clk := &autoClock{now: t0}
	c.s = scheduler.NewForT(r.t, clk, delay, nil, bmock, nil, false)
	for range 2 {
		c.s.SubscribeDuties(func(_ context.Context, d core.Duty, set core.DutyDefinitionSet) error {
			c.mu.Lock()
			if d.Type != c.want || (c.target != nil && *c.target != d) || c.ncb >= 2 {
				c.mu.Unlock()
				return nil
			}
			c.target = &d
			clk.frozen.Store(true)
			c.mu.Unlock()
			c.sub("dutysub", d.String(), set) // subscribers of one duty are called one after the other by one goroutine
			c.mu.Lock()
			c.ncb++
			if c.ncb == 2 {
				close(c.done)
			}
			c.mu.Unlock()
			return nil
		})
	}
	return c.resp
}

func (c *schedC) Put(r *run, _, _ string, sub func(string, string, any)) error {
	if c.sub != nil {
		return errors.New("already resolved")
	}
	c.sub = sub
	go func() { _ = c.s.Run() }()
	select {
	case <-c.done:
	case <-time.After(10 * time.Second):
		r.hung = true
	}
	c.s.Stop()
	return nil
}

func (c *schedC) Get(r *run, _, _ string, _ int) (any, string, bool, error) {
	if c.target == nil {
		return nil, "", false, nil
	}
	v, err := c.s.GetDutyDefinition(r.ctx, *c.target)
	return v, "def", true, err
}

// ------------------------------------------------------------------------------------------------ validatorapi
// The writer is the validator client: the object it submits is what the component is handed.
type vapiC struct {
	v   *validatorapi.Component
	sub func(string, string, any)
}

func (c *vapiC) New(r *run, _ string) any {
	if c.v == nil {
		bmock := sharedMock(r, "valset", beaconmock.WithValidatorSet(beaconmock.ValidatorSetA))
		var err error
		if c.v, err = validatorapi.NewComponentInsecure(r.t, bmock, 1); err != nil {
			r.t.Fatal(err)
		}
		for range 2 {
			c.v.Subscribe(func(_ context.Context, d core.Duty, set core.ParSignedDataSet) error {
				c.sub("sub", d.String(), set)
				return nil
			})
		}
	}
	if drv.Str(r.cfg["typ"]) == "exit" {
		e := testutil.RandomExit()
		e.Message.ValidatorIndex = 1
		return e
	}
	m1, m2 := testutil.RandomSyncCommitteeMessage(), testutil.RandomSyncCommitteeMessage()
	m1.ValidatorIndex, m2.ValidatorIndex = 1, 2
	m2.Slot = m1.Slot
	return []*altair.SyncCommitteeMessage{m1, m2}
}

func (c *vapiC) Put(r *run, _, w string, sub func(string, string, any)) error {
	c.sub = sub
	switch v := r.holder(w).val.(type) {
	case *eth2p0.SignedVoluntaryExit:
		return c.v.SubmitVoluntaryExit(r.ctx, v)
	case []*altair.SyncCommitteeMessage:
		return c.v.SubmitSyncCommitteeMessages(r.ctx, v)
	}
	return errors.New("unknown value")
}

func (*vapiC) Get(*run, string, string, int) (any, string, bool, error) { return nil, "", false, nil }
