// In-memory libp2p host for the Exchanger executor: newExchanger / parsigex.NewParSigEx / p2p.Send / p2p.RegisterHandler
// run unmodified over it.  Every stream a node opens becomes a packet that stays in the network until the schedule
// delivers it (any order, more than once); a connection the schedule holds does not hand out a new stream (p2p.Send
// blocks in NewStream) until the schedule releases it.
package exchanger

import (
	"bytes"
	"context"
	"errors"
	"io"
	"sync"
	"time"

	"github.com/libp2p/go-libp2p/core/host"
	"github.com/libp2p/go-libp2p/core/network"
	"github.com/libp2p/go-libp2p/core/peer"
	"github.com/libp2p/go-libp2p/core/protocol"
)

type packet struct {
	from, to int // node numbers 1..n
	proto    protocol.ID
	data     []byte
}

type memNet struct {
	mu    sync.Mutex
	hosts map[peer.ID]*memHost
	pkts  []*packet                // every packet ever sent, in sending order
	fresh int                      // pkts[fresh:] were sent since the last call of newPackets
	gates map[[2]int]chan struct{} // held connections
}

func newMemNet() *memNet {
	return &memNet{hosts: map[peer.ID]*memHost{}, gates: map[[2]int]chan struct{}{}}
}

func (nw *memNet) addHost(id peer.ID, num int) *memHost {
	h := &memHost{nw: nw, id: id, num: num}
	nw.mu.Lock()
	nw.hosts[id] = h
	nw.mu.Unlock()

	return h
}

// newPackets returns the packets sent since the previous call.
func (nw *memNet) newPackets() []*packet {
	nw.mu.Lock()
	defer nw.mu.Unlock()
	res := append([]*packet{}, nw.pkts[nw.fresh:]...)
	nw.fresh = len(nw.pkts)

	return res
}

func (nw *memNet) hold(from, to int) {
	nw.mu.Lock()
	defer nw.mu.Unlock()
	if _, ok := nw.gates[[2]int{from, to}]; !ok {
		nw.gates[[2]int{from, to}] = make(chan struct{})
	}
}

func (nw *memNet) release(from, to int) {
	nw.mu.Lock()
	defer nw.mu.Unlock()
	if g, ok := nw.gates[[2]int{from, to}]; ok {
		close(g)
		delete(nw.gates, [2]int{from, to})
	}
}

func (nw *memNet) releaseAll() {
	nw.mu.Lock()
	defer nw.mu.Unlock()
	for k, g := range nw.gates {
		close(g)
		delete(nw.gates, k)
	}
}

func (nw *memNet) byNum(num int) *memHost {
	nw.mu.Lock()
	defer nw.mu.Unlock()
	for _, h := range nw.hosts {
		if h.num == num {
			return h
		}
	}

	return nil
}

// deliver hands a copy of the packet to the receiver's stream handler (on its own goroutine, as libp2p does).
func (nw *memNet) deliver(p *packet) bool {
	dst, src := nw.byNum(p.to), nw.byNum(p.from)
	if dst == nil || src == nil {
		return false
	}
	hd := dst.handler(p.proto)
	if hd == nil {
		return false
	}
	go hd(&memStream{proto: p.proto, remote: src.id, rd: bytes.NewReader(append([]byte{}, p.data...))})

	return true
}

type handlerEntry struct {
	match func(protocol.ID) bool
	h     network.StreamHandler
}

type memHost struct {
	host.Host // nil: every method the code under test calls is overridden below
	nw        *memNet
	id        peer.ID
	num       int
	mu        sync.Mutex
	handlers  []handlerEntry
}

func (h *memHost) ID() peer.ID  { return h.id }
func (h *memHost) Close() error { return nil }

func (h *memHost) SetStreamHandler(pid protocol.ID, handler network.StreamHandler) {
	h.SetStreamHandlerMatch(pid, func(p protocol.ID) bool { return p == pid }, handler)
}

func (h *memHost) SetStreamHandlerMatch(_ protocol.ID, match func(protocol.ID) bool, handler network.StreamHandler) {
	h.mu.Lock()
	defer h.mu.Unlock()
	h.handlers = append(h.handlers, handlerEntry{match, handler})
}

func (h *memHost) handler(pid protocol.ID) network.StreamHandler {
	h.mu.Lock()
	defer h.mu.Unlock()
	for _, e := range h.handlers {
		if e.match(pid) {
			return e.h
		}
	}

	return nil
}

func (h *memHost) NewStream(ctx context.Context, p peer.ID, pids ...protocol.ID) (network.Stream, error) {
	h.nw.mu.Lock()
	dst := h.nw.hosts[p]
	var gate chan struct{}
	if dst != nil {
		gate = h.nw.gates[[2]int{h.num, dst.num}]
	}
	h.nw.mu.Unlock()
	if dst == nil {
		return nil, errors.New("memnet: unknown peer")
	}
	if gate != nil {
		select {
		case <-gate:
		case <-ctx.Done():
			return nil, ctx.Err()
		}
	}
	for _, pid := range pids {
		if dst.handler(pid) != nil {
			return &memStream{proto: pid, remote: p, out: true, src: h, dst: dst}, nil
		}
	}

	return nil, errors.New("memnet: protocol not supported")
}

// memStream is one end of a one-way message.
type memStream struct {
	network.Stream // nil
	proto          protocol.ID
	remote         peer.ID
	out            bool // sender side
	src, dst       *memHost
	wr             bytes.Buffer
	sent           bool
	rd             *bytes.Reader
	mu             sync.Mutex
}

func (s *memStream) Protocol() protocol.ID                        { return s.proto }
func (s *memStream) Conn() network.Conn                           { return &memConn{remote: s.remote} }
func (s *memStream) SetDeadline(time.Time) error                  { return nil }
func (s *memStream) SetReadDeadline(time.Time) error              { return nil }
func (s *memStream) SetWriteDeadline(time.Time) error             { return nil }
func (s *memStream) Reset() error                                 { return s.Close() }
func (s *memStream) CloseRead() error                             { return nil }
func (s *memStream) ResetWithError(network.StreamErrorCode) error { return s.Close() }

func (s *memStream) Write(b []byte) (int, error) {
	s.mu.Lock()
	defer s.mu.Unlock()
	if s.out {
		return s.wr.Write(b)
	}

	return len(b), nil // a response nobody reads
}

// submit: the message leaves the sender.
func (s *memStream) submit() {
	if s.sent || s.wr.Len() == 0 {
		return
	}
	s.sent = true
	nw := s.src.nw
	nw.mu.Lock()
	nw.pkts = append(nw.pkts, &packet{from: s.src.num, to: s.dst.num, proto: s.proto, data: append([]byte{}, s.wr.Bytes()...)})
	nw.mu.Unlock()
}

func (s *memStream) CloseWrite() error { return s.Close() }

func (s *memStream) Close() error {
	s.mu.Lock()
	defer s.mu.Unlock()
	if s.out {
		s.submit()
	}

	return nil
}

func (s *memStream) Read(b []byte) (int, error) {
	if s.out {
		return 0, io.EOF
	}

	return s.rd.Read(b)
}

type memConn struct {
	network.Conn // nil
	remote       peer.ID
}

func (c *memConn) RemotePeer() peer.ID { return c.remote }
