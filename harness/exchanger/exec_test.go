// Package exchanger executes Exchanger schedules on the real dkg exchanger (dkg/exchanger.go: newExchanger wires a real
// parsigdb.MemDB and a real parsigex.ParSigEx) and records what the nodes sent and what exchange returned.
//
// One schedule = one cluster of n nodes, each with its own exchanger over an in-memory libp2p host (memnet_test.go):
// every message ParSigEx.Broadcast sends becomes a packet that stays in the network until the schedule delivers it (any
// order, more than once, never); the schedule decides when which node calls exchange for which sigType, which connection
// does not accept a new stream for a while (the sender's p2p.Send blocks), which forged messages the faulty peer hands to
// whose parsigex handler under its own transport identity, and whether at the end the exchange timeout passes.  The
// cluster lives inside testing/synctest: after every stimulus synctest.Wait() returns exactly when every goroutine is
// blocked (exact quiescence, no sleeping); virtual time only moves at the Expire step.
//
// Nothing here knows an expected value: the executor logs the packets a stimulus made appear (decoded), the exchange
// calls that returned (with the data they returned, decoded) and whether a forged message was admitted by the handler.
package exchanger

import (
	"bytes"
	"context"
	"encoding/hex"
	"fmt"
	"sort"
	"strings"
	"sync"
	"testing"
	"testing/synctest"
	"time"

	k1 "github.com/decred/dcrd/dcrec/secp256k1/v4"
	"github.com/libp2p/go-libp2p/core/peer"
	"github.com/libp2p/go-msgio/pbio"

	"github.com/obolnetwork/charon/cluster"
	"github.com/obolnetwork/charon/core"
	pbv1 "github.com/obolnetwork/charon/core/corepb/v1"
	"github.com/obolnetwork/charon/dkg"
	"github.com/obolnetwork/charon/p2p"

	"verifharness/drv"
)

const exchangeTimeout = 10 * time.Second

func TestExec(t *testing.T) {
	drv.QuietLogs(t)
	scheds := drv.ReadSchedules(t)
	tr := drv.NewTracer(t)
	defer tr.Close()
	for i, s := range scheds {
		for _, e := range runSchedule(t, i, s) {
			tr.Emit(e)
		}
	}
}

// ---- content encoding: a partial signature's bytes say who made it for which sigType / validator (and a variant) ----

func pubkey(pk int) core.PubKey {
	b := bytes.Repeat([]byte{0x5a}, 48)
	b[0], b[1] = byte(pk>>8), byte(pk)
	k, err := core.PubKeyFromBytes(b)
	if err != nil {
		panic(err)
	}

	return k
}

func pubkeyNum(k core.PubKey) int {
	b, err := hex.DecodeString(strings.TrimPrefix(string(k), "0x"))
	if err != nil || len(b) != 48 || !bytes.Equal(b[2:], bytes.Repeat([]byte{0x5a}, 46)) {
		return -1
	}

	return int(b[0])<<8 | int(b[1])
}

func sigBytes(by, st, pk, variant int) core.Signature {
	b := bytes.Repeat([]byte{0xa5}, 96)
	b[0], b[1], b[2], b[3], b[4], b[5] = byte(by), byte(st>>8), byte(st), byte(pk>>8), byte(pk), byte(variant)

	return core.Signature(b)
}

func sigCode(d core.ParSignedData) []int {
	s, ok := d.SignedData.(core.Signature)
	if !ok || len(s) != 96 || !bytes.Equal(s[6:], bytes.Repeat([]byte{0xa5}, 90)) {
		return []int{-1, -1, -1, -1}
	}

	return []int{int(s[0]), int(s[1])<<8 | int(s[2]), int(s[3])<<8 | int(s[4]), int(s[5])}
}

// entries renders a set as [[pk, idx, [by, st, pk, variant]]..], sorted.
func entries(set map[core.PubKey]core.ParSignedData) [][]any {
	res := [][]any{}
	for k, d := range set {
		res = append(res, []any{pubkeyNum(k), d.ShareIdx, sigCode(d)})
	}
	sort.Slice(res, func(a, b int) bool { return fmt.Sprint(res[a]) < fmt.Sprint(res[b]) })

	return res
}

// ---- the cluster ----

type result struct {
	i, st int
	data  map[core.PubKey][]core.ParSignedData
	err   error
}

type clusterT struct {
	nw    *memNet
	n     int
	peers []peer.ID
	ex    []*dkg.VerifExchanger // 1..n
	mu    sync.Mutex
	rets  []result
	calls map[[2]int]bool
}

func newCluster(n int) *clusterT {
	c := &clusterT{nw: newMemNet(), n: n, calls: map[[2]int]bool{}}
	peerMap := map[peer.ID]cluster.NodeIdx{}
	for i := 0; i < n; i++ {
		key, err := k1.GeneratePrivateKey()
		if err != nil {
			panic(err)
		}
		id, err := p2p.PeerIDFromKey(key.PubKey())
		if err != nil {
			panic(err)
		}
		c.peers = append(c.peers, id)
		peerMap[id] = cluster.NodeIdx{PeerIdx: i, ShareIdx: i + 1}
	}
	c.ex = make([]*dkg.VerifExchanger, n+1)
	for i := 1; i <= n; i++ {
		pm := map[peer.ID]cluster.NodeIdx{}
		for k, v := range peerMap {
			pm[k] = v
		}
		ex, err := dkg.VerifNewExchanger(c.nw.addHost(c.peers[i-1], i), i-1, c.peers, pm, exchangeTimeout)
		if err != nil {
			panic(err)
		}
		c.ex[i] = ex
	}

	return c
}

// call runs the unmodified exchange of node i on its own goroutine.
func (c *clusterT) call(ctx context.Context, i, st int, set core.ParSignedDataSet) {
	c.calls[[2]int{i, st}] = true
	go func() {
		var r result
		defer func() { // a node that panics has failed: log it, do not lose the other schedules
			if p := recover(); p != nil {
				r = result{i: i, st: st, err: fmt.Errorf("panic: %v", p)}
			}
			c.mu.Lock()
			c.rets = append(c.rets, r)
			c.mu.Unlock()
		}()
		data, err := c.ex[i].VerifExchange(ctx, st, set)
		r = result{i: i, st: st, data: data, err: err}
	}()
}

func decodePacket(p *packet) (st int, dty string, set [][]any) {
	var msg pbv1.ParSigExMsg
	if err := pbio.NewDelimitedReader(bytes.NewReader(p.data), 1<<24).ReadMsg(&msg); err != nil || msg.GetDuty() == nil {
		return -1, "undecodable", [][]any{}
	}
	duty := core.DutyFromProto(msg.GetDuty())
	dty = "other"
	if duty.Type == core.DutySignature {
		dty = "sig"
	}
	ps, err := core.ParSignedDataSetFromProto(core.DutySignature, msg.GetDataSet())
	if err != nil {
		return int(duty.Slot), dty, [][]any{}
	}

	return int(duty.Slot), dty, entries(ps)
}

func errClass(err error) string {
	switch {
	case err == nil:
		return ""
	case strings.Contains(err.Error(), "timed out waiting for peer signatures"):
		return "timeout"
	case strings.Contains(err.Error(), "context canceled"):
		return "ctx"
	default:
		return "other"
	}
}

func runSchedule(t *testing.T, sid int, sched []drv.Step) []drv.Step {
	t.Helper()
	cfg := sched[0]
	n, nv, byz := drv.Num(cfg["n"]), drv.Num(cfg["V"]), drv.Num(cfg["byz"])
	lock, reg, dep := dkg.VerifSigTypes()
	evs := []drv.Step{{"ev": "Reset", "sid": sid, "n": n, "V": nv, "byz": byz, "reg": []int{lock, reg, dep}}}

	synctest.Test(t, func(t *testing.T) {
		ctx, cancel := context.WithCancel(context.Background())
		c := newCluster(n)
		defer func() { // leave the bubble: release everything that waits
			c.nw.releaseAll()
			cancel()
			synctest.Wait()
		}()
		// observe: what the last stimulus made appear
		observe := func(ev drv.Step) {
			synctest.Wait()
			sent := [][]any{}
			for _, pk := range c.nw.newPackets() {
				st, dty, set := decodePacket(pk)
				e := []any{pk.from, pk.to, st, set}
				if dty != "sig" {
					e = append(e, dty)
				}
				sent = append(sent, e)
			}
			sort.Slice(sent, func(a, b int) bool { return fmt.Sprint(sent[a][:3]) < fmt.Sprint(sent[b][:3]) })
			c.mu.Lock()
			rs := c.rets
			c.rets = nil
			c.mu.Unlock()
			sort.Slice(rs, func(a, b int) bool { return rs[a].i < rs[b].i || (rs[a].i == rs[b].i && rs[a].st < rs[b].st) })
			rets := [][]any{}
			for _, r := range rs {
				delete(c.calls, [2]int{r.i, r.st})
				data := [][]any{}
				for k, list := range r.data {
					sigs := [][]any{}
					for _, d := range list {
						sigs = append(sigs, []any{d.ShareIdx, sigCode(d)})
					}
					sort.SliceStable(sigs, func(a, b int) bool { return fmt.Sprint(sigs[a]) < fmt.Sprint(sigs[b]) })
					data = append(data, []any{pubkeyNum(k), sigs})
				}
				sort.Slice(data, func(a, b int) bool { return fmt.Sprint(data[a][0]) < fmt.Sprint(data[b][0]) })
				rets = append(rets, []any{r.i, r.st, errClass(r.err), data})
				if errClass(r.err) == "other" {
					ev["errtext"] = r.err.Error()
				}
			}
			ev["sent"], ev["rets"] = sent, rets
			evs = append(evs, ev)
		}
		for _, s := range sched[1:] {
			switch drv.Str(s["ev"]) {
			case "Call":
				i, st, variant := drv.Num(s["i"]), drv.Num(s["st"]), drv.Num(s["var"])
				set := core.ParSignedDataSet{}
				for pk := 1; pk <= nv; pk++ {
					set[pubkey(pk)] = core.NewPartialSignature(sigBytes(i, st, pk, variant), i)
				}
				c.call(ctx, i, st, set)
				observe(drv.Step{"ev": "Call", "i": i, "st": st, "var": variant})
			case "D":
				from, to, st := drv.Num(s["from"]), drv.Num(s["to"]), drv.Num(s["st"])
				var pkt *packet
				c.nw.mu.Lock()
				for _, p := range c.nw.pkts {
					if p.from == from && p.to == to {
						if pst, _, _ := decodePacket(p); pst == st {
							pkt = p
							break
						}
					}
				}
				c.nw.mu.Unlock()
				found := pkt != nil && c.nw.deliver(pkt)
				observe(drv.Step{"ev": "D", "from": from, "to": to, "st": st, "found": found})
			case "Forge":
				to, st := drv.Num(s["to"]), drv.Num(s["st"])
				set := core.ParSignedDataSet{}
				for _, e := range s["set"].([]any) {
					x := e.([]any)
					code := x[2].([]any)
					set[pubkey(drv.Num(x[0]))] = core.NewPartialSignature(
						sigBytes(drv.Num(code[0]), drv.Num(code[1]), drv.Num(code[2]), drv.Num(code[3])), drv.Num(x[1]))
				}
				pb, err := core.ParSignedDataSetToProto(set)
				if err != nil {
					t.Fatalf("forge: %v", err)
				}
				msg := &pbv1.ParSigExMsg{Duty: core.DutyToProto(core.NewSignatureDuty(uint64(st))), DataSet: pb}
				_, _, herr := c.ex[to].VerifSigEx().VerifHandle(ctx, c.peers[byz-1], msg)
				observe(drv.Step{"ev": "Forge", "to": to, "st": st, "set": s["set"], "admitted": herr == nil})
			case "Hold":
				from, to := drv.Num(s["from"]), drv.Num(s["to"])
				c.nw.hold(from, to)
				observe(drv.Step{"ev": "Hold", "from": from, "to": to})
			case "Release":
				from, to := drv.Num(s["from"]), drv.Num(s["to"])
				c.nw.release(from, to)
				observe(drv.Step{"ev": "Release", "from": from, "to": to})
			case "Expire":
				time.Sleep(exchangeTimeout + time.Second)
				observe(drv.Step{"ev": "Expire"})
			default:
				t.Fatalf("unknown step %v", s)
			}
		}
		pending := [][]int{}
		for k := range c.calls {
			pending = append(pending, []int{k[0], k[1]})
		}
		sort.Slice(pending, func(a, b int) bool {
			return pending[a][0] < pending[b][0] || (pending[a][0] == pending[b][0] && pending[a][1] < pending[b][1])
		})
		evs = append(evs, drv.Step{"ev": "End", "pending": pending})
	})

	return evs
}
