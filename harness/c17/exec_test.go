// Package c17 executes AggSigDB schedules on the real core/aggsigdb stores (MemDB and MemDBV2) and records
// what they did. It contains no expected values: the verdict is TLC's (specs/AggSigDB/AggSigDBTrace.tla).
package c17

import (
	"bytes"
	"context"
	"crypto/sha256"
	"encoding/hex"
	"errors"
	"os"
	"runtime"
	"sort"
	"strconv"
	"strings"
	"sync"
	"sync/atomic"
	"testing"
	"time"

	eth2v1 "github.com/attestantio/go-eth2-client/api/v1"
	eth2p0 "github.com/attestantio/go-eth2-client/spec/phase0"

	"github.com/obolnetwork/charon/core"
	"github.com/obolnetwork/charon/core/aggsigdb"
	"github.com/obolnetwork/charon/testutil"

	"verifharness/drv"
)

var (
	overlapWait = 150 * time.Millisecond // a later concurrent writer is taken to be blocked after this long; only decides WHEN the gate opens
	mustWait    = 5 * time.Second        // "must have returned by now": only exhausted by a real hang
	probeWait   = 50 * time.Millisecond  // probe of a key after a failed Store; running out proves nothing (see spec)
)

type mkey struct{ D, P string }

func parseKey(v any) mkey {
	m := v.(map[string]any)
	return mkey{D: drv.Str(m["d"]), P: drv.Str(m["p"])}
}

func (k mkey) json() drv.Step { return drv.Step{"d": k.D, "p": k.P} }

// stubDL is a scripted core.Deadliner: the driver feeds C(). Add can be turned into a GATE: while gated, every
// Add call announces itself on `arrived` and blocks until the driver opens the gate. Both stores call Add from
// inside Store's critical path (v1: in the actor loop, v2: under the write lock), so a gated Add holds a writer
// inside the store while the driver starts the next one.
type stubDL struct {
	ch      chan core.Duty
	adds    atomic.Int64
	mu      sync.Mutex
	gated   bool
	waiting []chan struct{}
	arrived chan struct{}
	expired map[core.Duty]bool
}

func newStubDL() *stubDL {
	return &stubDL{ch: make(chan core.Duty), arrived: make(chan struct{}, 1024)}
}

// verdict answers like the real deadliner: exempt duty types never expire, a duty the driver has expired is refused as
// expired, everything else is scheduled.  (What a store does with the answer is the store's business: the property wants a
// stored value readable whatever it was.)
func (s *stubDL) verdict(d core.Duty) core.DeadlineStatus {
	if d.Type == core.DutyExit || d.Type == core.DutyBuilderRegistration {
		return core.DeadlineExempt
	}
	s.mu.Lock()
	defer s.mu.Unlock()
	if s.expired[d] {
		return core.DeadlineExpired
	}
	return core.DeadlineScheduled
}

func (s *stubDL) markExpired(d core.Duty) {
	s.mu.Lock()
	defer s.mu.Unlock()
	if s.expired == nil {
		s.expired = map[core.Duty]bool{}
	}
	s.expired[d] = true
}

func (s *stubDL) Add(d core.Duty) core.DeadlineStatus {
	s.adds.Add(1)
	s.mu.Lock()
	if !s.gated {
		s.mu.Unlock()
		return s.verdict(d)
	}
	ch := make(chan struct{})
	s.waiting = append(s.waiting, ch)
	s.mu.Unlock()
	s.arrived <- struct{}{}
	<-ch

	return s.verdict(d)
}

func (s *stubDL) C() <-chan core.Duty { return s.ch }

func (s *stubDL) closeGate() {
	s.mu.Lock()
	s.gated = true
	s.mu.Unlock()
	for {
		select {
		case <-s.arrived:
		default:
			return
		}
	}
}

func (s *stubDL) openGate() {
	s.mu.Lock()
	s.gated = false
	for _, ch := range s.waiting {
		close(ch)
	}
	s.waiting = nil
	s.mu.Unlock()
}

// tables maps model ids to real objects and back.
type tables struct {
	exempt bool
	duties map[string]core.Duty
	pks    map[string]core.PubKey
	vals   map[string]core.SignedData
	byHash map[string]string
}

func newTables() *tables {
	return &tables{duties: map[string]core.Duty{}, pks: map[string]core.PubKey{}, vals: map[string]core.SignedData{}, byHash: map[string]string{}}
}

func (tb *tables) duty(id string) core.Duty {
	if d, ok := tb.duties[id]; ok {
		return d
	}
	n := uint64(len(tb.duties) + 1)
	d := core.NewAttesterDuty(1000 + n)
	if n%3 == 0 {
		d = core.NewProposerDuty(1000 + n)
	}
	if tb.exempt && id == "d3" { // a duty type the deadliner never schedules (it never expires)
		d = core.NewVoluntaryExit(1000 + n)
	}
	tb.duties[id] = d
	return d
}

func (tb *tables) pk(id string) core.PubKey {
	if p, ok := tb.pks[id]; ok {
		return p
	}
	h := sha256.Sum256([]byte("pk/" + id))
	b := append(h[:], h[:16]...)
	p, err := core.PubKeyFromBytes(b)
	if err != nil {
		panic(err)
	}
	tb.pks[id] = p
	return p
}

func hashOf(d core.SignedData) string {
	b, err := d.MarshalJSON()
	if err != nil {
		return "marshal-error"
	}
	h := sha256.Sum256(b)
	return hex.EncodeToString(h[:])
}

// val returns the real signed data of a model value. The first letter of the id selects the type (a: versioned
// attestation, b: beacon committee selection, c: sync committee selection, d: signed randao, others: bare signature).
// An id ending in "t" ("at", "bt", ...) is the TWIN of the id without it: the same type and the SAME SIGNATURE BYTES,
// but another field differs (aggregation bits / validator index / epoch), so twin and base are different data.
func (tb *tables) val(id string) core.SignedData {
	if v, ok := tb.vals[id]; ok {
		return v
	}
	var v core.SignedData
	if len(id) > 1 && strings.HasSuffix(id, "t") {
		v = twinOf(tb.val(strings.TrimSuffix(id, "t")))
	} else {
		v = baseVal(id)
	}
	tb.vals[id] = v
	tb.byHash[hashOf(v)] = id
	return v
}

func sigBytes(id string) []byte {
	sig := make([]byte, 96)
	h := sha256.Sum256([]byte("val/" + id))
	for i := range sig {
		sig[i] = h[i%32] ^ byte(i)
	}
	return sig
}

func baseVal(id string) core.SignedData {
	var bls eth2p0.BLSSignature
	copy(bls[:], sigBytes(id))
	n := uint64(id[0])
	switch id[0] {
	case 'a':
		att := testutil.RandomDenebCoreVersionedAttestation()
		att.Deneb.Signature = bls
		return att
	case 'b':
		return core.NewBeaconCommitteeSelection(&eth2v1.BeaconCommitteeSelection{ValidatorIndex: eth2p0.ValidatorIndex(n), Slot: eth2p0.Slot(7 * n), SelectionProof: bls})
	case 'c':
		return core.NewSyncCommitteeSelection(&eth2v1.SyncCommitteeSelection{ValidatorIndex: eth2p0.ValidatorIndex(n), Slot: eth2p0.Slot(7 * n), SubcommitteeIndex: 2, SelectionProof: bls})
	case 'd':
		return core.NewSignedRandao(eth2p0.Epoch(n), bls)
	default:
		return core.Signature(sigBytes(id))
	}
}

// twinOf returns data with the same signature as v that differs from v in a field the signature bytes do not show.
func twinOf(v core.SignedData) core.SignedData {
	c, err := v.Clone()
	if err != nil {
		panic(err)
	}
	var tw core.SignedData
	switch x := c.(type) {
	case core.VersionedAttestation:
		bits := append([]byte(nil), x.Deneb.AggregationBits...)
		bits[0] ^= 0x01
		x.Deneb.AggregationBits = bits
		tw = x
	case core.BeaconCommitteeSelection:
		x.ValidatorIndex++
		tw = x
	case core.SyncCommitteeSelection:
		x.ValidatorIndex++
		tw = x
	case core.SignedRandao:
		x.SignedEpoch.Epoch++
		tw = x
	default:
		panic("no twin for this type of signed data")
	}
	// the table itself must be what it claims to be (not an expectation about the store)
	if !bytes.Equal(tw.Signature(), v.Signature()) || hashOf(tw) == hashOf(v) {
		panic("twin table broken: signatures must be equal and contents different")
	}
	return tw
}

func (tb *tables) idOf(d core.SignedData) string {
	if d == nil {
		return "unknown:nil"
	}
	if id, ok := tb.byHash[hashOf(d)]; ok {
		return id
	}
	return "unknown"
}

type result struct {
	data core.SignedData
	err  error
}

type reader struct {
	id        string
	key       mkey
	cancel    context.CancelFunc
	done      chan result
	returned  bool
	cancelled bool
}

func TestExec(t *testing.T) {
	drv.QuietLogs(t)
	if s := os.Getenv("VERIF_C17_MUSTWAIT_MS"); s != "" {
		if n, err := strconv.Atoi(s); err == nil {
			mustWait = time.Duration(n) * time.Millisecond
		}
	}
	impls := []string{"v1", "v2"}
	if s := os.Getenv("VERIF_C17_IMPL"); s != "" {
		impls = strings.Split(s, ",")
	}
	scheds := drv.ReadSchedules(t)
	tr := drv.NewTracer(t)
	defer tr.Close()
	for i, s := range scheds {
		for _, impl := range impls {
			if hung := runOne(tr, i, s, impl); hung {
				return // a hung store: the trace ends with a Hang event no spec step matches
			}
		}
	}
}

type run struct {
	tr      *drv.Tracer
	tb      *tables
	db      core.AggSigDB
	dl      *stubDL
	ctx     context.Context
	readers map[string]*reader
	order   []string
	known   map[mkey]bool   // keys the driver has SEEN to be stored (Store returned nil / a reader returned a value)
	expd    map[string]bool // duties ever expired
	nprobe  int
}

func runOne(tr *drv.Tracer, sid int, sched []drv.Step, impl string) (hung bool) {
	ctx, cancel := context.WithCancel(context.Background())
	defer cancel()
	x := &run{tr: tr, tb: newTables(), dl: newStubDL(), ctx: ctx,
		readers: map[string]*reader{}, known: map[mkey]bool{}, expd: map[string]bool{}}
	x.tb.exempt = sid%3 == 1
	if impl == "v1" {
		x.db = aggsigdb.NewMemDB(x.dl)
	} else {
		x.db = aggsigdb.NewMemDBV2(x.dl)
	}
	go x.db.Run(ctx)
	tr.Emit(drv.Step{"ev": "Reset", "sid": sid, "impl": impl})
	for _, st := range sched {
		switch drv.Str(st["ev"]) {
		case "Await":
			hung = x.await(drv.Str(st["r"]), parseKey(st["k"]))
		case "AwaitC":
			hung = x.awaitCancelled(drv.Str(st["r"]), parseKey(st["k"]))
		case "Store":
			hung = x.store(st["set"].([]any))
		case "CStore":
			hung = x.cstore(st["sets"].([]any))
		case "Cancel":
			hung = x.cancelReader(drv.Str(st["r"]))
		case "Expire":
			hung = x.expire(drv.Str(st["d"]))
		default:
			panic("unknown step " + drv.Str(st["ev"]))
		}
		if hung {
			return true
		}
	}
	// the end: every reader still blocked is cancelled and must return the context error
	for _, id := range append([]string(nil), x.order...) {
		if x.cancelReader(id) {
			return true
		}
	}
	return false
}

func (x *run) start(id string, k mkey) *reader {
	rctx, rcancel := context.WithCancel(x.ctx)
	r := &reader{id: id, key: k, cancel: rcancel, done: make(chan result, 1)}
	x.readers[id] = r
	x.order = append(x.order, id)
	duty, pk := x.tb.duty(k.D), x.tb.pk(k.P)
	x.tr.Emit(drv.Step{"ev": "AwaitCall", "r": id, "k": k.json()})
	go func() {
		d, err := x.db.Await(rctx, duty, pk, 0)
		r.done <- result{d, err}
	}()
	// Give the goroutine a moment to get to the store and block there. Only the chance to SEE a lost wake-up
	// depends on this; no verdict does (the spec lets a reader arrive at the store at any later time).
	runtime.Gosched()
	time.Sleep(200 * time.Microsecond)
	return r
}

// logReturn records what a reader returned and learns from it.
func (x *run) logReturn(r *reader, res result) (learned bool) {
	r.returned = true
	r.cancel()
	if res.err != nil {
		got := "err:" + res.err.Error()
		if errors.Is(res.err, context.Canceled) {
			got = "err"
		}
		x.tr.Emit(drv.Step{"ev": "AwaitReturn", "r": r.id, "got": got})
		return false
	}
	x.tr.Emit(drv.Step{"ev": "AwaitReturn", "r": r.id, "got": x.tb.idOf(res.data)})
	if !x.expd[r.key.D] && !x.known[r.key] {
		x.known[r.key] = true
		return true
	}
	return false
}

// settle records the returns of all readers; it WAITS for those that must return (cancelled, or key seen stored).
func (x *run) settle() (hung bool) {
	for {
		learned := false
		for _, id := range x.order {
			r := x.readers[id]
			if r.returned {
				continue
			}
			if r.cancelled || x.known[r.key] {
				select {
				case res := <-r.done:
					learned = x.logReturn(r, res) || learned
				case <-time.After(mustWait):
					x.tr.Emit(drv.Step{"ev": "Hang", "r": r.id, "what": "Await did not return"})
					return true
				}
			} else {
				select {
				case res := <-r.done:
					learned = x.logReturn(r, res) || learned
				default:
				}
			}
		}
		if !learned {
			return false
		}
	}
}

func (x *run) await(id string, k mkey) bool {
	if _, ok := x.readers[id]; ok {
		return false
	}
	x.start(id, k)
	return x.settle()
}

// awaitCancelled: a reader that calls Await with a context that is already cancelled.  Logged as AwaitCall, Cancel, and
// (by settle) the AwaitReturn - the context error or the stored value, the selects race.
func (x *run) awaitCancelled(id string, k mkey) bool {
	if _, ok := x.readers[id]; ok {
		return false
	}
	rctx, rcancel := context.WithCancel(x.ctx)
	r := &reader{id: id, key: k, cancel: rcancel, done: make(chan result, 1)}
	x.readers[id] = r
	x.order = append(x.order, id)
	duty, pk := x.tb.duty(k.D), x.tb.pk(k.P)
	x.tr.Emit(drv.Step{"ev": "AwaitCall", "r": id, "k": k.json()})
	x.tr.Emit(drv.Step{"ev": "Cancel", "r": id})
	r.cancelled = true
	rcancel()
	go func() {
		d, err := x.db.Await(rctx, duty, pk, 0)
		r.done <- result{d, err}
	}()
	return x.settle()
}

func (x *run) cancelReader(id string) bool {
	r, ok := x.readers[id]
	if !ok || r.returned {
		// it may have returned without the driver having looked yet
		return x.settle()
	}
	select {
	case res := <-r.done:
		x.logReturn(r, res)
		return x.settle()
	default:
	}
	x.tr.Emit(drv.Step{"ev": "Cancel", "r": id})
	r.cancelled = true
	r.cancel()
	return x.settle()
}

type call struct {
	w      string
	duty   core.Duty
	set    core.SignedDataSet
	keys   []mkey
	logged []any
	errCh  chan error
	done   bool
	err    error
}

func (x *run) parseSet(w string, entries []any) *call {
	c := &call{w: w, set: core.SignedDataSet{}, errCh: make(chan error, 1)}
	for _, e := range entries {
		m := e.(map[string]any)
		k := parseKey(m["k"])
		v := drv.Str(m["v"])
		c.duty = x.tb.duty(k.D)
		c.set[x.tb.pk(k.P)] = x.tb.val(v)
		c.keys = append(c.keys, k)
		c.logged = append(c.logged, drv.Step{"k": k.json(), "v": v})
	}
	sort.Slice(c.keys, func(i, j int) bool { return c.keys[i].D+"/"+c.keys[i].P < c.keys[j].D+"/"+c.keys[j].P })
	return c
}

func (x *run) startCall(c *call) {
	x.tr.Emit(drv.Step{"ev": "StoreCall", "w": c.w, "set": c.logged})
	go func() { c.errCh <- x.db.Store(x.ctx, c.duty, c.set) }()
}

func (x *run) logStoreRet(c *call, err error, adds int) {
	c.done, c.err = true, err
	res := "ok"
	if err != nil {
		res = "err:" + err.Error()
		if strings.Contains(err.Error(), "mismatching data") {
			res = "mismatch"
		}
	}
	x.tr.Emit(drv.Step{"ev": "StoreRet", "w": c.w, "res": res, "adds": adds})
}

// afterStores learns from the results of the completed calls and probes the keys of failed ones.
func (x *run) afterStores(calls []*call) bool {
	for _, c := range calls {
		if c.err == nil {
			for _, k := range c.keys {
				x.known[k] = true
			}
		}
	}
	if x.settle() {
		return true
	}
	// A failed call: entries that Go's map order put before the failing one stay stored. Probe the keys the
	// driver knows nothing about with an extra reader each; a probe that returns a value makes the key known.
	for _, c := range calls {
		if c.err == nil {
			continue
		}
		for _, k := range c.keys {
			if x.known[k] {
				continue
			}
			x.nprobe++
			r := x.start("q"+strconv.Itoa(x.nprobe), k)
			select {
			case res := <-r.done:
				x.logReturn(r, res)
			case <-time.After(probeWait):
				x.tr.Emit(drv.Step{"ev": "Cancel", "r": r.id})
				r.cancelled = true
				r.cancel()
				select {
				case res := <-r.done:
					x.logReturn(r, res)
				case <-time.After(mustWait):
					x.tr.Emit(drv.Step{"ev": "Hang", "r": r.id, "what": "cancelled Await did not return"})
					return true
				}
			}
			// what the probe taught may oblige other readers to return before the next stimulus
			if x.settle() {
				return true
			}
		}
	}
	return x.settle()
}

func (x *run) store(entries []any) bool {
	c := x.parseSet("w0", entries)
	before := x.dl.adds.Load()
	x.startCall(c)
	select {
	case err := <-c.errCh:
		x.logStoreRet(c, err, int(x.dl.adds.Load()-before))
	case <-time.After(mustWait):
		x.tr.Emit(drv.Step{"ev": "Hang", "what": "Store did not return"})
		return true
	}
	return x.afterStores([]*call{c})
}

// cstore runs several Store calls CONCURRENTLY with a forced overlap: the gate holds writer 1 inside the store
// (in deadliner.Add) while writer 2 is started, and so on; then the gate opens and all must return. How long the
// driver waits before it takes a later writer to be blocked only decides when the gate opens, never a verdict.
func (x *run) cstore(sets []any) bool {
	var calls []*call
	for i, s := range sets {
		calls = append(calls, x.parseSet("w"+strconv.Itoa(i+1), s.([]any)))
	}
	before := x.dl.adds.Load()
	x.dl.closeGate()
	collect := func() { // log the returns seen so far, in the order of the writers
		for _, c := range calls {
			if c.done {
				continue
			}
			select {
			case err := <-c.errCh:
				x.logStoreRet(c, err, int(x.dl.adds.Load()-before))
			default:
			}
		}
	}
	for i, c := range calls {
		x.startCall(c)
		wait := overlapWait
		if i == 0 {
			wait = mustWait
		}
		timer := time.After(wait)
		select {
		case <-x.dl.arrived: // somebody sits in Add now
		case err := <-c.errCh:
			x.logStoreRet(c, err, int(x.dl.adds.Load()-before))
		case <-timer:
			if i == 0 {
				x.dl.openGate()
				x.tr.Emit(drv.Step{"ev": "Hang", "what": "Store neither returned nor reached the deadliner"})
				return true
			}
		}
		collect()
	}
	x.dl.openGate()
	for _, c := range calls {
		if c.done {
			continue
		}
		select {
		case err := <-c.errCh:
			x.logStoreRet(c, err, int(x.dl.adds.Load()-before))
		case <-time.After(mustWait):
			x.tr.Emit(drv.Step{"ev": "Hang", "w": c.w, "what": "Store did not return"})
			return true
		}
	}
	return x.afterStores(calls)
}

func (x *run) expire(d string) bool {
	duty := x.tb.duty(d)
	x.tr.Emit(drv.Step{"ev": "Expire", "d": d})
	// Run's loop is sequential: when it takes the second (never stored) duty it has finished deleting the first.
	for _, dd := range []core.Duty{duty, core.NewBuilderRegistrationDuty(999_999_999)} {
		select {
		case x.dl.ch <- dd:
		case <-time.After(mustWait):
			x.tr.Emit(drv.Step{"ev": "Hang", "what": "Run does not read the deadliner"})
			return true
		}
	}
	for k := range x.known {
		if k.D == d {
			delete(x.known, k)
		}
	}
	x.expd[d] = true
	x.dl.markExpired(duty)
	return x.settle()
}
