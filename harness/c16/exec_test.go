// Package c16 executes Deadliner schedules on the real core.Deadliner and records what it did.
package c16

import (
	"context"
	"testing"
	"time"

	"github.com/jonboulle/clockwork"

	"github.com/obolnetwork/charon/core"

	"verifharness/drv"
)

const unit = time.Second

type mduty struct {
	ID string
	DL int
}

func parseDuty(v any) mduty {
	m := v.(map[string]any)
	return mduty{ID: drv.Str(m["id"]), DL: drv.Num(m["dl"])}
}

func TestExec(t *testing.T) {
	drv.QuietLogs(t)
	scheds := drv.ReadSchedules(t)
	tr := drv.NewTracer(t)
	defer tr.Close()
	for i, s := range scheds {
		if hung := runOne(t, tr, i, s); hung {
			break // a hung deadliner: stop here, the trace ends with a Hang event no spec step matches
		}
	}
}

func runOne(t *testing.T, tr *drv.Tracer, sid int, sched []drv.Step) bool {
	ctx, cancel := context.WithCancel(context.Background())
	defer cancel()

	clk := clockwork.NewFakeClock()
	t0 := clk.Now()
	// model duty <-> real duty: slot = running index, type attester; never-expiring duties are exits.
	toReal := map[mduty]core.Duty{}
	toModel := map[core.Duty]mduty{}
	sentinel := core.NewBuilderRegistrationDuty(999_999_999)
	// the gate: a never-expiring duty whose deadline lookup blocks the run goroutine until the driver lets go
	gate := core.NewBuilderRegistrationDuty(999_999_998)
	var gateEntered, gateRelease chan struct{}
	realOf := func(m mduty) core.Duty {
		if d, ok := toReal[m]; ok {
			return d
		}
		var d core.Duty
		if m.DL < 0 {
			d = core.NewVoluntaryExit(uint64(len(toReal) + 1))
		} else {
			d = core.NewAttesterDuty(uint64(len(toReal) + 1))
		}
		toReal[m] = d
		toModel[d] = m
		return d
	}
	for _, st := range sched {
		if ev := drv.Str(st["ev"]); ev == "Add" || ev == "RaceAdd" {
			realOf(parseDuty(st["d"]))
		}
	}
	deadlineFunc := func(d core.Duty) (time.Time, bool) {
		if d == gate {
			close(gateEntered)
			<-gateRelease
			return time.Time{}, false
		}
		m, ok := toModel[d]
		if !ok || m.DL < 0 {
			return time.Time{}, false
		}
		return t0.Add(time.Duration(m.DL) * unit), true
	}
	dl := core.NewDeadlinerForT(ctx, t, deadlineFunc, clk)

	hung := false
	settle := func() {
		// The run loop is sequential: once the sentinel Add has been answered, the iteration that served the
		// previous stimulus has completed (including re-arming the timer). A fired timer is not a fake-clock
		// waiter, so "one waiter" means: no fire is outstanding and the next timer is armed.
		dl.Add(sentinel)
		wctx, wcancel := context.WithTimeout(ctx, 5*time.Second)
		defer wcancel()
		if err := clk.BlockUntilContext(wctx, 1); err != nil {
			hung = true
		}
	}
	tr.Emit(drv.Step{"ev": "Reset", "sid": sid})
	settle()
	for _, st := range sched {
		if hung {
			tr.Emit(drv.Step{"ev": "Hang"})
			return true
		}
		switch drv.Str(st["ev"]) {
		case "Add":
			m := parseDuty(st["d"])
			res := dl.Add(realOf(m))
			settle()
			name := map[core.DeadlineStatus]string{core.DeadlineExpired: "Expired", core.DeadlineScheduled: "Scheduled", core.DeadlineExempt: "Exempt"}[res]
			tr.Emit(drv.Step{"ev": "Add", "d": drv.Step{"id": m.ID, "dl": m.DL}, "res": name})
		case "RaceAdd":
			// The clock advances and a registration arrives while the run goroutine is busy: when it returns to its
			// select, the elapsed timer and the input are both ready and Go picks either.  Two events: the Advance and
			// an Add marked race (the trace specification lets due timer fires happen before or after it).
			m, by := parseDuty(st["d"]), drv.Num(st["by"])
			gateEntered, gateRelease = make(chan struct{}), make(chan struct{})
			gateDone := make(chan struct{})
			go func() { dl.Add(gate); close(gateDone) }()
			select {
			case <-gateEntered:
			case <-time.After(5 * time.Second):
				hung = true
				continue
			}
			clk.Advance(time.Duration(by) * unit)
			resCh := make(chan core.DeadlineStatus, 1)
			go func() { resCh <- dl.Add(realOf(m)) }()
			time.Sleep(2 * time.Millisecond) // let the registration reach the input channel (coverage only, no verdict)
			close(gateRelease)
			var res core.DeadlineStatus
			select {
			case res = <-resCh:
			case <-time.After(5 * time.Second):
				hung = true
				continue
			}
			<-gateDone
			settle()
			name := map[core.DeadlineStatus]string{core.DeadlineExpired: "Expired", core.DeadlineScheduled: "Scheduled", core.DeadlineExempt: "Exempt"}[res]
			tr.Emit(drv.Step{"ev": "Advance", "by": by})
			tr.Emit(drv.Step{"ev": "Add", "d": drv.Step{"id": m.ID, "dl": m.DL}, "res": name, "race": true})
		case "Advance":
			by := drv.Num(st["by"])
			clk.Advance(time.Duration(by) * unit)
			if b, _ := st["quiet"].(bool); b {
				// Time passes while the run goroutine sits in its select and NOTHING is sent to it: Advance has fired (and
				// removed) the elapsed timer synchronously, so "one waiter" again means that every due fire has been handled
				// and the next timer is armed; when nothing was due the goroutine is not woken at all (a sentinel Add would
				// wake it and refresh whatever it remembers from its last iteration).
				wctx, wcancel := context.WithTimeout(ctx, 5*time.Second)
				if err := clk.BlockUntilContext(wctx, 1); err != nil {
					hung = true
				}
				wcancel()
			} else {
				settle()
			}
			tr.Emit(drv.Step{"ev": "Advance", "by": by})
		case "Read":
			select {
			case d := <-dl.C():
				m, ok := toModel[d]
				if !ok {
					m = mduty{ID: "unknown:" + d.String(), DL: 0}
				}
				tr.Emit(drv.Step{"ev": "Read", "got": drv.Step{"id": m.ID, "dl": m.DL}})
			default:
				tr.Emit(drv.Step{"ev": "Read", "got": drv.Step{"id": "none", "dl": 1000000}})
			}
		default:
			t.Fatalf("unknown step %v", st)
		}
	}
	if hung {
		tr.Emit(drv.Step{"ev": "Hang"})
	}
	return hung
}
