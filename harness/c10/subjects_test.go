package c10

import (
	"fmt"
	"reflect"

	"github.com/OffchainLabs/go-bitfield"
	eth2api "github.com/attestantio/go-eth2-client/api"
	eth2v1 "github.com/attestantio/go-eth2-client/api/v1"
	eth2bellatrix "github.com/attestantio/go-eth2-client/api/v1/bellatrix"
	eth2capella "github.com/attestantio/go-eth2-client/api/v1/capella"
	eth2deneb "github.com/attestantio/go-eth2-client/api/v1/deneb"
	eth2electra "github.com/attestantio/go-eth2-client/api/v1/electra"
	eth2fulu "github.com/attestantio/go-eth2-client/api/v1/fulu"
	eth2spec "github.com/attestantio/go-eth2-client/spec"
	"github.com/attestantio/go-eth2-client/spec/altair"
	"github.com/attestantio/go-eth2-client/spec/bellatrix"
	"github.com/attestantio/go-eth2-client/spec/capella"
	"github.com/attestantio/go-eth2-client/spec/deneb"
	"github.com/attestantio/go-eth2-client/spec/electra"
	eth2p0 "github.com/attestantio/go-eth2-client/spec/phase0"

	"github.com/obolnetwork/charon/core"
	"github.com/obolnetwork/charon/eth2util"
	"github.com/obolnetwork/charon/eth2util/signing"
	"github.com/obolnetwork/charon/tbls"
	"github.com/obolnetwork/charon/testutil"
)

const (
	preElectraCommittee = 7 // all validators sit in committee 7; their position in it is their label
	committeeLen        = 8
	subcommittee        = 2
)

// subject is one signed object as a validator client would produce it.
type subject struct {
	times    map[string]eth2p0.Epoch // the object's time fields by name: "slot" (its epoch), "target", "epoch", "genesis"
	root     func() ([32]byte, error)
	setSig   func(eth2p0.BLSSignature)
	getSig   func() eth2p0.BLSSignature
	mutate   func(field string) error
	snap     func() (restore func())  // snapshot of everything mutate can change; restore puts it back
	share    func(from *subject) bool // give this object the signed content of `from` (same kind); false: cannot
	parsig   func(idx int) (core.ParSignedData, error)
	vc       any
	unsigned *eth2api.VersionedProposal
	content  any // the part of the object that share copies
}

// snapAttData snapshots attestation data (incl. its checkpoints).
func snapAttData(d *eth2p0.AttestationData) func() {
	d0, s0, t0 := *d, *d.Source, *d.Target
	return func() { *d = d0; *d.Source = s0; *d.Target = t0 }
}

var versions = map[string]eth2spec.DataVersion{"phase0": eth2spec.DataVersionPhase0, "altair": eth2spec.DataVersionAltair,
	"bellatrix": eth2spec.DataVersionBellatrix, "capella": eth2spec.DataVersionCapella, "deneb": eth2spec.DataVersionDeneb,
	"electra": eth2spec.DataVersionElectra, "fulu": eth2spec.DataVersionFulu}

var verField = map[string]string{"phase0": "Phase0", "altair": "Altair", "bellatrix": "Bellatrix", "capella": "Capella",
	"deneb": "Deneb", "electra": "Electra", "fulu": "Fulu"}

func flip(r *eth2p0.Root) { r[0] ^= 1 }

func unknownField(kind, f string) error { return fmt.Errorf("kind %s has no field %q", kind, f) }

// groupSig signs root with the validator's group key (or, for the innerProof alteration, with one of its shares).
func (w *world) groupSig(k *valKeys, bad bool, own int, dom signing.DomainName, root [32]byte) (eth2p0.BLSSignature, error) {
	data, err := signing.GetDataRoot(w.ctx, w.bmock, dom, w.slotEpoch(), root)
	if err != nil {
		return eth2p0.BLSSignature{}, err
	}
	key := k.secret
	if bad {
		key = k.shares[own]
	}
	sig, err := tbls.Sign(key, data[:])
	return eth2p0.BLSSignature(sig), err
}

func (w *world) attData(electraStyle bool) *eth2p0.AttestationData {
	idx := eth2p0.CommitteeIndex(preElectraCommittee)
	if electraStyle {
		idx = 0
	}
	return &eth2p0.AttestationData{Slot: w.lay.slot, Index: idx, BeaconBlockRoot: testutil.RandomRoot(),
		Source: &eth2p0.Checkpoint{Epoch: w.lay.tgt - 1, Root: testutil.RandomRoot()},
		Target: &eth2p0.Checkpoint{Epoch: w.lay.tgt, Root: testutil.RandomRoot()}}
}

func (w *world) newSubject(kind, ver string, claimed *valKeys, vidx eth2p0.ValidatorIndex, badInner bool, own int) (*subject, error) {
	switch kind {
	case "attestation":
		return w.newAttestation(ver, claimed, vidx)
	case "proposal", "blinded":
		return w.newSignedProposal(kind, ver, vidx)
	case "randao":
		slot, ep := w.lay.slot, w.slotEpoch()
		var sig eth2p0.BLSSignature
		s := &subject{times: map[string]eth2p0.Epoch{"epoch": ep}}
		s.root = func() ([32]byte, error) { return eth2util.SignedEpoch{Epoch: ep}.HashTreeRoot() }
		s.setSig = func(x eth2p0.BLSSignature) { sig = x; s.vc = &eth2api.ProposalOpts{Slot: slot, RandaoReveal: sig} }
		s.getSig = func() eth2p0.BLSSignature { return sig }
		s.mutate = func(f string) error {
			if f != "epoch" {
				return unknownField(kind, f)
			}
			ep++
			slot += eth2p0.Slot(w.spe)
			s.vc = &eth2api.ProposalOpts{Slot: slot, RandaoReveal: sig}
			return nil
		}
		s.parsig = func(idx int) (core.ParSignedData, error) { return core.NewPartialSignedRandao(ep, sig, idx), nil }
		s.snap = func() func() {
			slot0, ep0 := slot, ep
			return func() { slot, ep = slot0, ep0; s.vc = &eth2api.ProposalOpts{Slot: slot, RandaoReveal: sig} }
		}
		return s, nil
	case "exit":
		ex := &eth2p0.SignedVoluntaryExit{Message: &eth2p0.VoluntaryExit{Epoch: w.slotEpoch(), ValidatorIndex: vidx}}
		s := &subject{times: map[string]eth2p0.Epoch{"epoch": ex.Message.Epoch}, vc: ex}
		s.root = ex.Message.HashTreeRoot
		s.setSig = func(x eth2p0.BLSSignature) { ex.Signature = x }
		s.getSig = func() eth2p0.BLSSignature { return ex.Signature }
		s.mutate = func(f string) error {
			switch f {
			case "epoch":
				ex.Message.Epoch++
			case "validator":
				ex.Message.ValidatorIndex = w.otherVIdx(vidx)
			default:
				return unknownField(kind, f)
			}
			return nil
		}
		s.parsig = func(idx int) (core.ParSignedData, error) { return core.NewPartialSignedVoluntaryExit(ex, idx), nil }
		s.snap = func() func() { m0 := *ex.Message; return func() { *ex.Message = m0 } }
		return s, nil
	case "registration":
		reg := &eth2api.VersionedSignedValidatorRegistration{Version: eth2spec.BuilderVersionV1, V1: testutil.RandomSignedValidatorRegistration(w.t)}
		reg.V1.Message.Pubkey = claimed.eth2PK
		s := &subject{times: map[string]eth2p0.Epoch{"genesis": 0}, vc: reg}
		s.root = reg.V1.Message.HashTreeRoot
		s.setSig = func(x eth2p0.BLSSignature) { reg.V1.Signature = x }
		s.getSig = func() eth2p0.BLSSignature { return reg.V1.Signature }
		s.mutate = func(f string) error {
			switch f {
			case "fee":
				reg.V1.Message.FeeRecipient[0] ^= 1
			case "gas":
				reg.V1.Message.GasLimit++
			case "timestamp":
				reg.V1.Message.Timestamp = reg.V1.Message.Timestamp.Add(1e9)
			case "pubkey":
				reg.V1.Message.Pubkey = w.otherVal(claimed).eth2PK
			default:
				return unknownField(kind, f)
			}
			return nil
		}
		s.parsig = func(idx int) (core.ParSignedData, error) {
			return core.NewPartialVersionedSignedValidatorRegistration(reg, idx)
		}
		s.snap = func() func() { m0 := *reg.V1.Message; return func() { *reg.V1.Message = m0 } }
		return s, nil
	case "bcselection":
		sel := &eth2v1.BeaconCommitteeSelection{ValidatorIndex: vidx, Slot: w.lay.slot}
		s := &subject{times: map[string]eth2p0.Epoch{"slot": w.slotEpoch()}, vc: sel}
		s.root = func() ([32]byte, error) { return eth2util.SlotHashRoot(sel.Slot) }
		s.setSig = func(x eth2p0.BLSSignature) { sel.SelectionProof = x }
		s.getSig = func() eth2p0.BLSSignature { return sel.SelectionProof }
		s.mutate = func(f string) error {
			if f != "slot" {
				return unknownField(kind, f)
			}
			sel.Slot++
			return nil
		}
		s.parsig = func(idx int) (core.ParSignedData, error) {
			return core.NewPartialSignedBeaconCommitteeSelection(sel, idx), nil
		}
		s.snap = func() func() { slot0 := sel.Slot; return func() { sel.Slot = slot0 } }
		return s, nil
	case "aggregate", "aggregate_legacy":
		return w.newAggregate(kind, ver, claimed, vidx, badInner, own)
	case "syncmsg":
		m := &altair.SyncCommitteeMessage{Slot: w.lay.slot, BeaconBlockRoot: testutil.RandomRoot(), ValidatorIndex: vidx}
		s := &subject{times: map[string]eth2p0.Epoch{"slot": w.slotEpoch()}, vc: m}
		s.root = func() ([32]byte, error) { return m.BeaconBlockRoot, nil }
		s.setSig = func(x eth2p0.BLSSignature) { m.Signature = x }
		s.getSig = func() eth2p0.BLSSignature { return m.Signature }
		s.mutate = func(f string) error {
			if f != "root" {
				return unknownField(kind, f)
			}
			flip(&m.BeaconBlockRoot)
			return nil
		}
		s.parsig = func(idx int) (core.ParSignedData, error) { return core.NewPartialSignedSyncMessage(m, idx), nil }
		s.snap = func() func() { r0 := m.BeaconBlockRoot; return func() { m.BeaconBlockRoot = r0 } }
		s.content = m
		s.share = func(from *subject) bool {
			o, ok := from.content.(*altair.SyncCommitteeMessage)
			if ok {
				m.Slot, m.BeaconBlockRoot = o.Slot, o.BeaconBlockRoot
			}
			return ok
		}
		return s, nil
	case "scselection":
		sel := &eth2v1.SyncCommitteeSelection{ValidatorIndex: vidx, Slot: w.lay.slot, SubcommitteeIndex: subcommittee}
		s := &subject{times: map[string]eth2p0.Epoch{"slot": w.slotEpoch()}, vc: sel}
		s.root = func() ([32]byte, error) {
			return (&altair.SyncAggregatorSelectionData{Slot: sel.Slot, SubcommitteeIndex: uint64(sel.SubcommitteeIndex)}).HashTreeRoot()
		}
		s.setSig = func(x eth2p0.BLSSignature) { sel.SelectionProof = x }
		s.getSig = func() eth2p0.BLSSignature { return sel.SelectionProof }
		s.mutate = func(f string) error {
			switch f {
			case "slot":
				sel.Slot++
			case "subcomm":
				sel.SubcommitteeIndex++
			default:
				return unknownField(kind, f)
			}
			return nil
		}
		s.parsig = func(idx int) (core.ParSignedData, error) {
			return core.NewPartialSignedSyncCommitteeSelection(sel, idx), nil
		}
		s.snap = func() func() {
			slot0, sc0 := sel.Slot, sel.SubcommitteeIndex
			return func() { sel.Slot, sel.SubcommitteeIndex = slot0, sc0 }
		}
		return s, nil
	case "contribution":
		con := &altair.SignedContributionAndProof{Message: &altair.ContributionAndProof{AggregatorIndex: vidx,
			Contribution: testutil.RandomSyncCommitteeContribution()}}
		con.Message.Contribution.Slot = w.lay.slot
		con.Message.Contribution.SubcommitteeIndex = subcommittee
		selRoot, err := (&altair.SyncAggregatorSelectionData{Slot: w.lay.slot, SubcommitteeIndex: subcommittee}).HashTreeRoot()
		if err != nil {
			return nil, err
		}
		con.Message.SelectionProof, err = w.groupSig(claimed, badInner, own, signing.DomainSyncCommitteeSelectionProof, selRoot)
		if err != nil {
			return nil, err
		}
		s := &subject{times: map[string]eth2p0.Epoch{"slot": w.slotEpoch()}, vc: con}
		s.root = con.Message.HashTreeRoot
		s.setSig = func(x eth2p0.BLSSignature) { con.Signature = x }
		s.getSig = func() eth2p0.BLSSignature { return con.Signature }
		s.mutate = func(f string) error {
			switch f {
			case "slot":
				con.Message.Contribution.Slot++
			case "root":
				flip(&con.Message.Contribution.BeaconBlockRoot)
			case "subcomm":
				con.Message.Contribution.SubcommitteeIndex++
			case "aggidx":
				con.Message.AggregatorIndex = w.otherVIdx(vidx)
			case "proof":
				con.Message.SelectionProof[5] ^= 1
			default:
				return unknownField(kind, f)
			}
			return nil
		}
		s.parsig = func(idx int) (core.ParSignedData, error) {
			return core.NewPartialSignedSyncContributionAndProof(con, idx), nil
		}
		s.snap = func() func() {
			m0, c0 := *con.Message, *con.Message.Contribution
			return func() { *con.Message = m0; *con.Message.Contribution = c0 }
		}
		return s, nil
	}
	return nil, fmt.Errorf("unknown kind %q", kind)
}

// otherVIdx returns the beacon-chain index of another validator of the lock.
func (w *world) otherVIdx(vidx eth2p0.ValidatorIndex) eth2p0.ValidatorIndex {
	for l := 1; l <= w.v; l++ {
		if w.vals[l].vidx != vidx {
			return w.vals[l].vidx
		}
	}
	return vidx + 1
}

func (w *world) otherVal(k *valKeys) *valKeys {
	for l := 1; l <= w.v; l++ {
		if w.vals[l] != k {
			return w.vals[l]
		}
	}
	return k
}

func (w *world) newAttestation(ver string, claimed *valKeys, vidx eth2p0.ValidatorIndex) (*subject, error) {
	dv, ok := versions[ver]
	if !ok {
		return nil, fmt.Errorf("unknown attestation version %q", ver)
	}
	pos := uint64(claimed.label)
	if vidx == unknownVIdx {
		pos = 0 // no validator of the committee sits at position 0
	}
	bits := bitfield.NewBitlist(committeeLen)
	bits.SetBitAt(pos, true)
	att := &eth2spec.VersionedAttestation{Version: dv}
	var data *eth2p0.AttestationData
	var sigp *eth2p0.BLSSignature
	if ver == "electra" || ver == "fulu" {
		cb := bitfield.NewBitvector64()
		cb.SetBitAt(preElectraCommittee, true)
		a := &electra.Attestation{AggregationBits: bits, Data: w.attData(true), CommitteeBits: cb}
		data, sigp = a.Data, &a.Signature
		vi := vidx
		att.ValidatorIndex = &vi
		reflect.ValueOf(att).Elem().FieldByName(verField[ver]).Set(reflect.ValueOf(a))
	} else {
		a := &eth2p0.Attestation{AggregationBits: bits, Data: w.attData(false)}
		data, sigp = a.Data, &a.Signature
		reflect.ValueOf(att).Elem().FieldByName(verField[ver]).Set(reflect.ValueOf(a))
	}
	s := &subject{times: map[string]eth2p0.Epoch{"slot": w.slotEpoch(), "target": data.Target.Epoch}, vc: att}
	s.root = data.HashTreeRoot
	s.setSig = func(x eth2p0.BLSSignature) { *sigp = x }
	s.getSig = func() eth2p0.BLSSignature { return *sigp }
	s.mutate = func(f string) error {
		switch f {
		case "slot":
			data.Slot++
		case "index":
			data.Index++
		case "root":
			flip(&data.BeaconBlockRoot)
		case "source":
			data.Source.Epoch--
		case "target":
			flip(&data.Target.Root)
		default:
			return unknownField("attestation", f)
		}
		return nil
	}
	s.parsig = func(idx int) (core.ParSignedData, error) { return core.NewPartialVersionedAttestation(att, idx) }
	s.snap = func() func() { return snapAttData(data) }
	s.content = data
	s.share = func(from *subject) bool {
		o, ok := from.content.(*eth2p0.AttestationData)
		if ok {
			data.Slot, data.Index, data.BeaconBlockRoot = o.Slot, o.Index, o.BeaconBlockRoot
			*data.Source, *data.Target = *o.Source, *o.Target
		}
		return ok
	}
	return s, nil
}

func (w *world) newAggregate(kind, ver string, claimed *valKeys, vidx eth2p0.ValidatorIndex, badInner bool, own int) (*subject, error) {
	slotRoot, err := eth2util.SlotHashRoot(w.lay.slot)
	if err != nil {
		return nil, err
	}
	proof, err := w.groupSig(claimed, badInner, own, signing.DomainSelectionProof, slotRoot)
	if err != nil {
		return nil, err
	}
	s := &subject{times: map[string]eth2p0.Epoch{"slot": w.slotEpoch(), "target": w.lay.tgt}}
	var (
		data   *eth2p0.AttestationData
		aggIdx *eth2p0.ValidatorIndex
		selp   *eth2p0.BLSSignature
		sigp   *eth2p0.BLSSignature
	)
	if kind == "aggregate" && (ver == "electra" || ver == "fulu") {
		cb := bitfield.NewBitvector64()
		cb.SetBitAt(preElectraCommittee, true)
		sa := &electra.SignedAggregateAndProof{Message: &electra.AggregateAndProof{AggregatorIndex: vidx, SelectionProof: proof,
			Aggregate: &electra.Attestation{AggregationBits: testutil.RandomBitList(committeeLen), Data: w.attData(true),
				Signature: testutil.RandomEth2Signature(), CommitteeBits: cb}}}
		data, aggIdx, selp, sigp = sa.Message.Aggregate.Data, &sa.Message.AggregatorIndex, &sa.Message.SelectionProof, &sa.Signature
		s.root = sa.Message.HashTreeRoot
		v := &eth2spec.VersionedSignedAggregateAndProof{Version: versions[ver]}
		reflect.ValueOf(v).Elem().FieldByName(verField[ver]).Set(reflect.ValueOf(sa))
		s.vc = v
		s.parsig = func(idx int) (core.ParSignedData, error) {
			return core.NewPartialVersionedSignedAggregateAndProof(v, idx), nil
		}
	} else {
		sa := &eth2p0.SignedAggregateAndProof{Message: &eth2p0.AggregateAndProof{AggregatorIndex: vidx, SelectionProof: proof,
			Aggregate: &eth2p0.Attestation{AggregationBits: testutil.RandomBitList(committeeLen), Data: w.attData(false),
				Signature: testutil.RandomEth2Signature()}}}
		data, aggIdx, selp, sigp = sa.Message.Aggregate.Data, &sa.Message.AggregatorIndex, &sa.Message.SelectionProof, &sa.Signature
		s.root = sa.Message.HashTreeRoot
		if kind == "aggregate_legacy" {
			s.parsig = func(idx int) (core.ParSignedData, error) { return core.NewPartialSignedAggregateAndProof(sa, idx), nil }
		} else {
			dv, ok := versions[ver]
			if !ok {
				return nil, fmt.Errorf("unknown aggregate version %q", ver)
			}
			v := &eth2spec.VersionedSignedAggregateAndProof{Version: dv}
			reflect.ValueOf(v).Elem().FieldByName(verField[ver]).Set(reflect.ValueOf(sa))
			s.vc = v
			s.parsig = func(idx int) (core.ParSignedData, error) {
				return core.NewPartialVersionedSignedAggregateAndProof(v, idx), nil
			}
		}
	}
	s.setSig = func(x eth2p0.BLSSignature) { *sigp = x }
	s.getSig = func() eth2p0.BLSSignature { return *sigp }
	s.mutate = func(f string) error {
		switch f {
		case "slot":
			data.Slot++
		case "aggidx":
			*aggIdx = w.otherVIdx(vidx)
		case "attroot":
			flip(&data.BeaconBlockRoot)
		case "proof":
			selp[5] ^= 1
		default:
			return unknownField(kind, f)
		}
		return nil
	}
	s.snap = func() func() {
		rd, ai0, sp0 := snapAttData(data), *aggIdx, *selp
		return func() { rd(); *aggIdx, *selp = ai0, sp0 }
	}
	return s, nil
}

// newProposal returns an unsigned proposal (full or blinded) of the given version for the case's slot and proposer.
func (w *world) newProposal(kind, ver string, vidx eth2p0.ValidatorIndex) (*eth2api.VersionedProposal, error) {
	dv, ok := versions[ver]
	if !ok {
		return nil, fmt.Errorf("unknown proposal version %q", ver)
	}
	p := &eth2api.VersionedProposal{Version: dv, Blinded: kind == "blinded"}
	if kind == "blinded" {
		switch ver {
		case "bellatrix":
			p.BellatrixBlinded = testutil.RandomBellatrixBlindedBeaconBlock()
		case "capella":
			p.CapellaBlinded = testutil.RandomCapellaBlindedBeaconBlock()
		case "deneb":
			p.DenebBlinded = testutil.RandomDenebBlindedBeaconBlock()
		case "electra":
			p.ElectraBlinded = testutil.RandomElectraBlindedBeaconBlock()
		case "fulu":
			p.FuluBlinded = testutil.RandomElectraBlindedBeaconBlock()
		default:
			return nil, fmt.Errorf("no blinded proposal for version %q", ver)
		}
	} else {
		switch ver {
		case "phase0":
			p.Phase0 = testutil.RandomPhase0BeaconBlock()
		case "altair":
			p.Altair = testutil.RandomAltairBeaconBlock()
		case "bellatrix":
			p.Bellatrix = testutil.RandomBellatrixBeaconBlock()
		case "capella":
			p.Capella = testutil.RandomCapellaBeaconBlock()
		case "deneb":
			p.Deneb = &eth2deneb.BlockContents{Block: testutil.RandomDenebBeaconBlock(), KZGProofs: []deneb.KZGProof{}, Blobs: []deneb.Blob{}}
		case "electra":
			p.Electra = &eth2electra.BlockContents{Block: testutil.RandomElectraBeaconBlock(), KZGProofs: []deneb.KZGProof{}, Blobs: []deneb.Blob{}}
		case "fulu":
			p.Fulu = &eth2fulu.BlockContents{Block: testutil.RandomElectraBeaconBlock(), KZGProofs: []deneb.KZGProof{}, Blobs: []deneb.Blob{}}
		}
	}
	blk := blockOf(p)
	blk.FieldByName("Slot").SetUint(uint64(w.lay.slot))
	blk.FieldByName("ProposerIndex").SetUint(uint64(vidx))
	return p, nil
}

// blockOf returns the beacon block struct (addressable) inside an unsigned proposal.
func blockOf(p *eth2api.VersionedProposal) reflect.Value {
	name := verField[p.Version.String()]
	if p.Blinded {
		name += "Blinded"
	}
	f := reflect.ValueOf(p).Elem().FieldByName(name).Elem()
	if b := f.FieldByName("Block"); b.IsValid() { // deneb+ full proposals are block contents
		return b.Elem()
	}
	return f
}

func (w *world) newSignedProposal(kind, ver string, vidx eth2p0.ValidatorIndex) (*subject, error) {
	p, err := w.newProposal(kind, ver, vidx)
	if err != nil {
		return nil, err
	}
	var sigp *eth2p0.BLSSignature
	s := &subject{times: map[string]eth2p0.Epoch{"slot": w.slotEpoch()}, unsigned: p}
	s.root = func() ([32]byte, error) { r, err := p.Root(); return r, err }
	if kind == "blinded" {
		sb := &eth2api.VersionedSignedBlindedProposal{Version: p.Version}
		switch ver {
		case "bellatrix":
			sb.Bellatrix = &eth2bellatrix.SignedBlindedBeaconBlock{Message: p.BellatrixBlinded}
			sigp = &sb.Bellatrix.Signature
		case "capella":
			sb.Capella = &eth2capella.SignedBlindedBeaconBlock{Message: p.CapellaBlinded}
			sigp = &sb.Capella.Signature
		case "deneb":
			sb.Deneb = &eth2deneb.SignedBlindedBeaconBlock{Message: p.DenebBlinded}
			sigp = &sb.Deneb.Signature
		case "electra":
			sb.Electra = &eth2electra.SignedBlindedBeaconBlock{Message: p.ElectraBlinded}
			sigp = &sb.Electra.Signature
		case "fulu":
			sb.Fulu = &eth2electra.SignedBlindedBeaconBlock{Message: p.FuluBlinded}
			sigp = &sb.Fulu.Signature
		}
		s.vc = &eth2api.SubmitBlindedProposalOpts{Proposal: sb}
		s.parsig = func(idx int) (core.ParSignedData, error) {
			return core.NewPartialVersionedSignedBlindedProposal(sb, idx)
		}
	} else {
		sp := &eth2api.VersionedSignedProposal{Version: p.Version}
		switch ver {
		case "phase0":
			sp.Phase0 = &eth2p0.SignedBeaconBlock{Message: p.Phase0}
			sigp = &sp.Phase0.Signature
		case "altair":
			sp.Altair = &altair.SignedBeaconBlock{Message: p.Altair}
			sigp = &sp.Altair.Signature
		case "bellatrix":
			sp.Bellatrix = &bellatrix.SignedBeaconBlock{Message: p.Bellatrix}
			sigp = &sp.Bellatrix.Signature
		case "capella":
			sp.Capella = &capella.SignedBeaconBlock{Message: p.Capella}
			sigp = &sp.Capella.Signature
		case "deneb":
			sp.Deneb = &eth2deneb.SignedBlockContents{SignedBlock: &deneb.SignedBeaconBlock{Message: p.Deneb.Block}, KZGProofs: p.Deneb.KZGProofs, Blobs: p.Deneb.Blobs}
			sigp = &sp.Deneb.SignedBlock.Signature
		case "electra":
			sp.Electra = &eth2electra.SignedBlockContents{SignedBlock: &electra.SignedBeaconBlock{Message: p.Electra.Block}, KZGProofs: p.Electra.KZGProofs, Blobs: p.Electra.Blobs}
			sigp = &sp.Electra.SignedBlock.Signature
		case "fulu":
			sp.Fulu = &eth2fulu.SignedBlockContents{SignedBlock: &electra.SignedBeaconBlock{Message: p.Fulu.Block}, KZGProofs: p.Fulu.KZGProofs, Blobs: p.Fulu.Blobs}
			sigp = &sp.Fulu.SignedBlock.Signature
		}
		s.vc = &eth2api.SubmitProposalOpts{Proposal: sp}
		s.parsig = func(idx int) (core.ParSignedData, error) { return core.NewPartialVersionedSignedProposal(sp, idx) }
	}
	s.setSig = func(x eth2p0.BLSSignature) { *sigp = x }
	s.getSig = func() eth2p0.BLSSignature { return *sigp }
	s.mutate = func(f string) error {
		blk := blockOf(p) // the signed object shares the block with p
		switch f {
		case "slot":
			blk.FieldByName("Slot").SetUint(blk.FieldByName("Slot").Uint() + 1)
		case "proposer":
			blk.FieldByName("ProposerIndex").SetUint(uint64(w.otherVIdx(vidx)))
		case "parent":
			blk.FieldByName("ParentRoot").Index(0).SetUint(blk.FieldByName("ParentRoot").Index(0).Uint() ^ 1)
		case "state":
			blk.FieldByName("StateRoot").Index(0).SetUint(blk.FieldByName("StateRoot").Index(0).Uint() ^ 1)
		case "body":
			g := blk.FieldByName("Body").Elem().FieldByName("Graffiti").Index(0)
			g.SetUint(g.Uint() ^ 1)
		default:
			return unknownField(kind, f)
		}
		return nil
	}
	s.snap = func() func() {
		blk := blockOf(p)
		slot0, pi0 := blk.FieldByName("Slot").Uint(), blk.FieldByName("ProposerIndex").Uint()
		pr0, sr0 := blk.FieldByName("ParentRoot").Index(0).Uint(), blk.FieldByName("StateRoot").Index(0).Uint()
		g0 := blk.FieldByName("Body").Elem().FieldByName("Graffiti").Index(0).Uint()
		return func() {
			blk.FieldByName("Slot").SetUint(slot0)
			blk.FieldByName("ProposerIndex").SetUint(pi0)
			blk.FieldByName("ParentRoot").Index(0).SetUint(pr0)
			blk.FieldByName("StateRoot").Index(0).SetUint(sr0)
			blk.FieldByName("Body").Elem().FieldByName("Graffiti").Index(0).SetUint(g0)
		}
	}
	return s, nil
}

// submitVC calls the endpoint of the node's validator API that takes this kind of object.
func (w *world) submitVC(c acase, entries []entry) (herr, err error) {
	vapi := w.vapi(c.node)
	ctx := w.ctx
	switch c.kind {
	case "attestation":
		var l []*eth2spec.VersionedAttestation
		for _, e := range entries {
			l = append(l, e.s.vc.(*eth2spec.VersionedAttestation))
		}
		return vapi.SubmitAttestations(ctx, &eth2api.SubmitAttestationsOpts{Attestations: l}), nil
	case "proposal":
		return vapi.SubmitProposal(ctx, entries[0].s.vc.(*eth2api.SubmitProposalOpts)), nil
	case "blinded":
		return vapi.SubmitBlindedProposal(ctx, entries[0].s.vc.(*eth2api.SubmitBlindedProposalOpts)), nil
	case "randao":
		_, herr = vapi.Proposal(ctx, entries[0].s.vc.(*eth2api.ProposalOpts))
		return herr, nil
	case "exit":
		return vapi.SubmitVoluntaryExit(ctx, entries[0].s.vc.(*eth2p0.SignedVoluntaryExit)), nil
	case "registration":
		var l []*eth2api.VersionedSignedValidatorRegistration
		for _, e := range entries {
			l = append(l, e.s.vc.(*eth2api.VersionedSignedValidatorRegistration))
		}
		return vapi.SubmitValidatorRegistrations(ctx, l), nil
	case "bcselection":
		var l []*eth2v1.BeaconCommitteeSelection
		for _, e := range entries {
			l = append(l, e.s.vc.(*eth2v1.BeaconCommitteeSelection))
		}
		_, herr = vapi.BeaconCommitteeSelections(ctx, &eth2api.BeaconCommitteeSelectionsOpts{Selections: l})
		return herr, nil
	case "aggregate":
		var l []*eth2spec.VersionedSignedAggregateAndProof
		for _, e := range entries {
			l = append(l, e.s.vc.(*eth2spec.VersionedSignedAggregateAndProof))
		}
		return vapi.SubmitAggregateAttestations(ctx, &eth2api.SubmitAggregateAttestationsOpts{SignedAggregateAndProofs: l}), nil
	case "syncmsg":
		var l []*altair.SyncCommitteeMessage
		for _, e := range entries {
			l = append(l, e.s.vc.(*altair.SyncCommitteeMessage))
		}
		return vapi.SubmitSyncCommitteeMessages(ctx, l), nil
	case "scselection":
		var l []*eth2v1.SyncCommitteeSelection
		for _, e := range entries {
			l = append(l, e.s.vc.(*eth2v1.SyncCommitteeSelection))
		}
		_, herr = vapi.SyncCommitteeSelections(ctx, &eth2api.SyncCommitteeSelectionsOpts{Selections: l})
		return herr, nil
	case "contribution":
		var l []*altair.SignedContributionAndProof
		for _, e := range entries {
			l = append(l, e.s.vc.(*altair.SignedContributionAndProof))
		}
		return vapi.SubmitSyncCommitteeContributions(ctx, l), nil
	}
	return nil, fmt.Errorf("no validator API endpoint for kind %q", c.kind)
}
