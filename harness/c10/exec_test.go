// Package c10 instantiates the abstract admission cases of specs/Admission with real eth2 objects and real BLS key
// shares, runs each through the REAL handlers (validatorapi.Component endpoints, parsigex's request handler with
// parsigex.NewEth2Verifier and core.NewDutyGater) and records what happened.  It contains no expected outcome.
package c10

import (
	"bytes"
	"context"
	"fmt"
	"math"
	"reflect"
	"sort"
	"testing"
	"time"

	eth2api "github.com/attestantio/go-eth2-client/api"
	eth2v1 "github.com/attestantio/go-eth2-client/api/v1"
	eth2spec "github.com/attestantio/go-eth2-client/spec"
	"github.com/attestantio/go-eth2-client/spec/altair"
	eth2p0 "github.com/attestantio/go-eth2-client/spec/phase0"
	"github.com/libp2p/go-libp2p"
	"github.com/libp2p/go-libp2p/core/crypto"
	"github.com/libp2p/go-libp2p/core/host"
	"github.com/libp2p/go-libp2p/core/peer"

	"github.com/obolnetwork/charon/app/eth2wrap"
	"github.com/obolnetwork/charon/core"
	pbv1 "github.com/obolnetwork/charon/core/corepb/v1"
	"github.com/obolnetwork/charon/core/parsigex"
	"github.com/obolnetwork/charon/core/validatorapi"
	"github.com/obolnetwork/charon/eth2util/signing"
	"github.com/obolnetwork/charon/p2p"
	"github.com/obolnetwork/charon/tbls"
	"github.com/obolnetwork/charon/testutil"
	"github.com/obolnetwork/charon/testutil/beaconmock"

	"verifharness/drv"
)

const (
	nowEpoch       = 100  // plain cases: contents live in this epoch (deneb fork of the mock), the gater's clock too
	otherForkDelta = 4096 // nowEpoch+4096 lies in the mock's next fork (electra from epoch 2048)
	laterEpoch     = nowEpoch + otherForkDelta // "laterFork" objects live wholly in this epoch (slot and target epoch)
	unknownVIdx    = 999
)

// valKeys is one validator: group key, its threshold shares, its beacon-chain index.
type valKeys struct {
	label     int
	secret    tbls.PrivateKey
	pub       tbls.PublicKey
	corePK    core.PubKey
	eth2PK    eth2p0.BLSPubKey
	shares    map[int]tbls.PrivateKey
	pubshares map[int]tbls.PublicKey
	vidx      eth2p0.ValidatorIndex
}

// delivery is one entry a subscriber received.
type delivery struct {
	pk   core.PubKey
	idx  int
	sig  []byte
	root [32]byte // message root of the delivered object (zero if it has none)
	dt   int
}

// caseCtx is what the registered input stubs answer with while one case runs.
type caseCtx struct {
	proposer core.PubKey                // the scheduled proposer (duty definition)
	agreed   *eth2api.VersionedProposal // the proposal consensus agreed on (DutyDB)
	got      []delivery
}

// layout places an object in time: its slot and (attestation data) its target epoch.
type layout struct {
	slot eth2p0.Slot
	tgt  eth2p0.Epoch
}

func (w *world) slotEpoch() eth2p0.Epoch { return eth2p0.Epoch(uint64(w.lay.slot) / w.spe) }

// place sets the layout of the case and moves the gater's clock to the object's slot.
func (w *world) place(side string) {
	switch side {
	case "before": // slot in the last slot before the fork activation, target epoch at it
		w.lay = layout{slot: eth2p0.Slot(uint64(w.forkAt)*w.spe - 1), tgt: w.forkAt}
	case "after": // slot in the first slot of the new fork, target epoch before it
		w.lay = layout{slot: eth2p0.Slot(uint64(w.forkAt) * w.spe), tgt: w.forkAt - 1}
	case "later": // the whole object in the mock's next fork version
		w.lay = layout{slot: eth2p0.Slot(laterEpoch*w.spe + 3), tgt: laterEpoch}
	default:
		w.lay = layout{slot: eth2p0.Slot(nowEpoch*w.spe + 3), tgt: nowEpoch}
	}
	w.now = w.gen.Add(time.Duration(uint64(w.lay.slot)) * w.slotD).Add(time.Second)
}

type world struct {
	t      *testing.T
	ctx    context.Context
	n, v   int
	bmock  beaconmock.Mock
	spe    uint64
	lay    layout       // where the current case's object sits in time
	forkAt eth2p0.Epoch // first fork activation after nowEpoch in the mock's schedule
	now    time.Time    // the duty gater's clock (set per case)
	gen    time.Time
	slotD  time.Duration
	dom    map[string]signing.DomainName // the MODEL's tables (Cfg step): signing domain per kind ...
	esrc   map[string]string             // ... and which of the object's time fields selects the fork version
	vals   map[int]*valKeys              // labels 1..V in the lock, V+1 only known to the beacon node
	lock   map[core.PubKey]map[int]tbls.PublicKey
	// the components under test: created afresh for every schedule (fresh), shared by the calls of one schedule
	vapis    map[int]*validatorapi.Component
	psx      map[int]*parsigex.ParSigEx
	verifier func(context.Context, peer.ID, core.Duty, core.PubKey, core.ParSignedData) error
	gater    core.DutyGaterFunc
	hosts    []host.Host
	peers    []peer.ID
	cur    *caseCtx
	labels map[core.PubKey]int
}

func (w *world) record(_ context.Context, duty core.Duty, set core.ParSignedDataSet) error {
	keys := make([]string, 0, len(set))
	for pk := range set {
		keys = append(keys, string(pk))
	}
	sort.Strings(keys)
	for _, k := range keys {
		d := set[core.PubKey(k)]
		var root [32]byte
		if d.SignedData != nil {
			if r, err := d.MessageRoot(); err == nil {
				root = r
			}
		}
		w.cur.got = append(w.cur.got, delivery{pk: core.PubKey(k), idx: d.ShareIdx, sig: append([]byte(nil), d.Signature()...), root: root, dt: int(duty.Type)})
	}
	return nil
}

func newVal(t *testing.T, label, n int) *valKeys {
	t.Helper()
	secret, err := tbls.GenerateSecretKey()
	must(t, err)
	pub, err := tbls.SecretToPublicKey(secret)
	must(t, err)
	thr := (2*n + 2) / 3
	shares, err := tbls.ThresholdSplit(secret, uint(n), uint(thr))
	must(t, err)
	pubshares := map[int]tbls.PublicKey{}
	for i, s := range shares {
		ps, err := tbls.SecretToPublicKey(s)
		must(t, err)
		pubshares[i] = ps
	}
	cpk, err := core.PubKeyFromBytes(pub[:])
	must(t, err)
	return &valKeys{label: label, secret: secret, pub: pub, corePK: cpk, eth2PK: eth2p0.BLSPubKey(pub), shares: shares,
		pubshares: pubshares, vidx: eth2p0.ValidatorIndex(100 + label)}
}

func must(t *testing.T, err error) {
	t.Helper()
	if err != nil {
		t.Fatalf("setup: %v", err)
	}
}

func newWorld(t *testing.T, n, v int) *world {
	t.Helper()
	ctx := context.Background()
	w := &world{t: t, ctx: ctx, n: n, v: v, vals: map[int]*valKeys{}, lock: map[core.PubKey]map[int]tbls.PublicKey{},
		vapis: map[int]*validatorapi.Component{}, psx: map[int]*parsigex.ParSigEx{}, labels: map[core.PubKey]int{}, cur: &caseCtx{}}
	valSet := beaconmock.ValidatorSet{}
	for l := 1; l <= v+1; l++ {
		k := newVal(t, l, n)
		w.vals[l] = k
		w.labels[k.corePK] = l
		if l <= v {
			w.lock[k.corePK] = k.pubshares
		}
		valSet[k.vidx] = &eth2v1.Validator{Index: k.vidx, Balance: 32, Status: eth2v1.ValidatorStateActiveOngoing,
			Validator: &eth2p0.Validator{PublicKey: k.eth2PK, EffectiveBalance: 32, WithdrawalCredentials: []byte("12345678901234567890123456789012")}}
	}
	bmock, err := beaconmock.New(ctx, beaconmock.WithValidatorSet(valSet))
	must(t, err)
	w.bmock = bmock
	w.spe, err = bmock.SlotsPerEpoch(ctx)
	must(t, err)
	w.gen, err = eth2wrap.FetchGenesisTime(ctx, bmock)
	must(t, err)
	w.slotD, _, err = eth2wrap.FetchSlotsConfig(ctx, bmock)
	must(t, err)
	forks, err := bmock.ForkSchedule(ctx, &eth2api.ForkScheduleOpts{})
	must(t, err)
	for _, f := range forks.Data {
		if f.Epoch > nowEpoch && (w.forkAt == 0 || f.Epoch < w.forkAt) {
			w.forkAt = f.Epoch
		}
	}
	if w.forkAt == 0 || w.forkAt > nowEpoch+otherForkDelta {
		t.Fatalf("setup: the mock's fork schedule has no activation in (%d, %d]", nowEpoch, nowEpoch+otherForkDelta)
	}
	for _, f := range forks.Data { // exactly ONE activation between the two epochs the objects are placed in
		if f.Epoch > w.forkAt && f.Epoch <= laterEpoch {
			t.Fatalf("setup: the mock's fork schedule has a second activation (epoch %d) in (%d, %d]", f.Epoch, nowEpoch, laterEpoch)
		}
	}
	w.place("")
	for i := 0; i < n; i++ {
		priv, _, err := crypto.GenerateSecp256k1Key(nil)
		must(t, err)
		id, err := peer.IDFromPrivateKey(priv)
		must(t, err)
		w.peers = append(w.peers, id)
		h, err := libp2p.New(libp2p.NoListenAddrs)
		must(t, err)
		t.Cleanup(func() { _ = h.Close() })
		w.hosts = append(w.hosts, h)
	}
	w.fresh()
	return w
}

// fresh discards the components under test: every schedule runs against instances of its own (a verifier, gater,
// validator API or parsigex component must not carry anything from one schedule into the next; the calls of ONE
// schedule go to the same instances).
func (w *world) fresh() {
	var err error
	w.gater, err = core.NewDutyGater(w.ctx, w.bmock, core.WithDutyGaterForT(w.t, func() time.Time { return w.now }, 2))
	must(w.t, err)
	w.verifier, err = parsigex.NewEth2Verifier(w.bmock, w.lock)
	must(w.t, err)
	w.vapis, w.psx = map[int]*validatorapi.Component{}, map[int]*parsigex.ParSigEx{}
}

func (w *world) vapi(node int) *validatorapi.Component {
	if v, ok := w.vapis[node]; ok {
		return v
	}
	vapi, err := validatorapi.NewComponent(w.bmock, w.lock, node, func(core.PubKey) string { return "0x0000000000000000000000000000000000000001" }, true, 30000000)
	must(w.t, err)
	w.stubs(vapi)
	vapi.Subscribe(w.record)
	w.vapis[node] = vapi
	return vapi
}

func (w *world) px(node int) *parsigex.ParSigEx {
	if x, ok := w.psx[node]; ok {
		return x
	}
	px := parsigex.NewParSigEx(w.hosts[node-1], p2p.Send, node-1, w.peers, w.verifier, w.gater)
	px.Subscribe(w.record)
	w.psx[node] = px
	return px
}

// stubs registers the inputs the handlers read from the scheduler / DutyDB / AggSigDB.
func (w *world) stubs(vapi *validatorapi.Component) {
	vapi.RegisterPubKeyByAttestation(func(_ context.Context, _, _, valIdx uint64) (core.PubKey, error) {
		for _, k := range w.vals {
			if uint64(k.vidx) == valIdx {
				return k.corePK, nil
			}
		}
		return "", fmt.Errorf("no attester duty for validator index %d", valIdx)
	})
	vapi.RegisterGetDutyDefinition(func(_ context.Context, duty core.Duty) (core.DutyDefinitionSet, error) {
		res := core.DutyDefinitionSet{}
		switch duty.Type {
		case core.DutyAttester:
			for _, k := range w.vals {
				res[k.corePK] = core.AttesterDefinition{AttesterDuty: eth2v1.AttesterDuty{PubKey: k.eth2PK, Slot: eth2p0.Slot(duty.Slot),
					ValidatorIndex: k.vidx, CommitteeIndex: preElectraCommittee, CommitteeLength: committeeLen, CommitteesAtSlot: 16,
					ValidatorCommitteeIndex: uint64(k.label)}}
			}
		case core.DutyProposer:
			res[w.cur.proposer] = core.ProposerDefinition{ProposerDuty: eth2v1.ProposerDuty{Slot: eth2p0.Slot(duty.Slot)}}
		default:
		}
		return res, nil
	})
	vapi.RegisterAwaitProposal(func(context.Context, uint64) (*eth2api.VersionedProposal, error) {
		if w.cur.agreed == nil {
			return testutil.RandomCapellaVersionedProposal(), nil
		}
		return w.cur.agreed, nil
	})
	vapi.RegisterAwaitAggSigDB(func(_ context.Context, duty core.Duty, _ core.PubKey, _ core.SubcommitteeIndex) (core.SignedData, error) {
		if duty.Type == core.DutyPrepareSyncContribution {
			return testutil.RandomCoreSyncCommitteeSelection(), nil
		}
		return testutil.RandomCoreBeaconCommitteeSelection(), nil
	})
	vapi.RegisterAwaitAttestation(func(context.Context, uint64, uint64) (*eth2p0.AttestationData, error) {
		return testutil.RandomAttestationDataPhase0(), nil
	})
	vapi.RegisterAwaitSyncContribution(func(context.Context, uint64, uint64, eth2p0.Root) (*altair.SyncCommitteeContribution, error) {
		return testutil.RandomSyncCommitteeContribution(), nil
	})
	vapi.RegisterAwaitAggAttestation(func(context.Context, uint64, eth2p0.Root, eth2p0.CommitteeIndex) (*eth2spec.VersionedAttestation, error) {
		return testutil.RandomDenebVersionedAttestation(), nil
	})
}

// signedInputEndpoints lists the exported methods of validatorapi.Component with a parameter that (transitively)
// contains a BLS signature: the endpoints through which a validator client can hand signed data to the node.
func signedInputEndpoints() []string {
	sigT := reflect.TypeOf(eth2p0.BLSSignature{})
	var contains func(t reflect.Type, seen map[reflect.Type]bool) bool
	contains = func(t reflect.Type, seen map[reflect.Type]bool) bool {
		if t == sigT {
			return true
		}
		if seen[t] {
			return false
		}
		seen[t] = true
		switch t.Kind() {
		case reflect.Ptr, reflect.Slice, reflect.Array:
			return contains(t.Elem(), seen)
		case reflect.Map:
			return contains(t.Key(), seen) || contains(t.Elem(), seen)
		case reflect.Struct:
			for i := 0; i < t.NumField(); i++ {
				if contains(t.Field(i).Type, seen) {
					return true
				}
			}
		default:
		}
		return false
	}
	pt := reflect.TypeOf((*validatorapi.Component)(nil))
	var res []string
	for i := 0; i < pt.NumMethod(); i++ {
		m := pt.Method(i)
		for p := 1; p < m.Type.NumIn(); p++ {
			if contains(m.Type.In(p), map[reflect.Type]bool{}) {
				res = append(res, m.Name)
				break
			}
		}
	}
	sort.Strings(res)
	return res
}

func TestExec(t *testing.T) {
	drv.QuietLogs(t)
	scheds := drv.ReadSchedules(t)
	tr := drv.NewTracer(t)
	defer tr.Close()
	real := signedInputEndpoints()
	var w *world
	for sid, s := range scheds {
		if len(s) < 2 || len(s) > 4 || drv.Str(s[0]["ev"]) != "Cfg" {
			t.Fatalf("schedule %d: want [Cfg, Submit (x1..3) | SubmitBatch | SubmitBig]", sid)
		}
		for _, st := range s[1:] {
			if ev := drv.Str(st["ev"]); ev != "Submit" && !((ev == "SubmitBatch" || ev == "SubmitBig") && len(s) == 2) {
				t.Fatalf("schedule %d: want [Cfg, Submit (x1..3) | SubmitBatch | SubmitBig]", sid)
			}
		}
		n, v := drv.Num(s[0]["N"]), drv.Num(s[0]["V"])
		tr.Emit(drv.Step{"ev": "Reset", "sid": sid, "N": n, "V": v})
		var model []string
		for _, e := range s[0]["endpoints"].([]any) {
			model = append(model, drv.Str(e))
		}
		sort.Strings(model)
		if !reflect.DeepEqual(model, real) {
			tr.Emit(drv.Step{"ev": "Anomaly", "what": "unmodelled endpoint", "model": model, "code": real})
			return
		}
		if w == nil || w.n != n || w.v != v {
			w = newWorld(t, n, v)
		} else {
			w.fresh()
		}
		w.dom, w.esrc = map[string]signing.DomainName{}, map[string]string{}
		for k, d := range s[0]["dom"].(map[string]any) {
			w.dom[k] = signing.DomainName(drv.Str(d))
		}
		for k, e := range s[0]["esrc"].(map[string]any) {
			w.esrc[k] = drv.Str(e)
		}
		c := s[1]["c"].(map[string]any)
		var err error
		switch {
		case drv.Str(s[1]["ev"]) == "SubmitBatch":
			tr.Emit(drv.Step{"ev": "SubmitBatch", "c": c})
			err = w.runBatch(tr, parseCase(c), c["pat"].(map[string]any))
		case drv.Str(s[1]["ev"]) == "SubmitBig":
			err = w.runBig(tr, sid, c)
		case len(s) == 2 && drv.Str(c["alt"]) != "foreignSig":
			tr.Emit(drv.Step{"ev": "Submit", "c": c})
			err = w.run(tr, parseCase(c))
		case isForkSeq(s[1:]):
			// calls on the SAME component instances with fresh, individually signed objects that lie in different
			// fork versions: every call is built and submitted like a single-element case
			for _, st := range s[1:] {
				raw := st["c"].(map[string]any)
				tr.Emit(drv.Step{"ev": "Submit", "c": raw})
				if err = w.run(tr, parseCase(raw)); err != nil {
					break
				}
			}
		default:
			err = w.runSeq(tr, s[1:])
		}
		if err != nil {
			tr.Emit(drv.Step{"ev": "Anomaly", "what": err.Error(), "c": c})
			return
		}
	}
}

// isForkSeq: a multi-call schedule one of whose calls places or signs its object in another fork version (the calls of
// every other multi-call schedule carry one and the same signature, see runSeq).
func isForkSeq(steps []drv.Step) bool {
	for _, st := range steps {
		switch drv.Str(st["c"].(map[string]any)["alt"]) {
		case "wrongFork", "laterFork", "laterForkBad", "straddleOK", "straddleBad":
			return true
		}
	}
	return false
}

type acase struct {
	path, kind, ver, alt, as string
	node, sender, val, ai    int
}

func parseCase(c map[string]any) acase {
	return acase{path: drv.Str(c["path"]), kind: drv.Str(c["kind"]), ver: drv.Str(c["ver"]), alt: drv.Str(c["alt"]),
		as: drv.Str(c["as"]), node: drv.Num(c["node"]), sender: drv.Num(c["sender"]), val: drv.Num(c["val"]), ai: drv.Num(c["ai"])}
}

// entry is one concrete submitted entry.
type entry struct {
	s       *subject
	claimed *valKeys // validator the submission names (set key on the peer path)
	idx     int      // share index claimed on the peer path
}

// run builds the case's concrete submission, sends it through the real handler and logs the outcome.
func (w *world) run(tr *drv.Tracer, c acase) error {
	w.cur = &caseCtx{}
	switch c.alt {
	case "straddleOK", "straddleBad":
		w.place(c.as)
	case "laterFork", "laterForkBad":
		w.place("later")
	default:
		w.place("")
	}
	own := c.node
	if c.path == "peer" {
		own = c.sender
	}
	var entries []entry
	mk := func(val int, alt string, ai int, as string) error {
		e, err := w.build(c, own, val, alt, ai, as)
		if err != nil {
			return err
		}
		entries = append(entries, e)
		return nil
	}
	other := c.val%w.v + 1
	var err error
	switch c.alt {
	case "mixedFirst":
		if err = mk(other, "otherShare", own%w.n+1, ""); err == nil {
			err = mk(c.val, "none", 0, "")
		}
	case "mixedSecond":
		if err = mk(c.val, "none", 0, ""); err == nil {
			err = mk(other, "otherShare", own%w.n+1, "")
		}
	default:
		err = mk(c.val, c.alt, c.ai, c.as)
	}
	if err != nil {
		return err
	}
	var herr error
	if c.path == "vc" {
		herr, err = w.submitVC(c, entries)
	} else {
		herr, err = w.submitPeer(c, entries)
	}
	if err != nil {
		return err
	}
	for _, d := range w.cur.got {
		k := 0
		for j, e := range entries {
			sig := e.s.getSig()
			if e.claimed.corePK == d.pk && bytes.Equal(sig[:], d.sig) {
				k = j + 1
			}
		}
		tr.Emit(drv.Step{"ev": "Deliver", "k": k, "val": w.labels[d.pk], "idx": d.idx, "dt": d.dt})
	}
	tr.Emit(drv.Step{"ev": "Return", "err": herr != nil, "msg": errStr(herr)})
	return nil
}

func errStr(err error) string {
	if err == nil {
		return ""
	}
	s := err.Error()
	if len(s) > 120 {
		s = s[:120]
	}
	return s
}

// build creates one entry: a valid submission of validator `val` signed with share `own`, then ONE alteration.
func (w *world) build(c acase, own, val int, alt string, ai int, as string) (entry, error) {
	claimed := w.vals[val]
	signerVal, signerIdx := claimed, own
	vidx := claimed.vidx
	switch alt {
	case "unknownLock":
		claimed = w.vals[w.v+1]
		signerVal, vidx = claimed, claimed.vidx
	case "unknownBN":
		vidx = unknownVIdx
	case "otherShare":
		signerIdx = ai
	case "otherVal":
		signerVal = w.vals[ai]
	}
	s, err := w.newSubject(c.kind, c.ver, claimed, vidx, alt == "innerProof", own)
	if err != nil {
		return entry{}, err
	}
	// sign as the MODEL's tables say: domain name of the kind, fork version at the kind's epoch source
	dom, ok := w.dom[c.kind]
	src := w.esrc[c.kind]
	epoch, ok2 := s.times[src]
	if !ok || !ok2 {
		return entry{}, fmt.Errorf("model tables: kind %s has domain %q, epoch source %q; the object has %v", c.kind, dom, src, s.times)
	}
	if alt == "straddleBad" { // the fork version at the object's OTHER time field
		other := "slot"
		if src == "slot" {
			other = "target"
		}
		if epoch, ok = s.times[other]; !ok {
			return entry{}, fmt.Errorf("kind %s has no second time field", c.kind)
		}
	}
	if alt == "wrongDomain" {
		dom = signing.DomainName(as)
	}
	root, err := s.root()
	if err != nil {
		return entry{}, err
	}
	var sigData [32]byte
	switch {
	case alt == "wrongFork" && src == "genesis" && alt != "wrongDomain":
		// the builder domain is pinned to the genesis fork version: sign with the current fork version instead
		spec, err := w.bmock.Spec(w.ctx, &eth2api.SpecOpts{})
		if err != nil {
			return entry{}, err
		}
		d, err := w.bmock.Domain(w.ctx, spec.Data[string(dom)].(eth2p0.DomainType), nowEpoch)
		if err != nil {
			return entry{}, err
		}
		sigData, err = (&eth2p0.SigningData{ObjectRoot: root, Domain: d}).HashTreeRoot()
		if err != nil {
			return entry{}, err
		}
	default:
		if alt == "wrongFork" {
			epoch += otherForkDelta
		}
		if alt == "laterForkBad" { // the object lies in the next fork version, the signer used the previous one
			if epoch < otherForkDelta {
				return entry{}, fmt.Errorf("kind %s: laterForkBad needs an object placed in epoch %d, it is in %d", c.kind, laterEpoch, epoch)
			}
			epoch -= otherForkDelta
		}
		sigData, err = signing.GetDataRoot(w.ctx, w.bmock, dom, epoch, root)
		if err != nil {
			return entry{}, err
		}
	}
	sig, err := tbls.Sign(signerVal.shares[signerIdx], sigData[:])
	if err != nil {
		return entry{}, err
	}
	esig := eth2p0.BLSSignature(sig)
	switch alt {
	case "zeroSig":
		esig = eth2p0.BLSSignature{}
	case "badSig":
		for i := range esig {
			esig[i] = 0xff
		}
	}
	s.setSig(esig)
	if alt == "field" {
		if err := s.mutate(as); err != nil {
			return entry{}, err
		}
	}
	if c.path == "vc" && (c.kind == "proposal" || c.kind == "blinded") {
		w.cur.proposer = claimed.corePK
		w.cur.agreed = s.unsigned
		if alt == "payload" {
			vi := vidx
			if as == "proposer" {
				vi = w.vals[val%w.v+1].vidx
			}
			w.cur.agreed, err = w.newProposal(c.kind, c.ver, vi)
			if err != nil {
				return entry{}, err
			}
		}
	}
	if c.path == "vc" && c.kind == "randao" {
		w.cur.proposer = claimed.corePK
	}
	idx := own
	switch alt {
	case "idx0":
		idx = 0
	case "idxN1":
		idx = w.n + 1
	case "idxWrap": // out of range, congruent to the signing share's index modulo a power of two
		idx = own + []int{0, -512, -256, 256, 512, 65536, -65536, 1 << 24}[ai%8]
	case "idxOther":
		idx = ai
	}
	return entry{s: s, claimed: claimed, idx: idx}, nil
}

func (w *world) submitPeer(c acase, entries []entry) (herr, err error) {
	slot := uint64(w.lay.slot)
	// the duty type under which a peer files this kind of object
	kindDuty := map[string]core.DutyType{"attestation": core.DutyAttester, "proposal": core.DutyProposer, "blinded": core.DutyProposer,
		"randao": core.DutyRandao, "exit": core.DutyExit, "registration": core.DutyBuilderRegistration,
		"bcselection": core.DutyPrepareAggregator, "aggregate": core.DutyAggregator, "aggregate_legacy": core.DutyAggregator,
		"syncmsg": core.DutySyncMessage, "scselection": core.DutyPrepareSyncContribution, "contribution": core.DutySyncContribution}
	dt := int(kindDuty[c.kind])
	switch c.alt {
	case "dutyType":
		dt = c.ai
	case "future":
		slot = (uint64(w.slotEpoch()) + 3) * w.spe
	case "futureEdge":
		slot = (uint64(w.slotEpoch())+2)*w.spe + w.spe - 1
	case "hugeSlot":
		switch c.as {
		case "2p63":
			slot = 1 << 63
		case "2p63now":
			slot = 1<<63 + uint64(w.lay.slot)
		case "max":
			slot = math.MaxUint64
		default:
			return nil, fmt.Errorf("unknown huge slot %q", c.as)
		}
	}
	set := map[string]*pbv1.ParSignedData{}
	for _, e := range entries {
		psd, err := e.s.parsig(e.idx)
		if err != nil {
			return nil, err
		}
		pb, err := core.ParSignedDataToProto(psd)
		if err != nil {
			return nil, err
		}
		pb.ShareIdx = int32(e.idx)
		set[string(e.claimed.corePK)] = pb
	}
	msg := &pbv1.ParSigExMsg{Duty: &pbv1.Duty{Slot: slot, Type: int32(dt)}, DataSet: &pbv1.ParSignedDataSet{Set: set}}
	node := c.sender%w.n + 1
	_, _, herr = w.px(node).VerifHandle(w.ctx, w.peers[c.sender-1], msg)
	return herr, nil
}
