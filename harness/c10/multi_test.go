package c10

// Multi-element requests (batches) and multi-call schedules (sequences that carry one signature).  As everywhere in
// this package: the executor builds what the schedule describes, calls the real handlers and records; it holds no
// expectation.

import (
	"bytes"
	"fmt"

	eth2p0 "github.com/attestantio/go-eth2-client/spec/phase0"

	"github.com/obolnetwork/charon/eth2util/signing"
	"github.com/obolnetwork/charon/tbls"

	"verifharness/drv"
)

// submitted is what was handed to the handler for one entry (snapshot at the time of the call).
type submitted struct {
	pk   string
	sig  eth2p0.BLSSignature
	root [32]byte
}

func snapshot(entries []entry) []submitted {
	var res []submitted
	for _, e := range entries {
		sub := submitted{pk: string(e.claimed.corePK), sig: e.s.getSig()}
		if r, err := e.s.root(); err == nil {
			sub.root = r
		}
		res = append(res, sub)
	}
	return res
}

// logOutcome emits one Deliver per entry a subscriber received (k: the submitted entry it is - validator, signature and
// content; 0: none of them) and the Return of the call.
func (w *world) logOutcome(tr *drv.Tracer, subs []submitted, herr error) {
	used := map[int]bool{}
	for _, d := range w.cur.got {
		k := 0
		for pass := 0; pass < 2 && k == 0; pass++ { // an entry not matched yet first (exact duplicates)
			for j := len(subs) - 1; j >= 0; j-- {
				sb := subs[j]
				if sb.pk != string(d.pk) || !bytes.Equal(sb.sig[:], d.sig) || (d.root != [32]byte{} && sb.root != d.root) {
					continue
				}
				if pass == 0 && used[j] {
					continue
				}
				k = j + 1
				break
			}
		}
		if k > 0 {
			used[k-1] = true
		}
		tr.Emit(drv.Step{"ev": "Deliver", "k": k, "val": w.labels[d.pk], "idx": d.idx, "dt": d.dt})
	}
	tr.Emit(drv.Step{"ev": "Return", "err": herr != nil, "msg": errStr(herr)})
}

// sigOver signs the subject's current content as the MODEL's tables say (domain name of the kind, fork version at the
// kind's epoch source) with share idx of validator k.
func (w *world) sigOver(kind string, s *subject, k *valKeys, idx int) (eth2p0.BLSSignature, error) {
	dom, ok := w.dom[kind]
	src := w.esrc[kind]
	epoch, ok2 := s.times[src]
	if !ok || !ok2 {
		return eth2p0.BLSSignature{}, fmt.Errorf("model tables: kind %s has domain %q, epoch source %q; the object has %v", kind, dom, src, s.times)
	}
	root, err := s.root()
	if err != nil {
		return eth2p0.BLSSignature{}, err
	}
	sigData, err := signing.GetDataRoot(w.ctx, w.bmock, dom, epoch, root)
	if err != nil {
		return eth2p0.BLSSignature{}, err
	}
	sig, err := tbls.Sign(k.shares[idx], sigData[:])
	return eth2p0.BLSSignature(sig), err
}

// setStubs makes the scheduler / DutyDB stubs answer for the submitted object (validator API, proposer duties).
func (w *world) setStubs(c acase, s *subject, claimed *valKeys) {
	if c.path != "vc" {
		return
	}
	switch c.kind {
	case "proposal", "blinded":
		w.cur.proposer, w.cur.agreed = claimed.corePK, s.unsigned
	case "randao":
		w.cur.proposer = claimed.corePK
	}
}

func (w *world) submit(c acase, entries []entry) (herr, err error) {
	if c.path == "vc" {
		return w.submitVC(c, entries)
	}
	return w.submitPeer(c, entries)
}

func defVer(kind string) string {
	switch kind {
	case "attestation", "proposal", "blinded", "aggregate":
		return "deneb"
	}
	return "-"
}

// runSeq runs the calls of one schedule against the same component instances.  All calls carry the same signature:
// the valid signature of share `own` of validator `val` over the ORIGIN object (kind / version of the first call's
// case; for a foreignSig case the kind named by it).  none: the origin as it is; field: the origin with that field
// changed (put back after the call); dutyType: the origin filed under another duty type; foreignSig: a fresh
// well-formed object of the case's kind with the origin's signature.
func (w *world) runSeq(tr *drv.Tracer, steps []drv.Step) error {
	var (
		org     *entry
		okind   string
		over    string
		orgSig  eth2p0.BLSSignature
		orgCase acase
	)
	for _, st := range steps {
		raw := st["c"].(map[string]any)
		c := parseCase(raw)
		tr.Emit(drv.Step{"ev": "Submit", "c": raw})
		w.cur = &caseCtx{}
		w.place("")
		own := c.node
		if c.path == "peer" {
			own = c.sender
		}
		k, v := c.kind, c.ver
		if c.alt == "foreignSig" {
			k, v = c.as, defVer(c.as)
		}
		if org == nil {
			oc := c
			oc.kind, oc.ver, oc.alt, oc.ai, oc.as = k, v, "none", 0, ""
			e, err := w.build(oc, own, c.val, "none", 0, "")
			if err != nil {
				return err
			}
			org, okind, over, orgSig, orgCase = &e, k, v, e.s.getSig(), oc
		} else if k != okind || v != over || c.path != orgCase.path || c.node != orgCase.node || c.sender != orgCase.sender || c.val != orgCase.val {
			return fmt.Errorf("calls of one schedule do not share an origin: %s/%s after %s/%s", k, v, okind, over)
		}
		entries := []entry{*org}
		restore := func() {}
		switch c.alt {
		case "none", "dutyType":
		case "field":
			restore = org.s.snap()
			if err := org.s.mutate(c.as); err != nil {
				return err
			}
		case "foreignSig":
			s2, err := w.newSubject(c.kind, c.ver, org.claimed, org.claimed.vidx, false, own)
			if err != nil {
				return err
			}
			s2.setSig(orgSig)
			entries = []entry{{s: s2, claimed: org.claimed, idx: own}}
		default:
			return fmt.Errorf("alteration %q cannot be part of a sequence", c.alt)
		}
		w.cur = &caseCtx{} // (building the origin may have set stubs)
		w.setStubs(c, entries[0].s, org.claimed)
		subs := snapshot(entries)
		herr, err := w.submit(c, entries)
		if err != nil {
			return err
		}
		w.logOutcome(tr, subs, herr)
		restore()
	}
	return nil
}

// the field a "field" element of a batch changes after signing (a content field: the element stays in its slot)
var batchField = map[string]string{"attestation": "root", "proposal": "body", "blinded": "body", "randao": "epoch", "exit": "epoch",
	"registration": "gas", "bcselection": "slot", "aggregate": "attroot", "aggregate_legacy": "attroot", "syncmsg": "root",
	"scselection": "subcomm", "contribution": "root"}

// the field that distinguishes the contents c1, c2, c3 of kinds whose signed content is nothing but slot / epoch / subcommittee
var varyField = map[string]string{"bcselection": "slot", "scselection": "subcomm", "randao": "epoch"}

func shareable(kind string) bool {
	switch kind {
	case "attestation", "syncmsg", "bcselection", "scselection", "randao":
		return true
	}
	return false
}

func nums(x any) []int {
	var res []int
	for _, e := range x.([]any) {
		res = append(res, drv.Num(e))
	}
	return res
}

// runBatch builds ONE request with the pattern's elements and sends it through the real handler.  Element k: validator
// val+vs[k], content cs[k] (equal cs = equal signed content, where the kind's signed content does not name the validator;
// two elements with the same validator and content are the same object), signature ss[k] = j: the signature share
// `own` of element j's validator made over element j's content (j = k: its own valid signature), 0: the class bad[k].
func (w *world) runBatch(tr *drv.Tracer, c acase, pat map[string]any) error {
	w.cur = &caseCtx{}
	w.place("")
	own := c.node
	if c.path == "peer" {
		own = c.sender
	}
	vs, cs, ss := nums(pat["vs"]), nums(pat["cs"]), nums(pat["ss"])
	var bad []string
	for _, b := range pat["bad"].([]any) {
		bad = append(bad, drv.Str(b))
	}
	n := len(vs)
	if n < 2 || n > 3 || len(cs) != n || len(ss) != n || len(bad) != n {
		return fmt.Errorf("malformed batch pattern %v", pat)
	}
	type elem struct {
		s       *subject
		claimed *valKeys
		valid   eth2p0.BLSSignature
		sameAs  int // >= 0: the very same object as that earlier element
	}
	els := make([]elem, n)
	for k := 0; k < n; k++ {
		claimed := w.vals[(c.val-1+vs[k])%w.v+1]
		els[k] = elem{claimed: claimed, sameAs: -1}
		if !shareable(c.kind) {
			for j := 0; j < k; j++ {
				if vs[j] == vs[k] && cs[j] == cs[k] {
					els[k].s, els[k].valid, els[k].sameAs = els[j].s, els[j].valid, j
				}
			}
			if els[k].s != nil {
				continue
			}
		}
		s, err := w.newSubject(c.kind, c.ver, claimed, claimed.vidx, false, own)
		if err != nil {
			return err
		}
		if shareable(c.kind) {
			if f, ok := varyField[c.kind]; ok {
				for i := 1; i < cs[k]; i++ {
					if err := s.mutate(f); err != nil {
						return err
					}
				}
			} else {
				for j := 0; j < k; j++ {
					if cs[j] == cs[k] {
						if s.share == nil || !s.share(els[j].s) {
							return fmt.Errorf("kind %s: cannot share content between elements", c.kind)
						}
						break
					}
				}
			}
		}
		els[k].s = s
		if els[k].valid, err = w.sigOver(c.kind, s, claimed, own); err != nil {
			return err
		}
	}
	sigs := make([]eth2p0.BLSSignature, n)
	for k := 0; k < n; k++ {
		var err error
		switch {
		case ss[k] >= 1 && ss[k] <= n:
			sigs[k] = els[ss[k]-1].valid
		case ss[k] != 0:
			return fmt.Errorf("malformed batch pattern %v", pat)
		case bad[k] == "otherShare":
			sigs[k], err = w.sigOver(c.kind, els[k].s, els[k].claimed, own%w.n+1)
		case bad[k] == "otherVal":
			sigs[k], err = w.sigOver(c.kind, els[k].s, w.vals[els[k].claimed.label%w.v+1], own)
		case bad[k] == "zeroSig":
		case bad[k] == "field":
			sigs[k] = els[k].valid
		default:
			return fmt.Errorf("unknown element class %q", bad[k])
		}
		if err != nil {
			return err
		}
	}
	var entries []entry
	for k := 0; k < n; k++ {
		if j := els[k].sameAs; j >= 0 {
			if sigs[j] != sigs[k] || bad[k] == "field" || bad[j] == "field" {
				return fmt.Errorf("pattern %v needs two copies of one object with different signatures", pat)
			}
		}
		els[k].s.setSig(sigs[k])
		entries = append(entries, entry{s: els[k].s, claimed: els[k].claimed, idx: own})
	}
	for k := 0; k < n; k++ {
		if ss[k] == 0 && bad[k] == "field" {
			if err := els[k].s.mutate(batchField[c.kind]); err != nil {
				return err
			}
		}
	}
	w.setStubs(c, entries[0].s, entries[0].claimed)
	subs := snapshot(entries)
	herr, err := w.submit(c, entries)
	if err != nil {
		return err
	}
	w.logOutcome(tr, subs, herr)
	return nil
}

// bigDeliveries is the number of times one large peer set is delivered, each time to fresh component instances: which
// entries a handler looks at first is Go map order, so one delivery shows one of many orders.
const bigDeliveries = 6

// runBig builds ONE peer message with the partial signatures of validators 1..K (K = the case's ai), all made with the
// sender's share for the same duty; bad[k] names the one alteration of entry k ("" = none).  The message is delivered
// bigDeliveries times to fresh component instances; every delivery is a trace of its own (the first continues the
// schedule's Reset, the others start with a Reset carrying the same sid).
func (w *world) runBig(tr *drv.Tracer, sid int, raw map[string]any) error {
	c := parseCase(raw)
	if c.path != "peer" {
		return fmt.Errorf("large sets are peer messages, got path %q", c.path)
	}
	var bad []string
	for _, b := range raw["bad"].([]any) {
		bad = append(bad, drv.Str(b))
	}
	k := c.ai
	if k < 1 || k > w.v || len(bad) != k {
		return fmt.Errorf("malformed large set: K=%d, %d classes, %d validators in the lock", k, len(bad), w.v)
	}
	w.cur = &caseCtx{}
	w.place("")
	own := c.sender
	var entries []entry
	for i := 1; i <= k; i++ {
		var (
			e   entry
			err error
		)
		switch bad[i-1] {
		case "":
			e, err = w.build(c, own, i, "none", 0, "")
		case "otherShare":
			e, err = w.build(c, own, i, "otherShare", own%w.n+1, "")
		case "otherVal":
			e, err = w.build(c, own, i, "otherVal", i%k+1, "")
		case "field":
			e, err = w.build(c, own, i, "field", 0, batchField[c.kind])
		case "unknownLock":
			e, err = w.build(c, own, i, "unknownLock", 0, "")
		default:
			err = fmt.Errorf("unknown element class %q", bad[i-1])
		}
		if err != nil {
			return err
		}
		entries = append(entries, e)
	}
	subs := snapshot(entries)
	for d := 0; d < bigDeliveries; d++ {
		if d > 0 {
			tr.Emit(drv.Step{"ev": "Reset", "sid": sid, "N": w.n, "V": w.v})
			w.fresh()
		}
		tr.Emit(drv.Step{"ev": "SubmitBig", "c": raw})
		w.cur = &caseCtx{}
		herr, err := w.submitPeer(c, entries)
		if err != nil {
			return err
		}
		w.logOutcome(tr, subs, herr)
	}
	return nil
}
