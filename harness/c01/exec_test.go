// Package c01 executes Pipeline schedules on a cluster of nodes whose core workflow is composed by the REAL core.Wire from
// the REAL dutydb.MemDB, parsigdb.MemDB, sigagg.Aggregator (+ sigagg.NewVerifier), aggsigdb.MemDB / MemDBV2 and the REAL
// partial signature verification of parsigex (NewEth2Verifier, applied as parsigex.handle applies it), with real threshold
// BLS keys.  Scheduler, Fetcher, Consensus, ValidatorAPI, ParSigEx (transport) and Broadcaster are driver-controlled stubs
// that only remember what Wire registers / subscribes on them.  The executor records what happened; it contains no
// expected value.
//
// Schedule: [{"ev":"Config","n":4,"byz":[4],"nv":1,"comm":"same"|"diff","q0":bool,"aggv2":bool}, step...] with steps
//
//	{"ev":"Decide","i":node,"c":"A"|"B"}                      consensus subscriber -> DutyDB.Store of node i
//	{"ev":"VCSign","i":node,"vs":[v..],"good":bool}           node i's validator client: AwaitAttestation, sign, StoreInternal
//	{"ev":"Deliver","k":outbox entry (1-based),"to":node}     exchange message k reaches node `to`
//	{"ev":"ByzSign","b":byz node,"to":node,"batch":[{"v","c","claim"}]}   partials made with share b claiming share `claim`
//	{"ev":"Crash","i":node}
//	{"ev":"Consensus",...}                                     real qbft.Run among the live honest nodes, see consensus()
//
// Steps that address a crashed node or an outbox entry that does not exist (yet) are skipped (message loss).
package c01

import (
	"context"
	"crypto/sha256"
	"errors"
	"fmt"
	"math/rand"
	"os"
	"sort"
	"strconv"
	"sync"
	"testing"
	"time"

	bitfield "github.com/OffchainLabs/go-bitfield"
	eth2api "github.com/attestantio/go-eth2-client/api"
	eth2v1 "github.com/attestantio/go-eth2-client/api/v1"
	eth2spec "github.com/attestantio/go-eth2-client/spec"
	"github.com/attestantio/go-eth2-client/spec/altair"
	"github.com/attestantio/go-eth2-client/spec/electra"
	eth2p0 "github.com/attestantio/go-eth2-client/spec/phase0"
	"github.com/libp2p/go-libp2p/core/peer"
	"github.com/libp2p/go-libp2p/core/protocol"
	"google.golang.org/protobuf/proto"

	"github.com/obolnetwork/charon/cluster"
	"github.com/obolnetwork/charon/core"
	"github.com/obolnetwork/charon/core/aggsigdb"
	pbv1 "github.com/obolnetwork/charon/core/corepb/v1"
	"github.com/obolnetwork/charon/core/dutydb"
	"github.com/obolnetwork/charon/core/parsigdb"
	"github.com/obolnetwork/charon/core/parsigex"
	"github.com/obolnetwork/charon/core/sigagg"
	"github.com/obolnetwork/charon/eth2util/signing"
	"github.com/obolnetwork/charon/tbls"
	"github.com/obolnetwork/charon/tbls/tblsconv"
	"github.com/obolnetwork/charon/testutil/beaconmock"

	"verifharness/drv"
	"verifharness/drv/qbftdrv"
)

const (
	hangAfter = 10 * time.Second
	slot      = 3 * 32 // first slot of epoch 3 (beaconmock: 16 slots per epoch by default, any value works)
)

// ---- stubs: they only remember what Wire hands them -------------------------------------------------------------------

type noDeadliner struct{}

func (noDeadliner) Add(core.Duty) core.DeadlineStatus { return core.DeadlineScheduled }
func (noDeadliner) C() <-chan core.Duty                { return nil }

type stubSched struct{}

func (stubSched) SubscribeDuties(func(context.Context, core.Duty, core.DutyDefinitionSet) error) {}
func (stubSched) SubscribeSlots(func(context.Context, core.Slot) error)                           {}
func (stubSched) GetDutyDefinition(context.Context, core.Duty) (core.DutyDefinitionSet, error) {
	return nil, errors.New("not available")
}

func (stubSched) RegisterFetcherFetchOnly(func(context.Context, core.Duty, core.DutyDefinitionSet, string, eth2p0.Root) error) {
}

type stubFetch struct{}

func (stubFetch) Fetch(context.Context, core.Duty, core.DutyDefinitionSet) error { return nil }
func (stubFetch) FetchOnly(context.Context, core.Duty, core.DutyDefinitionSet, string, eth2p0.Root) error {
	return nil
}
func (stubFetch) Subscribe(func(context.Context, core.Duty, core.UnsignedDataSet) error) {}
func (stubFetch) RegisterAggSigDB(func(context.Context, core.Duty, core.PubKey, core.SubcommitteeIndex) (core.SignedData, error)) {
}

func (stubFetch) RegisterAwaitAttData(func(ctx context.Context, slot uint64, commIdx uint64) (*eth2p0.AttestationData, error)) {
}

type stubCons struct {
	subs []func(context.Context, core.Duty, core.UnsignedDataSet) error
}

func (*stubCons) ProtocolID() protocol.ID                                        { return "/verif/stub" }
func (*stubCons) Start(context.Context)                                           {}
func (*stubCons) Participate(context.Context, core.Duty) error                    { return nil }
func (*stubCons) Propose(context.Context, core.Duty, core.UnsignedDataSet) error { return nil }
func (c *stubCons) Subscribe(fn func(context.Context, core.Duty, core.UnsignedDataSet) error) {
	c.subs = append(c.subs, fn)
}

type stubVAPI struct {
	awaitAtt func(ctx context.Context, slot, commIdx uint64) (*eth2p0.AttestationData, error)
	subs     []func(context.Context, core.Duty, core.ParSignedDataSet) error
}

func (*stubVAPI) RegisterAwaitProposal(func(ctx context.Context, slot uint64) (*eth2api.VersionedProposal, error)) {
}

func (v *stubVAPI) RegisterAwaitAttestation(fn func(ctx context.Context, slot, commIdx uint64) (*eth2p0.AttestationData, error)) {
	v.awaitAtt = fn
}

func (*stubVAPI) RegisterAwaitSyncContribution(func(ctx context.Context, slot, subcommIdx uint64, beaconBlockRoot eth2p0.Root) (*altair.SyncCommitteeContribution, error)) {
}

func (*stubVAPI) RegisterPubKeyByAttestation(func(ctx context.Context, slot, commIdx, valIdx uint64) (core.PubKey, error)) {
}
func (*stubVAPI) RegisterGetDutyDefinition(func(context.Context, core.Duty) (core.DutyDefinitionSet, error)) {}
func (*stubVAPI) RegisterAwaitAggAttestation(func(ctx context.Context, slot uint64, attestationDataRoot eth2p0.Root, committeeIndex eth2p0.CommitteeIndex) (*eth2spec.VersionedAttestation, error)) {
}

func (*stubVAPI) RegisterAwaitAggSigDB(func(context.Context, core.Duty, core.PubKey, core.SubcommitteeIndex) (core.SignedData, error)) {
}

func (v *stubVAPI) Subscribe(fn func(context.Context, core.Duty, core.ParSignedDataSet) error) {
	v.subs = append(v.subs, fn)
}

// stubEx is the transport half of ParSigEx: Broadcast puts the encoded message into the cluster's outbox.
type stubEx struct {
	nd   *node
	subs []func(context.Context, core.Duty, core.ParSignedDataSet) error
}

func (x *stubEx) Broadcast(_ context.Context, duty core.Duty, set core.ParSignedDataSet) error {
	pb, err := core.ParSignedDataSetToProto(set)
	if err != nil {
		return err
	}
	raw, err := proto.Marshal(&pbv1.ParSigExMsg{Duty: core.DutyToProto(duty), DataSet: pb})
	if err != nil {
		return err
	}
	w := x.nd.w
	w.outbox = append(w.outbox, raw)
	w.from = append(w.from, x.nd.idx)
	x.nd.out = append(x.nd.out, len(w.outbox))

	return nil
}

func (x *stubEx) Subscribe(fn func(context.Context, core.Duty, core.ParSignedDataSet) error) {
	x.subs = append(x.subs, fn)
}

// stubBcast records what is handed to the beacon node.
type stubBcast struct{ nd *node }

func (b *stubBcast) Broadcast(ctx context.Context, duty core.Duty, set core.SignedDataSet) error {
	w := b.nd.w
	var ems []drv.Step
	for pk, sd := range set {
		e := drv.Step{"v": w.valOf[pk], "c": "?", "ok": false}
		if root, err := sd.MessageRoot(); err == nil {
			if c, ok := w.candByRoot[root]; ok {
				e["c"] = c
			}
		}
		if duty != w.duty {
			e["c"] = "?duty"
		}
		if es, ok := sd.(core.Eth2SignedData); ok {
			if gp, ok := w.keys.group[w.valOf[pk]]; ok {
				e["ok"] = core.VerifyEth2SignedData(ctx, w.env.bmock, es, gp) == nil // relation only
			}
		}
		ems = append(ems, e)
	}
	sort.Slice(ems, func(i, j int) bool { return drv.Num(ems[i]["v"]) < drv.Num(ems[j]["v"]) })
	b.nd.emit = append(b.nd.emit, ems...)

	return nil
}

// ---- world --------------------------------------------------------------------------------------------------------------

type keyset struct {
	group  map[int]tbls.PublicKey            // validator -> group public key
	shares map[int]map[int]tbls.PrivateKey   // validator -> share index -> secret share
	pubs   map[core.PubKey]map[int]tbls.PublicKey
	pk     map[int]core.PubKey
	wrong  tbls.PrivateKey // what a defective validator client signs with
}

type env struct {
	bmock beaconmock.Mock
	mu    sync.Mutex
	keys  map[string]*keyset
}

func (e *env) keysFor(n, t, nv int) (*keyset, error) {
	e.mu.Lock()
	defer e.mu.Unlock()
	id := fmt.Sprintf("%d/%d/%d", n, t, nv)
	if k, ok := e.keys[id]; ok {
		return k, nil
	}
	k := &keyset{group: map[int]tbls.PublicKey{}, shares: map[int]map[int]tbls.PrivateKey{},
		pubs: map[core.PubKey]map[int]tbls.PublicKey{}, pk: map[int]core.PubKey{}}
	var err error
	if k.wrong, err = tbls.GenerateSecretKey(); err != nil {
		return nil, err
	}
	for v := 1; v <= nv; v++ {
		secret, err := tbls.GenerateSecretKey()
		if err != nil {
			return nil, err
		}
		pub, err := tbls.SecretToPublicKey(secret)
		if err != nil {
			return nil, err
		}
		shares, err := tbls.ThresholdSplit(secret, uint(n), uint(t))
		if err != nil {
			return nil, err
		}
		cpk := core.PubKeyFrom48Bytes(pub)
		k.group[v], k.shares[v], k.pk[v] = pub, shares, cpk
		k.pubs[cpk] = map[int]tbls.PublicKey{}
		for idx, s := range shares {
			ps, err := tbls.SecretToPublicKey(s)
			if err != nil {
				return nil, err
			}
			k.pubs[cpk][idx] = ps
		}
	}
	e.keys[id] = k

	return k, nil
}

type node struct {
	w      *world
	idx    int
	dead   bool
	served bool // some DutyDB.Store returned nil: AwaitAttestation has something to answer
	cons   *stubCons
	vapi   *stubVAPI
	ex     *stubEx
	verify func(context.Context, peer.ID, core.Duty, core.PubKey, core.ParSignedData) error
	out    []int      // outbox entries added by the current action
	emit   []drv.Step // emissions of the current action
}

type world struct {
	env        *env
	ctx        context.Context
	n, t, nv   int
	byz        map[int]bool
	comm       string
	q0         bool
	keys       *keyset
	duty       core.Duty
	nodes      map[int]*node
	outbox     [][]byte
	from       []int // sender of each outbox entry
	cands      map[string]*eth2p0.AttestationData
	candByRoot map[[32]byte]string
	valOf      map[core.PubKey]int
	events     []drv.Step
	hung       bool
}

func (w *world) log(e drv.Step) { w.events = append(w.events, e) }

func h32(s string) (r eth2p0.Root) {
	h := sha256.Sum256([]byte(s))
	copy(r[:], h[:])

	return r
}

func (w *world) commIdx(v int) eth2p0.CommitteeIndex {
	if w.comm == "diff" {
		return eth2p0.CommitteeIndex(v)
	}

	return 0
}

func (w *world) attDuty(v int) eth2v1.AttesterDuty {
	pk, _ := w.keys.pk[v].ToETH2()

	return eth2v1.AttesterDuty{PubKey: pk, Slot: slot, ValidatorIndex: eth2p0.ValidatorIndex(100 + v),
		CommitteeIndex: w.commIdx(v), CommitteeLength: 8, CommitteesAtSlot: 4, ValidatorCommitteeIndex: uint64(v)}
}

func cloneData(d *eth2p0.AttestationData) *eth2p0.AttestationData {
	c := *d
	s, t := *d.Source, *d.Target
	c.Source, c.Target = &s, &t

	return &c
}

// unsigned is the data set consensus delivers for candidate c: the same attestation data for every validator.
func (w *world) unsigned(c string) core.UnsignedDataSet {
	set := core.UnsignedDataSet{}
	for v := 1; v <= w.nv; v++ {
		set[w.keys.pk[v]] = core.AttestationData{Data: *cloneData(w.cands[c]), Duty: w.attDuty(v)}
	}

	return set
}

// partial builds the partially signed attestation of validator v over data, signed with key, claiming share index idx.
func (w *world) partial(v int, data *eth2p0.AttestationData, key tbls.PrivateKey, idx int) (core.ParSignedData, error) {
	root, err := data.HashTreeRoot()
	if err != nil {
		return core.ParSignedData{}, err
	}
	sigData, err := signing.GetDataRoot(w.ctx, w.env.bmock, signing.DomainBeaconAttester, data.Target.Epoch, root)
	if err != nil {
		return core.ParSignedData{}, err
	}
	sig, err := tbls.Sign(key, sigData[:])
	if err != nil {
		return core.ParSignedData{}, err
	}
	d := w.attDuty(v)
	aggBits := bitfield.NewBitlist(d.CommitteeLength)
	aggBits.SetBitAt(d.ValidatorCommitteeIndex, true)
	commBits := bitfield.NewBitvector64()
	commBits.SetBitAt(uint64(d.CommitteeIndex), true)
	valIdx := d.ValidatorIndex
	att := &eth2spec.VersionedAttestation{Version: eth2spec.DataVersionElectra, ValidatorIndex: &valIdx,
		Electra: &electra.Attestation{AggregationBits: aggBits, Data: cloneData(data),
			Signature: eth2p0.BLSSignature(tblsconv.SigToCore(sig).ToETH2()), CommitteeBits: commBits}}

	return core.NewPartialVersionedAttestation(att, idx)
}

func newWorld(e *env, cfg drv.Step) (*world, error) {
	w := &world{env: e, ctx: context.Background(), n: drv.Num(cfg["n"]), nv: drv.Num(cfg["nv"]), byz: map[int]bool{},
		comm: drv.Str(cfg["comm"]), nodes: map[int]*node{}, cands: map[string]*eth2p0.AttestationData{},
		candByRoot: map[[32]byte]string{}, valOf: map[core.PubKey]int{}, duty: core.NewAttesterDuty(slot)}
	w.q0, _ = cfg["q0"].(bool)
	aggv2, _ := cfg["aggv2"].(bool)
	if bz, ok := cfg["byz"].([]any); ok {
		for _, b := range bz {
			w.byz[drv.Num(b)] = true
		}
	}
	w.t = cluster.Threshold(w.n)
	var err error
	if w.keys, err = e.keysFor(w.n, w.t, w.nv); err != nil {
		return nil, err
	}
	for v, pk := range w.keys.pk {
		w.valOf[pk] = v
	}
	for _, c := range []string{"A", "B", "C"} {
		d := &eth2p0.AttestationData{Slot: slot, Index: 0, BeaconBlockRoot: h32("head/" + c),
			Source: &eth2p0.Checkpoint{Epoch: 1, Root: h32("source")}, Target: &eth2p0.Checkpoint{Epoch: 3, Root: h32("target")}}
		root, err := d.HashTreeRoot()
		if err != nil {
			return nil, err
		}
		w.cands[c], w.candByRoot[root] = d, c
	}
	for i := 1; i <= w.n; i++ {
		if w.byz[i] {
			continue // Byzantine nodes are not composed: the driver signs with their shares
		}
		nd := &node{w: w, idx: i, cons: &stubCons{}, vapi: &stubVAPI{}}
		nd.ex = &stubEx{nd: nd}
		dl := noDeadliner{}
		agg, err := sigagg.New(w.t, sigagg.NewVerifier(e.bmock))
		if err != nil {
			return nil, err
		}
		var adb core.AggSigDB
		if aggv2 {
			adb = aggsigdb.NewMemDBV2(dl)
		} else {
			adb = aggsigdb.NewMemDB(dl)
		}
		go adb.Run(w.ctx)
		if nd.verify, err = parsigex.NewEth2Verifier(e.bmock, w.keys.pubs); err != nil {
			return nil, err
		}
		core.Wire(stubSched{}, stubFetch{}, nd.cons, dutydb.NewMemDB(dl), nd.vapi,
			parsigdb.NewMemDB(w.t, dl, parsigdb.NewMemDBMetadata(12, time.Unix(0, 0))), nd.ex, agg, adb, &stubBcast{nd: nd})
		w.nodes[i] = nd
	}

	return w, nil
}

func emits(nd *node) []any {
	res := []any{}
	for _, e := range nd.emit {
		res = append(res, e)
	}

	return res
}

func ints(xs []int) []any {
	res := []any{}
	for _, x := range xs {
		res = append(res, x)
	}

	return res
}

func errStr(err error) string {
	if err == nil {
		return ""
	}

	return err.Error()
}

// receive is parsigex.handle from the decoded message on: verify EVERY partial against the public share of its claimed
// share index (one failure drops the message), then call the subscribers.
func (w *world) receive(to *node, raw []byte) (verr, serr error) {
	var pb pbv1.ParSigExMsg
	if err := proto.Unmarshal(raw, &pb); err != nil {
		return err, nil
	}
	if pb.GetDuty() == nil || pb.GetDataSet() == nil {
		return errors.New("invalid parsigex msg fields"), nil
	}
	duty := core.DutyFromProto(pb.GetDuty())
	set, err := core.ParSignedDataSetFromProto(duty.Type, pb.GetDataSet())
	if err != nil {
		return err, nil
	}
	for pubkey, data := range set {
		if err := to.verify(w.ctx, "", duty, pubkey, data); err != nil {
			return err, nil
		}
	}
	for _, sub := range to.ex.subs {
		if err := sub(w.ctx, duty, set); err != nil {
			serr = err
		}
	}

	return nil, serr
}

// decide hands candidate c to the node's DutyDB through the function Wire subscribed on the consensus component.
func (w *world) decide(nd *node, c, by string) {
	var err error
	for _, sub := range nd.cons.subs {
		if e := sub(w.ctx, w.duty, w.unsigned(c)); e != nil {
			err = e
		}
	}
	if err == nil && len(nd.cons.subs) > 0 {
		nd.served = true
	}
	w.log(drv.Step{"ev": "Decide", "i": nd.idx, "c": c, "by": by, "err": err != nil, "msg": errStr(err), "subs": len(nd.cons.subs)})
}

// consensus runs one instance of the REAL qbft.Run (harness/drv/qbftdrv) among the honest live nodes: values are candidate
// indices (1 = A, 2 = B), Byzantine members stay silent, honest messages are delivered in a seeded random order with
// loss, round timers fire when nothing is in flight.  Every decision is handed to that node's DutyDB at once
// (Decide event with by = "qbft"); the consensus messages themselves are not logged (C02/C03 validate those).
//
//	{"ev":"Consensus","inst":k,"inputs":["A","B","",..] (per node; "" = no proposal),"seed":s,"ploss":percent,"steps":K,
//	 "part":[nodes of one side of a network partition],"heal":step at which the partition heals}
func (w *world) consensus(st drv.Step) {
	rng := rand.New(rand.NewSource(int64(drv.Num(st["seed"]))))
	var byz []int64
	for b := range w.byz {
		byz = append(byz, int64(b-1))
	}
	c := qbftdrv.New(w.n, int64(drv.Num(st["inst"])), byz, nil)
	defer c.Stop()
	var members []int64
	for i := 1; i <= w.n; i++ {
		if nd := w.nodes[i]; nd != nil && !nd.dead {
			members = append(members, int64(i-1))
		}
	}
	type item struct {
		m  qbftdrv.M
		to int64
	}
	var pend, held []item
	decided := map[int64]bool{}
	gone := map[int64]bool{}
	// optional partition: until step `heal` messages between the two groups are held back (not lost)
	group := map[int64]int{}
	if part, ok := st["part"].([]any); ok {
		for _, x := range part {
			group[int64(drv.Num(x)-1)] = 1
		}
	}
	heal := drv.Num(st["heal"])
	step := 0
	absorb := func(p int64, eff qbftdrv.Effects) {
		if eff.Dead {
			gone[p] = true
		}
		for _, b := range eff.Bcasts {
			for _, q := range members {
				if step < heal && group[b.Src] != group[q] {
					held = append(held, item{b, q})
				} else {
					pend = append(pend, item{b, q})
				}
			}
		}
		if eff.NDec > 0 && !decided[p] {
			decided[p] = true
			cand, ok := map[int64]string{1: "A", 2: "B"}[eff.DVal]
			if !ok {
				cand = "?" + strconv.FormatInt(eff.DVal, 10)
			}
			nd := w.nodes[int(p)+1]
			nd.out, nd.emit = nil, nil
			w.decide(nd, cand, "qbft")
		}
	}
	for _, p := range members {
		absorb(p, c.Start(p))
	}
	inputs, _ := st["inputs"].([]any)
	order := rng.Perm(len(members))
	for _, k := range order {
		p := members[k]
		if int(p) < len(inputs) {
			if v, ok := map[string]int64{"A": 1, "B": 2}[drv.Str(inputs[p])]; ok && !gone[p] {
				absorb(p, c.Input(p, v))
			}
		}
	}
	ploss := float64(drv.Num(st["ploss"])) / 100
	for ; step < drv.Num(st["steps"]); step++ {
		if step == heal {
			pend = append(pend, held...)
			held = nil
		}
		var undecided []int64
		for _, p := range members {
			if !decided[p] && !gone[p] {
				undecided = append(undecided, p)
			}
		}
		if len(undecided) == 0 {
			break
		}
		if len(pend) == 0 || rng.Float64() < 0.02 {
			fired := false
			for _, k := range rng.Perm(len(undecided)) {
				if eff := c.Timeout(undecided[k]); !eff.Ignored {
					absorb(undecided[k], eff)
					fired = true
					break
				}
			}
			if !fired && len(pend) == 0 {
				if len(held) == 0 || step >= heal {
					break
				}
				step = heal - 1 // nothing can move inside the partition any more: heal it
			}
			continue
		}
		k := rng.Intn(len(pend))
		it := pend[k]
		pend[k] = pend[len(pend)-1]
		pend = pend[:len(pend)-1]
		if gone[it.to] || rng.Float64() < ploss {
			continue
		}
		absorb(it.to, c.Deliver(it.to, it.m))
	}
}

func (w *world) step(st drv.Step) {
	live := func(key string) *node {
		nd := w.nodes[drv.Num(st[key])]
		if nd == nil || nd.dead {
			return nil
		}
		nd.out, nd.emit = nil, nil

		return nd
	}
	switch drv.Str(st["ev"]) {
	case "Decide":
		nd := live("i")
		if nd == nil {
			return
		}
		w.decide(nd, drv.Str(st["c"]), "driver")
	case "Consensus":
		w.consensus(st)
	case "VCSign":
		nd := live("i")
		if nd == nil {
			return
		}
		vsAny, _ := st["vs"].([]any)
		good, _ := st["good"].(bool)
		if !nd.served {
			// nothing was ever stored successfully: the client's query would block, as it must; not an event of the pipeline
			w.log(drv.Step{"ev": "VCSign", "i": nd.idx, "vs": vsAny, "blocked": true})
			return
		}
		set := core.ParSignedDataSet{}
		signed := []any{}
		for _, va := range vsAny {
			v := drv.Num(va)
			ci := uint64(w.commIdx(v))
			if w.q0 {
				ci = 0
			}
			qctx, cancel := context.WithTimeout(w.ctx, hangAfter)
			data, err := nd.vapi.awaitAtt(qctx, slot, ci)
			cancel()
			if err != nil {
				w.hung = true
				w.log(drv.Step{"ev": "Hang", "what": "AwaitAttestation: " + err.Error()})
				return
			}
			root, _ := data.HashTreeRoot()
			c, ok := w.candByRoot[root]
			if !ok {
				c = "?"
			}
			signed = append(signed, c)
			key := w.keys.shares[v][nd.idx]
			if !good {
				key = w.keys.wrong
			}
			p, err := w.partial(v, data, key, nd.idx)
			if err != nil {
				w.log(drv.Step{"ev": "DriverError", "msg": err.Error()})
				return
			}
			set[w.keys.pk[v]] = p
		}
		var err error
		for _, sub := range nd.vapi.subs {
			if e := sub(w.ctx, w.duty, set); e != nil {
				err = e
			}
		}
		w.log(drv.Step{"ev": "VCSign", "i": nd.idx, "vs": vsAny, "good": good, "blocked": false, "signed": signed,
			"err": err != nil, "msg": errStr(err), "out": ints(nd.out), "emit": emits(nd)})
	case "Deliver":
		nd := live("to")
		k := drv.Num(st["k"])
		if nd == nil || k < 1 || k > len(w.outbox) || w.from[k-1] == nd.idx {
			return // lost, or not sent yet; a node never sends to itself
		}
		verr, serr := w.receive(nd, w.outbox[k-1])
		w.log(drv.Step{"ev": "Deliver", "k": k, "to": nd.idx, "verr": verr != nil, "err": serr != nil,
			"msg": errStr(verr) + errStr(serr), "out": ints(nd.out), "emit": emits(nd)})
	case "ByzSign":
		nd := live("to")
		b := drv.Num(st["b"])
		if nd == nil || !w.byz[b] {
			return
		}
		set := core.ParSignedDataSet{}
		batch, _ := st["batch"].([]any)
		for _, ea := range batch {
			e := ea.(map[string]any)
			v := drv.Num(e["v"])
			p, err := w.partial(v, w.cands[drv.Str(e["c"])], w.keys.shares[v][b], drv.Num(e["claim"]))
			if err != nil {
				w.log(drv.Step{"ev": "DriverError", "msg": err.Error()})
				return
			}
			set[w.keys.pk[v]] = p
		}
		pb, err := core.ParSignedDataSetToProto(set)
		if err != nil {
			w.log(drv.Step{"ev": "DriverError", "msg": err.Error()})
			return
		}
		raw, _ := proto.Marshal(&pbv1.ParSigExMsg{Duty: core.DutyToProto(w.duty), DataSet: pb})
		verr, serr := w.receive(nd, raw)
		w.log(drv.Step{"ev": "ByzSign", "b": b, "to": nd.idx, "batch": batch, "verr": verr != nil, "err": serr != nil,
			"msg": errStr(verr) + errStr(serr), "out": ints(nd.out), "emit": emits(nd)})
	case "Crash":
		nd := live("i")
		if nd == nil {
			return
		}
		nd.dead = true
		w.log(drv.Step{"ev": "Crash", "i": nd.idx})
	default:
		w.log(drv.Step{"ev": "DriverError", "msg": "unknown step " + drv.Str(st["ev"])})
	}
}

func runOne(e *env, sid int, sched []drv.Step) ([]drv.Step, bool) {
	if len(sched) == 0 || drv.Str(sched[0]["ev"]) != "Config" {
		return []drv.Step{{"ev": "Reset", "sid": sid}, {"ev": "DriverError", "msg": "schedule without Config"}}, false
	}
	cfg := sched[0]
	w, err := newWorld(e, cfg)
	if err != nil {
		return []drv.Step{{"ev": "Reset", "sid": sid}, {"ev": "DriverError", "msg": err.Error()}}, false
	}
	ctx, cancel := context.WithCancel(w.ctx)
	defer cancel()
	w.ctx = ctx
	byz := []any{}
	for i := 1; i <= w.n; i++ {
		if w.byz[i] {
			byz = append(byz, i)
		}
	}
	w.log(drv.Step{"ev": "Reset", "sid": sid, "n": w.n, "t": w.t, "byz": byz, "nv": w.nv, "comm": w.comm, "q0": w.q0,
		"aggv2": cfg["aggv2"]})
	for _, st := range sched[1:] {
		w.step(st)
		if w.hung {
			break
		}
	}

	return w.events, w.hung
}

func TestExec(t *testing.T) {
	drv.QuietLogs(t)
	scheds := drv.ReadSchedules(t)
	tr := drv.NewTracer(t)
	defer tr.Close()

	bmock, err := beaconmock.New(t.Context())
	if err != nil {
		t.Fatalf("beaconmock: %v", err)
	}
	e := &env{bmock: bmock, keys: map[string]*keyset{}}

	// schedules are independent worlds: run them on a few goroutines, write the traces in schedule order
	type result struct {
		events []drv.Step
		hung   bool
	}
	results := make([]result, len(scheds))
	workers := 8
	if s := os.Getenv("VERIF_WORKERS"); s != "" {
		if k, err := strconv.Atoi(s); err == nil && k > 0 {
			workers = k
		}
	}
	var wg sync.WaitGroup
	next := make(chan int)
	for range workers {
		wg.Add(1)
		go func() {
			defer wg.Done()
			for i := range next {
				ev, hung := runOne(e, i, scheds[i])
				results[i] = result{ev, hung}
			}
		}()
	}
	for i := range scheds {
		next <- i
	}
	close(next)
	wg.Wait()
	for _, r := range results {
		for _, ev := range r.events {
			tr.Emit(ev)
		}
		if r.hung {
			break // a hung pipeline: the trace ends with a Hang event no spec step matches
		}
	}
}
