// Package c08 executes ThresholdBLS cases on the real tbls package (herumi BLS12-381) and records RELATIONS only:
// recovered == secret, aggregate == signature of the undivided key, verifies / does not.  It contains no expected
// value: what each relation must be is decided by specs/ThresholdBLS/ThresholdBLSTrace.tla.
//
// A schedule is one case: Split{n,t,secret,mode}, optionally Recover{S}, then Combine{S,sub,msg}.  Shares are addressed
// by RANK: the ids of the map ThresholdSplit returned, sorted; rank n+1 is an id that belongs to no share.  All keys and
// signatures travel through the tblsconv byte conversions on their way into tbls.
package c08

import (
	"bytes"
	"encoding/hex"
	"fmt"
	"math/rand"
	"sort"
	"sync"
	"testing"

	"github.com/obolnetwork/charon/tbls"
	"github.com/obolnetwork/charon/tbls/tblsconv"

	"verifharness/drv"
)

// curve order r minus one: the largest secret key
// repetitions of every map-ranging tbls call
const reps = 4

const maxSecretHex = "73eda753299d7d483339d80809a1d80553bda402fffe5bfeffffffff00000000"

func TestExec(t *testing.T) {
	drv.QuietLogs(t)
	scheds := drv.ReadSchedules(t)
	tr := drv.NewTracer(t)
	defer tr.Close()
	// a WITNESS across the whole batch (one process): a key, a message and a signature verified before the first case and
	// again after the last one, when thousands of other keys have gone through the package: verification is a function of
	// (key, message, signature), not of what the process has seen in between
	wsk, err := tbls.GenerateSecretKey()
	if err != nil {
		t.Fatal(err)
	}
	wsk2, err := tbls.GenerateSecretKey()
	if err != nil {
		t.Fatal(err)
	}
	wpub, _ := tbls.SecretToPublicKey(wsk)
	wmsg := []byte("verif c08 witness message, thirty-two+ bytes long")
	wsig, _ := tbls.Sign(wsk, wmsg)
	wforged, _ := tbls.Sign(wsk2, wmsg)
	validBefore := tbls.Verify(wpub, wmsg, wsig) == nil
	forgedBefore := tbls.Verify(wpub, wmsg, wforged) == nil
	// cases are independent: run them on a few workers, write the traces in schedule order
	out := make([]*buf, len(scheds))
	var wg sync.WaitGroup
	next := make(chan int)
	for range 8 {
		wg.Add(1)
		go func() {
			defer wg.Done()
			for i := range next {
				out[i] = &buf{}
				runOne(t, out[i], i, scheds[i])
			}
		}()
	}
	for i := range scheds {
		next <- i
	}
	close(next)
	wg.Wait()
	if len(out) > 0 && out[len(out)-1] != nil {
		out[len(out)-1].Emit(drv.Step{"ev": "Revisit", "validBefore": validBefore, "forgedBefore": forgedBefore,
			"validAfter": tbls.Verify(wpub, wmsg, wsig) == nil, "forgedAfter": tbls.Verify(wpub, wmsg, wforged) == nil, "cases": len(out)})
	}
	for _, b := range out {
		for _, ev := range b.evs {
			tr.Emit(ev)
		}
	}
}

// sink receives the events of one case.
type sink interface{ Emit(drv.Step) }

type buf struct{ evs []drv.Step }

func (b *buf) Emit(ev drv.Step) { b.evs = append(b.evs, ev) }

type state struct {
	n, t     int
	secret   tbls.PrivateKey
	groupPub tbls.PublicKey
	shares   map[int]tbls.PrivateKey
	ids      []int // sorted ids of shares
	// the honest combination last evaluated, for Replay
	lastS   []int
	lastMsg any
}

// idOf maps a rank to the id of that share; rank n+1 (or anything beyond) is an id no share has.
func (s *state) idOf(rank int) int {
	if rank >= 1 && rank <= len(s.ids) {
		return s.ids[rank-1]
	}
	mx := 0
	for _, id := range s.ids {
		if id > mx {
			mx = id
		}
	}
	return mx + 1 + (rank - len(s.ids) - 1)
}

// reorder returns the ids in the r-th of a few different orders (ascending, descending, rotated ...): small Go maps
// are iterated in insertion order from a random offset, so fresh maps filled in different orders show the tbls
// functions different iteration orders.
func reorder(ids []int, r int) []int {
	out := append([]int{}, ids...)
	sort.Ints(out)
	k := (r / 2) % max(len(out), 1)
	out = append(out[k:], out[:k]...)
	if r%2 == 1 {
		for i, j := 0, len(out)-1; i < j; i, j = i+1, j-1 {
			out[i], out[j] = out[j], out[i]
		}
	}
	return out
}

func ints(v any) []int {
	var out []int
	for _, x := range v.([]any) {
		out = append(out, drv.Num(x))
	}
	return out
}

func secretOf(t *testing.T, v any) tbls.PrivateKey {
	m, _ := v.(map[string]any)
	switch drv.Str(m["kind"]) {
	case "one":
		var k tbls.PrivateKey
		k[31] = 1
		return k
	case "max":
		b, _ := hex.DecodeString(maxSecretHex)
		k, err := tblsconv.PrivkeyFromBytes(b)
		if err != nil {
			panic(fmt.Sprintf("max secret: %v", err))
		}
		return k
	default:
		k, err := tbls.GenerateInsecureKey(t, rand.New(rand.NewSource(int64(drv.Num(m["seed"])))))
		if err != nil {
			panic(fmt.Sprintf("generate secret: %v", err))
		}
		return k
	}
}

func msgOf(v any, alt bool) []byte {
	m, _ := v.(map[string]any)
	seed := int64(drv.Num(m["seed"]))
	if alt {
		seed = seed*7919 + 1
	}
	r := rand.New(rand.NewSource(seed))
	var b []byte
	switch drv.Str(m["kind"]) {
	case "empty":
		if alt {
			return []byte{0}
		}
		return []byte{}
	case "pfx": // messages longer than a hash that share their first 32 bytes (prefix from seed) and differ behind it
		pre := make([]byte, 32)
		rand.New(rand.NewSource(int64(drv.Num(m["seed"])))).Read(pre)
		tail := int64(drv.Num(m["tail"]))
		if alt {
			tail += 1000
		}
		tb := make([]byte, 1+tail%97)
		rand.New(rand.NewSource(int64(drv.Num(m["seed"]))*31 + tail)).Read(tb)
		return append(pre, tb...)
	case "long":
		b = make([]byte, 1000)
	default:
		b = make([]byte, 32)
	}
	r.Read(b)
	return b
}

func runOne(t *testing.T, tr sink, sid int, sched []drv.Step) {
	st := &state{}
	tr.Emit(drv.Step{"ev": "Reset", "sid": sid})
	for _, step := range sched {
		switch drv.Str(step["ev"]) {
		case "Split":
			doSplit(t, tr, st, step)
		case "Recover":
			doRecover(tr, st, step)
		case "Combine":
			doCombine(tr, st, step)
		case "Replay":
			doReplay(tr, st)
		default:
			panic(fmt.Sprintf("unknown step %v", step))
		}
	}
}

func doSplit(t *testing.T, tr sink, st *state, step drv.Step) {
	st.n, st.t = drv.Num(step["n"]), drv.Num(step["t"])
	st.secret = secretOf(t, step["secret"])
	var (
		shares map[int]tbls.PrivateKey
		err    error
	)
	if drv.Str(step["mode"]) == "seeded" {
		m, _ := step["secret"].(map[string]any)
		shares, err = tbls.ThresholdSplitInsecure(t, st.secret, uint(st.n), uint(st.t),
			rand.New(rand.NewSource(int64(drv.Num(m["seed"]))+1)))
	} else {
		shares, err = tbls.ThresholdSplit(st.secret, uint(st.n), uint(st.t))
	}
	pub, err2 := tbls.SecretToPublicKey(st.secret)
	st.groupPub = pub
	st.shares = shares
	st.ids = st.ids[:0]
	for id := range shares {
		st.ids = append(st.ids, id)
	}
	sort.Ints(st.ids)
	tr.Emit(drv.Step{"ev": "Split", "n": st.n, "t": st.t, "ok": err == nil && err2 == nil, "ids": append([]int{}, st.ids...),
		"secret": step["secret"], "mode": step["mode"]})
}

func doRecover(tr sink, st *state, step drv.Step) {
	S := ints(step["S"])
	failed := false
	keys := map[int]tbls.PrivateKey{}
	pubs := map[int]tbls.PublicKey{}
	for _, r := range S {
		id := st.idOf(r)
		sk, ok := st.shares[id]
		if !ok {
			failed = true
			continue
		}
		k, err := tblsconv.PrivkeyFromBytes(sk[:])
		if err != nil {
			failed = true
		}
		keys[id] = k
		p, err := tbls.SecretToPublicKey(k)
		if err != nil {
			failed = true
		}
		p2, err := tblsconv.PubkeyFromBytes(p[:])
		if err != nil {
			failed = true
		}
		pubs[id] = p2
	}
	// the recovery functions range over a Go map: repeat them so that several iteration orders are seen
	secretEq, pubEq := true, true
	var kid []int
	for id := range keys {
		kid = append(kid, id)
	}
	for r := range reps {
		km, pm := map[int]tbls.PrivateKey{}, map[int]tbls.PublicKey{}
		for _, id := range reorder(kid, r) {
			km[id], pm[id] = keys[id], pubs[id]
		}
		rec, err := tbls.RecoverSecret(km, uint(st.n), uint(st.t))
		if err != nil {
			failed = true
		}
		rpub, err := tbls.RecoverPubkey(pm)
		if err != nil {
			failed = true
		}
		secretEq = secretEq && rec == st.secret
		pubEq = pubEq && rpub == st.groupPub
	}
	tr.Emit(drv.Step{"ev": "Recover", "S": S, "err": failed, "secretEq": secretEq, "pubEq": pubEq})
}

func doCombine(tr sink, st *state, step drv.Step) {
	S := ints(step["S"])
	sub, _ := step["sub"].(map[string]any)
	kind, pos, arg := drv.Str(sub["kind"]), drv.Num(sub["pos"]), drv.Num(sub["arg"])
	msg := msgOf(step["msg"], false)
	st.lastS, st.lastMsg = S, step["msg"]
	failed := false
	altered := false
	partials := map[int]tbls.Signature{}
	for _, r := range S {
		id := st.idOf(r)
		key, ok := st.shares[id]
		if !ok {
			failed = true
			continue
		}
		honest, err := tbls.Sign(key, msg)
		if err != nil {
			failed = true
		}
		sig, fileUnder := honest, id
		if kind != "none" && r == pos {
			switch kind {
			case "share": // made with another share's key (arg = rank) or with a fresh key (arg = 0)
				k2 := st.shares[st.idOf(arg)]
				if arg == 0 {
					if k2, err = tbls.GenerateSecretKey(); err != nil {
						failed = true
					}
				}
				if sig, err = tbls.Sign(k2, msg); err != nil {
					failed = true
				}
			case "index": // filed under the id of rank arg
				fileUnder = st.idOf(arg)
			case "junk": // 96 bytes that are no signature: not decodable (arg 0) / one byte of the honest signature flipped (arg 1)
				if arg == 0 {
					for i := range sig {
						sig[i] = 0xff
					}
				} else {
					sig[len(sig)/2] ^= 0x55
				}
			case "msg": // made over a different message
				if sig, err = tbls.Sign(key, msgOf(step["msg"], true)); err != nil {
					failed = true
				}
			}
			altered = sig != honest || fileUnder != id
		}
		// through the core / byte conversions and back
		back, err := tblsconv.SigFromCore(tblsconv.SigToCore(sig))
		if err != nil || !bytes.Equal(back[:], sig[:]) {
			failed = true
		}
		if _, dup := partials[fileUnder]; dup {
			failed = true // the case asked for an unused id
		}
		partials[fileUnder] = back
	}
	direct, err := tbls.Sign(st.secret, msg)
	if err != nil {
		failed = true
	}
	// ThresholdAggregate ranges over a Go map: repeat it so that several iteration orders are seen.  "All": every
	// repetition showed the relation, "Any": at least one did.
	aggErr, eqAll, eqAny, verAll, verAny := false, true, false, true, false
	var pid []int
	for id := range partials {
		pid = append(pid, id)
	}
	for r := range reps {
		pm := map[int]tbls.Signature{}
		for _, id := range reorder(pid, r) {
			pm[id] = partials[id]
		}
		agg, err := tbls.ThresholdAggregate(pm)
		eq := err == nil && agg == direct
		ver := err == nil && tbls.Verify(st.groupPub, msg, agg) == nil
		aggErr = aggErr || err != nil
		eqAll, eqAny = eqAll && eq, eqAny || eq
		verAll, verAny = verAll && ver, verAny || ver
	}
	tr.Emit(drv.Step{"ev": "Combine", "S": S, "sub": sub, "msg": step["msg"], "setupErr": failed, "aggErr": aggErr,
		"altered": altered, "aggEqAll": eqAll, "aggEqAny": eqAny, "verifiesAll": verAll, "verifiesAny": verAny})
}

// doReplay: verification must be a pure function of (public key, message, signature).  Every signature of the last
// honest combination is verified against the message it was made over FIRST, then the very same bytes are presented
// for another message, then for the original again -- all in this process, through the public tbls functions.
func doReplay(tr sink, st *state) {
	m1, m2 := msgOf(st.lastMsg, false), msgOf(st.lastMsg, true)
	failed := false
	genuine, replay, cross, still := true, false, false, true
	det := drv.Step{}
	note := func(kind string, g, r, s bool) {
		genuine, replay, still = genuine && g, replay || r, still && s
		det[kind] = []bool{g, r, s}
	}
	type signed struct {
		pub tbls.PublicKey
		sig tbls.Signature
	}
	var (
		parts    []signed
		partials = map[int]tbls.Signature{}
		pubs     []tbls.PublicKey
		sigs     []tbls.Signature
	)
	for _, r := range st.lastS {
		id := st.idOf(r)
		key := st.shares[id]
		pub, err := tbls.SecretToPublicKey(key)
		if err != nil {
			failed = true
		}
		sig, err := tbls.Sign(key, m1)
		if err != nil {
			failed = true
		}
		parts = append(parts, signed{pub, sig})
		partials[id] = sig
		pubs = append(pubs, pub)
		sigs = append(sigs, sig)
	}
	// partial signatures under the share keys
	pg, pr, ps := true, false, true
	for _, p := range parts {
		pg = pg && tbls.Verify(p.pub, m1, p.sig) == nil
	}
	for _, p := range parts {
		pr = pr || tbls.Verify(p.pub, m2, p.sig) == nil
	}
	for _, p := range parts {
		ps = ps && tbls.Verify(p.pub, m1, p.sig) == nil
	}
	note("partial", pg, pr, ps)
	// the threshold aggregate under the group key
	agg, err := tbls.ThresholdAggregate(partials)
	if err != nil {
		failed = true
	}
	g := tbls.Verify(st.groupPub, m1, agg) == nil
	r := tbls.Verify(st.groupPub, m2, agg) == nil
	note("group", g, r, tbls.Verify(st.groupPub, m1, agg) == nil)
	// the plain BLS aggregate of the partials under VerifyAggregate (FastAggregateVerify)
	plain, err := tbls.Aggregate(sigs)
	if err != nil {
		failed = true
	}
	g = tbls.VerifyAggregate(pubs, plain, m1) == nil
	r = tbls.VerifyAggregate(pubs, plain, m2) == nil
	note("aggregate", g, r, tbls.VerifyAggregate(pubs, plain, m1) == nil)
	// interleaved: two signatures over two messages, both verified, then each presented for the other's message
	for name, kp := range map[string]struct {
		key tbls.PrivateKey
		pub tbls.PublicKey
	}{"crossGroup": {st.secret, st.groupPub}, "crossShare": {st.shares[st.idOf(st.lastS[0])], parts[0].pub}} {
		s1, err1 := tbls.Sign(kp.key, m1)
		s2, err2 := tbls.Sign(kp.key, m2)
		if err1 != nil || err2 != nil {
			failed = true
		}
		g := tbls.Verify(kp.pub, m1, s1) == nil && tbls.Verify(kp.pub, m2, s2) == nil
		c := tbls.Verify(kp.pub, m2, s1) == nil || tbls.Verify(kp.pub, m1, s2) == nil
		s := tbls.Verify(kp.pub, m1, s1) == nil && tbls.Verify(kp.pub, m2, s2) == nil
		genuine, cross, still = genuine && g, cross || c, still && s
		det[name] = []bool{g, c, s}
	}
	tr.Emit(drv.Step{"ev": "Replay", "setupErr": failed, "genuine": genuine, "replayVerifies": replay, "crossVerifies": cross,
		"stillVerifies": still, "detail": det})
}
