// Package retryexec executes Retry schedules on the real app/retry.Retryer and records what it did.
//
// Two modes (first step of a schedule, {"ev":"Cfg","mode":...}):
//
//	wire  production constructor retry.New(core.NewDutyDeadlineFunc(...)) wired with core.Wire(..., core.WithAsyncRetry(r))
//	      between ten recording stub components; a call = one invocation of a workflow edge through the function the
//	      wiring subscribed (so it is the wiring that decides whether DoAsync is involved, with which duty and function)
//	fort  retry.NewForT with an injected ctxTimeoutFunc (deadline taken from the schedule, optionally held at a gate
//	      until a Release step: Shutdown can then be placed between startAsync and the first attempt) and injected
//	      backoff timers (durations from the schedule; the iteration number handed in is recorded)
//
// Every schedule runs inside a testing/synctest bubble: time is virtual and exact, it advances only when every
// goroutine of the bubble is durably blocked, synctest.Wait() after every stimulus is the quiescence barrier.  Nothing
// here sleeps on the wall clock and nothing here knows what should happen: the component functions are scripts (per
// attempt: how long it takes, what it returns, whether it gives up when its context ends), every entry/return of a
// component function, every observed end of a context, every return of an edge / of DoAsync / of Shutdown is recorded
// with the virtual time in microseconds.  RetryTrace.tla decides.
package retryexec

import (
	"context"
	"errors"
	"fmt"
	"net"
	"net/url"
	"sync"
	"testing"
	"testing/synctest"
	"time"

	eth2api "github.com/attestantio/go-eth2-client/api"
	eth2v1 "github.com/attestantio/go-eth2-client/api/v1"
	eth2spec "github.com/attestantio/go-eth2-client/spec"
	"github.com/attestantio/go-eth2-client/spec/altair"
	eth2p0 "github.com/attestantio/go-eth2-client/spec/phase0"
	"github.com/libp2p/go-libp2p/core/protocol"

	cerrors "github.com/obolnetwork/charon/app/errors"
	"github.com/obolnetwork/charon/app/retry"
	"github.com/obolnetwork/charon/core"
	"github.com/obolnetwork/charon/testutil/beaconmock"

	"verifharness/drv"
)

// client answers the two questions core.NewDutyDeadlineFunc asks (no HTTP inside the bubble).
type client struct {
	beaconmock.Mock

	genesis time.Time
	spec    map[string]any
}

func (c client) Genesis(context.Context, *eth2api.GenesisOpts) (*eth2api.Response[*eth2v1.Genesis], error) {
	return &eth2api.Response[*eth2v1.Genesis]{Data: &eth2v1.Genesis{GenesisTime: c.genesis}, Metadata: map[string]any{}}, nil
}

func (c client) Spec(context.Context, *eth2api.SpecOpts) (*eth2api.Response[map[string]any], error) {
	return &eth2api.Response[map[string]any]{Data: c.spec, Metadata: map[string]any{}}, nil
}

// attempt is one scripted behaviour of a component function.
type attempt struct {
	lat  time.Duration
	res  map[string]any
	hon  bool // gives up with ctx.Err() as soon as the context it was handed ends
	last bool
}

type call struct {
	id     int
	edge   string
	duty   core.Duty
	script []attempt
	n      int // attempts entered so far
	gated  bool
	gate   chan struct{}
	dl     int // fort: deadline in ms since genesis, -1 none
	label  string
	parent context.Context
	cancel context.CancelFunc
}

type env struct {
	t       *testing.T
	mu      sync.Mutex
	events  []drv.Step
	genesis time.Time
	calls   map[int]*call
	byKey   map[string]*call
	quit    chan struct{}
	cur     *call // fort: the call whose DoAsync is being started (backoffProvider has no argument)
	bo      []time.Duration
	running int // component functions entered and not returned
	asyncs  int // DoAsync (fort) / edge functions (wire) started and not returned
	shut    int // 0 not called, 1 called, 2 returned
	w       wires
	r       *retry.Retryer[core.Duty]
	hctx    context.Context
	hcancel context.CancelFunc
}

func (e *env) us() int { return int(time.Since(e.genesis) / time.Microsecond) }

// log appends an event stamped with the virtual time (under the mutex: the log is a linearisation).
func (e *env) log(ev drv.Step, f func()) {
	e.mu.Lock()
	defer e.mu.Unlock()
	if f != nil {
		f()
	}
	ev["t"] = e.us()
	e.events = append(e.events, ev)
}

func ctxState(ctx context.Context) string {
	switch {
	case ctx.Err() == nil:
		return "live"
	case errors.Is(ctx.Err(), context.DeadlineExceeded):
		return "deadline"
	default:
		return "canceled"
	}
}

const maxAttempts = 400

func key(edge string, d core.Duty) string { return fmt.Sprintf("%s|%d|%d", edge, d.Type, d.Slot) }

// mkErr builds the error value a script entry describes.
func mkErr(res map[string]any) error {
	txt := drv.Str(res["txt"])
	switch drv.Str(res["kind"]) {
	case "ok":
		return nil
	case "text":
		if drv.Str(res["how"]) == "wrap" { // charon's structured error wrapping an inner cause: Error() = "outer: inner"
			return cerrors.Wrap(errors.New(drv.Str(res["inner"])), drv.Str(res["outer"]))
		}

		return cerrors.New(txt)
	case "eth2":
		return eth2api.Error{Method: drv.Str(res["method"]), Endpoint: "/eth/v1/x", StatusCode: drv.Num(res["status"]), Data: []byte(drv.Str(res["data"]))}
	case "net":
		switch drv.Str(res["how"]) {
		case "dns":
			return &net.DNSError{Err: "no such host", Name: "bn", IsNotFound: true}
		case "url":
			return &url.Error{Op: "Get", URL: "http://bn/eth/v1/x", Err: errors.New("EOF")}
		case "wrap":
			return cerrors.Wrap(&net.OpError{Op: "read", Net: "tcp", Err: errors.New("connection reset by peer")}, "submit")
		case "timeout":
			return &net.OpError{Op: "dial", Net: "tcp", Err: timeoutErr{}}
		default:
			return &net.OpError{Op: "dial", Net: "tcp", Err: errors.New("connection refused")}
		}
	case "canceled":
		if drv.Str(res["how"]) == "wrap" {
			return cerrors.Wrap(context.Canceled, "inner call")
		}

		return context.Canceled
	case "deadline":
		if drv.Str(res["how"]) == "wrap" {
			return fmt.Errorf("inner call: %w", context.DeadlineExceeded)
		}

		return context.DeadlineExceeded
	}
	panic("unknown result kind " + drv.Str(res["kind"]))
}

type timeoutErr struct{}

func (timeoutErr) Error() string   { return "i/o timeout" }
func (timeoutErr) Timeout() bool   { return true }
func (timeoutErr) Temporary() bool { return true }

// attempt is the body of every component function: it records entry and return and behaves as scripted.
func (e *env) attempt(edge string, duty core.Duty, ctx context.Context) error {
	e.mu.Lock()
	c := e.byKey[key(edge, duty)]
	e.mu.Unlock()
	if c == nil {
		e.log(drv.Step{"ev": "AStart", "c": 0, "i": 0, "err": ctxState(ctx), "dl": -1, "edge": edge, "dtype": duty.Type.String(), "dslot": int(duty.Slot)}, nil)
		return nil
	}
	dl := -1
	if d, ok := ctx.Deadline(); ok {
		dl = int(d.Sub(e.genesis) / time.Microsecond)
	}
	var i int
	ev := drv.Step{"ev": "AStart", "c": c.id, "dl": dl}
	e.log(ev, func() {
		i = c.n
		c.n++
		e.running++
		ev["i"] = i
		ev["err"] = ctxState(ctx) // read under the log's mutex: the log is a linearisation of what the goroutines saw
	})
	if i == 0 {
		go e.watch(ctx, c)
	}
	if i >= maxAttempts { // a runaway loop: stop feeding it (the drain then reports the hang)
		<-e.quit
		e.log(drv.Step{"ev": "AEnd", "c": c.id, "i": i, "res": drv.Step{"kind": "ok", "txt": ""}}, func() { e.running-- })

		return nil
	}
	sc := c.script[len(c.script)-1]
	if i < len(c.script) {
		sc = c.script[i]
	}
	res := sc.res
	timer := time.NewTimer(sc.lat)
	defer timer.Stop()
	var done <-chan struct{}
	if sc.hon {
		done = ctx.Done()
	}
	select {
	case <-timer.C:
	case <-done:
		res = map[string]any{"kind": ctxState(ctx)}
	case <-e.quit:
		res = map[string]any{"kind": "ok"}
	}
	err := mkErr(res)
	out := drv.Step{"kind": drv.Str(res["kind"]), "txt": ""}
	if err != nil && (out["kind"] == "text" || out["kind"] == "eth2") {
		out["txt"] = err.Error()
	}
	e.log(drv.Step{"ev": "AEnd", "c": c.id, "i": i, "res": out}, func() { e.running-- })

	return err
}

// watch records when the context handed to a call's first attempt ends.
func (e *env) watch(ctx context.Context, c *call) {
	select {
	case <-ctx.Done():
		ev := drv.Step{"ev": "CtxDone", "c": c.id}
		e.log(ev, func() { ev["err"] = ctxState(ctx) })
	case <-e.quit:
	}
}

// ---- the ten stub components of wire mode: they keep what the wiring subscribes and run the script when called ----

type wires struct {
	duties    []func(context.Context, core.Duty, core.DutyDefinitionSet) error
	fetchOnly func(context.Context, core.Duty, core.DutyDefinitionSet, string, eth2p0.Root) error
	fetchSubs []func(context.Context, core.Duty, core.UnsignedDataSet) error
	consSubs  []func(context.Context, core.Duty, core.UnsignedDataSet) error
	vapiSubs  []func(context.Context, core.Duty, core.ParSignedDataSet) error
	internal  []func(context.Context, core.Duty, core.ParSignedDataSet) error
	threshold []func(context.Context, core.Duty, map[core.PubKey][]core.ParSignedData) error
	exSubs    []func(context.Context, core.Duty, core.ParSignedDataSet) error
	aggSubs   []func(context.Context, core.Duty, core.SignedDataSet) error
}

type (
	sched    struct{ e *env }
	fetcher  struct{ e *env }
	cons     struct{ e *env }
	dutyDB   struct{ e *env }
	vapi     struct{ e *env }
	parSigDB struct{ e *env }
	parSigEx struct{ e *env }
	sigAgg   struct{ e *env }
	aggSigDB struct{ e *env }
	bcaster  struct{ e *env }
)

var errStub = errors.New("stub")

func (s sched) SubscribeDuties(fn func(context.Context, core.Duty, core.DutyDefinitionSet) error) {
	s.e.w.duties = append(s.e.w.duties, fn)
}
func (s sched) SubscribeSlots(func(context.Context, core.Slot) error) {}
func (s sched) GetDutyDefinition(context.Context, core.Duty) (core.DutyDefinitionSet, error) {
	return nil, errStub
}
func (s sched) RegisterFetcherFetchOnly(fn func(context.Context, core.Duty, core.DutyDefinitionSet, string, eth2p0.Root) error) {
	s.e.w.fetchOnly = fn
}

func (f fetcher) Fetch(ctx context.Context, d core.Duty, _ core.DutyDefinitionSet) error {
	return f.e.attempt("fetch", d, ctx)
}
func (f fetcher) FetchOnly(ctx context.Context, d core.Duty, _ core.DutyDefinitionSet, _ string, _ eth2p0.Root) error {
	return f.e.attempt("fetchonly", d, ctx)
}
func (f fetcher) Subscribe(fn func(context.Context, core.Duty, core.UnsignedDataSet) error) {
	f.e.w.fetchSubs = append(f.e.w.fetchSubs, fn)
}
func (f fetcher) RegisterAggSigDB(func(context.Context, core.Duty, core.PubKey, core.SubcommitteeIndex) (core.SignedData, error)) {
}
func (f fetcher) RegisterAwaitAttData(func(ctx context.Context, slot uint64, commIdx uint64) (*eth2p0.AttestationData, error)) {
}

func (c cons) ProtocolID() protocol.ID { return "stub" }
func (c cons) Start(context.Context)   {}
func (c cons) Participate(ctx context.Context, d core.Duty) error {
	return c.e.attempt("participate", d, ctx)
}
func (c cons) Propose(ctx context.Context, d core.Duty, _ core.UnsignedDataSet) error {
	return c.e.attempt("propose", d, ctx)
}
func (c cons) Subscribe(fn func(context.Context, core.Duty, core.UnsignedDataSet) error) {
	c.e.w.consSubs = append(c.e.w.consSubs, fn)
}

func (d dutyDB) Store(ctx context.Context, du core.Duty, _ core.UnsignedDataSet) error {
	return d.e.attempt("dutydbstore", du, ctx)
}
func (d dutyDB) AwaitProposal(context.Context, uint64) (*eth2api.VersionedProposal, error) {
	return nil, errStub
}
func (d dutyDB) AwaitAttestation(context.Context, uint64, uint64) (*eth2p0.AttestationData, error) {
	return nil, errStub
}
func (d dutyDB) PubKeyByAttestation(context.Context, uint64, uint64, uint64) (core.PubKey, error) {
	return "", errStub
}
func (d dutyDB) AwaitAggAttestation(context.Context, uint64, eth2p0.Root, eth2p0.CommitteeIndex) (*eth2spec.VersionedAttestation, error) {
	return nil, errStub
}
func (d dutyDB) AwaitSyncContribution(context.Context, uint64, uint64, eth2p0.Root) (*altair.SyncCommitteeContribution, error) {
	return nil, errStub
}

func (v vapi) RegisterAwaitProposal(func(ctx context.Context, slot uint64) (*eth2api.VersionedProposal, error)) {
}
func (v vapi) RegisterAwaitAttestation(func(ctx context.Context, slot, commIdx uint64) (*eth2p0.AttestationData, error)) {
}
func (v vapi) RegisterAwaitSyncContribution(func(ctx context.Context, slot, subcommIdx uint64, beaconBlockRoot eth2p0.Root) (*altair.SyncCommitteeContribution, error)) {
}
func (v vapi) RegisterPubKeyByAttestation(func(ctx context.Context, slot, commIdx, valIdx uint64) (core.PubKey, error)) {
}
func (v vapi) RegisterGetDutyDefinition(func(context.Context, core.Duty) (core.DutyDefinitionSet, error)) {
}
func (v vapi) RegisterAwaitAggAttestation(func(ctx context.Context, slot uint64, attestationDataRoot eth2p0.Root, committeeIndex eth2p0.CommitteeIndex) (*eth2spec.VersionedAttestation, error)) {
}
func (v vapi) RegisterAwaitAggSigDB(func(context.Context, core.Duty, core.PubKey, core.SubcommitteeIndex) (core.SignedData, error)) {
}
func (v vapi) Subscribe(fn func(context.Context, core.Duty, core.ParSignedDataSet) error) {
	v.e.w.vapiSubs = append(v.e.w.vapiSubs, fn)
}

func (p parSigDB) StoreInternal(ctx context.Context, d core.Duty, _ core.ParSignedDataSet) error {
	return p.e.attempt("storeinternal", d, ctx)
}
func (p parSigDB) StoreExternal(ctx context.Context, d core.Duty, _ core.ParSignedDataSet) error {
	return p.e.attempt("storeexternal", d, ctx)
}
func (p parSigDB) SubscribeInternal(fn func(context.Context, core.Duty, core.ParSignedDataSet) error) {
	p.e.w.internal = append(p.e.w.internal, fn)
}
func (p parSigDB) SubscribeThreshold(fn func(context.Context, core.Duty, map[core.PubKey][]core.ParSignedData) error) {
	p.e.w.threshold = append(p.e.w.threshold, fn)
}

func (p parSigEx) Broadcast(ctx context.Context, d core.Duty, _ core.ParSignedDataSet) error {
	return p.e.attempt("psbcast", d, ctx)
}
func (p parSigEx) Subscribe(fn func(context.Context, core.Duty, core.ParSignedDataSet) error) {
	p.e.w.exSubs = append(p.e.w.exSubs, fn)
}

func (s sigAgg) Aggregate(ctx context.Context, d core.Duty, _ map[core.PubKey][]core.ParSignedData) error {
	return s.e.attempt("aggregate", d, ctx)
}
func (s sigAgg) Subscribe(fn func(context.Context, core.Duty, core.SignedDataSet) error) {
	s.e.w.aggSubs = append(s.e.w.aggSubs, fn)
}

func (a aggSigDB) Store(ctx context.Context, d core.Duty, _ core.SignedDataSet) error {
	return a.e.attempt("aggstore", d, ctx)
}
func (a aggSigDB) Await(context.Context, core.Duty, core.PubKey, core.SubcommitteeIndex) (core.SignedData, error) {
	return nil, errStub
}
func (a aggSigDB) Run(context.Context) {}

func (b bcaster) Broadcast(ctx context.Context, d core.Duty, _ core.SignedDataSet) error {
	return b.e.attempt("bcast", d, ctx)
}

// invoke calls the function the wiring subscribed for an edge (in the order core.Wire subscribes them).
func (e *env) invoke(c *call) error {
	ctx, d := c.parent, c.duty
	switch c.edge {
	case "fetch":
		return e.w.duties[0](ctx, d, nil)
	case "participate":
		return e.w.duties[1](ctx, d, nil)
	case "fetchonly":
		return e.w.fetchOnly(ctx, d, nil, "", eth2p0.Root{})
	case "propose":
		return e.w.fetchSubs[0](ctx, d, nil)
	case "dutydbstore":
		return e.w.consSubs[0](ctx, d, nil)
	case "storeinternal":
		return e.w.vapiSubs[0](ctx, d, nil)
	case "psbcast":
		return e.w.internal[0](ctx, d, nil)
	case "storeexternal":
		return e.w.exSubs[0](ctx, d, nil)
	case "aggregate":
		return e.w.threshold[0](ctx, d, nil)
	case "aggstore":
		return e.w.aggSubs[0](ctx, d, nil)
	case "bcast":
		return e.w.aggSubs[1](ctx, d, nil)
	}
	panic("unknown edge " + c.edge)
}

func dutyType(name string) core.DutyType {
	for i := range 14 {
		if core.DutyType(i).String() == name {
			return core.DutyType(i)
		}
	}
	panic("unknown duty type " + name)
}

func ms(v any) time.Duration { return time.Duration(drv.Num(v)) * time.Millisecond }

func TestExec(t *testing.T) {
	drv.QuietLogs(t)
	scheds := drv.ReadSchedules(t)
	tr := drv.NewTracer(t)
	defer tr.Close()
	for i, s := range scheds {
		hung := false
		synctest.Test(t, func(t *testing.T) { hung = runOne(t, tr, i, s) })
		if hung {
			break
		}
	}
}

func runOne(t *testing.T, tr *drv.Tracer, sid int, sched []drv.Step) (hung bool) {
	cfg := sched[0]
	if drv.Str(cfg["ev"]) != "Cfg" {
		t.Fatalf("schedule %d does not start with Cfg", sid)
	}
	mode := drv.Str(cfg["mode"])
	e := &env{t: t, genesis: time.Now(), calls: map[int]*call{}, byKey: map[string]*call{}, quit: make(chan struct{})}
	e.hctx, e.hcancel = context.WithCancel(context.Background())
	reset := drv.Step{"ev": "Reset", "sid": sid, "t": 0, "mode": mode, "slotus": 0, "spe": 0, "bo": []int{0}}
	if mode == "wire" {
		slot := ms(cfg["slotms"])
		spe := drv.Num(cfg["spe"])
		reset["slotus"], reset["spe"] = int(slot/time.Microsecond), spe
		cl := client{genesis: e.genesis, spec: map[string]any{"SECONDS_PER_SLOT": slot, "SLOTS_PER_EPOCH": uint64(spe)}}
		dlf, err := core.NewDutyDeadlineFunc(context.Background(), cl)
		if err != nil {
			t.Fatalf("deadline func: %v", err)
		}
		e.r = retry.New[core.Duty](dlf)
		core.Wire(sched_(e), fetcher{e}, cons{e}, dutyDB{e}, vapi{e}, parSigDB{e}, parSigEx{e}, sigAgg{e}, aggSigDB{e}, bcaster{e},
			core.WithAsyncRetry(e.r))
	} else {
		var bo []int
		for _, b := range cfg["bo"].([]any) {
			e.bo = append(e.bo, ms(b))
			bo = append(bo, drv.Num(b)*1000)
		}
		reset["bo"] = bo
		e.r = retry.NewForT[core.Duty](t,
			func(ctx context.Context, d core.Duty) (context.Context, context.CancelFunc) {
				e.mu.Lock()
				c := e.byKey[key("fort", d)]
				e.mu.Unlock()
				if c.gated {
					select {
					case <-c.gate:
					case <-e.quit:
					}
				}
				if c.dl < 0 {
					return ctx, func() {}
				}

				return context.WithDeadline(ctx, e.genesis.Add(time.Duration(c.dl)*time.Millisecond))
			},
			func() func(int) *time.Timer {
				c := e.cur
				return func(i int) *time.Timer {
					e.log(drv.Step{"ev": "BO", "c": c.id, "i": i}, nil)
					if i >= len(e.bo) {
						i = len(e.bo) - 1
					}

					return time.NewTimer(e.bo[i])
				}
			})
	}
	e.events = append(e.events, reset)

	for _, st := range sched[1:] {
		if d := time.Until(e.genesis.Add(ms(st["at"]))); d > 0 {
			time.Sleep(d)
		}
		switch drv.Str(st["ev"]) {
		case "Go":
			e.doGo(mode, st)
		case "Shutdown":
			e.doShutdown(drv.Num(st["to"]))
		case "ParentCancel":
			c := e.calls[drv.Num(st["c"])]
			e.log(drv.Step{"ev": "ParentCancel", "c": c.id}, c.cancel) // under the log's mutex: ordered against every recorded ctx.Err()
		case "Release":
			c := e.calls[drv.Num(st["c"])]
			e.log(drv.Step{"ev": "Release", "c": c.id}, func() { close(c.gate) })
		default:
			t.Fatalf("unknown step %v", st)
		}
		synctest.Wait()
	}
	// drain: virtual time goes on until everything that was started has returned
	idle := func() bool {
		e.mu.Lock()
		defer e.mu.Unlock()
		return e.running == 0 && e.asyncs == 0 && e.shut != 1
	}
	for k := 0; !idle() && k < 1900; k++ {
		time.Sleep(time.Second)
		synctest.Wait()
	}
	if idle() {
		e.log(drv.Step{"ev": "End"}, nil)
	} else {
		e.log(drv.Step{"ev": "Hang"}, nil)
		hung = true
	}
	close(e.quit)
	e.hcancel()
	for _, c := range e.calls {
		c.cancel()
	}
	synctest.Wait()
	for _, ev := range e.events {
		tr.Emit(ev)
	}

	return hung
}

func sched_(e *env) sched { return sched{e} }

func (e *env) doGo(mode string, st drv.Step) {
	c := &call{id: drv.Num(st["c"]), edge: drv.Str(st["edge"]), gated: st["gated"] == true, gate: make(chan struct{}), dl: -1,
		label: drv.Str(st["label"])}
	du := st["duty"].(map[string]any)
	c.duty = core.Duty{Slot: uint64(drv.Num(du["slot"])), Type: dutyType(drv.Str(du["type"]))}
	for _, a := range st["script"].([]any) {
		m := a.(map[string]any)
		c.script = append(c.script, attempt{lat: ms(m["lat"]), res: m["res"].(map[string]any), hon: m["hon"] == true})
	}
	c.parent, c.cancel = context.WithCancel(e.hctx)
	ev := drv.Step{"ev": "Go", "c": c.id, "edge": c.edge, "duty": du, "label": c.label, "dl": -1, "gated": c.gated}
	if mode == "fort" {
		c.edge = "fort"
		c.dl = drv.Num(st["dl"])
		if c.dl >= 0 {
			ev["dl"] = c.dl * 1000
		}
	}
	e.mu.Lock()
	e.calls[c.id] = c
	e.byKey[key(c.edge, c.duty)] = c
	e.mu.Unlock()
	if mode == "fort" {
		e.cur = c
		e.log(ev, func() { e.asyncs++ })
		go func() {
			e.r.DoAsync(c.parent, c.duty, c.label, "f", func(ctx context.Context) error { return e.attempt("fort", c.duty, ctx) })
			e.log(drv.Step{"ev": "Ret", "c": c.id}, func() { e.asyncs-- })
		}()

		return
	}
	e.log(ev, func() { e.asyncs++ })
	go func() { // an edge that is not wrapped blocks its caller: the schedule goes on meanwhile
		err := e.invoke(c)
		e.log(drv.Step{"ev": "EdgeRet", "c": c.id, "nil": err == nil}, func() { e.asyncs-- })
	}()
}

func (e *env) doShutdown(to int) {
	ctx, cancel := e.hctx, context.CancelFunc(func() {})
	if to >= 0 {
		ctx, cancel = context.WithTimeout(e.hctx, time.Duration(to)*time.Millisecond)
	}
	tous := -1
	if to >= 0 {
		tous = to * 1000
	}
	e.log(drv.Step{"ev": "ShutCall", "to": tous}, func() { e.shut = 1 })
	go func() {
		e.r.Shutdown(ctx)
		e.log(drv.Step{"ev": "ShutRet"}, func() { e.shut = 2 })
		cancel()
	}()
}
