// Package vapirouter executes VapiRouter cases on the REAL validatorapi.NewRouter and records what happened.
//
// Two routers (builderEnabled false / true) are served by httptest.Server over ONE scripted Handler (the interface of
// core/validatorapi/router.go) and ONE scripted upstream beacon node (httptest.Server, reached by the router's events
// handler through Handler.Address / Handler.Headers).  A schedule is one abstract request (specs/VapiRouter); the executor
// instantiates it as a real HTTP request (JSON through the repository's own eth2 types, SSZ through their MarshalSSZ),
// sends it over a real socket and logs
//
//	Reset  the case + what was put on the wire + the digest of every object of the body
//	H      the Handler method that was called, its arguments (as strings), the digests of the objects it got, its answer
//	PX     Handler.Proxy: the request as it saw it, its answer            UP  the upstream: the request as it saw it
//	Resp   what the client got: status, content type class, error code, the digests of the decoded data, the other
//	       top-level fields of the body and the interesting response headers
//	CtxEnd a Handler call scripted to block: how its context ended (canceled: the client went away - the executor cancels the
//	       request once the call has begun; deadline: the router's own 10 s request timeout; none: it did not within 40 s)
//	Probe  after a broken connection: does the listener still serve?      End
//
// Nothing here knows what should happen; VapiRouterTrace.tla decides.  The Handler answers as the case scripts it (ok with n
// fresh random objects of the scripted version / blinded flag / metadata, an error, a panic).  Requests are attributed to
// (The wait for a context to end is the only real-time wait; its verdict is WHICH way the context ended, not when.)  Requests are attributed to
// their case by the header X-Verif-Req, which a wrapper IN FRONT of the real router copies into the request context (the
// Handler methods get that context); VERIF_CONC requests are in flight at a time.
package vapirouter

import (
	"bytes"
	"context"
	"crypto/sha256"
	"encoding/hex"
	"encoding/json"
	"errors"
	"fmt"
	"io"
	stdlog "log"
	"math/big"
	"net/http"
	"net/http/httptest"
	"os"
	"sort"
	"strconv"
	"strings"
	"sync"
	"testing"
	"time"

	eth2api "github.com/attestantio/go-eth2-client/api"
	eth2v1 "github.com/attestantio/go-eth2-client/api/v1"
	eth2bellatrix "github.com/attestantio/go-eth2-client/api/v1/bellatrix"
	eth2capella "github.com/attestantio/go-eth2-client/api/v1/capella"
	eth2deneb "github.com/attestantio/go-eth2-client/api/v1/deneb"
	eth2electra "github.com/attestantio/go-eth2-client/api/v1/electra"
	eth2fulu "github.com/attestantio/go-eth2-client/api/v1/fulu"
	eth2spec "github.com/attestantio/go-eth2-client/spec"
	"github.com/attestantio/go-eth2-client/spec/altair"
	"github.com/attestantio/go-eth2-client/spec/bellatrix"
	"github.com/attestantio/go-eth2-client/spec/capella"
	"github.com/attestantio/go-eth2-client/spec/electra"
	eth2p0 "github.com/attestantio/go-eth2-client/spec/phase0"

	"github.com/obolnetwork/charon/core/validatorapi"
	"github.com/obolnetwork/charon/testutil"

	"verifharness/drv"
)

type ctxKey struct{}

// rq is one request in flight: its case and its events.
type rq struct {
	mu      sync.Mutex
	c       drv.Step
	ev      []drv.Step
	entered chan struct{} // closed when a blocking Handler call has begun
	done    chan struct{} // closed when it has seen its context end (or has given up waiting)
}

// block is a Handler call that does not return before its context ends; it logs how the context ended.
func (r *rq) block(ctx context.Context) {
	close(r.entered)
	res := "none"
	select {
	case <-ctx.Done():
		res = "canceled"
		if errors.Is(ctx.Err(), context.DeadlineExceeded) {
			res = "deadline"
		}
	case <-time.After(40 * time.Second):
	}
	r.emit(drv.Step{"ev": "CtxEnd", "ctxerr": res})
	close(r.done)
}

func (r *rq) emit(e drv.Step) {
	r.mu.Lock()
	r.ev = append(r.ev, e)
	r.mu.Unlock()
}

var (
	inflight sync.Map // id -> *rq
	tt       *testing.T
)

func lookup(id string) *rq {
	if v, ok := inflight.Load(id); ok {
		return v.(*rq)
	}
	return nil
}

func fromCtx(ctx context.Context) *rq {
	id, _ := ctx.Value(ctxKey{}).(string)
	return lookup(id)
}

func dig(v any) string {
	b, err := json.Marshal(v)
	if err != nil {
		return "marshal-error:" + err.Error()
	}
	h := sha256.Sum256(b)
	return hex.EncodeToString(h[:8])
}

func digBytes(b []byte) string {
	if len(b) == 0 {
		return ""
	}
	h := sha256.Sum256(b)
	return hex.EncodeToString(h[:8])
}

func sub(m drv.Step, k string) drv.Step {
	s, _ := m[k].(map[string]any)
	return s
}

var forks = map[string]eth2spec.DataVersion{"phase0": eth2spec.DataVersionPhase0, "altair": eth2spec.DataVersionAltair,
	"bellatrix": eth2spec.DataVersionBellatrix, "capella": eth2spec.DataVersionCapella, "deneb": eth2spec.DataVersionDeneb,
	"electra": eth2spec.DataVersionElectra, "fulu": eth2spec.DataVersionFulu}

func preElectra(f string) bool { return forks[f] < eth2spec.DataVersionElectra }

// ---------------------------------------------------------------------------------------------------------------------
// objects
// ---------------------------------------------------------------------------------------------------------------------

type sszM interface{ MarshalSSZ() ([]byte, error) }

func signedBlock(fork string) any {
	sig := testutil.RandomEth2Signature()
	switch fork {
	case "phase0":
		return &eth2p0.SignedBeaconBlock{Message: testutil.RandomPhase0BeaconBlock(), Signature: sig}
	case "altair":
		return &altair.SignedBeaconBlock{Message: testutil.RandomAltairBeaconBlock(), Signature: sig}
	case "bellatrix":
		return &bellatrix.SignedBeaconBlock{Message: testutil.RandomBellatrixBeaconBlock(), Signature: sig}
	case "capella":
		return &capella.SignedBeaconBlock{Message: testutil.RandomCapellaBeaconBlock(), Signature: sig}
	case "deneb":
		return testutil.RandomDenebVersionedSignedProposal().Deneb
	case "electra":
		return testutil.RandomElectraVersionedSignedProposal().Electra
	default:
		return testutil.RandomFuluVersionedSignedProposal().Fulu
	}
}

func signedBlinded(fork string) any {
	sig := testutil.RandomEth2Signature()
	switch fork {
	case "bellatrix":
		return &eth2bellatrix.SignedBlindedBeaconBlock{Message: testutil.RandomBellatrixBlindedBeaconBlock(), Signature: sig}
	case "capella":
		return &eth2capella.SignedBlindedBeaconBlock{Message: testutil.RandomCapellaBlindedBeaconBlock(), Signature: sig}
	case "deneb":
		return &eth2deneb.SignedBlindedBeaconBlock{Message: testutil.RandomDenebBlindedBeaconBlock(), Signature: sig}
	case "phase0", "altair": // no such thing: a capella one stands in (the header is what is at fault)
		return &eth2capella.SignedBlindedBeaconBlock{Message: testutil.RandomCapellaBlindedBeaconBlock(), Signature: sig}
	default:
		return &eth2electra.SignedBlindedBeaconBlock{Message: testutil.RandomElectraBlindedBeaconBlock(), Signature: sig}
	}
}

func single(a *electra.Attestation, vi eth2p0.ValidatorIndex) *electra.SingleAttestation {
	ci := eth2p0.CommitteeIndex(1<<63 - 1)
	if a.CommitteeBits != nil {
		if idx := a.CommitteeBits.BitIndices(); len(idx) == 1 {
			ci = eth2p0.CommitteeIndex(idx[0])
		}
	}
	return &electra.SingleAttestation{CommitteeIndex: ci, AttesterIndex: vi, Data: a.Data, Signature: a.Signature}
}

// bodyObjects returns the objects of a valid body of endpoint ep under fork: the value to marshal and the per-object values.
func bodyObjects(t *testing.T, ep, fork string) (any, []any) {
	two := func(f func() any) (any, []any) {
		a, b := f(), f()
		return []any{a, b}, []any{a, b}
	}
	switch ep {
	case "submit_attestations_v2":
		if preElectra(fork) {
			return two(func() any { return testutil.RandomPhase0Attestation() })
		}
		return two(func() any {
			a := testutil.RandomElectraAttestation()
			return &electra.SingleAttestation{CommitteeIndex: eth2p0.CommitteeIndex(testutil.RandomVIdx() % 64), AttesterIndex: testutil.RandomVIdx(),
				Data: a.Data, Signature: a.Signature}
		})
	case "submit_proposal_v1", "submit_proposal_v2":
		b := signedBlock(fork)
		return b, []any{b}
	case "submit_blinded_block_v1", "submit_blinded_block_v2":
		b := signedBlinded(fork)
		return b, []any{b}
	case "submit_voluntary_exit":
		e := testutil.RandomExit()
		return e, []any{e}
	case "aggregate_beacon_committee_selections":
		return two(func() any { return testutil.RandomBeaconCommitteeSelection() })
	case "aggregate_sync_committee_selections":
		return two(func() any { return testutil.RandomSyncCommitteeSelection() })
	case "submit_aggregate_and_proofs_v2":
		if preElectra(fork) {
			return two(func() any { return testutil.RandomSignedAggregateAndProof() })
		}
		return two(func() any {
			return &electra.SignedAggregateAndProof{Message: &electra.AggregateAndProof{AggregatorIndex: testutil.RandomVIdx(),
				Aggregate: testutil.RandomElectraAttestation(), SelectionProof: testutil.RandomEth2Signature()}, Signature: testutil.RandomEth2Signature()}
		})
	case "submit_sync_committee_messages":
		return two(func() any { return testutil.RandomSyncCommitteeMessage() })
	case "submit_contribution_and_proofs":
		return two(func() any { return testutil.RandomSignedSyncContributionAndProof() })
	case "submit_validator_registration":
		return two(func() any { return testutil.RandomSignedValidatorRegistration(t) })
	case "submit_proposal_preparations":
		return []any{map[string]string{"validator_index": "1", "fee_recipient": "0x" + strings.Repeat("ab", 20)}}, nil
	}
	return nil, nil
}

func digs(objs []any) []string {
	r := []string{}
	for _, o := range objs {
		r = append(r, dig(o))
	}
	return r
}

// buildBody returns the bytes of the body of case c and the digests of its objects.
func buildBody(t *testing.T, c drv.Step) ([]byte, []string) {
	ep, b := drv.Str(c["ep"]), sub(c, "body")
	enc, form := drv.Str(b["enc"]), drv.Str(b["form"])
	if form == "empty" {
		return nil, []string{}
	}
	if lit, ok := c["bodylit"].(string); ok { // a literal body chosen by the concretisation (index lists, validator ids, other paths)
		sent := []string{}
		for _, s := range c["bodysent"].([]any) {
			sent = append(sent, drv.Str(s))
		}
		return []byte(lit), sent
	}
	fork := drv.Str(c["bfork"])
	val, objs := bodyObjects(t, ep, fork)
	if val == nil {
		return nil, []string{}
	}
	var raw []byte
	var err error
	if enc == "ssz" {
		m, ok := val.(sszM)
		if !ok {
			raw = []byte{1, 2, 3, 4, 5, 6, 7, 8} // (registrations: the body is not looked at)
		} else if raw, err = m.MarshalSSZ(); err != nil {
			t.Fatalf("marshal ssz %s/%s: %v", ep, fork, err)
		}
	} else if raw, err = json.Marshal(val); err != nil {
		t.Fatalf("marshal json %s/%s: %v", ep, fork, err)
	}
	isArr := len(raw) > 0 && raw[0] == '['
	switch form {
	case "trunc":
		raw = raw[:len(raw)/2]
	case "garbage":
		if enc == "ssz" {
			raw = []byte{0xde, 0xad, 0xbe, 0xef, 1, 2, 3, 4, 5, 6, 7, 8, 9, 10, 11, 12, 13}
		} else {
			raw = []byte("{{{{not json")
		}
	case "wrongtype":
		if isArr {
			raw = []byte(`{"a":1}`)
		} else {
			raw = []byte(`[1,2]`)
		}
	case "extrafield":
		if isArr {
			var arr []map[string]json.RawMessage
			if err := json.Unmarshal(raw, &arr); err != nil {
				t.Fatalf("extrafield: %v", err)
			}
			arr[0]["zz_extra"] = json.RawMessage(`{"a":[1,2]}`)
			raw, _ = json.Marshal(arr)
		} else {
			var o map[string]json.RawMessage
			if err := json.Unmarshal(raw, &o); err != nil {
				t.Fatalf("extrafield: %v", err)
			}
			o["zz_extra"] = json.RawMessage(`"x"`)
			raw, _ = json.Marshal(o)
		}
	}
	return raw, digs(objs)
}

// ---------------------------------------------------------------------------------------------------------------------
// the scripted Handler
// ---------------------------------------------------------------------------------------------------------------------

type stub struct {
	mu      sync.Mutex
	addr    string
	headers map[string]string
}

var _ validatorapi.Handler = (*stub)(nil)

type answer struct {
	kind, ver, blinded, meta string
	nofield                  bool
	n, status                int
	err                      error // what the Handler method returns when kind is "err"
}

func ansOf(c drv.Step) answer {
	a := sub(c, "ans")
	nf, _ := a["nofield"].(bool)
	return answer{kind: drv.Str(a["kind"]), ver: drv.Str(a["ver"]), blinded: drv.Str(a["blinded"]), meta: drv.Str(a["meta"]), nofield: nf, n: drv.Num(a["n"]),
		status: drv.Num(a["status"])}
}

func retRec(a answer, objs []string) drv.Step {
	return drv.Step{"kind": a.kind, "objs": objs, "ver": a.ver, "blinded": a.blinded, "nofield": a.nofield, "ev": "0", "cv": "0", "meta": a.meta,
		"eo": "false", "droot": "", "status": a.status}
}

// called logs the H event and returns the scripted answer kind; ok = false: the request is not one of ours (probe).
func called(ctx context.Context, m string, args map[string]string, objs []string, ret drv.Step) (answer, *rq) {
	r := fromCtx(ctx)
	if r == nil {
		return answer{kind: "ok", n: 1, ver: "deneb", blinded: "false", meta: "ok"}, nil
	}
	args["_"] = ""
	a := ansOf(r.c)
	if ret == nil {
		ret = retRec(a, []string{})
	}
	r.emit(drv.Step{"ev": "H", "m": m, "args": args, "objs": objs, "ret": ret})
	if a.kind == "panic" {
		panic("scripted panic in Handler." + m)
	}
	switch a.kind {
	case "cancel", "timeout":
		r.block(ctx)
		a.kind, a.err = "err", errScripted
	case "apierr": // what go-eth2-client returns when the beacon node answered with that status
		a.kind, a.err = "err", apiErr(m, a.status)
	case "err":
		a.err = errScripted
	}
	return a, r
}

var errScripted = errors.New("scripted handler failure")

func apiErr(endpoint string, status int) error {
	return &eth2api.Error{Method: http.MethodGet, Endpoint: endpoint, StatusCode: status, Data: []byte(fmt.Sprintf(`{"code":%d,"message":"upstream says no"}`, status))}
}

func u(x uint64) string { return strconv.FormatUint(x, 10) }

func idxs(v []eth2p0.ValidatorIndex) []string {
	r := []string{}
	for _, i := range v {
		r = append(r, u(uint64(i)))
	}
	return r
}

func metadata(a answer, ret drv.Step) map[string]any {
	eo := testutil.RandomBool()
	droot := testutil.RandomRoot()
	ret["eo"], ret["droot"] = strconv.FormatBool(eo), fmt.Sprintf("%#x", droot)
	switch a.meta {
	case "nil":
		return nil
	case "noeo":
		return map[string]any{"dependent_root": droot}
	case "nodroot":
		return map[string]any{"execution_optimistic": eo}
	case "badeo":
		return map[string]any{"execution_optimistic": "true", "dependent_root": droot}
	case "baddroot":
		return map[string]any{"execution_optimistic": eo, "dependent_root": fmt.Sprintf("%#x", droot)}
	}
	return map[string]any{"execution_optimistic": eo, "dependent_root": droot}
}

func (s *stub) AttesterDuties(ctx context.Context, opts *eth2api.AttesterDutiesOpts) (*eth2api.Response[[]*eth2v1.AttesterDuty], error) {
	a := ansOf0(ctx)
	var data []*eth2v1.AttesterDuty
	objs := []any{}
	for i := 0; i < a.n; i++ {
		d := testutil.RandomAttestationDuty(tt)
		data, objs = append(data, d), append(objs, d)
	}
	ret := retRec(a, digs(objs))
	md := metadata(a, ret)
	if a, _ = called(ctx, "AttesterDuties", map[string]string{"epoch": u(uint64(opts.Epoch))}, idxs(opts.Indices), ret); a.kind == "err" {
		return nil, a.err
	}
	return &eth2api.Response[[]*eth2v1.AttesterDuty]{Data: data, Metadata: md}, nil
}

func ansOf0(ctx context.Context) answer {
	if r := fromCtx(ctx); r != nil {
		return ansOf(r.c)
	}
	return answer{kind: "ok", n: 1, ver: "deneb", blinded: "false", meta: "ok"}
}

func (s *stub) ProposerDuties(ctx context.Context, opts *eth2api.ProposerDutiesOpts) (*eth2api.Response[[]*eth2v1.ProposerDuty], error) {
	a := ansOf0(ctx)
	var data []*eth2v1.ProposerDuty
	objs := []any{}
	for i := 0; i < a.n; i++ {
		d := testutil.RandomProposerDuty(tt)
		data, objs = append(data, d), append(objs, d)
	}
	ret := retRec(a, digs(objs))
	md := metadata(a, ret)
	if a, _ = called(ctx, "ProposerDuties", map[string]string{"epoch": u(uint64(opts.Epoch))}, idxs(opts.Indices), ret); a.kind == "err" {
		return nil, a.err
	}
	return &eth2api.Response[[]*eth2v1.ProposerDuty]{Data: data, Metadata: md}, nil
}

func (s *stub) SyncCommitteeDuties(ctx context.Context, opts *eth2api.SyncCommitteeDutiesOpts) (*eth2api.Response[[]*eth2v1.SyncCommitteeDuty], error) {
	a := ansOf0(ctx)
	var data []*eth2v1.SyncCommitteeDuty
	objs := []any{}
	for i := 0; i < a.n; i++ {
		d := testutil.RandomSyncCommitteeDuty(tt)
		data, objs = append(data, d), append(objs, d)
	}
	if a, _ = called(ctx, "SyncCommitteeDuties", map[string]string{"epoch": u(uint64(opts.Epoch))}, idxs(opts.Indices), retRec(a, digs(objs))); a.kind == "err" {
		return nil, a.err
	}
	return &eth2api.Response[[]*eth2v1.SyncCommitteeDuty]{Data: data}, nil
}

func (s *stub) AttestationData(ctx context.Context, opts *eth2api.AttestationDataOpts) (*eth2api.Response[*eth2p0.AttestationData], error) {
	a := ansOf0(ctx)
	d := testutil.RandomAttestationDataPhase0()
	args := map[string]string{"slot": u(uint64(opts.Slot)), "committee_index": u(uint64(opts.CommitteeIndex))}
	if a, _ = called(ctx, "AttestationData", args, []string{}, retRec(a, digs([]any{d}))); a.kind == "err" {
		return nil, a.err
	}
	return &eth2api.Response[*eth2p0.AttestationData]{Data: d}, nil
}

func (s *stub) SubmitAttestations(ctx context.Context, opts *eth2api.SubmitAttestationsOpts) error {
	objs := []any{}
	ver := "none"
	for _, va := range opts.Attestations {
		v := va.Version.String()
		if ver != "none" && ver != v {
			v = "mixed"
		}
		ver = v
		var o any
		switch va.Version {
		case eth2spec.DataVersionPhase0:
			o = va.Phase0
		case eth2spec.DataVersionAltair:
			o = va.Altair
		case eth2spec.DataVersionBellatrix:
			o = va.Bellatrix
		case eth2spec.DataVersionCapella:
			o = va.Capella
		case eth2spec.DataVersionDeneb:
			o = va.Deneb
		case eth2spec.DataVersionElectra:
			if va.Electra != nil && va.ValidatorIndex != nil {
				o = single(va.Electra, *va.ValidatorIndex)
			}
		case eth2spec.DataVersionFulu:
			if va.Fulu != nil && va.ValidatorIndex != nil {
				o = single(va.Fulu, *va.ValidatorIndex)
			}
		}
		objs = append(objs, o)
	}
	if a, _ := called(ctx, "SubmitAttestations", map[string]string{"version": ver}, digs(objs), nil); a.kind == "err" {
		return a.err
	}
	return nil
}

func (s *stub) SubmitProposal(ctx context.Context, opts *eth2api.SubmitProposalOpts) error {
	p := opts.Proposal
	cands := map[string]any{"phase0": p.Phase0, "altair": p.Altair, "bellatrix": p.Bellatrix, "capella": p.Capella, "deneb": p.Deneb, "electra": p.Electra, "fulu": p.Fulu}
	if a, _ := called(ctx, "SubmitProposal", map[string]string{"version": p.Version.String()}, onlyField(cands, p.Version.String()), nil); a.kind == "err" {
		return a.err
	}
	return nil
}

// onlyField digests the field of the version, "stray:<name>" for every other field that is set.
func onlyField(cands map[string]any, ver string) []string {
	r := []string{}
	names := []string{}
	for k := range cands {
		names = append(names, k)
	}
	sort.Strings(names)
	for _, k := range names {
		b, _ := json.Marshal(cands[k])
		if string(b) == "null" {
			continue
		}
		if k == ver {
			r = append(r, dig(cands[k]))
		} else {
			r = append(r, "stray:"+k)
		}
	}
	return r
}

func (s *stub) SubmitBlindedProposal(ctx context.Context, opts *eth2api.SubmitBlindedProposalOpts) error {
	p := opts.Proposal
	cands := map[string]any{"bellatrix": p.Bellatrix, "capella": p.Capella, "deneb": p.Deneb, "electra": p.Electra, "fulu": p.Fulu}
	if a, _ := called(ctx, "SubmitBlindedProposal", map[string]string{"version": p.Version.String()}, onlyField(cands, p.Version.String()), nil); a.kind == "err" {
		return a.err
	}
	return nil
}

func (s *stub) Validators(ctx context.Context, opts *eth2api.ValidatorsOpts) (*eth2api.Response[map[eth2p0.ValidatorIndex]*eth2v1.Validator], error) {
	a := ansOf0(ctx)
	data := map[eth2p0.ValidatorIndex]*eth2v1.Validator{}
	objs := []any{}
	for i := 0; i < a.n; i++ {
		v := testutil.RandomValidator(tt)
		v.Index = eth2p0.ValidatorIndex(1000 + i)
		data[v.Index] = v
		objs = append(objs, v)
	}
	pks := []string{}
	for _, pk := range opts.PubKeys {
		pks = append(pks, fmt.Sprintf("%#x", pk[:]))
	}
	ds := digs(objs)
	sort.Strings(ds)
	args := map[string]string{"state_id": opts.State, "indices": strings.Join(idxs(opts.Indices), ","), "pubkeys": strings.Join(pks, ",")}
	if a, _ = called(ctx, "Validators", args, []string{}, retRec(a, ds)); a.kind == "err" {
		return nil, a.err
	}
	return &eth2api.Response[map[eth2p0.ValidatorIndex]*eth2v1.Validator]{Data: data}, nil
}

func proposal(ver string, blinded, nofield bool) (*eth2api.VersionedProposal, any) {
	p := &eth2api.VersionedProposal{Version: forks[ver], Blinded: blinded, ConsensusValue: big.NewInt(int64(testutil.RandomVIdx()%1000000) + 1),
		ExecutionValue: big.NewInt(int64(testutil.RandomVIdx()%1000000) + 1)}
	if nofield {
		return p, nil
	}
	var o any
	switch {
	case ver == "phase0":
		p.Phase0 = testutil.RandomPhase0BeaconBlock()
		o = p.Phase0
	case ver == "altair":
		p.Altair = testutil.RandomAltairBeaconBlock()
		o = p.Altair
	case ver == "bellatrix" && blinded:
		p.BellatrixBlinded = testutil.RandomBellatrixBlindedBeaconBlock()
		o = p.BellatrixBlinded
	case ver == "bellatrix":
		p.Bellatrix = testutil.RandomBellatrixBeaconBlock()
		o = p.Bellatrix
	case ver == "capella" && blinded:
		p.CapellaBlinded = testutil.RandomCapellaBlindedBeaconBlock()
		o = p.CapellaBlinded
	case ver == "capella":
		p.Capella = testutil.RandomCapellaBeaconBlock()
		o = p.Capella
	case ver == "deneb" && blinded:
		p.DenebBlinded = testutil.RandomDenebBlindedBeaconBlock()
		o = p.DenebBlinded
	case ver == "deneb":
		p.Deneb = testutil.RandomDenebVersionedProposal().Deneb
		o = p.Deneb
	case ver == "electra" && blinded:
		p.ElectraBlinded = testutil.RandomElectraBlindedBeaconBlock()
		o = p.ElectraBlinded
	case ver == "electra":
		p.Electra = testutil.RandomElectraVersionedProposal().Electra
		o = p.Electra
	case ver == "fulu" && blinded:
		p.FuluBlinded = testutil.RandomElectraBlindedBeaconBlock()
		o = p.FuluBlinded
	default:
		p.Fulu = testutil.RandomFuluVersionedProposal().Fulu
		o = p.Fulu
	}
	return p, o
}

// proposalType returns an empty object of the type a (version, blinded) proposal has on the wire.
func proposalType(ver string, blinded bool) any {
	switch {
	case ver == "phase0":
		return new(eth2p0.BeaconBlock)
	case ver == "altair":
		return new(altair.BeaconBlock)
	case ver == "bellatrix" && blinded:
		return new(eth2bellatrix.BlindedBeaconBlock)
	case ver == "bellatrix":
		return new(bellatrix.BeaconBlock)
	case ver == "capella" && blinded:
		return new(eth2capella.BlindedBeaconBlock)
	case ver == "capella":
		return new(capella.BeaconBlock)
	case ver == "deneb" && blinded:
		return new(eth2deneb.BlindedBeaconBlock)
	case ver == "deneb":
		return new(eth2deneb.BlockContents)
	case ver == "electra" && blinded, ver == "fulu" && blinded:
		return new(eth2electra.BlindedBeaconBlock)
	case ver == "electra":
		return new(eth2electra.BlockContents)
	case ver == "fulu":
		return new(eth2fulu.BlockContents)
	}
	return nil
}

func (s *stub) Proposal(ctx context.Context, opts *eth2api.ProposalOpts) (*eth2api.Response[*eth2api.VersionedProposal], error) {
	a := ansOf0(ctx)
	p, o := proposal(a.ver, a.blinded == "true", a.nofield)
	ds := []string{}
	if o != nil {
		ds = digs([]any{o})
	}
	ret := retRec(a, ds)
	ret["ev"], ret["cv"] = p.ExecutionValue.String(), p.ConsensusValue.String()
	bbf := "absent"
	if opts.BuilderBoostFactor != nil {
		bbf = u(*opts.BuilderBoostFactor)
	}
	args := map[string]string{"slot": u(uint64(opts.Slot)), "randao_reveal": fmt.Sprintf("%#x", opts.RandaoReveal[:]),
		"graffiti": fmt.Sprintf("%#x", opts.Graffiti[:]), "builder_boost_factor": bbf}
	if a, _ = called(ctx, "Proposal", args, []string{}, ret); a.kind == "err" {
		return nil, a.err
	}
	return &eth2api.Response[*eth2api.VersionedProposal]{Data: p}, nil
}

func (s *stub) AggregateAttestation(ctx context.Context, opts *eth2api.AggregateAttestationOpts) (*eth2api.Response[*eth2spec.VersionedAttestation], error) {
	a := ansOf0(ctx)
	va := &eth2spec.VersionedAttestation{Version: forks[a.ver]}
	var o any
	if !a.nofield {
		if preElectra(a.ver) {
			att := testutil.RandomPhase0Attestation()
			o = att
			switch a.ver {
			case "phase0":
				va.Phase0 = att
			case "altair":
				va.Altair = att
			case "bellatrix":
				va.Bellatrix = att
			case "capella":
				va.Capella = att
			default:
				va.Deneb = att
			}
		} else {
			att := testutil.RandomElectraAttestation()
			o = att
			if a.ver == "electra" {
				va.Electra = att
			} else {
				va.Fulu = att
			}
		}
	}
	ds := []string{}
	if o != nil {
		ds = digs([]any{o})
	}
	args := map[string]string{"slot": u(uint64(opts.Slot)), "attestation_data_root": fmt.Sprintf("%#x", opts.AttestationDataRoot[:]),
		"committee_index": u(uint64(opts.CommitteeIndex))}
	if a, _ = called(ctx, "AggregateAttestation", args, []string{}, retRec(a, ds)); a.kind == "err" {
		return nil, a.err
	}
	return &eth2api.Response[*eth2spec.VersionedAttestation]{Data: va}, nil
}

func (s *stub) SubmitAggregateAttestations(ctx context.Context, opts *eth2api.SubmitAggregateAttestationsOpts) error {
	objs := []string{}
	ver := "none"
	for _, g := range opts.SignedAggregateAndProofs {
		v := g.Version.String()
		if ver != "none" && ver != v {
			v = "mixed"
		}
		ver = v
		cands := map[string]any{"phase0": g.Phase0, "altair": g.Altair, "bellatrix": g.Bellatrix, "capella": g.Capella, "deneb": g.Deneb, "electra": g.Electra, "fulu": g.Fulu}
		objs = append(objs, onlyField(cands, g.Version.String())...)
	}
	if a, _ := called(ctx, "SubmitAggregateAttestations", map[string]string{"version": ver}, objs, nil); a.kind == "err" {
		return a.err
	}
	return nil
}

func list[T any](v []T) []any {
	r := []any{}
	for _, x := range v {
		r = append(r, x)
	}
	return r
}

func (s *stub) SubmitSyncCommitteeMessages(ctx context.Context, msgs []*altair.SyncCommitteeMessage) error {
	if a, _ := called(ctx, "SubmitSyncCommitteeMessages", map[string]string{}, digs(list(msgs)), nil); a.kind == "err" {
		return a.err
	}
	return nil
}

func (s *stub) SubmitSyncCommitteeContributions(ctx context.Context, cs []*altair.SignedContributionAndProof) error {
	if a, _ := called(ctx, "SubmitSyncCommitteeContributions", map[string]string{}, digs(list(cs)), nil); a.kind == "err" {
		return a.err
	}
	return nil
}

func (s *stub) SubmitVoluntaryExit(ctx context.Context, exit *eth2p0.SignedVoluntaryExit) error {
	if a, _ := called(ctx, "SubmitVoluntaryExit", map[string]string{}, digs([]any{exit}), nil); a.kind == "err" {
		return a.err
	}
	return nil
}

func (s *stub) SubmitValidatorRegistrations(ctx context.Context, regs []*eth2api.VersionedSignedValidatorRegistration) error {
	if a, _ := called(ctx, "SubmitValidatorRegistrations", map[string]string{}, digs(list(regs)), nil); a.kind == "err" {
		return a.err
	}
	return nil
}

func (s *stub) SyncCommitteeContribution(ctx context.Context, opts *eth2api.SyncCommitteeContributionOpts) (*eth2api.Response[*altair.SyncCommitteeContribution], error) {
	a := ansOf0(ctx)
	d := testutil.RandomSyncCommitteeContribution()
	args := map[string]string{"slot": u(uint64(opts.Slot)), "subcommittee_index": u(opts.SubcommitteeIndex),
		"beacon_block_root": fmt.Sprintf("%#x", opts.BeaconBlockRoot[:])}
	if a, _ = called(ctx, "SyncCommitteeContribution", args, []string{}, retRec(a, digs([]any{d}))); a.kind == "err" {
		return nil, a.err
	}
	return &eth2api.Response[*altair.SyncCommitteeContribution]{Data: d}, nil
}

func (s *stub) BeaconCommitteeSelections(ctx context.Context, opts *eth2api.BeaconCommitteeSelectionsOpts) (*eth2api.Response[[]*eth2v1.BeaconCommitteeSelection], error) {
	a := ansOf0(ctx)
	var data []*eth2v1.BeaconCommitteeSelection
	for i := 0; i < a.n; i++ {
		data = append(data, testutil.RandomBeaconCommitteeSelection())
	}
	if a, _ = called(ctx, "BeaconCommitteeSelections", map[string]string{}, digs(list(opts.Selections)), retRec(a, digs(list(data)))); a.kind == "err" {
		return nil, a.err
	}
	return &eth2api.Response[[]*eth2v1.BeaconCommitteeSelection]{Data: data}, nil
}

func (s *stub) SyncCommitteeSelections(ctx context.Context, opts *eth2api.SyncCommitteeSelectionsOpts) (*eth2api.Response[[]*eth2v1.SyncCommitteeSelection], error) {
	a := ansOf0(ctx)
	var data []*eth2v1.SyncCommitteeSelection
	for i := 0; i < a.n; i++ {
		data = append(data, testutil.RandomSyncCommitteeSelection())
	}
	if a, _ = called(ctx, "SyncCommitteeSelections", map[string]string{}, digs(list(opts.Selections)), retRec(a, digs(list(data)))); a.kind == "err" {
		return nil, a.err
	}
	return &eth2api.Response[[]*eth2v1.SyncCommitteeSelection]{Data: data}, nil
}

func (s *stub) NodeVersion(ctx context.Context, _ *eth2api.NodeVersionOpts) (*eth2api.Response[string], error) {
	a := ansOf0(ctx)
	v := fmt.Sprintf("Stub/v%d", testutil.RandomVIdx()%100000)
	if a, _ = called(ctx, "NodeVersion", map[string]string{}, []string{}, retRec(a, []string{dig(v)})); a.kind == "err" {
		return nil, a.err
	}
	return &eth2api.Response[string]{Data: v}, nil
}

func seenOf(r *http.Request, body []byte) drv.Step {
	return drv.Step{"method": r.Method, "path": r.URL.EscapedPath(), "rawquery": r.URL.RawQuery, "body": digBytes(body),
		"ctype": r.Header.Get("Content-Type"), "accept": r.Header.Get("Accept"), "ver": r.Header.Get("Eth-Consensus-Version"), "_": ""}
}

func (s *stub) Proxy(ctx context.Context, req *http.Request) (*http.Response, error) {
	r := lookup(req.Header.Get("X-Verif-Req"))
	if r == nil {
		return &http.Response{StatusCode: 200, Header: http.Header{}, Body: io.NopCloser(strings.NewReader("probe"))}, nil
	}
	var body []byte
	if req.Body != nil {
		body, _ = io.ReadAll(req.Body)
	}
	a := sub(r.c, "ans")
	status := drv.Num(a["status"])
	payload := fmt.Sprintf("upstream says %d", testutil.RandomVIdx())
	if status == 204 || status == 304 {
		payload = ""
	}
	hdr := fmt.Sprintf("up-%d", testutil.RandomVIdx()%100000)
	kind := "ok"
	if k := drv.Str(a["kind"]); k == "err" || k == "cancel" || k == "timeout" || k == "apierr" {
		kind = k
	}
	r.emit(drv.Step{"ev": "PX", "seen": seenOf(req, body), "ret": drv.Step{"kind": kind, "status": status, "hdr": hdr, "body": digBytes([]byte(payload))}})
	if kind == "cancel" || kind == "timeout" {
		r.block(ctx)
	}
	if kind == "apierr" {
		return nil, apiErr(req.URL.Path, status)
	}
	if kind != "ok" {
		return nil, errScripted
	}
	return &http.Response{StatusCode: status, Header: http.Header{"X-Up": []string{hdr}, "Content-Type": []string{"text/x-up"}},
		Body: io.NopCloser(strings.NewReader(payload))}, nil
}

func (s *stub) Address() string {
	s.mu.Lock()
	defer s.mu.Unlock()
	return s.addr
}

func (s *stub) Headers() map[string]string {
	s.mu.Lock()
	defer s.mu.Unlock()
	return s.headers
}

// upstream is the scripted beacon node behind the events handler.
func upstream(w http.ResponseWriter, req *http.Request) {
	r := lookup(req.Header.Get("X-Verif-Req"))
	if r == nil {
		w.WriteHeader(200)
		return
	}
	a := sub(r.c, "ans")
	status := drv.Num(a["status"])
	payload := fmt.Sprintf("event: head\ndata: {\"slot\":\"%d\"}\n\n", testutil.RandomVIdx())
	if status == 204 {
		payload = ""
	}
	hdr := fmt.Sprintf("up-%d", testutil.RandomVIdx()%100000)
	auth := ""
	if usr, pw, ok := req.BasicAuth(); ok {
		auth = usr + ":" + pw
	}
	seen := drv.Step{"method": req.Method, "path": req.URL.EscapedPath(), "rawquery": req.URL.RawQuery, "accept": req.Header.Get("Accept"),
		"auth": auth, "xbn": req.Header.Get("X-Bn"), "xhop": req.Header.Get("X-Hop"), "_": ""}
	r.emit(drv.Step{"ev": "UP", "seen": seen, "ret": drv.Step{"kind": "ok", "status": status, "hdr": hdr, "body": digBytes([]byte(payload))}})
	w.Header().Set("X-Up", hdr)
	w.Header().Set("Content-Type", "text/event-stream")
	w.WriteHeader(status)
	_, _ = w.Write([]byte(payload))
}

// ---------------------------------------------------------------------------------------------------------------------
// the client
// ---------------------------------------------------------------------------------------------------------------------

var ctypes = map[string]string{"json": "application/json", "jsonutf8": "application/json; charset=utf-8", "both": "application/json, application/octet-stream",
	"ssz": "application/octet-stream", "text": "text/plain", "form": "application/x-www-form-urlencoded"}
var accepts = map[string]string{"json": "application/json", "ssz": "application/octet-stream", "any": "*/*",
	"sszpref": "application/octet-stream;q=1.0,application/json;q=0.9"}

func plain(raw json.RawMessage) string {
	var s string
	if json.Unmarshal(raw, &s) == nil {
		return s
	}
	return string(raw)
}

// decodeData digests the elements of the `data` field of a 200 answer of endpoint ep.
func decodeData(ep string, raw json.RawMessage, meta map[string]string) []string {
	each := func(mk func() any) []string {
		var arr []json.RawMessage
		if err := json.Unmarshal(raw, &arr); err != nil {
			return []string{"undecodable:" + err.Error()}
		}
		if arr == nil { // "Return empty json array instead of null"
			return []string{"null"}
		}
		r := []string{}
		for _, e := range arr {
			o := mk()
			if err := json.Unmarshal(e, o); err != nil {
				r = append(r, "undecodable:"+err.Error())
			} else {
				r = append(r, dig(o))
			}
		}
		return r
	}
	one := func(o any) []string {
		if o == nil {
			return []string{"unknown type"}
		}
		if err := json.Unmarshal(raw, o); err != nil {
			return []string{"undecodable:" + err.Error()}
		}
		return []string{dig(o)}
	}
	switch ep {
	case "attester_duties":
		return each(func() any { return new(eth2v1.AttesterDuty) })
	case "proposer_duties", "proposer_duties_v2":
		return each(func() any { return new(eth2v1.ProposerDuty) })
	case "sync_committee_duties":
		return each(func() any { return new(eth2v1.SyncCommitteeDuty) })
	case "attestation_data":
		return one(new(eth2p0.AttestationData))
	case "get_validators":
		r := each(func() any { return new(eth2v1.Validator) })
		sort.Strings(r)
		return r
	case "get_validator":
		return one(new(eth2v1.Validator))
	case "propose_block_v3":
		return one(proposalType(meta["version"], meta["execution_payload_blinded"] == "true"))
	case "aggregate_attestation_v2":
		if _, ok := forks[meta["version"]]; ok && preElectra(meta["version"]) {
			return one(new(eth2p0.Attestation))
		}
		return one(new(electra.Attestation))
	case "sync_committee_contribution":
		return one(new(altair.SyncCommitteeContribution))
	case "aggregate_beacon_committee_selections":
		return each(func() any { return new(eth2v1.BeaconCommitteeSelection) })
	case "aggregate_sync_committee_selections":
		return each(func() any { return new(eth2v1.SyncCommitteeSelection) })
	case "node_version":
		var v struct {
			Version string `json:"version"`
		}
		if err := json.Unmarshal(raw, &v); err != nil {
			return []string{"undecodable:" + err.Error()}
		}
		return []string{dig(v.Version)}
	}
	return []string{"unexpected data"}
}

var client = &http.Client{Timeout: 30 * time.Second, CheckRedirect: func(*http.Request, []*http.Request) error { return http.ErrUseLastResponse },
	Transport: &http.Transport{MaxIdleConnsPerHost: 64}}

// fresh connections only: the transport re-sends an idempotent request when a REUSED connection breaks (panic cases)
var clientFresh = &http.Client{Timeout: 30 * time.Second, CheckRedirect: func(*http.Request, []*http.Request) error { return http.ErrUseLastResponse },
	Transport: &http.Transport{DisableKeepAlives: true}}

func respEvent(ep string, res *http.Response, err error) drv.Step {
	ev := drv.Step{"ev": "Resp", "status": 0, "ctype": "none", "code": 0, "objs": []string{}, "meta": map[string]string{"_": ""}, "loc": ""}
	if err != nil {
		ev["error"] = err.Error()
		return ev
	}
	defer res.Body.Close()
	body, rerr := io.ReadAll(res.Body)
	if rerr != nil {
		ev["error"] = rerr.Error()
		return ev
	}
	meta := map[string]string{"_": ""}
	ev["status"] = res.StatusCode
	ev["loc"] = res.Header.Get("Location")
	ct := res.Header.Get("Content-Type")
	switch {
	case ct == "application/json":
		ev["ctype"] = "json"
	case ct == "" && len(body) == 0:
		ev["ctype"] = "none"
	default:
		ev["ctype"] = "other"
	}
	for h, k := range map[string]string{"Eth-Consensus-Version": "hversion", "Eth-Execution-Payload-Blinded": "hblinded", "Eth-Execution-Payload-Value": "hev",
		"Eth-Consensus-Block-Value": "hcv", "X-Up": "hup"} {
		if vs, ok := res.Header[h]; ok {
			meta[k] = strings.Join(vs, "|")
		}
	}
	ev["meta"] = meta
	if ev["ctype"] != "json" {
		if res.StatusCode != 301 && ev["ctype"] == "other" {
			ev["objs"] = []string{digBytes(body)}
		}
		return ev
	}
	var top map[string]json.RawMessage
	if err := json.Unmarshal(body, &top); err != nil {
		ev["objs"] = []string{"undecodable:" + err.Error()}
		return ev
	}
	if res.StatusCode >= 400 {
		var e struct {
			Code    int    `json:"code"`
			Message string `json:"message"`
		}
		_ = json.Unmarshal(body, &e)
		ev["code"] = e.Code
		if e.Message == "" {
			ev["code"] = -1
		}
		if len(top) != 2 {
			ev["code"] = -2
		}
		return ev
	}
	for k, v := range top {
		if k != "data" {
			meta[k] = plain(v)
		}
	}
	if d, ok := top["data"]; ok {
		ev["objs"] = decodeData(ep, d, meta)
	} else {
		ev["objs"] = []string{"no data"}
	}
	return ev
}

func TestExec(t *testing.T) {
	tt = t
	drv.QuietLogs(t)
	scheds := drv.ReadSchedules(t)
	tr := drv.NewTracer(t)
	defer tr.Close()

	up := httptest.NewServer(http.HandlerFunc(upstream))
	defer up.Close()
	st := &stub{}
	servers := map[bool]*httptest.Server{}
	for _, builder := range []bool{false, true} {
		router, err := validatorapi.NewRouter(st, builder)
		if err != nil {
			t.Fatal(err)
		}
		front := http.HandlerFunc(func(w http.ResponseWriter, r *http.Request) {
			router.ServeHTTP(w, r.WithContext(context.WithValue(r.Context(), ctxKey{}, r.Header.Get("X-Verif-Req"))))
		})
		srv := httptest.NewUnstartedServer(front)
		srv.Config.ErrorLog = stdlog.New(io.Discard, "", 0)
		srv.Start()
		defer srv.Close()
		servers[builder] = srv
	}

	conc := 1
	if v, err := strconv.Atoi(os.Getenv("VERIF_CONC")); err == nil && v > 0 {
		conc = v
	}
	var evMu sync.RWMutex // events cases set Handler.Address / Headers: alone
	var hung bool
	var hmu sync.Mutex
	sem := make(chan struct{}, conc)
	var wg sync.WaitGroup
	for sid, sch := range scheds {
		hmu.Lock()
		stop := hung
		hmu.Unlock()
		if stop {
			break
		}
		sem <- struct{}{}
		wg.Add(1)
		go func(sid int, c drv.Step) {
			defer wg.Done()
			defer func() { <-sem }()
			ep := drv.Str(c["ep"])
			if ep == "events" {
				evMu.Lock()
				defer evMu.Unlock()
				kind := drv.Str(sub(c, "ans")["kind"])
				st.mu.Lock()
				st.addr = up.URL
				if kind == "auth" {
					st.addr = strings.Replace(up.URL, "http://", "http://"+drv.Str(c["upauth"])+"@", 1)
				} else if kind == "badaddr" {
					st.addr = "::not a url"
				}
				st.headers = map[string]string{"X-Bn": drv.Str(c["upxbn"])}
				st.mu.Unlock()
			} else {
				evMu.RLock()
				defer evMu.RUnlock()
			}
			id := fmt.Sprintf("rq-%d", sid)
			r := &rq{c: c, entered: make(chan struct{}), done: make(chan struct{})}
			body, sent := buildBody(t, c)
			extra := map[string]string{}
			if drv.Str(sub(c, "ans")["kind"]) == "hop" {
				extra = map[string]string{"Connection": "X-Hop", "X-Hop": "1", "X-Bn": "from-client"}
			}
			builder, _ := c["builder"].(bool)
			base := servers[builder].URL
			req, wire, err := build(base, id, c, body, extra)
			if err != nil {
				t.Errorf("schedule %d: cannot build the request: %v", sid, err)
				return
			}
			reset := drv.Step{}
			for k, v := range c {
				reset[k] = v
			}
			reset["ev"], reset["sid"], reset["sent"], reset["wire"] = "Reset", sid, sent, wire
			delete(reset, "bodylit")
			delete(reset, "bodysent")
			r.emit(reset)
			inflight.Store(id, r)
			cl := client
			akind := drv.Str(sub(c, "ans")["kind"])
			if akind == "panic" || akind == "cancel" || akind == "timeout" {
				cl = clientFresh
			}
			cctx, cancel := context.WithCancel(context.Background())
			defer cancel()
			if akind == "cancel" { // the client goes away once the Handler call has begun
				go func() {
					select {
					case <-r.entered:
						cancel()
					case <-cctx.Done():
					}
				}()
			}
			res, err := cl.Do(req.WithContext(cctx))
			select { // a blocking call logs how its context ended before the response is logged
			case <-r.entered:
				select {
				case <-r.done:
				case <-time.After(60 * time.Second):
				}
			default:
			}
			resp := respEvent(ep, res, err)
			if err != nil && strings.Contains(err.Error(), "Client.Timeout") {
				r.emit(drv.Step{"ev": "Hang"})
				hmu.Lock()
				hung = true
				hmu.Unlock()
			} else {
				r.emit(resp)
				if drv.Num(resp["status"]) == 0 {
					preq, _ := http.NewRequest(http.MethodGet, base+"/eth/v1/node/version", nil)
					pres, perr := client.Do(preq)
					ok := perr == nil && pres.StatusCode == 200
					if pres != nil {
						pres.Body.Close()
					}
					r.emit(drv.Step{"ev": "Probe", "ok": ok})
				}
				r.emit(drv.Step{"ev": "End"})
			}
			inflight.Delete(id)
			r.mu.Lock()
			evs := r.ev
			r.mu.Unlock()
			hmu.Lock()
			for _, e := range evs {
				tr.Emit(e)
			}
			hmu.Unlock()
		}(sid, sch[0])
	}
	wg.Wait()
}

// build makes the HTTP request of case c and the record of what it puts on the wire.
func build(base, id string, c drv.Step, body []byte, extra map[string]string) (*http.Request, drv.Step, error) {
	target := base + drv.Str(c["path"])
	if q := drv.Str(c["rawquery"]); q != "" {
		target += "?" + q
	}
	var rd io.Reader
	if body != nil {
		rd = bytes.NewReader(body)
	}
	req, err := http.NewRequest(drv.Str(c["method"]), target, rd)
	if err != nil {
		return nil, nil, err
	}
	req.Header.Set("X-Verif-Req", id)
	req.Header.Set("User-Agent", "verif-vc/1.0")
	if v, ok := ctypes[drv.Str(c["ctype"])]; ok {
		req.Header.Set("Content-Type", v)
	}
	if v, ok := accepts[drv.Str(c["accept"])]; ok {
		req.Header.Set("Accept", v)
	}
	switch v := drv.Str(c["ver"]); v {
	case "none":
	case "bogus":
		req.Header.Set("Eth-Consensus-Version", "gloas")
	case "upper":
		f := drv.Str(c["vfork"])
		req.Header.Set("Eth-Consensus-Version", strings.ToUpper(f[:1])+f[1:])
	default:
		req.Header.Set("Eth-Consensus-Version", v)
	}
	for k, v := range extra {
		req.Header[k] = []string{v}
	}
	wire := drv.Step{"method": req.Method, "path": req.URL.EscapedPath(), "rawquery": req.URL.RawQuery, "body": digBytes(body),
		"ctype": req.Header.Get("Content-Type"), "accept": req.Header.Get("Accept"), "ver": req.Header.Get("Eth-Consensus-Version"), "_": ""}
	return req, wire, nil
}
