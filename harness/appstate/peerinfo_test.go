package appstateexec

import (
	"testing"

	"verifharness/drv"
)

func runPeerInfo(t *testing.T, tr *drv.Tracer, sid int, sched []drv.Step) (hung bool) {
	t.Fatalf("not implemented")
	return false
}
