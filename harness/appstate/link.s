// empty: allows the body-less declaration in link.go
