// Executor of the growth family AppState: three small state machines of the application shell, one "part" each
// (first step of a schedule: {"ev":"Cfg","part":...}):
//
//	keylock   app/privkeylock: New / Run / Close of several "processes" on one temporary directory (keylock.go)
//	readyz    app.startReadyChecker (bound by linkname, link.go) on a scripted beacon node and in-memory libp2p hosts (readyz.go)
//	health    app/health.Checker.Run on a scripted prometheus.Gatherer (health.go)
//	peerinfo  app/peerinfo.New + Run on in-memory libp2p hosts with scripted peers (peerinfo.go)
//
// Every schedule runs inside a testing/synctest bubble: all four components read the clock through package time
// (directly or through clockwork.NewRealClock), so time is virtual and exact, it advances only when every goroutine of the
// bubble is durably blocked; synctest.Wait() after every stimulus is the quiescence barrier.  Nothing here knows what
// should happen: events record what was done and what was observed; the trace specifications of specs/AppState decide.
package appstateexec

import (
	"sync"
	"testing"
	"testing/synctest"
	"time"

	"verifharness/drv"
)

// rec collects the events of one schedule (a linearisation: appended under the mutex by the goroutine that acts).
type rec struct {
	mu     sync.Mutex
	start  time.Time
	events []drv.Step
	closed bool // after End: what the teardown provokes is not part of the trace
}

func (r *rec) ms() int { return int(time.Since(r.start) / time.Millisecond) }

func (r *rec) log(ev drv.Step) {
	r.mu.Lock()
	defer r.mu.Unlock()
	if r.closed {
		return
	}
	if ev["ev"] == "End" {
		r.closed = true
	}
	if _, ok := ev["t"]; !ok {
		ev["t"] = r.ms()
	}
	r.events = append(r.events, ev)
}

func (r *rec) flush(tr *drv.Tracer) {
	r.mu.Lock()
	defer r.mu.Unlock()
	for _, ev := range r.events {
		tr.Emit(ev)
	}
}

func ms(v any) time.Duration { return time.Duration(drv.Num(v)) * time.Millisecond }

func TestExec(t *testing.T) {
	drv.QuietLogs(t)
	scheds := drv.ReadSchedules(t)
	tr := drv.NewTracer(t)
	defer tr.Close()
	for i, s := range scheds {
		if len(s) == 0 || drv.Str(s[0]["ev"]) != "Cfg" {
			t.Fatalf("schedule %d does not start with Cfg", i)
		}
		hung := false
		synctest.Test(t, func(t *testing.T) {
			switch part := drv.Str(s[0]["part"]); part {
			case "keylock":
				hung = runKeyLock(t, tr, i, s)
			case "readyz":
				hung = runReadyz(t, tr, i, s)
			case "health":
				hung = runHealth(t, tr, i, s)
			case "peerinfo":
				hung = runPeerInfo(t, tr, i, s)
			default:
				t.Fatalf("schedule %d: unknown part %q", i, part)
			}
		})
		if hung {
			break
		}
	}
}
