package appstateexec

import (
	"encoding/json"
	"fmt"
	"os"
	"path/filepath"
	"strings"
	"testing"
	"testing/synctest"
	"time"

	"github.com/obolnetwork/charon/app/privkeylock"

	"verifharness/drv"
)

// keylock part: several "processes" (instances i = 1, 2, 3 with command "c<i>") work on one private key file.
//
// Steps: New{i} Run{i} Stop{i} Adv{d ms} SetHash{h} SetKey{k} Tamper{st, age ms, hash}.  After every step the bubble is made
// quiescent and the lock file is read back from disk (what a further process would find).

type klInst struct {
	svc     privkeylock.Service
	has     bool
	started bool
	runErr  chan error
}

type klEnv struct {
	*rec
	dir, key, lock, cluster string
}

// errClass names the error New returned by its documented text (an unknown text is logged as it is: no spec step matches).
func errClass(err error) (string, int) {
	if err == nil {
		return "ok", -1
	}
	msg := err.Error()
	classes := []struct{ sub, class string }{
		{"private key lock file is recently updated", "recent"},
		{"different cluster lock hash", "grace"},
		{"decode private key lock file", "decode"},
		{"read private key lock file", "read"},
		{"private key file does not exist", "nokey"},
		{"private key file path is a directory", "keydir"},
		{"decode cluster lock hash file", "lockdecode"},
		{"write private key lock file", "write"},
		{"permission denied while writing lock file", "perm"},
	}
	for _, c := range classes {
		if strings.Contains(msg, c.sub) {
			wait := -1
			if c.class == "grace" {
				// "... you must wait for 12m43s before starting charon ..."
				a := strings.Index(msg, "you must wait for ")
				b := strings.Index(msg, " before starting charon")
				if a >= 0 && b > a {
					if d, perr := time.ParseDuration(msg[a+len("you must wait for ") : b]); perr == nil {
						wait = int(d / time.Millisecond)
					}
				}
			}

			return c.class, wait
		}
	}

	return "other:" + msg, -1
}

// observe reads the lock file back.
func (e *klEnv) observe() drv.Step {
	none := func(st string) drv.Step { return drv.Step{"st": st, "ts": 0, "cmd": 0, "hash": ""} }
	info, err := os.Lstat(e.lock)
	if err != nil {
		return none("none")
	}
	if info.IsDir() {
		return none("dir")
	}
	b, err := os.ReadFile(e.lock)
	if err != nil {
		return none("unreadable")
	}
	var meta struct {
		Command   string    `json:"command"`
		Timestamp time.Time `json:"timestamp"`
		Hash      string    `json:"cluster_lock_hash"`
	}
	if err := json.Unmarshal(b, &meta); err != nil {
		return none("corrupt")
	}
	cmd := -1
	if _, err := fmt.Sscanf(meta.Command, "c%d", &cmd); err != nil {
		cmd = -1
	}

	return drv.Step{"st": "ok", "ts": int(meta.Timestamp.Sub(e.start) / time.Millisecond), "cmd": cmd, "hash": meta.Hash}
}

func (e *klEnv) rmLock() {
	_ = os.RemoveAll(e.lock)
}

func runKeyLock(t *testing.T, tr *drv.Tracer, sid int, sched []drv.Step) (hung bool) {
	base := filepath.Dir(os.Getenv("VERIF_OUT"))
	dir, err := os.MkdirTemp(base, "keylock")
	if err != nil {
		t.Fatalf("temp dir: %v", err)
	}
	defer os.RemoveAll(dir)
	e := &klEnv{rec: &rec{start: time.Now()}, dir: dir, key: filepath.Join(dir, "charon-enr-private-key"),
		cluster: filepath.Join(dir, "cluster-lock.json")}
	e.lock = e.key + ".lock"
	if err := os.WriteFile(e.key, []byte("key"), 0o600); err != nil {
		t.Fatalf("key file: %v", err)
	}
	e.log(drv.Step{"ev": "Reset", "sid": sid, "part": "keylock"})
	insts := map[int]*klInst{}
	get := func(i int) *klInst {
		if insts[i] == nil {
			insts[i] = &klInst{}
		}

		return insts[i]
	}

	for _, st := range sched[1:] {
		ev := drv.Step{"ev": st["ev"]}
		switch drv.Str(st["ev"]) {
		case "New":
			i := drv.Num(st["i"])
			in := get(i)
			svc, err := privkeylock.New(e.key, e.cluster, fmt.Sprintf("c%d", i))
			ev["i"] = i
			ev["res"], ev["wait"] = errClass(err)
			if err == nil {
				*in = klInst{svc: svc, has: true, runErr: make(chan error, 1)}
			}
		case "Run":
			i := drv.Num(st["i"])
			in := get(i)
			if !in.has || in.started { // New did not hand out a service where the schedule's author expected one: no spec step matches
				e.log(drv.Step{"ev": "Skip", "what": "Run", "i": i})
				continue
			}
			in.started = true
			ev["i"] = i
			go func() {
				err := in.svc.Run()
				if err != nil {
					e.log(drv.Step{"ev": "RunRet", "i": i})
				}
				in.runErr <- err
			}()
		case "Stop":
			i := drv.Num(st["i"])
			in := get(i)
			if !in.has || !in.started { // (Close would block for ever)
				e.log(drv.Step{"ev": "Skip", "what": "Stop", "i": i})
				continue
			}
			in.svc.Close()
			<-in.runErr
			in.has, in.started = false, false
			ev["i"] = i
		case "Adv":
			time.Sleep(ms(st["d"]))
			ev["d"] = drv.Num(st["d"])
		case "SetHash":
			h := drv.Str(st["h"])
			switch h {
			case "":
				_ = os.Remove(e.cluster)
			case "#corrupt":
				_ = os.WriteFile(e.cluster, []byte("{not json"), 0o644)
			default:
				b, _ := json.Marshal(map[string]any{"lock_hash": h, "name": "verif"})
				_ = os.WriteFile(e.cluster, b, 0o644)
			}
			ev["h"] = h
		case "SetKey":
			k := drv.Str(st["k"])
			_ = os.RemoveAll(e.key)
			switch k {
			case "file":
				_ = os.WriteFile(e.key, []byte("key"), 0o600)
			case "dir":
				_ = os.Mkdir(e.key, 0o755)
			}
			ev["k"] = k
		case "Tamper":
			kind := drv.Str(st["st"])
			e.rmLock()
			switch kind {
			case "none":
			case "dir":
				_ = os.Mkdir(e.lock, 0o755)
			case "corrupt":
				body := []byte{}
				if drv.Str(st["how"]) == "garbage" {
					body = []byte(`{"command": "c1", "timestamp": 17`)
				}
				_ = os.WriteFile(e.lock, body, 0o666)
			case "ok":
				b, _ := json.Marshal(map[string]any{"command": "c0", "timestamp": time.Now().Add(-ms(st["age"])),
					"cluster_lock_hash": drv.Str(st["hash"])})
				_ = os.WriteFile(e.lock, b, 0o666)
			default:
				t.Fatalf("unknown tamper %v", st)
			}
			ev["st"], ev["age"], ev["hash"] = kind, drv.Num(st["age"]), drv.Str(st["hash"])
		default:
			t.Fatalf("keylock: unknown step %v", st)
		}
		synctest.Wait()
		ev["file"] = e.observe()
		e.log(ev)
	}
	e.log(drv.Step{"ev": "End"})
	for _, in := range insts {
		if in.has && in.started {
			in.svc.Close()
		}
	}
	synctest.Wait()
	e.flush(tr)

	return false
}
