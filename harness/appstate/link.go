// Package appstateexec executes AppState schedules on the real code (see exec_test.go).
//
// This file binds the one unexported entry point the family needs, app.startReadyChecker, by a pull linkname: no
// change of the repository is needed (the body-less declaration is completed by the empty link.s).
package appstateexec

import (
	"context"
	_ "unsafe" // go:linkname

	"github.com/jonboulle/clockwork"
	"github.com/libp2p/go-libp2p/core/host"
	"github.com/libp2p/go-libp2p/core/peer"

	_ "github.com/obolnetwork/charon/app" // the linked symbol's package
	"github.com/obolnetwork/charon/app/eth2wrap"
)

//go:linkname startReadyChecker github.com/obolnetwork/charon/app.startReadyChecker
func startReadyChecker(ctx context.Context, p2pNode host.Host, eth2Cl eth2wrap.Client, peerIDs []peer.ID,
	clock clockwork.Clock, vapiCalls <-chan struct{}) func() error
