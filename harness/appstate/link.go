// Package appstateexec executes AppState schedules on the real code (see exec_test.go).
//
// This file binds the one unexported entry point the family needs, app.startReadyChecker, by a pull linkname: no
// change of the repository is needed (the body-less declaration is completed by the empty link.s).
package appstateexec

import (
	"context"
	_ "unsafe" // go:linkname

	"github.com/prometheus/client_golang/prometheus"

	"github.com/jonboulle/clockwork"
	"github.com/libp2p/go-libp2p/core/host"
	"github.com/libp2p/go-libp2p/core/peer"

	_ "github.com/obolnetwork/charon/app" // the linked symbols' packages
	_ "github.com/obolnetwork/charon/app/health"
	"github.com/obolnetwork/charon/app/eth2wrap"
)

//go:linkname startReadyChecker github.com/obolnetwork/charon/app.startReadyChecker
func startReadyChecker(ctx context.Context, p2pNode host.Host, eth2Cl eth2wrap.Client, peerIDs []peer.ID,
	clock clockwork.Clock, vapiCalls <-chan struct{}) func() error

// The process-wide metrics the components write (read back through a small private registry: gathering everything
// charon registers, with the Go and process collectors, for every observation costs milliseconds).

//go:linkname readyzGaugeVar github.com/obolnetwork/charon/app.readyzGauge
var readyzGaugeVar prometheus.Gauge

//go:linkname checkGaugeVar github.com/obolnetwork/charon/app/health.checkGauge
var checkGaugeVar *prometheus.GaugeVec

//go:linkname checkFailedVar github.com/obolnetwork/charon/app/health.checkFailedCounter
var checkFailedVar *prometheus.CounterVec

//go:linkname highCardinalityVar github.com/obolnetwork/charon/app/health.highCardinalityGauge
var highCardinalityVar *prometheus.GaugeVec
