package appstateexec

import (
	"context"
	"errors"
	"sync"
	"testing"
	"testing/synctest"
	"time"

	eth2api "github.com/attestantio/go-eth2-client/api"
	eth2v1 "github.com/attestantio/go-eth2-client/api/v1"
	eth2p0 "github.com/attestantio/go-eth2-client/spec/phase0"
	"github.com/jonboulle/clockwork"
	"github.com/libp2p/go-libp2p/core/host"
	"github.com/libp2p/go-libp2p/core/network"
	"github.com/libp2p/go-libp2p/core/peer"
	mocknet "github.com/libp2p/go-libp2p/p2p/net/mock"
	"github.com/prometheus/client_golang/prometheus"
	pb "github.com/prometheus/client_model/go"

	"github.com/obolnetwork/charon/testutil/beaconmock"

	"verifharness/drv"
)

// readyz part: the real app.startReadyChecker on a scripted beacon node and mocknet hosts.
//
// Steps: Start{genok, specok} SetBN{err, syncing, dist, lat ms} SetPC{err, n} Conn{k} Vapi{} Adv{d ms}.

var (
	regOnce sync.Once
	reg     *prometheus.Registry
)

// registry holds the process-wide metrics the observed components set (see link.go).
func registry(t *testing.T) *prometheus.Registry {
	regOnce.Do(func() {
		reg = prometheus.NewRegistry()
		for _, c := range []prometheus.Collector{readyzGaugeVar, checkGaugeVar, checkFailedVar, highCardinalityVar} {
			if err := reg.Register(c); err != nil {
				t.Fatalf("registry: %v", err)
			}
		}
	})

	return reg
}

// gather returns the metric families with the given names.
func gather(t *testing.T, names ...string) map[string]*pb.MetricFamily {
	fams, err := registry(t).Gather()
	if err != nil {
		t.Fatalf("gather: %v", err)
	}
	res := map[string]*pb.MetricFamily{}
	for _, f := range fams {
		for _, n := range names {
			if f.GetName() == n {
				res[n] = f
			}
		}
	}

	return res
}

func readyzGauge(t *testing.T) int {
	f := gather(t, "app_monitoring_readyz")["app_monitoring_readyz"]
	if f == nil || len(f.GetMetric()) != 1 {
		return -1
	}

	return int(f.GetMetric()[0].GetGauge().GetValue())
}

// statusOf names what the returned function says (by the error's text; an unknown text is logged as it is).
func statusOf(err error) string {
	if err == nil {
		return "ready"
	}
	switch err.Error() {
	case "ready check uninitialised":
		return "uninit"
	case "quorum peers not connected":
		return "peers"
	case "beacon node down":
		return "bndown"
	case "beacon node far behind":
		return "farbehind"
	case "beacon node not synced":
		return "syncing"
	case "beacon node has zero peers":
		return "zeropeers"
	case "vc not connected":
		return "vc"
	}

	return "other:" + err.Error()
}

// dupHost is the node's host as the component sees it: a peer may be connected over several connections at once (direct and
// relayed, TCP and QUIC) -- mocknet keeps one connection per pair, so further ones are shown as repetitions of it.
type dupHost struct {
	host.Host

	mu  *sync.Mutex
	dup map[peer.ID]int
}

type dupNet struct {
	network.Network

	h dupHost
}

func (h dupHost) Network() network.Network { return dupNet{Network: h.Host.Network(), h: h} }

func (n dupNet) ConnsToPeer(p peer.ID) []network.Conn {
	cs := n.Network.ConnsToPeer(p)
	n.h.mu.Lock()
	defer n.h.mu.Unlock()
	if len(cs) > 0 {
		for range n.h.dup[p] {
			cs = append(cs, cs[0])
		}
	}

	return cs
}

type bnAnswer struct {
	err, syncing bool
	dist         int
	lat          time.Duration
}

type rzEnv struct {
	*rec
	t       *testing.T
	mu      sync.Mutex
	bn      bnAnswer
	pcErr   bool
	pcN     int
	genok   bool
	specok  bool
	sd      time.Duration
	spe     uint64
	genesis time.Time
	ready   func() error
	quit    chan struct{}
}

type rzClient struct {
	beaconmock.Mock

	e *rzEnv
}

func (c rzClient) Spec(context.Context, *eth2api.SpecOpts) (*eth2api.Response[map[string]any], error) {
	if !c.e.specok {
		return nil, errors.New("verif: spec unavailable")
	}

	return &eth2api.Response[map[string]any]{Data: map[string]any{"SECONDS_PER_SLOT": c.e.sd, "SLOTS_PER_EPOCH": c.e.spe},
		Metadata: map[string]any{}}, nil
}

func (e *rzEnv) client() rzClient {
	m := beaconmock.Mock{
		GenesisFunc: func(context.Context, *eth2api.GenesisOpts) (*eth2v1.Genesis, error) {
			if !e.genok {
				return nil, errors.New("verif: genesis unavailable")
			}

			return &eth2v1.Genesis{GenesisTime: e.genesis}, nil
		},
		NodeSyncingFunc: func(context.Context, *eth2api.NodeSyncingOpts) (*eth2v1.SyncState, error) {
			e.mu.Lock()
			a := e.bn
			e.mu.Unlock()
			e.log(drv.Step{"ev": "Sync", "status": statusOf(e.ready()), "gauge": readyzGauge(e.t)})
			if a.lat > 0 {
				select {
				case <-time.After(a.lat):
				case <-e.quit:
				}
			}
			if a.err {
				return nil, errors.New("verif: beacon node down")
			}

			return &eth2v1.SyncState{IsSyncing: a.syncing, SyncDistance: eth2p0.Slot(a.dist)}, nil
		},
		NodePeerCountFunc: func(context.Context, *eth2api.NodePeerCountOpts) (*eth2v1.PeerCount, error) {
			e.mu.Lock()
			perr, n := e.pcErr, e.pcN
			e.mu.Unlock()
			e.log(drv.Step{"ev": "PC"})
			if perr {
				return nil, errors.New("verif: peer count unavailable")
			}

			return &eth2v1.PeerCount{Connected: uint64(n)}, nil
		},
	}

	return rzClient{Mock: m, e: e}
}

func runReadyz(t *testing.T, tr *drv.Tracer, sid int, sched []drv.Step) (hung bool) {
	cfg := sched[0]
	np := drv.Num(cfg["np"])
	e := &rzEnv{rec: &rec{start: time.Now()}, t: t, sd: ms(cfg["sd"]), spe: uint64(drv.Num(cfg["spe"])), pcN: 50,
		quit: make(chan struct{})}
	e.genesis = e.start.Add(ms(cfg["gen"]))
	ctx, cancel := context.WithCancel(context.Background())

	mn := mocknet.New()
	var (
		hosts []host.Host
		ids   []peer.ID
	)
	for range np {
		h, err := mn.GenPeer()
		if err != nil {
			t.Fatalf("mocknet peer: %v", err)
		}
		hosts = append(hosts, h)
		ids = append(ids, h.ID())
	}
	if err := mn.LinkAll(); err != nil {
		t.Fatalf("mocknet link: %v", err)
	}
	synctest.Wait()
	connected := map[int]bool{}
	self := dupHost{Host: hosts[0], mu: new(sync.Mutex), dup: map[peer.ID]int{}}

	e.log(drv.Step{"ev": "Reset", "sid": sid, "part": "readyz", "sd": drv.Num(cfg["sd"]), "spe": drv.Num(cfg["spe"]), "np": np,
		"gen": drv.Num(cfg["gen"]), "gauge": readyzGauge(t)})
	vapi := make(chan struct{})
	started := false

	for _, st := range sched[1:] {
		switch drv.Str(st["ev"]) {
		case "Start":
			e.genok, e.specok = st["genok"] == true, st["specok"] == true
			e.log(drv.Step{"ev": "Start", "genok": e.genok, "specok": e.specok})
			e.ready = startReadyChecker(ctx, self, e.client(), ids, clockwork.NewRealClock(), vapi)
			started = true
		case "SetBN":
			e.mu.Lock()
			e.bn = bnAnswer{err: st["err"] == true, syncing: st["syncing"] == true, dist: drv.Num(st["dist"]), lat: ms(st["lat"])}
			e.mu.Unlock()
			e.log(drv.Step{"ev": "SetBN", "err": st["err"] == true, "syncing": st["syncing"] == true, "dist": drv.Num(st["dist"]), "lat": drv.Num(st["lat"])})
		case "SetPC":
			e.mu.Lock()
			e.pcErr, e.pcN = st["err"] == true, drv.Num(st["n"])
			e.mu.Unlock()
			e.log(drv.Step{"ev": "SetPC", "err": st["err"] == true, "n": drv.Num(st["n"])})
		case "Conn":
			// exactly the cluster peers 1..k are connected to this node; "dup" opens a second connection to peer 1
			k := drv.Num(st["k"])
			for i := 1; i < np; i++ {
				switch {
				case i <= k && !connected[i]:
					if _, err := mn.ConnectPeers(ids[0], ids[i]); err != nil {
						t.Fatalf("connect: %v", err)
					}
					connected[i] = true
				case i > k && connected[i]:
					if err := mn.DisconnectPeers(ids[0], ids[i]); err != nil {
						t.Fatalf("disconnect: %v", err)
					}
					connected[i] = false
				}
			}
			self.mu.Lock()
			self.dup[ids[1]] = 0
			if st["dup"] == true {
				self.dup[ids[1]] = 2
			}
			self.mu.Unlock()
			synctest.Wait()
			// the environment's own bookkeeping, checked against the network (not against the component)
			got := 0
			for i := 1; i < np; i++ {
				if len(hosts[0].Network().ConnsToPeer(ids[i])) > 0 {
					got++
				}
			}
			if got != k {
				t.Fatalf("mocknet: %d peers connected, wanted %d", got, k)
			}
			e.log(drv.Step{"ev": "Conn", "k": k})
		case "Vapi":
			e.log(drv.Step{"ev": "Vapi"})
			go func() { // app.go: vapiCallsFunc
				select {
				case <-ctx.Done():
				case vapi <- struct{}{}:
					e.log(drv.Step{"ev": "VapiRet"})
				}
			}()
		case "Adv":
			time.Sleep(ms(st["d"]))
			synctest.Wait()
			if !started {
				t.Fatalf("schedule %d: Adv before Start", sid)
			}
			e.log(drv.Step{"ev": "Adv", "d": drv.Num(st["d"]), "status": statusOf(e.ready()), "gauge": readyzGauge(t)})
		default:
			t.Fatalf("readyz: unknown step %v", st)
		}
		synctest.Wait()
	}
	e.log(drv.Step{"ev": "End"})
	cancel()
	close(e.quit)
	synctest.Wait()
	_ = mn.Close()
	time.Sleep(10 * time.Second)
	synctest.Wait()
	e.flush(tr)

	return false
}
