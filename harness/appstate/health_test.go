package appstateexec

import (
	"context"
	"errors"
	"fmt"
	"math"
	"sort"
	"sync"
	"testing"
	"testing/synctest"
	"time"

	"github.com/prometheus/client_golang/prometheus"
	pb "github.com/prometheus/client_model/go"

	"github.com/obolnetwork/charon/app/health"

	"verifharness/drv"
)

// health part: the real health.Checker (production periods and windows) on a scripted prometheus.Gatherer.
//
// Steps: Hold{n, gerr, sc}: for n scrape periods (30 s) the registry shows the scrape sc = {fams: [{name, type, m: [{lb:
// [{n, v}], v, hs, hc, b4}], bulk}]} (values in 1/1000 units; bulk: that many further series "k"="<i>" of value 1), or every
// Gather fails (gerr).  The real gauge app_health_metrics_high_cardinality is part of every scrape, as in production
// where the Checker scrapes the registry it writes to.

const (
	hcName     = "app_health_metrics_high_cardinality"
	checksName = "app_health_checks"
	failedName = "app_health_checks_failed_total"
	scrapeStep = 30 * time.Second
)

type hlEnv struct {
	*rec
	t       *testing.T
	mu      sync.Mutex
	cur     []*pb.MetricFamily
	gerr    bool
	gathers int
	startU  float64 // unix seconds of the bubble's start
}

func obj(v any) map[string]any { m, _ := v.(map[string]any); return m }
func arr(v any) []any          { a, _ := v.([]any); return a }

func milli(v any) float64 { return float64(drv.Num(v)) / 1000 }

// buildFams turns the schedule's description of a scrape into metric families.
func (e *hlEnv) buildFams(sc map[string]any) []*pb.MetricFamily {
	var res []*pb.MetricFamily
	for _, fv := range arr(sc["fams"]) {
		f := obj(fv)
		name := drv.Str(f["name"])
		typ := map[string]pb.MetricType{"gauge": pb.MetricType_GAUGE, "counter": pb.MetricType_COUNTER, "histogram": pb.MetricType_HISTOGRAM}[drv.Str(f["type"])]
		fam := &pb.MetricFamily{Name: &name, Type: &typ}
		mk := func(labels []*pb.LabelPair, s map[string]any) *pb.Metric {
			m := &pb.Metric{Label: labels}
			switch typ {
			case pb.MetricType_GAUGE:
				v := milli(s["v"])
				if name == "app_start_time_secs" {
					v += e.startU
				}
				m.Gauge = &pb.Gauge{Value: &v}
			case pb.MetricType_COUNTER:
				v := milli(s["v"])
				m.Counter = &pb.Counter{Value: &v}
			default:
				sum, cnt, b4, ub := milli(s["hs"]), uint64(drv.Num(s["hc"])), uint64(drv.Num(s["b4"])), 4.0
				inf := math.Inf(1)
				m.Histogram = &pb.Histogram{SampleSum: &sum, SampleCount: &cnt,
					Bucket: []*pb.Bucket{{CumulativeCount: &b4, UpperBound: &ub}, {CumulativeCount: &cnt, UpperBound: &inf}}}
			}

			return m
		}
		for _, sv := range arr(f["m"]) {
			s := obj(sv)
			var labels []*pb.LabelPair
			for _, lv := range arr(s["lb"]) {
				n, v := drv.Str(obj(lv)["n"]), drv.Str(obj(lv)["v"])
				labels = append(labels, &pb.LabelPair{Name: &n, Value: &v})
			}
			fam.Metric = append(fam.Metric, mk(labels, s))
		}
		for i := range drv.Num(f["bulk"]) {
			n, v := "k", fmt.Sprintf("%04d", i)
			fam.Metric = append(fam.Metric, mk([]*pb.LabelPair{{Name: &n, Value: &v}}, map[string]any{"v": 1000, "hs": 1000, "hc": 1, "b4": 1}))
		}
		res = append(res, fam)
	}

	return res
}

func (e *hlEnv) Gather() ([]*pb.MetricFamily, error) {
	e.mu.Lock()
	defer e.mu.Unlock()
	e.gathers++
	if e.gerr {
		return nil, errors.New("verif: gather failed")
	}
	res := append([]*pb.MetricFamily{}, e.cur...)
	if f := gather(e.t, hcName)[hcName]; f != nil {
		res = append(res, f)
	}
	sort.Slice(res, func(i, j int) bool { return res[i].GetName() < res[j].GetName() })

	return res, nil
}

var _ prometheus.Gatherer = (*hlEnv)(nil)

func labelOf(m *pb.Metric, name string) string {
	for _, l := range m.GetLabel() {
		if l.GetName() == name {
			return l.GetValue()
		}
	}

	return ""
}

// observed reads the real gauges back: verdicts by check name, the failure counters, the sticky cardinality gauge.
func (e *hlEnv) observed() (map[string]bool, map[string]int, []any) {
	fams := gather(e.t, checksName, failedName, hcName)
	verdicts, failed := map[string]bool{}, map[string]int{}
	hc := []any{}
	if f := fams[checksName]; f != nil {
		for _, m := range f.GetMetric() {
			verdicts[labelOf(m, "name")] = m.GetGauge().GetValue() != 0
		}
	}
	if f := fams[failedName]; f != nil {
		for _, m := range f.GetMetric() {
			failed[labelOf(m, "name")] = int(m.GetCounter().GetValue())
		}
	}
	if f := fams[hcName]; f != nil {
		for _, m := range f.GetMetric() {
			hc = append(hc, drv.Step{"n": labelOf(m, "name"), "v": int(math.Round(m.GetGauge().GetValue() * 1000))})
		}
	}

	return verdicts, failed, hc
}

func runHealth(t *testing.T, tr *drv.Tracer, sid int, sched []drv.Step) (hung bool) {
	cfg := sched[0]
	e := &hlEnv{rec: &rec{start: time.Now()}, t: t}
	e.startU = float64(e.start.Unix())
	quorum, nv := drv.Num(cfg["quorum"]), drv.Num(cfg["nv"])
	_, _, hc0 := e.observed()
	e.log(drv.Step{"ev": "Reset", "sid": sid, "part": "health", "quorum": quorum, "nv": nv, "hc0": hc0})
	ctx, cancel := context.WithCancel(context.Background())
	checker := health.NewChecker(health.Metadata{NumValidators: nv, NumPeers: drv.Num(cfg["np"]), QuorumPeers: quorum}, e, nv)
	done := make(chan struct{})
	go func() {
		checker.Run(ctx)
		close(done)
	}()
	synctest.Wait()

	for _, st := range sched[1:] {
		if drv.Str(st["ev"]) != "Hold" {
			t.Fatalf("health: unknown step %v", st)
		}
		n := drv.Num(st["n"])
		sc := obj(st["sc"])
		e.mu.Lock()
		e.cur, e.gerr, e.gathers = e.buildFams(sc), st["gerr"] == true, 0
		e.mu.Unlock()
		_, before, _ := e.observed()
		time.Sleep(time.Duration(n) * scrapeStep)
		synctest.Wait()
		verdicts, after, hc := e.observed()
		inc := map[string]int{}
		for name := range verdicts {
			inc[name] = after[name] - before[name]
		}
		e.mu.Lock()
		g := e.gathers
		e.mu.Unlock()
		e.log(drv.Step{"ev": "Hold", "n": n, "gerr": st["gerr"] == true, "sc": sc, "verdicts": verdicts, "inc": inc, "gathers": g, "hc": hc})
	}
	e.log(drv.Step{"ev": "End"})
	cancel()
	<-done
	synctest.Wait()
	e.flush(tr)

	return false
}
