// Package c09 executes SigAgg cases on the real core/sigagg.Aggregator (constructed with sigagg.NewVerifier over the
// beacon mock) and records RELATIONS only: error / no error, which subscriber was handed which validators, and for every
// published object whether it verifies under the group key and which content it carries.  It contains no expected value:
// what each relation must be is decided by specs/SigAgg/SigAggTrace.tla.
//
// A schedule is one call.  Its Call step spells out every partial (share index it is filed under, share whose key signs,
// content it carries, content signed, domain NAME, fork bucket of the epoch, well-formedness) and says which domain and
// which epoch source honest partials of this object type use -- that table lives in the TLA+ spec.  The executor never
// asks the code under test for a domain or an epoch when it signs or when it re-verifies: it places the signing epoch in
// the field the schedule names (every other epoch-like field of the object is put into a different fork version), takes
// the domain type from the beacon node's spec by the NAME in the schedule and computes the signing root itself.
package c09

import (
	"errors"
	"sync/atomic"
	"bytes"
	"context"
	"encoding/json"
	"fmt"
	"sync"
	"testing"

	eth2api "github.com/attestantio/go-eth2-client/api"
	eth2v1 "github.com/attestantio/go-eth2-client/api/v1"
	eth2spec "github.com/attestantio/go-eth2-client/spec"
	"github.com/attestantio/go-eth2-client/spec/altair"
	"github.com/attestantio/go-eth2-client/spec/electra"
	eth2p0 "github.com/attestantio/go-eth2-client/spec/phase0"

	"github.com/obolnetwork/charon/core"
	"github.com/obolnetwork/charon/core/sigagg"
	"github.com/obolnetwork/charon/tbls"
	"github.com/obolnetwork/charon/tbls/tblsconv"
	"github.com/obolnetwork/charon/testutil"
	"github.com/obolnetwork/charon/testutil/beaconmock"

	"verifharness/drv"
)

// epochs inside the three fork versions of the beacon mock's schedule (deneb from 0, electra from 2048, fulu from 50688)
var bucketEpoch = map[string]uint64{"deneb": 100, "electra": 3000, "fulu": 60000}

func otherBucket(b string) string {
	switch b {
	case "deneb":
		return "electra"
	case "electra":
		return "fulu"
	default:
		return "deneb"
	}
}

type env struct {
	ctx           context.Context
	bmock         beaconmock.Mock
	spec          map[string]any
	slotsPerEpoch uint64
}

func TestExec(t *testing.T) {
	drv.QuietLogs(t)
	scheds := drv.ReadSchedules(t)
	tr := drv.NewTracer(t)
	defer tr.Close()

	ctx := context.Background()
	bmock, err := beaconmock.New(t.Context())
	if err != nil {
		t.Fatalf("beaconmock: %v", err)
	}
	resp, err := bmock.Spec(ctx, &eth2api.SpecOpts{})
	if err != nil {
		t.Fatalf("spec: %v", err)
	}
	spe, _ := resp.Data["SLOTS_PER_EPOCH"].(uint64)
	if spe == 0 {
		t.Fatalf("SLOTS_PER_EPOCH missing")
	}
	e := &env{ctx: ctx, bmock: bmock, spec: resp.Data, slotsPerEpoch: spe}
	var jobs []job
	for i, s := range scheds {
		// a call with several validators ranges over a Go map: run it twice (one trace each, same sid) with the map
		// filled in ascending / descending validator order (small maps are iterated in insertion order from a random offset)
		reps := 1
		if len(s) == 1 {
			if vals, _ := s[0]["vals"].([]any); len(vals) >= 2 {
				reps = 2
			}
		}
		jobs = append(jobs, job{i, reps})
	}
	// calls are independent: run them on a few workers, write the traces in schedule order
	out := make([][]*buf, len(scheds))
	var wg sync.WaitGroup
	next := make(chan job)
	for range 8 {
		wg.Add(1)
		go func() {
			defer wg.Done()
			for j := range next {
				for r := range j.reps {
					b := &buf{}
					runOne(t, e, b, j.i, scheds[j.i], r)
					out[j.i] = append(out[j.i], b)
				}
			}
		}()
	}
	for _, j := range jobs {
		next <- j
	}
	close(next)
	wg.Wait()
	for _, bs := range out {
		for _, b := range bs {
			for _, ev := range b.evs {
				tr.Emit(ev)
			}
		}
	}
}

type job struct{ i, reps int }

// sink receives the events of one call.
type sink interface{ Emit(drv.Step) }

type buf struct{ evs []drv.Step }

func (b *buf) Emit(ev drv.Step) { b.evs = append(b.evs, ev) }

// fatalf aborts the executor (worker goroutines must not call t.Fatalf): an infrastructure failure, never a verdict.
func fatalf(format string, args ...any) { panic(fmt.Sprintf(format, args...)) }

// signingRoot computes the root a validator client signs: the object root wrapped with the domain of the given NAME at
// the given epoch (genesis fork version when the epoch source is "none").
func (e *env) signingRoot(domName, esrc string, epoch uint64, root [32]byte) ([32]byte, error) {
	dt, ok := e.spec[domName].(eth2p0.DomainType)
	if !ok {
		return [32]byte{}, fmt.Errorf("domain type %s not in spec", domName)
	}
	var (
		dom eth2p0.Domain
		err error
	)
	if esrc == "none" {
		dom, err = e.bmock.GenesisDomain(e.ctx, dt)
	} else {
		dom, err = e.bmock.Domain(e.ctx, dt, eth2p0.Epoch(epoch))
	}
	if err != nil {
		return [32]byte{}, err
	}
	return (&eth2p0.SigningData{ObjectRoot: root, Domain: dom}).HashTreeRoot()
}

// obj is one content (variant "A" or "B") of the case's object type with the epoch it is signed at.
type obj struct {
	data  core.SignedData
	epoch uint64
	root  [32]byte
}

// build returns the unsigned object of the given type/version; own is the signing epoch, placed in the field named by
// esrc; decoy is an epoch in another fork version, placed in every other epoch-like field.  Variant B differs from A in
// content (for objects whose content IS the slot / epoch: the next slot / epoch, same fork version).
func (e *env) build(t *testing.T, typ, ver, esrc string, own, decoy uint64, variantB bool) obj {
	spe := e.slotsPerEpoch
	bump := uint64(0)
	if variantB {
		bump = 1
	}
	ownSlot := eth2p0.Slot(own*spe + 3)
	decoySlot := eth2p0.Slot(decoy*spe + 5)
	var (
		sd    core.SignedData
		epoch = own
		err   error
	)
	zero := eth2p0.BLSSignature{}
	switch typ {
	case "attester":
		if esrc != "target" {
			fatalf("attester: unknown epoch source %s", esrc)
		}
		data := testutil.RandomAttestationDataPhase0()
		data.Slot = decoySlot
		data.Source.Epoch = eth2p0.Epoch(decoy)
		data.Target.Epoch = eth2p0.Epoch(own)
		va := &eth2spec.VersionedAttestation{}
		switch ver {
		case "deneb":
			va.Version = eth2spec.DataVersionDeneb
			va.Deneb = &eth2p0.Attestation{AggregationBits: testutil.RandomBitList(1), Data: data}
		case "electra":
			va.Version = eth2spec.DataVersionElectra
			va.Electra = &electra.Attestation{AggregationBits: testutil.RandomBitList(64), Data: data, CommitteeBits: testutil.RandomBitVec64()}
		case "fulu":
			va.Version = eth2spec.DataVersionFulu
			va.Fulu = &electra.Attestation{AggregationBits: testutil.RandomBitList(64), Data: data, CommitteeBits: testutil.RandomBitVec64()}
		default:
			fatalf("attester version %s", ver)
		}
		sd, err = core.NewVersionedAttestation(va)
	case "proposer", "blinded":
		if esrc != "slot" {
			fatalf("proposal: unknown epoch source %s", esrc)
		}
		var p core.VersionedSignedProposal
		blinded := typ == "blinded"
		switch ver {
		case "bellatrix":
			if blinded {
				p = testutil.RandomBellatrixVersionedSignedBlindedProposal()
				p.BellatrixBlinded.Message.Slot = ownSlot
			} else {
				p = testutil.RandomBellatrixCoreVersionedSignedProposal()
				p.Bellatrix.Message.Slot = ownSlot
			}
		case "capella":
			if blinded {
				p = testutil.RandomCapellaVersionedSignedBlindedProposal()
				p.CapellaBlinded.Message.Slot = ownSlot
			} else {
				p = testutil.RandomCapellaCoreVersionedSignedProposal()
				p.Capella.Message.Slot = ownSlot
			}
		case "deneb":
			if blinded {
				p = testutil.RandomDenebVersionedSignedBlindedProposal()
				p.DenebBlinded.Message.Slot = ownSlot
			} else {
				p = testutil.RandomDenebCoreVersionedSignedProposal()
				p.Deneb.SignedBlock.Message.Slot = ownSlot
			}
		case "electra":
			if blinded {
				p = testutil.RandomElectraVersionedSignedBlindedProposal()
				p.ElectraBlinded.Message.Slot = ownSlot
			} else {
				p = testutil.RandomElectraCoreVersionedSignedProposal()
				p.Electra.SignedBlock.Message.Slot = ownSlot
			}
		case "fulu":
			if blinded {
				p = testutil.RandomFuluVersionedSignedBlindedProposal()
				p.FuluBlinded.Message.Slot = ownSlot
			} else {
				p = testutil.RandomFuluCoreVersionedSignedProposal()
				p.Fulu.SignedBlock.Message.Slot = ownSlot
			}
		default:
			fatalf("proposal version %s", ver)
		}
		sd = p
	case "exit":
		sd = core.NewSignedVoluntaryExit(&eth2p0.SignedVoluntaryExit{
			Message: &eth2p0.VoluntaryExit{Epoch: eth2p0.Epoch(own), ValidatorIndex: testutil.RandomVIdx()}})
	case "randao":
		epoch = own + bump
		sd = core.NewSignedRandao(eth2p0.Epoch(epoch), zero)
	case "registration":
		reg := testutil.RandomSignedValidatorRegistration(t)
		reg.Signature = zero
		sd, err = core.NewVersionedSignedValidatorRegistration(&eth2api.VersionedSignedValidatorRegistration{
			Version: eth2spec.BuilderVersionV1, V1: reg})
	case "selection":
		sd = core.NewBeaconCommitteeSelection(&eth2v1.BeaconCommitteeSelection{
			ValidatorIndex: testutil.RandomVIdx(), Slot: ownSlot + eth2p0.Slot(bump)})
	case "aggregator":
		data := testutil.RandomAttestationDataPhase0()
		data.Slot = ownSlot
		data.Source.Epoch = eth2p0.Epoch(decoy)
		data.Target.Epoch = eth2p0.Epoch(decoy)
		va := &eth2spec.VersionedSignedAggregateAndProof{}
		switch ver {
		case "deneb":
			va.Version = eth2spec.DataVersionDeneb
			va.Deneb = &eth2p0.SignedAggregateAndProof{Message: &eth2p0.AggregateAndProof{AggregatorIndex: testutil.RandomVIdx(),
				Aggregate:      &eth2p0.Attestation{AggregationBits: testutil.RandomBitList(8), Data: data, Signature: testutil.RandomEth2Signature()},
				SelectionProof: testutil.RandomEth2Signature()}}
		case "electra", "fulu":
			m := &electra.SignedAggregateAndProof{Message: &electra.AggregateAndProof{AggregatorIndex: testutil.RandomVIdx(),
				Aggregate: &electra.Attestation{AggregationBits: testutil.RandomBitList(64), Data: data,
					Signature: testutil.RandomEth2Signature(), CommitteeBits: testutil.RandomBitVec64()},
				SelectionProof: testutil.RandomEth2Signature()}}
			if ver == "electra" {
				va.Version, va.Electra = eth2spec.DataVersionElectra, m
			} else {
				va.Version, va.Fulu = eth2spec.DataVersionFulu, m
			}
		default:
			fatalf("aggregator version %s", ver)
		}
		sd = core.NewVersionedSignedAggregateAndProof(va)
	case "syncmsg":
		sd = core.NewSignedSyncMessage(&altair.SyncCommitteeMessage{Slot: ownSlot, BeaconBlockRoot: testutil.RandomRoot(),
			ValidatorIndex: testutil.RandomVIdx()})
	case "syncsel":
		sd = core.NewSyncCommitteeSelection(&eth2v1.SyncCommitteeSelection{ValidatorIndex: testutil.RandomVIdx(), Slot: ownSlot,
			SubcommitteeIndex: 1 + bump})
	case "contribution":
		c := testutil.RandomSignedSyncContributionAndProof()
		c.Message.Contribution.Slot = ownSlot
		c.Signature = zero
		sd = core.NewSignedSyncContributionAndProof(c)
	default:
		fatalf("unknown object type %s", typ)
	}
	if err != nil {
		fatalf("build %s/%s: %v", typ, ver, err)
	}
	if esrc == "slot" || esrc == "exit_epoch" || esrc == "randao_epoch" || esrc == "target" || esrc == "none" {
		// the field each source names was filled above
	} else {
		fatalf("unknown epoch source %s", esrc)
	}
	root, err := sd.MessageRoot()
	if err != nil {
		fatalf("message root %s/%s: %v", typ, ver, err)
	}
	return obj{data: sd, epoch: epoch, root: root}
}

func dutyType(typ string) core.DutyType {
	return map[string]core.DutyType{"attester": core.DutyAttester, "proposer": core.DutyProposer, "blinded": core.DutyBuilderProposer,
		"exit": core.DutyExit, "randao": core.DutyRandao, "registration": core.DutyBuilderRegistration,
		"selection": core.DutyPrepareAggregator, "aggregator": core.DutyAggregator, "syncmsg": core.DutySyncMessage,
		"syncsel": core.DutyPrepareSyncContribution, "contribution": core.DutySyncContribution}[typ]
}

// truncSig carries its object with a signature that is not 96 bytes long.
type truncSig struct{ core.SignedData }

func (s truncSig) Signature() core.Signature { return s.SignedData.Signature()[:95] }

// body is the object's JSON with the signature blanked: what the object says apart from who signed it.
func body(sd core.SignedData) []byte {
	blank, err := sd.SetSignature(make(core.Signature, 96))
	if err != nil {
		return []byte("!" + err.Error())
	}
	b, err := json.Marshal(blank)
	if err != nil {
		return []byte("!" + err.Error())
	}
	return b
}

type validator struct {
	pub      tbls.PublicKey
	corePub  core.PubKey
	shares   map[int]tbls.PrivateKey
	objs     map[string]obj // "A", "B"
	partBody []struct {
		content string
		body    []byte
	}
}

type subCall struct {
	k    int
	duty core.Duty
	set  core.SignedDataSet
}

// A schedule is one call or a SEQUENCE of calls on one Aggregator (with one verifier) instance: every call is judged on
// its own (the statement is per call), so every call is a trace of its own (Reset with the schedule's sid).
func runOne(t *testing.T, e *env, tr sink, sid int, sched []drv.Step, rep int) {
	if len(sched) == 0 {
		fatalf("schedule %d: empty", sid)
	}
	sh := &sharedAgg{}
	for _, c := range sched {
		if drv.Str(c["ev"]) != "Call" {
			fatalf("schedule %d: expected Call steps only", sid)
		}
		runCall(t, e, tr, sid, c, rep, sh)
	}
}

// faultyBN is the beacon node the verifier talks to: while down, the look-ups a signature verification needs fail.
type faultyBN struct {
	beaconmock.Mock
	down *atomic.Bool
}

var errBNDown = errors.New("beacon node unavailable (scripted)")

func (f faultyBN) Domain(ctx context.Context, dt eth2p0.DomainType, ep eth2p0.Epoch) (eth2p0.Domain, error) {
	if f.down.Load() {
		return eth2p0.Domain{}, errBNDown
	}
	return f.Mock.Domain(ctx, dt, ep)
}

func (f faultyBN) GenesisDomain(ctx context.Context, dt eth2p0.DomainType) (eth2p0.Domain, error) {
	if f.down.Load() {
		return eth2p0.Domain{}, errBNDown
	}
	return f.Mock.GenesisDomain(ctx, dt)
}

type sharedAgg struct {
	down  atomic.Bool
	vals  []*validator // the validators of the previous call of the sequence
	N     int
	typ   string
	agg   *sigagg.Aggregator
	T     int
	calls *[]subCall
}

func runCall(t *testing.T, e *env, tr sink, sid int, c drv.Step, rep int, sh *sharedAgg) {
	typ, ver, bucket := drv.Str(c["typ"]), drv.Str(c["ver"]), drv.Str(c["bucket"])
	T, N := drv.Num(c["T"]), drv.Num(c["N"])
	domain, esrc := drv.Str(c["domain"]), drv.Str(c["esrc"])
	own, other := bucketEpoch[bucket], bucketEpoch[otherBucket(bucket)]
	vals, _ := c["vals"].([]any)

	tr.Emit(drv.Step{"ev": "Reset", "sid": sid, "T": T, "N": N})

	input := map[core.PubKey][]core.ParSignedData{}
	var (
		vs    []*validator
		lists [][]core.ParSignedData
	)
	same, _ := c["samecontent"].(bool) // every validator of the call signs the same content (one signing root for all)
	keep, _ := c["keepvals"].(bool)    // the validators (keys and their objects A / B) of the sequence's previous call again
	for vi := range vals {
		if keep && vi < len(sh.vals) && sh.N == N && sh.typ == typ+"/"+ver+"/"+bucket {
			old := sh.vals[vi]
			vs = append(vs, &validator{pub: old.pub, corePub: old.corePub, shares: old.shares, objs: old.objs})
			continue
		}
		secret, err := tbls.GenerateSecretKey()
		if err != nil {
			fatalf("secret: %v", err)
		}
		shares, err := tbls.ThresholdSplit(secret, uint(N), uint(T))
		if err != nil {
			fatalf("split: %v", err)
		}
		pub, err := tbls.SecretToPublicKey(secret)
		if err != nil {
			fatalf("pubkey: %v", err)
		}
		v := &validator{pub: pub, corePub: core.PubKeyFrom48Bytes(pub), shares: shares}
		if same && len(vs) > 0 {
			v.objs = vs[0].objs
		} else {
			v.objs = map[string]obj{
				"A": e.build(t, typ, ver, esrc, own, other, false),
				"B": e.build(t, typ, ver, esrc, own, other, true),
			}
		}
		vs = append(vs, v)
	}
	sh.vals, sh.N, sh.typ = vs, N, typ+"/"+ver+"/"+bucket
	for vi, lv := range vals {
		v := vs[vi]
		shares := v.shares
		var list []core.ParSignedData
		for _, lp := range lv.([]any) {
			p := lp.(map[string]any)
			idx, by := drv.Num(p["idx"]), drv.Num(p["by"])
			content, over := drv.Str(p["content"]), drv.Str(p["over"])
			key, ok := shares[by]
			if xv, has := p["xval"]; has && !ok {
				// a key outside THIS validator's shares that is another validator's share of the same call (a peer whose
				// share keys for two validators are crossed)
				if j := drv.Num(xv); j >= 0 && j < len(vs) && j != vi {
					key, ok = vs[j].shares[drv.Num(p["xby"])]
				}
			}
			if !ok { // a key outside the cluster
				var err error
				if key, err = tbls.GenerateSecretKey(); err != nil {
					fatalf("outside key: %v", err)
				}
			}
			epoch := v.objs[over].epoch
			if drv.Str(p["ep"]) != "own" {
				epoch = other
			}
			sroot, err := e.signingRoot(drv.Str(p["dom"]), esrc, epoch, v.objs[over].root)
			if err != nil {
				fatalf("signing root: %v", err)
			}
			sig, err := tbls.Sign(key, sroot[:])
			if err != nil {
				fatalf("sign: %v", err)
			}
			raw := append([]byte{}, sig[:]...)
			switch drv.Str(p["form"]) {
			case "zero":
				raw = make([]byte, 96)
			case "junk":
				raw = bytes.Repeat([]byte{0xff}, 96)
			}
			carrier, err := v.objs[content].data.Clone()
			if err != nil {
				fatalf("clone: %v", err)
			}
			if b, _ := p["vi"].(bool); b { // the validator client's own copy carries the validator index
				att, ok := carrier.(core.VersionedAttestation)
				if !ok {
					fatalf("vi on a non-attestation")
				}
				vi := eth2p0.ValidatorIndex(7)
				att.ValidatorIndex = &vi
				carrier = att
			}
			signed, err := carrier.SetSignature(tblsconv.SigToCore(tbls.Signature(raw)))
			if err != nil {
				fatalf("set signature: %v", err)
			}
			v.partBody = append(v.partBody, struct {
				content string
				body    []byte
			}{content, body(signed)})
			if drv.Str(p["form"]) == "trunc" {
				signed = truncSig{signed}
			}
			list = append(list, core.ParSignedData{SignedData: signed, ShareIdx: idx})
		}
		lists = append(lists, list)
	}
	for i := range vs {
		k := i
		if rep%2 == 1 {
			k = len(vs) - 1 - i
		}
		input[vs[k].corePub] = lists[k]
	}

	if sh.agg == nil {
		agg, err := sigagg.New(T, sigagg.NewVerifier(faultyBN{Mock: e.bmock, down: &sh.down}))
		if err != nil {
			fatalf("sigagg.New: %v", err)
		}
		sh.agg, sh.T, sh.calls = agg, T, new([]subCall)
		for k := 1; k <= 2; k++ {
			agg.Subscribe(func(_ context.Context, duty core.Duty, set core.SignedDataSet) error {
				*sh.calls = append(*sh.calls, subCall{k: k, duty: duty, set: set})
				return nil
			})
		}
	} else if sh.T != T {
		fatalf("schedule %d: the calls of a sequence must share the threshold", sid)
	}
	agg := sh.agg
	*sh.calls = nil
	bn := "up"
	if drv.Str(c["bn"]) == "down" {
		bn = "down"
	}
	sh.down.Store(bn == "down")
	defer sh.down.Store(false)
	tr.Emit(drv.Step{"ev": "Call", "typ": typ, "ver": ver, "bucket": bucket, "domain": domain, "esrc": esrc, "vals": c["vals"], "bn": bn})

	duty := core.Duty{Slot: own*e.slotsPerEpoch + 3, Type: dutyType(typ)}
	var (
		aggErr   error
		panicked any
	)
	func() {
		defer func() { panicked = recover() }()
		aggErr = agg.Aggregate(e.ctx, duty, input)
	}()

	for _, sc := range *sh.calls {
		pubs := []drv.Step{}
		for pk, sd := range sc.set {
			vi := 0
			for i, v := range vs {
				if v.corePub == pk {
					vi = i + 1
				}
			}
			rec := drv.Step{"v": vi, "content": "other", "body": "none", "verifies": false, "verifiesIndep": false}
			if vi > 0 {
				v := vs[vi-1]
				if eth2sd, ok := sd.(core.Eth2SignedData); ok {
					rec["verifies"] = core.VerifyEth2SignedData(e.ctx, e.bmock, eth2sd, v.pub) == nil
				}
				root, rerr := sd.MessageRoot()
				for _, name := range []string{"A", "B"} {
					if rerr == nil && root == v.objs[name].root {
						rec["content"] = name
						// the executor's own check: domain by name and epoch placement from the schedule
						if sroot, err := e.signingRoot(domain, esrc, v.objs[name].epoch, root); err == nil {
							if sig, err := tblsconv.SigFromCore(sd.Signature()); err == nil && sig != (tbls.Signature{}) {
								rec["verifiesIndep"] = tbls.Verify(v.pub, sroot[:], sig) == nil
							}
						}
					}
				}
				pb := body(sd)
				for _, cand := range v.partBody {
					if bytes.Equal(cand.body, pb) {
						rec["body"] = cand.content
						break
					}
				}
			}
			pubs = append(pubs, rec)
		}
		tr.Emit(drv.Step{"ev": "Sub", "k": sc.k, "dutyEq": sc.duty == duty, "pubs": pubs})
	}
	if panicked != nil {
		tr.Emit(drv.Step{"ev": "Panic", "what": fmt.Sprint(panicked)})
		return
	}
	tr.Emit(drv.Step{"ev": "Return", "err": aggErr != nil})
}
