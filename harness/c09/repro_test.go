package c09

import (
	"testing"

	"github.com/obolnetwork/charon/tbls"
)

// TestCancellation: NOT a defect -- an algebraic identity.  t=2 (f of degree 1), partials by share 1 filed under 1 and by
// share 2 filed under BOTH 3 and 4: Lagrange at 0 over {1,3,4} gives 2*f(1) - 2*f(2) + 1*f(2) = 2*f(1) - f(2) = f(0).
// The two "wrong" points cancel; the result is the genuine group signature (two distinct shares = threshold signed).
func TestCancellation(t *testing.T) {
	for range 20 {
		secret, _ := tbls.GenerateSecretKey()
		shares, err := tbls.ThresholdSplit(secret, 3, 2)
		if err != nil {
			t.Fatal(err)
		}
		msg := []byte("some signing root")
		s1, _ := tbls.Sign(shares[1], msg)
		s2, _ := tbls.Sign(shares[2], msg)
		agg, err := tbls.ThresholdAggregate(map[int]tbls.Signature{4: s2, 1: s1, 3: s2})
		if err != nil {
			t.Fatal(err)
		}
		direct, _ := tbls.Sign(secret, msg)
		pub, _ := tbls.SecretToPublicKey(secret)
		t.Logf("aggregate == direct group signature: %v, verifies: %v", agg == direct, tbls.Verify(pub, msg, agg) == nil)
		if agg != direct {
			t.Fatal("expected the identity to hold")
		}
	}
}
