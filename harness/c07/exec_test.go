// Package c07 executes ParSigDB schedules on the real parsigdb.MemDB and records what it did.
//
// Schedule: [{"ev":"Cfg","t":3}, step...] with steps
//
//	{"ev":"Call","duty":{"id","typ","ex"},"internal":b,"expired":b,"batch":[{"v","share","root","sig","sub"}],"th":k}
//	{"ev":"Trim","duty":{...},"th":k}
//
// Steps with th >= 1 that follow each other form a concurrent block: the steps of each th run in their own
// goroutine, in order; steps without th run alone.  A schedule with a multi-validator batch or a concurrent block is
// executed VERIF_REPS times on a fresh store (Go map order / goroutine scheduling differ between executions); every
// distinct recorded trace is written, each with its own Reset event carrying the same sid.
package c07

import (
	"context"
	"crypto/sha256"
	"encoding/hex"
	"encoding/json"
	"fmt"
	"os"
	"runtime"
	"sort"
	"strconv"
	"sync"
	"sync/atomic"
	"testing"
	"time"

	bitfield "github.com/OffchainLabs/go-bitfield"
	eth2spec "github.com/attestantio/go-eth2-client/spec"
	"github.com/attestantio/go-eth2-client/spec/altair"
	eth2p0 "github.com/attestantio/go-eth2-client/spec/phase0"

	"github.com/obolnetwork/charon/core"
	"github.com/obolnetwork/charon/core/parsigdb"

	"verifharness/drv"
)

const hangAfter = 10 * time.Second

type mduty struct {
	ID  string
	Typ string
	Ex  bool
}

type mpart struct {
	V     int
	Share int
	Root  string
	Sig   int
	Sub   int
}

func parseDuty(v any) mduty {
	m := v.(map[string]any)
	ex, _ := m["ex"].(bool)

	return mduty{ID: drv.Str(m["id"]), Typ: drv.Str(m["typ"]), Ex: ex}
}

func (d mduty) json() drv.Step { return drv.Step{"id": d.ID, "typ": d.Typ, "ex": d.Ex} }

func parseBatch(v any) []mpart {
	var res []mpart
	for _, e := range v.([]any) {
		m := e.(map[string]any)
		res = append(res, mpart{V: drv.Num(m["v"]), Share: drv.Num(m["share"]), Root: drv.Str(m["root"]),
			Sig: drv.Num(m["sig"]), Sub: drv.Num(m["sub"])})
	}

	return res
}

func partJSON(p mpart) drv.Step {
	return drv.Step{"share": p.Share, "root": p.Root, "sig": p.Sig, "sub": p.Sub}
}

func batchJSON(b []mpart) []any {
	res := []any{}
	for _, p := range b {
		e := partJSON(p)
		e["v"] = p.V
		res = append(res, e)
	}

	return res
}

// stubDeadliner answers Add from a table the driver sets before each call and hands the driver's channel to Trim.
type stubDeadliner struct {
	mu     sync.Mutex
	status map[core.Duty]core.DeadlineStatus
	ch     chan core.Duty
}

func (s *stubDeadliner) Add(d core.Duty) core.DeadlineStatus {
	s.mu.Lock()
	defer s.mu.Unlock()

	return s.status[d]
}

func (s *stubDeadliner) C() <-chan core.Duty { return s.ch }

func (s *stubDeadliner) set(d core.Duty, st core.DeadlineStatus) {
	s.mu.Lock()
	defer s.mu.Unlock()
	s.status[d] = st
}

type callKey struct{}

// world is one execution of one schedule on a fresh store.
type world struct {
	t      *testing.T
	mu     sync.Mutex
	events []drv.Step
	db     *parsigdb.MemDB
	dl     *stubDeadliner
	duties map[string]core.Duty  // model duty id -> real duty
	mdut   map[core.Duty]mduty   // back
	bySig  map[string]mpart      // hex(signature) -> model partial (as constructed)
	byRoot map[string]string     // hex(message root) -> model root id
	pubOf  map[int]core.PubKey   // model validator -> pubkey
	valOf  map[core.PubKey]int   // back
	ncall  int
	ntrim  int
	hung   bool
}

func (w *world) emit(e drv.Step) {
	w.mu.Lock()
	defer w.mu.Unlock()
	w.events = append(w.events, e)
}

func fill(n int, seed string) []byte {
	var out []byte
	for i := 0; len(out) < n; i++ {
		h := sha256.Sum256([]byte(seed + "/" + strconv.Itoa(i)))
		out = append(out, h[:]...)
	}

	return out[:n]
}

func (w *world) pubkey(v int) core.PubKey {
	if pk, ok := w.pubOf[v]; ok {
		return pk
	}
	pk, err := core.PubKeyFromBytes(fill(48, "pubkey"+strconv.Itoa(v)))
	if err != nil {
		w.t.Fatalf("pubkey: %v", err)
	}
	w.pubOf[v] = pk
	w.valOf[pk] = v

	return pk
}

func (w *world) realDuty(m mduty) core.Duty {
	if d, ok := w.duties[m.ID]; ok {
		return d
	}
	slot := uint64(len(w.duties) + 1)
	var d core.Duty
	switch m.Typ {
	case "att":
		d = core.NewAttesterDuty(slot)
	case "randao":
		d = core.NewRandaoDuty(slot)
	case "exit":
		d = core.NewVoluntaryExit(slot)
	case "syncmsg":
		d = core.NewSyncMessageDuty(slot)
	case "contrib":
		d = core.NewSyncContributionDuty(slot)
	case "sig":
		d = core.NewSignatureDuty(slot)
	default:
		w.t.Fatalf("unknown duty type %q", m.Typ)
	}
	w.duties[m.ID] = d
	w.mdut[d] = m

	return d
}

// build constructs the real partial signed data for a model partial.  Data of the same (duty, validator, root, sub)
// is identical but for the signature; the signature is a function of the whole model partial.
func (w *world) build(md mduty, p mpart) core.ParSignedData {
	d := w.realDuty(md)
	var sig eth2p0.BLSSignature
	copy(sig[:], fill(96, fmt.Sprintf("sig/%s/%d/%d/%s/%d/%d", md.ID, p.V, p.Share, p.Root, p.Sig, p.Sub)))
	var root eth2p0.Root
	copy(root[:], fill(32, "root/"+p.Root))
	rootIdx := uint64(0)
	for _, c := range []byte(p.Root) {
		rootIdx = rootIdx*131 + uint64(c)
	}
	var fixed eth2p0.BLSSignature
	copy(fixed[:], fill(96, "fixed"))
	slot := eth2p0.Slot(d.Slot)

	var psd core.ParSignedData
	switch md.Typ {
	case "att":
		att := &eth2spec.VersionedAttestation{
			Version: eth2spec.DataVersionDeneb,
			Deneb: &eth2p0.Attestation{
				AggregationBits: bitfield.NewBitlist(8),
				Data: &eth2p0.AttestationData{
					Slot: slot, Index: 1, BeaconBlockRoot: root,
					Source: &eth2p0.Checkpoint{Epoch: 1}, Target: &eth2p0.Checkpoint{Epoch: 2},
				},
				Signature: sig,
			},
		}
		var err error
		psd, err = core.NewPartialVersionedAttestation(att, p.Share)
		if err != nil {
			w.t.Fatalf("attestation: %v", err)
		}
	case "randao":
		psd = core.NewPartialSignedRandao(eth2p0.Epoch(rootIdx), sig, p.Share)
	case "exit":
		psd = core.NewPartialSignedVoluntaryExit(&eth2p0.SignedVoluntaryExit{
			Message:   &eth2p0.VoluntaryExit{Epoch: eth2p0.Epoch(rootIdx), ValidatorIndex: eth2p0.ValidatorIndex(p.V)},
			Signature: sig,
		}, p.Share)
	case "syncmsg":
		psd = core.NewPartialSignedSyncMessage(&altair.SyncCommitteeMessage{
			Slot: slot, BeaconBlockRoot: root, ValidatorIndex: eth2p0.ValidatorIndex(p.V), Signature: sig,
		}, p.Share)
	case "contrib":
		psd = core.NewPartialSignedSyncContributionAndProof(&altair.SignedContributionAndProof{
			Message: &altair.ContributionAndProof{
				AggregatorIndex: eth2p0.ValidatorIndex(p.V),
				Contribution: &altair.SyncCommitteeContribution{
					Slot: slot, BeaconBlockRoot: root, SubcommitteeIndex: uint64(p.Sub),
					AggregationBits: bitfield.NewBitvector128(), Signature: fixed,
				},
				SelectionProof: fixed,
			},
			Signature: sig,
		}, p.Share)
	case "sig":
		psd = core.NewPartialSignature(core.SigFromETH2(sig), p.Share)
	}

	w.mu.Lock()
	w.bySig[hex.EncodeToString(sig[:])] = p
	if md.Typ != "sig" {
		r, err := psd.MessageRoot()
		if err != nil {
			w.mu.Unlock()
			w.t.Fatalf("message root: %v", err)
		}
		w.byRoot[hex.EncodeToString(r[:])] = p.Root
	}
	w.mu.Unlock()

	return psd
}

// describe turns real partial signed data handed to a subscriber back into model terms, reading every field from
// the real object (share index, message root, subcommittee) and only the signature variant from the table.
func (w *world) describe(d core.Duty, psd core.ParSignedData) drv.Step {
	w.mu.Lock()
	defer w.mu.Unlock()

	res := drv.Step{"share": psd.ShareIdx, "root": "?", "sig": -1, "sub": -1}
	if psd.SignedData == nil {
		return res
	}
	known, ok := w.bySig[hex.EncodeToString(psd.Signature())]
	if ok {
		res["sig"] = known.Sig
	}
	if d.Type == core.DutySignature {
		if ok {
			res["root"] = known.Root
		}
	} else if r, err := psd.MessageRoot(); err == nil {
		if id, ok := w.byRoot[hex.EncodeToString(r[:])]; ok {
			res["root"] = id
		}
	}
	if sub, err := core.SyncSubcommitteeIndex(d.Type, psd.SignedData); err == nil {
		res["sub"] = int(sub)
	}

	return res
}

func newWorld(t *testing.T, thr int) *world {
	w := &world{
		t: t, duties: map[string]core.Duty{}, mdut: map[core.Duty]mduty{}, bySig: map[string]mpart{},
		byRoot: map[string]string{}, pubOf: map[int]core.PubKey{}, valOf: map[core.PubKey]int{},
	}
	w.dl = &stubDeadliner{status: map[core.Duty]core.DeadlineStatus{}, ch: make(chan core.Duty)}
	w.db = parsigdb.NewMemDB(thr, w.dl, parsigdb.NewMemDBMetadata(12, time.Unix(1600000000, 0)))
	w.db.SubscribeThreshold(func(ctx context.Context, duty core.Duty, set map[core.PubKey][]core.ParSignedData) error {
		c, _ := ctx.Value(callKey{}).(int)
		var sets []any
		var pks []string
		for pk := range set {
			pks = append(pks, string(pk))
		}
		sort.Strings(pks)
		for _, pk := range pks {
			parts := []any{}
			for _, psd := range set[core.PubKey(pk)] {
				parts = append(parts, w.describe(duty, psd))
			}
			v, ok := w.valOf[core.PubKey(pk)]
			if !ok {
				v = -1
			}
			sets = append(sets, drv.Step{"v": v, "parts": parts})
		}
		if sets == nil {
			sets = []any{}
		}
		w.emit(drv.Step{"ev": "Fired", "c": c, "duty": w.dutyJSON(duty), "sets": sets})

		return nil
	})
	w.db.SubscribeInternal(func(ctx context.Context, duty core.Duty, set core.ParSignedDataSet) error {
		c, _ := ctx.Value(callKey{}).(int)
		var pks []string
		for pk := range set {
			pks = append(pks, string(pk))
		}
		sort.Strings(pks)
		batch := []any{}
		for _, pk := range pks {
			e := w.describe(duty, set[core.PubKey(pk)])
			v, ok := w.valOf[core.PubKey(pk)]
			if !ok {
				v = -1
			}
			e["v"] = v
			batch = append(batch, e)
		}
		w.emit(drv.Step{"ev": "Internal", "c": c, "duty": w.dutyJSON(duty), "batch": batch})

		return nil
	})

	return w
}

func (w *world) dutyJSON(d core.Duty) drv.Step {
	w.mu.Lock()
	defer w.mu.Unlock()
	if m, ok := w.mdut[d]; ok {
		return m.json()
	}

	return drv.Step{"id": "unknown:" + d.String(), "typ": "?", "ex": false}
}

// guarded runs fn and reports false when it has not returned after hangAfter.
func (w *world) guarded(fn func()) bool {
	done := make(chan struct{})
	go func() {
		defer close(done)
		fn()
	}()
	select {
	case <-done:
		return true
	case <-time.After(hangAfter):
		w.mu.Lock()
		w.hung = true
		w.mu.Unlock()

		return false
	}
}

func (w *world) isHung() bool {
	w.mu.Lock()
	defer w.mu.Unlock()

	return w.hung
}

type prepared struct {
	step   drv.Step
	duty   mduty
	real   core.Duty
	batch  []mpart
	set    core.ParSignedDataSet
	status string
}

func (w *world) prepare(st drv.Step) prepared {
	p := prepared{step: st, duty: parseDuty(st["duty"])}
	p.real = w.realDuty(p.duty)
	if drv.Str(st["ev"]) != "Call" {
		return p
	}
	p.batch = parseBatch(st["batch"])
	p.set = core.ParSignedDataSet{}
	for i, e := range p.batch {
		if p.duty.Typ != "contrib" {
			e.Sub = 0 // only sync contributions carry a subcommittee index
			p.batch[i] = e
		}
		p.set[w.pubkey(e.V)] = w.build(p.duty, e)
	}
	expired, _ := st["expired"].(bool)
	switch {
	case expired && !p.duty.Ex:
		p.status = "expired"
	case p.duty.Ex:
		p.status = "exempt"
	default:
		p.status = "scheduled"
	}

	return p
}

var statusOf = map[string]core.DeadlineStatus{"expired": core.DeadlineExpired, "exempt": core.DeadlineExempt, "scheduled": core.DeadlineScheduled}

// exec runs one prepared step on the calling goroutine.
func (w *world) exec(ctx context.Context, p prepared, rendezvous func(), direct bool) {
	run := w.guarded
	if direct { // inside a concurrent block: the block as a whole has the watchdog
		run = func(fn func()) bool { fn(); return true }
	}
	if w.isHung() {
		rendezvous()

		return
	}
	switch drv.Str(p.step["ev"]) {
	case "Call":
		internal, _ := p.step["internal"].(bool)
		w.mu.Lock()
		w.ncall++
		c := w.ncall
		w.mu.Unlock()
		cctx := context.WithValue(ctx, callKey{}, c)
		w.emit(drv.Step{"ev": "Call", "c": c, "duty": p.duty.json(), "status": p.status, "internal": internal,
			"batch": batchJSON(p.batch)})
		rendezvous()
		var err error
		ok := run(func() {
			if internal {
				err = w.db.StoreInternal(cctx, p.real, p.set)
			} else {
				err = w.db.StoreExternal(cctx, p.real, p.set)
			}
		})
		if !ok {
			return
		}
		w.emit(drv.Step{"ev": "Ret", "c": c, "err": err != nil})
	case "Trim":
		w.mu.Lock()
		w.ntrim++
		id := w.ntrim
		w.mu.Unlock()
		w.emit(drv.Step{"ev": "Trim", "id": id, "duty": p.duty.json()})
		rendezvous()
		// The Trim loop is sequential and the channel unbuffered: once the barrier duty has been taken, the
		// critical section for the real duty has completed.
		ok := run(func() {
			w.dl.ch <- p.real
			w.dl.ch <- core.Duty{}
		})
		if !ok {
			return
		}
		w.emit(drv.Step{"ev": "TrimDone", "id": id})
	default:
		w.t.Fatalf("unknown step %v", p.step)
	}
}

func runOnce(t *testing.T, sid, thr int, steps []drv.Step) ([]drv.Step, bool) {
	ctx, cancel := context.WithCancel(context.Background())
	defer cancel()
	w := newWorld(t, thr)
	go w.db.Trim(ctx)
	w.emit(drv.Step{"ev": "Reset", "sid": sid, "t": thr})

	var prep []prepared
	for _, st := range steps {
		prep = append(prep, w.prepare(st))
	}
	for i := 0; i < len(prep) && !w.isHung(); {
		th := drv.Num(prep[i].step["th"])
		if th == 0 {
			if prep[i].status != "" {
				w.dl.set(prep[i].real, statusOf[prep[i].status])
			}
			w.exec(ctx, prep[i], func() {}, false)
			i++

			continue
		}
		// concurrent block: the deadliner's answer for a duty is fixed for the whole block
		j := i
		byTh := map[int][]prepared{}
		answers := map[core.Duty]string{}
		for j < len(prep) && drv.Num(prep[j].step["th"]) > 0 {
			p := prep[j]
			if p.status != "" {
				if prev, ok := answers[p.real]; ok && prev != p.status {
					t.Fatalf("schedule %d: one duty with two deadline answers inside a concurrent block", sid)
				}
				answers[p.real] = p.status
				w.dl.set(p.real, statusOf[p.status])
			}
			byTh[drv.Num(p.step["th"])] = append(byTh[drv.Num(p.step["th"])], p)
			j++
		}
		// The k-th steps of all threads rendezvous after their Call/Trim event has been written and before the
		// store is entered, so that they really overlap (the verdict does not depend on it).
		rounds := 0
		for _, list := range byTh {
			if len(list) > rounds {
				rounds = len(list)
			}
		}
		barriers := make([]int32, rounds)
		for k := range barriers {
			for _, list := range byTh {
				if len(list) > k {
					barriers[k]++
				}
			}
		}
		var wg sync.WaitGroup
		for _, list := range byTh {
			wg.Add(1)
			go func(list []prepared) {
				defer wg.Done()
				for k, p := range list {
					w.exec(ctx, p, func() {
						// spinning barrier: all k-th steps enter the store within a few hundred nanoseconds
						atomic.AddInt32(&barriers[k], -1)
						for t0 := time.Now(); atomic.LoadInt32(&barriers[k]) > 0 && time.Since(t0) < hangAfter; {
							runtime.Gosched()
						}
					}, true)
				}
			}(list)
		}
		if !w.guarded(wg.Wait) {
			break
		}
		i = j
	}
	hung := w.isHung()
	if hung {
		w.emit(drv.Step{"ev": "Hang"})
	}
	w.mu.Lock()
	defer w.mu.Unlock()

	return w.events, hung
}

func TestExec(t *testing.T) {
	drv.QuietLogs(t)
	scheds := drv.ReadSchedules(t)
	tr := drv.NewTracer(t)
	defer tr.Close()
	reps := 8
	if s := os.Getenv("VERIF_REPS"); s != "" {
		if n, err := strconv.Atoi(s); err == nil && n > 0 {
			reps = n
		}
	}
	for sid, s := range scheds {
		if len(s) == 0 || drv.Str(s[0]["ev"]) != "Cfg" {
			t.Fatalf("schedule %d does not start with Cfg", sid)
		}
		thr := drv.Num(s[0]["t"])
		steps := s[1:]
		n := 1
		for _, st := range steps {
			if b, ok := st["batch"].([]any); (ok && len(b) > 1) || drv.Num(st["th"]) > 0 {
				n = reps
			}
		}
		seen := map[string]bool{}
		for r := 0; r < n; r++ {
			events, hung := runOnce(t, sid, thr, steps)
			b, _ := json.Marshal(events)
			if !seen[string(b)] {
				seen[string(b)] = true
				for _, e := range events {
					tr.Emit(e)
				}
			}
			if hung {
				return // a hung store: stop here, the trace ends with a Hang event no spec step matches
			}
		}
	}
}
