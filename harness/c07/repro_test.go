package c07

// Standalone reproductions of the two C07 defects of the pinned tree, written against nothing but the exported API.
// They only REPORT what the store did (the oracle is the TLA+ specification, not this file):
//
//	cd /verif/harness && GOFLAGS=-mod=mod GOPROXY=off go test -tags verif -count=1 -run TestRepro -v ./c07

import (
	"context"
	"testing"
	"time"

	eth2p0 "github.com/attestantio/go-eth2-client/spec/phase0"

	"github.com/obolnetwork/charon/core"
	"github.com/obolnetwork/charon/core/parsigdb"

	"verifharness/drv"
)

type scheduledDeadliner struct{}

func (scheduledDeadliner) Add(core.Duty) core.DeadlineStatus { return core.DeadlineScheduled }
func (scheduledDeadliner) C() <-chan core.Duty               { return nil }

func randao(epoch uint64, share int) core.ParSignedData {
	var sig eth2p0.BLSSignature
	sig[0], sig[1] = byte(share), byte(epoch)

	return core.NewPartialSignedRandao(eth2p0.Epoch(epoch), sig, share)
}

func TestReproBatchAbort(t *testing.T) {
	drv.QuietLogs(t)
	pkA, _ := core.PubKeyFromBytes(fill(48, "A"))
	pkB, _ := core.PubKeyFromBytes(fill(48, "B"))
	duty := core.NewRandaoDuty(1)
	lost, runs := 0, 200
	for i := 0; i < runs; i++ {
		db := parsigdb.NewMemDB(3, scheduledDeadliner{}, parsigdb.NewMemDBMetadata(12, time.Unix(0, 0)))
		fired := 0
		db.SubscribeThreshold(func(_ context.Context, _ core.Duty, set map[core.PubKey][]core.ParSignedData) error {
			if _, ok := set[pkA]; ok {
				fired++
			}

			return nil
		})
		ctx := context.Background()
		_ = db.StoreExternal(ctx, duty, core.ParSignedDataSet{pkA: randao(7, 1), pkB: randao(7, 1)})
		_ = db.StoreExternal(ctx, duty, core.ParSignedDataSet{pkA: randao(7, 2)})
		// validator A's third (= threshold) partial arrives together with an equivocating partial of validator B
		err := db.StoreExternal(ctx, duty, core.ParSignedDataSet{pkA: randao(7, 3), pkB: randao(8, 1)})
		// resending A's partial and a fourth share cannot repair it
		_ = db.StoreExternal(ctx, duty, core.ParSignedDataSet{pkA: randao(7, 3)})
		_ = db.StoreExternal(ctx, duty, core.ParSignedDataSet{pkA: randao(7, 4)})
		if err != nil && fired == 0 {
			lost++
		}
	}
	t.Logf("validator A reached threshold but was never handed to aggregation in %d of %d runs", lost, runs)
}

func TestReproRefire(t *testing.T) {
	drv.QuietLogs(t)
	pk, _ := core.PubKeyFromBytes(fill(48, "A"))
	duty := core.NewRandaoDuty(1)
	db := parsigdb.NewMemDB(3, scheduledDeadliner{}, parsigdb.NewMemDBMetadata(12, time.Unix(0, 0)))
	var fired [][]int
	db.SubscribeThreshold(func(_ context.Context, _ core.Duty, set map[core.PubKey][]core.ParSignedData) error {
		var shares []int
		for _, p := range set[pk] {
			shares = append(shares, p.ShareIdx)
		}
		fired = append(fired, shares)

		return nil
	})
	ctx := context.Background()
	for share := 1; share <= 3; share++ {
		_ = db.StoreExternal(ctx, duty, core.ParSignedDataSet{pk: randao(7, share)})
	}
	_ = db.StoreExternal(ctx, duty, core.ParSignedDataSet{pk: randao(8, 4)}) // one share signs another root
	t.Logf("threshold subscriber calls for one duty and validator: %v", fired)
}
