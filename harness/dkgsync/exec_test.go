// Package dkgsync executes DKGSync schedules on the real step barrier of the key generation ceremony and records
// what it did.
//
// Every honest member runs the unmodified dkg.startSyncProtocol (hook dkg/verif_export_sync.go, build tag verif): a
// real sync.Server, one real sync.Client per peer, the connection wait, the failure monitor, stepSyncFunc and
// shutdownFunc, on an in-memory libp2p host (go-libp2p mocknet) with a real secp256k1 identity.  The driver plays
// dkg.Run: it calls the step function / the shutdown function when the schedule says so, and, like Run's deferred
// cancel + p2p shutdown, cancels the member's context and closes its host when one of them fails.
// The faulty member speaks the wire protocol by hand: its server answers every honest client with "ok" (with "frej":
// with the error a member that was given another definition hash would send); it opens streams to honest servers and
// writes MsgSync messages with whatever hash signature / version / step / shutdown flag the schedule says, reading
// the server's response after each.  Nothing here knows an expected outcome.
//
// Schedule steps (specs/DKGSync/DKGSyncGen.tla):
//
//	{"ev":"Cfg","n","f","frej"}      cluster (members 1..n, f = faulty member or 0)
//	{"ev":"Start"|"Next"|"Stop","i"} the call is made on its own goroutine; its return is logged when it happens
//	{"ev":"Await","i"}               block until member i's pending call has returned (10 s: Hang)
//	{"ev":"Crash","i"}               cancel i's context, wait for its pending call, close its host
//	{"ev":"FOpen","s","to"} / {"ev":"FMsg","s","auth","step","shutdown"} / {"ev":"FClose","s"}
//	{"ev":"Yield","ms"}              the driver idles (returns that happen meanwhile are logged before the next step)
//
// Trace events: Reset, the steps above as they were made (FMsg before the message is written, then
// {"ev":"FResp","s","to","resp"} with the server's answer), the returns
// {"ev":"Started"|"Passed"|"Stopped","i","ok","err":class,"txt"}, and {"ev":"Cancel"} before the final clean-up.
package dkgsync

import (
	"context"
	"crypto/sha256"
	"encoding/binary"
	"fmt"
	"io"
	"os"
	"strconv"
	"strings"
	"sync"
	"testing"
	"time"

	k1 "github.com/decred/dcrd/dcrec/secp256k1/v4"
	libp2pcrypto "github.com/libp2p/go-libp2p/core/crypto"
	"github.com/libp2p/go-libp2p/core/host"
	"github.com/libp2p/go-libp2p/core/network"
	"github.com/libp2p/go-libp2p/core/peer"
	mocknet "github.com/libp2p/go-libp2p/p2p/net/mock"
	ma "github.com/multiformats/go-multiaddr"
	"google.golang.org/protobuf/proto"
	"google.golang.org/protobuf/types/known/timestamppb"

	"github.com/obolnetwork/charon/app/version"
	"github.com/obolnetwork/charon/dkg"
	pb "github.com/obolnetwork/charon/dkg/dkgpb/v1"
	dkgsync "github.com/obolnetwork/charon/dkg/sync"
	"github.com/obolnetwork/charon/p2p"

	"verifharness/drv"
)

const (
	generous = 10 * time.Second
	period   = 10 * time.Millisecond
)

func detKey(seed string) *k1.PrivateKey {
	h := sha256.Sum256([]byte(seed))
	return k1.PrivKeyFromBytes(h[:])
}

// classify maps an error of the component to the class the specification talks about.
func classify(err error) string {
	if err == nil {
		return ""
	}
	s := err.Error()
	switch {
	case strings.Contains(s, "peer responded with error"):
		return "peererr"
	case strings.Contains(s, "mismatching charon version"), strings.Contains(s, "parse peer version"):
		return "ver"
	case strings.Contains(s, "definition hash signature"):
		return "sig"
	case strings.Contains(s, "too far ahead"):
		return "toofar"
	case strings.Contains(s, "inconsistent peer sync state"), strings.Contains(s, "peer reported"):
		return "step"
	case strings.Contains(s, "context canceled"), strings.Contains(s, "deadline exceeded"), strings.Contains(s, "p2p connection failed"):
		return "ctx"
	}

	return "other"
}

func classifyResp(s string) string {
	if s == "" {
		return "ok"
	}

	return classify(fmt.Errorf("%s", s)) //nolint:err113
}

func short(err error) string {
	if err == nil {
		return ""
	}
	s := err.Error()
	if len(s) > 160 {
		s = s[:160]
	}

	return s
}

type node struct {
	idx     int
	h       host.Host
	key     *k1.PrivateKey
	ctx     context.Context
	cancel  context.CancelFunc
	stepF   func(context.Context) error
	stopF   func(context.Context) error
	fatalF  func() error
	pending chan struct{} // closed when the call in progress has returned (nil: none)
	closed  bool
}

type run struct {
	mu     sync.Mutex
	evs    []drv.Step
	n, f   int
	nodes  map[int]*node
	peers  []peer.ID
	hash   []byte
	fkey   *k1.PrivateKey
	fhost  host.Host
	fst    map[int]network.Stream
	fto    map[int]int
	nmsg   int
	hung   bool
	cancel context.CancelFunc
}

func (r *run) emit(ev drv.Step) {
	r.mu.Lock()
	r.evs = append(r.evs, ev)
	r.mu.Unlock()
}

func (r *run) kill(nd *node) {
	r.mu.Lock()
	already := nd.closed
	nd.closed = true
	r.mu.Unlock()
	nd.cancel()
	if !already {
		_ = nd.h.Close()
	}
}

// ret logs the return of a member's call and, as Run's deferred cancel and p2p shutdown do, ends the member when
// the call failed.
func (r *run) ret(nd *node, what string, err error) {
	if err != nil && nd.fatalF != nil {
		if f := nd.fatalF(); f != nil { // Run's fatalOr
			err = f
		}
	}
	r.emit(drv.Step{"ev": what, "i": nd.idx, "ok": err == nil, "err": classify(err), "txt": short(err)})
	if err != nil {
		r.kill(nd)
	}
}

func (r *run) call(nd *node, what string) {
	done := make(chan struct{})
	nd.pending = done
	go func() {
		defer close(done)
		switch what {
		case "Start":
			opts := []func(*dkgsync.Client){dkgsync.WithPeriod(period)}
			stepF, stopF, fatalF, err := dkg.VerifStartSyncProtocol(nd.ctx, nd.h, nd.key, r.hash, r.peers, nd.cancel, opts)
			nd.stepF, nd.stopF, nd.fatalF = stepF, stopF, fatalF
			r.ret(nd, "Started", err)
		case "Next":
			r.ret(nd, "Passed", nd.stepF(nd.ctx))
		case "Stop":
			r.ret(nd, "Stopped", nd.stopF(nd.ctx))
		}
	}()
}

// await waits for the pending call of a member; false after a generous wait.
func (r *run) await(nd *node) bool {
	if nd.pending == nil {
		return true
	}
	select {
	case <-nd.pending:
		return true
	case <-time.After(generous):
		return false
	}
}

func writeSized(w io.Writer, m proto.Message) error {
	b, err := proto.Marshal(m)
	if err != nil {
		return err
	}
	if err := binary.Write(w, binary.LittleEndian, int64(len(b))); err != nil {
		return err
	}
	_, err = w.Write(b)

	return err
}

func readSized(rd io.Reader, m proto.Message) error {
	var size int64
	if err := binary.Read(rd, binary.LittleEndian, &size); err != nil {
		return err
	}
	if size <= 0 || size > 1<<20 {
		return fmt.Errorf("bad size %d", size) //nolint:err113
	}
	b := make([]byte, size)
	if _, err := io.ReadFull(rd, b); err != nil {
		return err
	}

	return proto.Unmarshal(b, m)
}

// hashSig produces the hash signature of the faulty member: "ok" is what dkg.startSyncProtocol sends; the
// variants of "sig" are a signature over another hash, a signature by another key, and bytes that are no signature.
func (r *run) hashSig(auth string, variant int) ([]byte, string) {
	own := (*libp2pcrypto.Secp256k1PrivateKey)(r.fkey)
	if auth != "sig" {
		b, _ := own.Sign(r.hash)
		return b, ""
	}
	switch variant % 3 {
	case 0:
		other := sha256.Sum256([]byte("another definition"))
		b, _ := own.Sign(other[:])

		return b, "otherhash"
	case 1:
		b, _ := (*libp2pcrypto.Secp256k1PrivateKey)(detKey("not a member")).Sign(r.hash)
		return b, "otherkey"
	default:
		return []byte{1, 2, 3, 4, 5, 6, 7, 8}, "garbage"
	}
}

func versionOf(auth string, variant int) (string, string) {
	good := version.Version.Minor().String()
	if auth != "ver" {
		return good, ""
	}
	switch variant % 3 {
	case 0:
		return "v0.1", "older"
	case 1:
		return "v99.7", "newer"
	default:
		return "not-a-version", "unparsable"
	}
}

func runOne(sid int, sched []drv.Step) (evs []drv.Step, hung bool) {
	cfg := sched[0]
	n, f, frej := drv.Num(cfg["n"]), drv.Num(cfg["f"]), cfg["frej"] == true
	r := &run{n: n, f: f, nodes: map[int]*node{}, fst: map[int]network.Stream{}, fto: map[int]int{}}
	r.emit(drv.Step{"ev": "Reset", "sid": sid, "n": n, "f": f, "frej": frej})
	defer func() {
		if p := recover(); p != nil {
			r.emit(drv.Step{"ev": "Panic", "what": fmt.Sprint(p)})
			evs, hung = r.evs, true
		}
	}()

	ctx, cancelAll := context.WithCancel(context.Background())
	defer cancelAll()
	hsum := sha256.Sum256([]byte("verif dkgsync definition " + strconv.Itoa(sid)))
	r.hash = hsum[:]

	mn := mocknet.New()
	defer mn.Close()
	var hosts []host.Host
	var keys []*k1.PrivateKey
	for i := 1; i <= n; i++ {
		k := detKey(fmt.Sprintf("verif-dkgsync-%d-%d", sid, i))
		a, err := ma.NewMultiaddr(fmt.Sprintf("/ip4/10.1.0.%d/tcp/4242", i))
		if err != nil {
			panic(err)
		}
		h, err := mn.AddPeer((*libp2pcrypto.Secp256k1PrivateKey)(k), a)
		if err != nil {
			panic(err)
		}
		id, err := p2p.PeerIDFromKey(k.PubKey())
		if err != nil || id != h.ID() {
			panic("peer id mismatch")
		}
		hosts, keys, r.peers = append(hosts, h), append(keys, k), append(r.peers, h.ID())
	}
	if err := mn.LinkAll(); err != nil {
		panic(err)
	}
	for i := 1; i <= n; i++ {
		if i == f {
			r.fhost, r.fkey = hosts[i-1], keys[i-1]
			h := r.hash
			if frej {
				o := sha256.Sum256([]byte("the faulty member's own definition"))
				h = o[:]
			}
			_ = h
			// The faulty member's server is written by hand: it answers every message of an honest client with "ok" (or,
			// frej, with an error, as a member that was given another definition would) and keeps no state. A real
			// sync.Server would track the honest members' steps, but nothing synchronises it with them here (its owner does
			// not take part in the barriers), so it would refuse fast honest members for "jumping ahead".
			r.fhost.SetStreamHandler(dkgsync.Protocols()[0], func(st network.Stream) {
				defer st.Close()
				for {
					msg := new(pb.MsgSync)
					if err := readSized(st, msg); err != nil {
						return
					}
					resp := &pb.MsgSyncResponse{SyncTimestamp: msg.GetTimestamp()}
					if frej {
						resp.Error = "invalid definition hash signature"
					}
					if err := writeSized(st, resp); err != nil || msg.GetShutdown() {
						return
					}
				}
			})

			continue
		}
		nctx, ncancel := context.WithCancel(ctx)
		r.nodes[i] = &node{idx: i, h: hosts[i-1], key: keys[i-1], ctx: nctx, cancel: ncancel}
	}

	for _, st := range sched[1:] {
		if r.hung {
			break
		}
		ev := drv.Str(st["ev"])
		switch ev {
		case "Start", "Next", "Stop":
			nd := r.nodes[drv.Num(st["i"])]
			if !r.await(nd) { // a member makes one call at a time
				r.hung = true
				break
			}
			if ev != "Start" && (nd.stepF == nil || r.isClosed(nd)) {
				r.emit(drv.Step{"ev": "Skip", "what": ev, "i": nd.idx}) // the member is gone: nothing to call
				break
			}
			r.emit(drv.Step{"ev": ev, "i": nd.idx})
			r.call(nd, ev)
		case "Await":
			if !r.await(r.nodes[drv.Num(st["i"])]) {
				r.hung = true
			}
		case "Crash":
			nd := r.nodes[drv.Num(st["i"])]
			r.emit(drv.Step{"ev": "Crash", "i": nd.idx})
			nd.cancel()
			if !r.await(nd) {
				r.hung = true
				break
			}
			r.kill(nd)
		case "FOpen":
			s, to := drv.Num(st["s"]), drv.Num(st["to"])
			var stream network.Stream
			var err error
			// the honest server registers its handler inside startSyncProtocol, which runs on its own goroutine: retry
			// (as the real client's connect loop does) until the stream opens
			for t0 := time.Now(); time.Since(t0) < generous; time.Sleep(2 * time.Millisecond) {
				stream, err = r.fhost.NewStream(network.WithAllowLimitedConn(ctx, "sync"), r.peers[to-1], dkgsync.Protocols()[0])
				if err == nil {
					break
				}
			}
			if err != nil {
				r.emit(drv.Step{"ev": "FOpen", "s": s, "to": to, "ok": false, "txt": short(err)})
				break
			}
			if old, ok := r.fst[s]; ok {
				_ = old.Reset()
			}
			r.fst[s], r.fto[s] = stream, to
			r.emit(drv.Step{"ev": "FOpen", "s": s, "to": to, "ok": true})
		case "FMsg":
			s := drv.Num(st["s"])
			stream, ok := r.fst[s]
			if !ok {
				r.emit(drv.Step{"ev": "Skip", "what": "FMsg", "s": s})
				break
			}
			auth := drv.Str(st["auth"])
			r.nmsg++
			sig, sigvar := r.hashSig(auth, r.nmsg)
			ver, vervar := versionOf(auth, r.nmsg)
			msg := &pb.MsgSync{Timestamp: timestamppb.Now(), HashSignature: sig, Shutdown: st["shutdown"] == true,
				Version: ver, Nickname: "faulty", Step: int64(drv.Num(st["step"]))}
			// logged BEFORE the message is written: its effect at the server precedes the answer, and an honest member's
			// goroutine may observe and log that effect before this goroutine has read the answer
			r.emit(drv.Step{"ev": "FMsg", "s": s, "to": r.fto[s], "auth": auth, "step": drv.Num(st["step"]),
				"shutdown": st["shutdown"] == true, "variant": sigvar + vervar})
			out := drv.Step{"ev": "FResp", "s": s, "to": r.fto[s]}
			_ = stream.SetDeadline(time.Now().Add(generous))
			resp := new(pb.MsgSyncResponse)
			if err := writeSized(stream, msg); err != nil {
				out["resp"], out["txt"] = "closed", short(err)
			} else if err := readSized(stream, resp); err != nil {
				out["resp"], out["txt"] = "closed", short(err)
			} else {
				out["resp"], out["txt"] = classifyResp(resp.GetError()), resp.GetError()
			}
			r.emit(out)
		case "Yield":
			// the environment idles: whatever the members do meanwhile gets logged before the next step (no assertion)
			time.Sleep(time.Duration(drv.Num(st["ms"])) * time.Millisecond)
		case "FClose":
			s := drv.Num(st["s"])
			if stream, ok := r.fst[s]; ok {
				r.emit(drv.Step{"ev": "FClose", "s": s}) // logged before the effect, like FMsg
				_ = stream.Reset()
				delete(r.fst, s)
			}
		default:
			panic("unknown step " + ev)
		}
	}
	if r.hung {
		r.emit(drv.Step{"ev": "Hang"})
	} else {
		r.emit(drv.Step{"ev": "Cancel"})
	}
	cancelAll()
	for _, nd := range r.nodes {
		nd.cancel()
	}
	for _, nd := range r.nodes {
		if !r.await(nd) && !r.hung {
			r.hung = true
			r.emit(drv.Step{"ev": "Hang"})
		}
	}
	for _, nd := range r.nodes {
		r.kill(nd)
	}
	_ = r.fhostClose()
	r.mu.Lock()
	defer r.mu.Unlock()

	return append([]drv.Step(nil), r.evs...), r.hung
}

func (r *run) fhostClose() error {
	if r.fhost != nil {
		return r.fhost.Close()
	}

	return nil
}

func TestExec(t *testing.T) {
	drv.QuietLogs(t)
	scheds := drv.ReadSchedules(t)
	tr := drv.NewTracer(t)
	defer tr.Close()

	par := 12
	if v, err := strconv.Atoi(os.Getenv("VERIF_PAR")); err == nil && v > 0 {
		par = v
	}
	type res struct {
		evs  []drv.Step
		hung bool
	}
	out := make([]res, len(scheds))
	sem := make(chan struct{}, par)
	var wg sync.WaitGroup
	var stop sync.Once
	stopped := make(chan struct{})
	for i := range scheds {
		select {
		case <-stopped:
		default:
			sem <- struct{}{}
			wg.Add(1)
			go func() {
				defer wg.Done()
				defer func() { <-sem }()
				evs, hung := runOne(i, scheds[i])
				out[i] = res{evs, hung}
				if hung {
					stop.Do(func() { close(stopped) })
				}
			}()
		}
	}
	wg.Wait()
	for _, o := range out {
		for _, e := range o.evs {
			tr.Emit(e)
		}
	}
}

func (r *run) isClosed(nd *node) bool {
	r.mu.Lock()
	defer r.mu.Unlock()

	return nd.closed
}
