// Package inclusionexec executes Inclusion schedules on the real core/tracker.InclusionChecker and records what it did.
//
// A schedule is a world (first step, {"ev":"Cfg",...}: feature flags, seconds per slot, the slot and second at which the
// checker starts, the beacon node's script: blocks per slot, committee sizes per slot, the attester duty table, failures
// per ticker second) and Submitted calls, either at a virtual time ("at", ms) or from inside a beacon-node call of the Run
// loop ("in": {q, tick[, state]}: the call is answered only after the submission was made -- the window between the
// loop's snapshot of the stored submissions and its critical section).
//
// Every schedule runs inside a testing/synctest bubble: tracker.NewInclusion + go Run on a scripted beaconmock.Mock (no
// HTTP), the production ticker of Run on virtual time, exact.  Nothing here knows what should happen: every Submitted call
// with its arguments and its return, every beacon-node call with its arguments and the scripted answer, every call of
// the tracker callback and every "included" / "never included" / "failed to check" record of the production reporters
// (reportMissed, reportAttInclusion, CheckBlock's log lines; read from the JSON log) is recorded with the virtual time in
// ms.  InclusionTrace.tla decides.
package inclusionexec

import (
	"context"
	"encoding/json"
	"errors"
	"fmt"
	"os"
	"sort"
	"strconv"
	"strings"
	"sync"
	"testing"
	"testing/synctest"
	"time"

	"github.com/OffchainLabs/go-bitfield"
	eth2api "github.com/attestantio/go-eth2-client/api"
	eth2v1 "github.com/attestantio/go-eth2-client/api/v1"
	eth2spec "github.com/attestantio/go-eth2-client/spec"
	"github.com/attestantio/go-eth2-client/spec/electra"
	eth2p0 "github.com/attestantio/go-eth2-client/spec/phase0"

	cerrors "github.com/obolnetwork/charon/app/errors"
	"github.com/obolnetwork/charon/app/eth2wrap"
	"github.com/obolnetwork/charon/app/featureset"
	"github.com/obolnetwork/charon/app/log"
	"github.com/obolnetwork/charon/core"
	"github.com/obolnetwork/charon/core/tracker"
	"github.com/obolnetwork/charon/testutil"
	"github.com/obolnetwork/charon/testutil/beaconmock"

	"verifharness/drv"
)

// ---------------------------------------------------------------------------------------------------------------------
// the world of one schedule
// ---------------------------------------------------------------------------------------------------------------------

type world struct {
	tr      *drv.Tracer
	cfg     drv.Step
	start   time.Time // the bubble's time when the checker is started
	genesis time.Time
	slotDur time.Duration
	spe     uint64
	incl    *tracker.InclusionChecker
	hooks   map[string][]drv.Step
	wired   *wiring                                                      // wire mode: the stub components
	edge    func(context.Context, core.Duty, core.SignedDataSet) error // ... and the Broadcaster edge of core.Wire
}

func (w *world) now() int { return int(time.Since(w.start) / time.Millisecond) }
func (w *world) tick() int { return w.now() / 1000 }

func (w *world) emit(ev drv.Step) {
	ev["t"] = w.now()
	w.tr.Emit(ev)
}

func arr(v any) []any {
	a, _ := v.([]any)
	return a
}

func obj(v any) map[string]any {
	m, _ := v.(map[string]any)
	return m
}

func has(list any, x int) bool {
	for _, e := range arr(list) {
		if drv.Num(e) == x {
			return true
		}
	}

	return false
}

// signed: uint64 slots of the code that wrapped around come out as small negative numbers
func signed(u uint64) int { return int(int64(u)) }

func attData(slot, dindex, r int) *eth2p0.AttestationData {
	var root eth2p0.Root
	root[0], root[1], root[2] = byte(r), byte(r>>8), 0xaa

	return &eth2p0.AttestationData{Slot: eth2p0.Slot(slot), Index: eth2p0.CommitteeIndex(dindex), BeaconBlockRoot: root,
		Source: &eth2p0.Checkpoint{Epoch: 1}, Target: &eth2p0.Checkpoint{Epoch: 2}}
}

func bitlist(n int, set any) bitfield.Bitlist {
	b := bitfield.NewBitlist(uint64(n))
	for _, p := range arr(set) {
		b.SetBitAt(uint64(drv.Num(p)), true)
	}

	return b
}

func version(s string) eth2spec.DataVersion {
	switch s {
	case "phase0":
		return eth2spec.DataVersionPhase0
	case "altair":
		return eth2spec.DataVersionAltair
	case "bellatrix":
		return eth2spec.DataVersionBellatrix
	case "capella":
		return eth2spec.DataVersionCapella
	case "deneb":
		return eth2spec.DataVersionDeneb
	case "electra":
		return eth2spec.DataVersionElectra
	case "fulu":
		return eth2spec.DataVersionFulu
	}

	panic("unknown version " + s)
}

// versionedAtt builds an attestation object of the given version.
func versionedAtt(ver string, data *eth2p0.AttestationData, bits bitfield.Bitlist, cbits any, vidx *eth2p0.ValidatorIndex) *eth2spec.VersionedAttestation {
	va := &eth2spec.VersionedAttestation{Version: version(ver), ValidatorIndex: vidx}
	p0 := &eth2p0.Attestation{AggregationBits: bits, Data: data}

	switch ver {
	case "phase0":
		va.Phase0 = p0
	case "altair":
		va.Altair = p0
	case "bellatrix":
		va.Bellatrix = p0
	case "capella":
		va.Capella = p0
	case "deneb":
		va.Deneb = p0
	default:
		cb := bitfield.NewBitvector64()
		for _, c := range arr(cbits) {
			cb.SetBitAt(uint64(drv.Num(c)), true)
		}

		el := &electra.Attestation{AggregationBits: bits, Data: data, CommitteeBits: cb}
		if ver == "electra" {
			va.Electra = el
		} else {
			va.Fulu = el
		}
	}

	return va
}

func isEl(ver string) bool { return ver == "electra" || ver == "fulu" }

// signedData builds the core.SignedData of one entry of a Submitted call.
func signedData(slot int, e map[string]any) core.SignedData {
	ver := drv.Str(e["ver"])

	switch drv.Str(e["kind"]) {
	case "att":
		dindex := 0
		if !isEl(ver) {
			dindex = drv.Num(e["comm"])
		}

		var vidx *eth2p0.ValidatorIndex
		if v := drv.Num(e["v"]); v >= 0 {
			x := eth2p0.ValidatorIndex(v)
			vidx = &x
		}

		// production (validatorapi router): an Electra single attestation carries an EMPTY aggregation bitlist, the
		// validator index and one committee bit; before Electra the validator's own bit in its committee's bitlist
		bits := bitlist(drv.Num(e["size"]), []any{e["pos"]})
		if isEl(ver) {
			bits = bitfield.NewBitlist(0)
		}

		att, err := core.NewVersionedAttestation(versionedAtt(ver, attData(slot, dindex, drv.Num(e["r"])), bits, []any{e["comm"]}, vidx))
		if err != nil {
			panic(err)
		}

		return att
	case "agg":
		dindex := 0
		if !isEl(ver) {
			dindex = drv.Num(e["comm"])
		}

		va := versionedAtt(ver, attData(slot, dindex, drv.Num(e["r"])), bitlist(drv.Num(e["size"]), e["bits"]), []any{e["comm"]}, nil)
		agg := &eth2spec.VersionedSignedAggregateAndProof{Version: version(ver)}

		if isEl(ver) {
			el := va.Electra
			if ver == "fulu" {
				el = va.Fulu
			}

			sap := &electra.SignedAggregateAndProof{Message: &electra.AggregateAndProof{AggregatorIndex: 7, Aggregate: el}}
			if ver == "electra" {
				agg.Electra = sap
			} else {
				agg.Fulu = sap
			}
		} else {
			p0, _ := va.AggregationBits()
			sap := &eth2p0.SignedAggregateAndProof{Message: &eth2p0.AggregateAndProof{AggregatorIndex: 7,
				Aggregate: &eth2p0.Attestation{AggregationBits: p0, Data: attData(slot, dindex, drv.Num(e["r"]))}}}

			switch ver {
			case "phase0":
				agg.Phase0 = sap
			case "altair":
				agg.Altair = sap
			case "bellatrix":
				agg.Bellatrix = sap
			case "capella":
				agg.Capella = sap
			default:
				agg.Deneb = sap
			}
		}

		return core.NewVersionedSignedAggregateAndProof(agg)
	case "prop":
		blinded, _ := e["blinded"].(bool)
		synth, _ := e["synth"].(bool)

		var p core.VersionedSignedProposal

		switch {
		case ver == "deneb" && !blinded:
			p = testutil.RandomDenebCoreVersionedSignedProposal()
			if synth {
				p.Deneb.SignedBlock.Message.Body.Graffiti = eth2wrap.GetSyntheticGraffiti()
			}
		case ver == "deneb":
			p = testutil.RandomDenebVersionedSignedBlindedProposal()
			if synth {
				p.DenebBlinded.Message.Body.Graffiti = eth2wrap.GetSyntheticGraffiti()
			}
		case ver == "fulu" && !blinded:
			p = testutil.RandomFuluCoreVersionedSignedProposal()
			if synth {
				p.Fulu.SignedBlock.Message.Body.Graffiti = eth2wrap.GetSyntheticGraffiti()
			}
		case ver == "fulu":
			p = testutil.RandomFuluVersionedSignedBlindedProposal()
			if synth {
				p.FuluBlinded.Message.Body.Graffiti = eth2wrap.GetSyntheticGraffiti()
			}
		case !blinded:
			p = testutil.RandomElectraCoreVersionedSignedProposal()
			if synth {
				p.Electra.SignedBlock.Message.Body.Graffiti = eth2wrap.GetSyntheticGraffiti()
			}
		default:
			p = testutil.RandomElectraVersionedSignedBlindedProposal()
			if synth {
				p.ElectraBlinded.Message.Body.Graffiti = eth2wrap.GetSyntheticGraffiti()
			}
		}

		return p
	case "sig": // a plain signature: the signed data of a randao / exit ... duty, or the wrong type for a tracked duty
		return core.NewSignedRandao(eth2p0.Epoch(slot), testutil.RandomEth2Signature())
	}

	panic("unknown data kind")
}

func dutyOf(typ string, slot int) core.Duty {
	for _, t := range core.AllDutyTypes() {
		if t.String() == typ {
			return core.Duty{Slot: uint64(slot), Type: t}
		}
	}

	panic("unknown duty type " + typ)
}

// submit performs one Submitted call of the schedule.
func (w *world) submit(st drv.Step, in bool) {
	slot := drv.Num(st["slot"])
	set := core.SignedDataSet{}

	for _, e := range arr(st["ents"]) {
		set[core.PubKey(drv.Str(obj(e)["pk"]))] = signedData(slot, obj(e))
	}

	bc := "ok"
	if drv.Str(st["bcast"]) == "err" {
		bc = "err"
	}

	w.emit(drv.Step{"ev": "Sub", "in": in, "typ": st["typ"], "slot": slot, "ents": st["ents"], "wire": w.edge != nil, "bcast": bc})

	var err error
	if w.edge != nil {
		w.wired.bcErr = bc == "err"
		err = w.edge(context.Background(), dutyOf(drv.Str(st["typ"]), slot), set)
	} else {
		err = w.incl.Submitted(dutyOf(drv.Str(st["typ"]), slot), set)
	}

	w.emit(drv.Step{"ev": "SubRet", "err": err != nil})
}

func (w *world) runHooks(key string) {
	for _, st := range w.hooks[key] {
		w.submit(st, true)
	}
}

func apiErr(code int) error {
	return &eth2api.Error{Method: "GET", Endpoint: "/verif", StatusCode: code, Data: []byte(`{"code":` + strconv.Itoa(code) + `}`)}
}

// blockAnswer: the scripted answer for the block of a slot at the current ticker second.
func (w *world) blockAnswer(slot int) map[string]any {
	if a, ok := obj(w.cfg["blk"])[strconv.Itoa(w.tick())]; ok {
		return obj(a)
	}

	if a, ok := obj(w.cfg["blocks"])[strconv.Itoa(slot)]; ok {
		return obj(a)
	}

	return map[string]any{"kind": "none"}
}

func (w *world) errFor(kind string) error {
	switch kind {
	case "none":
		return apiErr(404)
	case "none_wrapped":
		return cerrors.Wrap(apiErr(404), "verif: wrapped")
	}

	return apiErr(500)
}

func (w *world) client() eth2wrap.Client {
	m := beaconmock.Mock{
		GenesisFunc: func(context.Context, *eth2api.GenesisOpts) (*eth2v1.Genesis, error) {
			return &eth2v1.Genesis{GenesisTime: w.genesis}, nil
		},
		SignedBeaconBlockFunc: func(_ context.Context, id string) (*eth2spec.VersionedSignedBeaconBlock, error) {
			u, _ := strconv.ParseUint(id, 10, 64)
			ans := w.blockAnswer(signed(u))
			w.emit(drv.Step{"ev": "Blk", "q": "block", "slot": signed(u), "ans": drv.Step{"kind": strings.TrimSuffix(drv.Str(ans["kind"]), "_wrapped"), "atts": []any{}}})
			w.runHooks(fmt.Sprintf("Blk:%d", w.tick()))

			switch drv.Str(ans["kind"]) {
			case "found":
				return &eth2spec.VersionedSignedBeaconBlock{Version: eth2spec.DataVersionElectra, Electra: &electra.SignedBeaconBlock{}}, nil
			case "nil":
				return nil, nil
			}

			return nil, w.errFor(drv.Str(ans["kind"]))
		},
		BeaconBlockAttestationsFunc: func(_ context.Context, o *eth2api.BeaconBlockAttestationsOpts) ([]*eth2spec.VersionedAttestation, error) {
			u, _ := strconv.ParseUint(o.Block, 10, 64)
			ans := w.blockAnswer(signed(u))
			atts := arr(ans["atts"])

			if atts == nil {
				atts = []any{}
			}

			w.emit(drv.Step{"ev": "Blk", "q": "atts", "slot": signed(u), "ans": drv.Step{"kind": strings.TrimSuffix(drv.Str(ans["kind"]), "_wrapped"), "atts": atts}})
			w.runHooks(fmt.Sprintf("Blk:%d", w.tick()))

			switch drv.Str(ans["kind"]) {
			case "empty":
				return []*eth2spec.VersionedAttestation{}, nil
			case "atts":
				var res []*eth2spec.VersionedAttestation

				for _, x := range atts {
					a := obj(x)
					res = append(res, versionedAtt(drv.Str(a["ver"]), attData(drv.Num(a["aslot"]), drv.Num(a["dindex"]), drv.Num(a["r"])),
						bitlist(drv.Num(a["len"]), a["bits"]), a["cbits"], nil))
				}

				return res, nil
			}

			return nil, w.errFor(drv.Str(ans["kind"]))
		},
		BeaconCommitteesFunc: func(_ context.Context, o *eth2api.BeaconCommitteesOpts) ([]*eth2v1.BeaconCommittee, error) {
			st, _ := strconv.Atoi(o.State)
			fail := false

			for _, ce := range arr(w.cfg["comerr"]) {
				if p := arr(ce); len(p) == 2 && drv.Num(p[0]) == w.tick() && drv.Num(p[1]) == st {
					fail = true
				}
			}

			table := arr(w.cfg["sizes"])
			sizes := arr(table[st%len(table)])
			w.emit(drv.Step{"ev": "Com", "state": st, "ans": drv.Step{"err": fail, "sizes": sizes}})
			w.runHooks(fmt.Sprintf("Com:%d:%d", w.tick(), st))

			if fail {
				return nil, apiErr(500)
			}

			// the validators of the duty table sit at their positions, the other seats are taken by strangers
			seat := map[[2]int]int{}

			for _, row := range obj(w.cfg["duty"]) {
				for v, d := range obj(row) {
					if x := arr(d); len(x) == 3 && drv.Num(x[0]) == st {
						vi, _ := strconv.Atoi(v)
						seat[[2]int{drv.Num(x[1]), drv.Num(x[2])}] = vi
					}
				}
			}

			var res []*eth2v1.BeaconCommittee

			next := 100000 + 100*st
			for i, n := range sizes {
				c := &eth2v1.BeaconCommittee{Slot: eth2p0.Slot(st), Index: eth2p0.CommitteeIndex(i)}
				for p := range drv.Num(n) {
					if v, ok := seat[[2]int{i, p}]; ok {
						c.Validators = append(c.Validators, eth2p0.ValidatorIndex(v))
					} else {
						c.Validators = append(c.Validators, eth2p0.ValidatorIndex(next))
						next++
					}
				}

				res = append(res, c)
			}

			return res, nil
		},
	}
	duties := func(via string, epoch eth2p0.Epoch, idx []eth2p0.ValidatorIndex) ([]*eth2v1.AttesterDuty, error) {
		fail := has(w.cfg["duterr"], w.tick())
		ds := []any{}

		var (
			res []*eth2v1.AttesterDuty
			ix  []int
		)

		for _, v := range idx {
			ix = append(ix, int(v))
		}

		// the order of the answer follows the (sorted) table, not the order of the request
		tab := obj(obj(w.cfg["duty"])[strconv.FormatUint(uint64(epoch), 10)])
		sorted := append([]int(nil), ix...)
		sort.Ints(sorted)

		for _, v := range sorted {
			d := arr(tab[strconv.Itoa(v)])
			if len(d) != 3 || fail {
				continue
			}

			ds = append(ds, drv.Step{"v": v, "slot": drv.Num(d[0]), "comm": drv.Num(d[1]), "pos": drv.Num(d[2])})
			sizes := arr(arr(w.cfg["sizes"])[drv.Num(d[0])%len(arr(w.cfg["sizes"]))])
			clen := 0

			if drv.Num(d[1]) < len(sizes) {
				clen = drv.Num(sizes[drv.Num(d[1])])
			}

			res = append(res, &eth2v1.AttesterDuty{Slot: eth2p0.Slot(drv.Num(d[0])), ValidatorIndex: eth2p0.ValidatorIndex(v),
				CommitteeIndex: eth2p0.CommitteeIndex(drv.Num(d[1])), ValidatorCommitteeIndex: uint64(drv.Num(d[2])),
				CommitteeLength: uint64(clen), CommitteesAtSlot: uint64(len(sizes))})
		}

		// an epoch the code computed from a wrapped-around slot does not fit a JSON number TLC can read
		ep := -1
		if uint64(epoch) < 1<<30 {
			ep = int(epoch)
		}

		w.emit(drv.Step{"ev": "Dut", "via": via, "epoch": ep, "idx": ix, "ans": drv.Step{"err": fail, "ds": ds}})
		w.runHooks(fmt.Sprintf("Dut:%d", w.tick()))

		if fail {
			return nil, apiErr(500)
		}

		return res, nil
	}
	m.AttesterDutiesFunc = func(_ context.Context, epoch eth2p0.Epoch, idx []eth2p0.ValidatorIndex) ([]*eth2v1.AttesterDuty, error) {
		return duties("api", epoch, idx)
	}
	m.CachedAttesterDutiesFunc = func(_ context.Context, epoch eth2p0.Epoch, idx []eth2p0.ValidatorIndex) (eth2wrap.AttesterDutyWithMeta, error) {
		ds, err := duties("cache", epoch, idx)
		return eth2wrap.AttesterDutyWithMeta{Duties: ds}, err
	}

	return specClient{Mock: m, spec: map[string]any{"SECONDS_PER_SLOT": w.slotDur, "SLOTS_PER_EPOCH": w.spe}}
}

type specClient struct {
	beaconmock.Mock

	spec map[string]any
}

func (c specClient) Spec(context.Context, *eth2api.SpecOpts) (*eth2api.Response[map[string]any], error) {
	return &eth2api.Response[map[string]any]{Data: c.spec, Metadata: map[string]any{}}, nil
}

// ---------------------------------------------------------------------------------------------------------------------
// observation of the production reporters: the JSON log
// ---------------------------------------------------------------------------------------------------------------------

type logSink struct {
	mu sync.Mutex
	w  *world
}

var logKinds = []struct {
	prefix, kind string
	blinded    bool
}{
	{"Broadcasted block included on-chain", "blk_incl", false},
	{"Broadcasted blinded block included on-chain", "blk_incl", true},
	{"Broadcasted attestation included on-chain", "att_incl", false},
	{"Broadcasted attestation aggregate included on-chain", "agg_incl", false},
	{"Broadcasted attestation never included on-chain", "att_miss", false},
	{"Broadcasted attestation aggregate never included on-chain", "agg_miss", false},
	{"Broadcasted block never included on-chain", "blk_miss", false},
	{"Broadcasted blinded block never included on-chain", "blk_miss", true},
	{"Failed to check attestation inclusion", "att_chkerr", false},
	{"Failed to check aggregate inclusion", "agg_chkerr", false},
}

func num(v any) int {
	if v == nil {
		return -1
	}

	return drv.Num(v)
}

// millis reads a logged duration (zap encodes it as a string like "1.5s" or as seconds).
func millis(v any) int {
	switch x := v.(type) {
	case string:
		d, err := time.ParseDuration(x)
		if err != nil {
			return -999999999
		}

		return int(d / time.Millisecond)
	case float64:
		return int(x * 1000)
	}

	return -999999999
}

func (s *logSink) Write(b []byte) (int, error) {
	s.mu.Lock()
	w := s.w
	s.mu.Unlock()

	if w == nil {
		return len(b), nil
	}

	for _, ln := range strings.Split(string(b), "\n") {
		if strings.TrimSpace(ln) == "" {
			continue
		}

		if os.Getenv("VERIF_DEBUG") != "" {
			fmt.Fprintln(os.Stderr, "LOG", ln)
		}

		var m map[string]any
		if err := json.Unmarshal([]byte(ln), &m); err != nil {
			w.emit(drv.Step{"ev": "Log", "msg": "unparsed", "pk": "", "blinded": false, "bslot": -1, "aslot": -1, "idelay": -1, "bdelay": 0})
			continue
		}

		msg, _ := m["msg"].(string)

		for _, k := range logKinds {
			if msg != k.prefix && !strings.HasPrefix(msg, k.prefix+":") {
				continue
			}

			pk, _ := m["pubkey"].(string)
			pk = strings.TrimSuffix(strings.TrimPrefix(pk, "<invalid public key:"), ">")
			w.emit(drv.Step{"ev": "Log", "msg": k.kind, "pk": pk, "blinded": k.blinded, "bslot": num(m["block_slot"]),
				"aslot": num(m["attestation_slot"]), "idelay": num(m["inclusion_delay"]), "bdelay": millis(m["broadcast_delay"])})
		}
	}

	return len(b), nil
}

func (*logSink) Sync() error { return nil }

// ---------------------------------------------------------------------------------------------------------------------

func TestExec(t *testing.T) {
	sink := &logSink{}
	log.InitJSONForT(t, sink)

	scheds := drv.ReadSchedules(t)
	tr := drv.NewTracer(t)

	defer tr.Close()

	for i, s := range scheds {
		runOne(t, tr, sink, i, s)
	}
}

func flagFor(t *testing.T, f featureset.Feature, on bool) {
	t.Helper()

	if on {
		featureset.EnableForT(t, f)
	} else {
		featureset.DisableForT(t, f)
	}
}

func runOne(t *testing.T, tr *drv.Tracer, sink *logSink, sid int, sched []drv.Step) {
	t.Helper()

	if len(sched) == 0 || drv.Str(sched[0]["ev"]) != "Cfg" {
		t.Fatalf("schedule %d: no Cfg", sid)
	}

	cfg := sched[0]
	flag, _ := cfg["flag"].(bool)
	dcache, _ := cfg["dcache"].(bool)
	flagFor(t, featureset.AttestationInclusion, flag)
	flagFor(t, featureset.DisableDutiesCache, dcache)

	synctest.Test(t, func(t *testing.T) {
		w := &world{tr: tr, cfg: cfg, hooks: map[string][]drv.Step{}}
		w.slotDur = time.Duration(drv.Num(cfg["tps"])) * time.Second
		w.spe = uint64(drv.Num(cfg["spe"]))
		w.start = time.Now()
		w.genesis = w.start.Add(-time.Duration(drv.Num(cfg["start"]))*w.slotDur - time.Duration(drv.Num(cfg["off"]))*time.Second)

		var timed []drv.Step

		for _, st := range sched[1:] {
			if in := obj(st["in"]); in != nil {
				key := fmt.Sprintf("%s:%d", drv.Str(in["q"]), drv.Num(in["tick"]))
				if drv.Str(in["q"]) == "Com" {
					key += fmt.Sprintf(":%d", drv.Num(in["state"]))
				}

				w.hooks[key] = append(w.hooks[key], st)
			} else {
				timed = append(timed, st)
			}
		}

		sort.SliceStable(timed, func(i, j int) bool { return drv.Num(timed[i]["at"]) < drv.Num(timed[j]["at"]) })

		tr.Emit(drv.Step{"ev": "Reset", "sid": sid, "flag": flag, "dcache": dcache, "tps": drv.Num(cfg["tps"]), "start": drv.Num(cfg["start"]),
			"off": drv.Num(cfg["off"]), "spe": drv.Num(cfg["spe"]), "tag": drv.Str(cfg["tag"]), "wire": cfg["wire"] == true})

		ctx, cancel := context.WithCancel(context.Background())
		defer cancel()

		report := func(d core.Duty, pk core.PubKey, _ core.SignedData, err error) {
			w.emit(drv.Step{"ev": "Trk", "typ": d.Type.String(), "slot": int(d.Slot), "pk": string(pk), "ok": err == nil,
				"canceled": errors.Is(err, context.Canceled)})
		}

		wire, _ := cfg["wire"].(bool)
		if wire { // as app/app.go: the tracker's InclusionChecked is the callback
			w.wired = &wiring{w: w, inclFn: report}
			report = wTrack{w.wired}.InclusionChecked
		}

		incl, err := tracker.NewInclusion(ctx, w.client(), report)
		if err != nil {
			t.Fatalf("NewInclusion: %v", err)
		}

		w.incl = incl
		if wire {
			w.edge = w.wired.wire(incl)
		}

		sink.mu.Lock()
		sink.w = w
		sink.mu.Unlock()

		done := make(chan struct{})

		go func() {
			incl.Run(ctx)
			close(done)
		}()

		for _, st := range timed {
			if d := time.Duration(drv.Num(st["at"]))*time.Millisecond - time.Since(w.start); d > 0 {
				time.Sleep(d)
			}

			synctest.Wait()
			w.submit(st, false)
			synctest.Wait()
		}

		if d := time.Duration(drv.Num(cfg["end"]))*time.Second + 500*time.Millisecond - time.Since(w.start); d > 0 {
			time.Sleep(d)
		}

		synctest.Wait()
		w.emit(drv.Step{"ev": "End"})
		cancel()
		<-done

		sink.mu.Lock()
		sink.w = nil
		sink.mu.Unlock()
	})
}
