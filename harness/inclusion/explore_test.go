package inclusionexec

import (
	"context"
	"fmt"
	"strconv"
	"testing"
	"testing/synctest"
	"time"

	"github.com/OffchainLabs/go-bitfield"
	eth2api "github.com/attestantio/go-eth2-client/api"
	eth2v1 "github.com/attestantio/go-eth2-client/api/v1"
	eth2spec "github.com/attestantio/go-eth2-client/spec"
	"github.com/attestantio/go-eth2-client/spec/electra"
	eth2p0 "github.com/attestantio/go-eth2-client/spec/phase0"

	"github.com/obolnetwork/charon/app/eth2wrap"
	"github.com/obolnetwork/charon/app/featureset"
	"github.com/obolnetwork/charon/core"
	"github.com/obolnetwork/charon/core/tracker"
	"github.com/obolnetwork/charon/testutil"
	"github.com/obolnetwork/charon/testutil/beaconmock"
)

func attData(slot uint64, r byte) *eth2p0.AttestationData {
	var root eth2p0.Root
	root[0] = r
	return &eth2p0.AttestationData{Slot: eth2p0.Slot(slot), Index: 0, BeaconBlockRoot: root,
		Source: &eth2p0.Checkpoint{}, Target: &eth2p0.Checkpoint{}}
}

func TestExplore(t *testing.T) {
	for rep := 0; rep < 60; rep++ {
		synctest.Test(t, func(t *testing.T) {
			featureset.EnableForT(t, featureset.AttestationInclusion)
			ctx, cancel := context.WithCancel(context.Background())
			defer cancel()
			slotDur := 12 * time.Second
			genesis := time.Now().Add(-100 * slotDur)
			sizes := []int{3, 3, 3}
			bm := beaconmock.Mock{
				GenesisFunc: func(context.Context, *eth2api.GenesisOpts) (*eth2v1.Genesis, error) {
					return &eth2v1.Genesis{GenesisTime: genesis}, nil
				},
				BeaconBlockAttestationsFunc: func(_ context.Context, o *eth2api.BeaconBlockAttestationsOpts) ([]*eth2spec.VersionedAttestation, error) {
					s, _ := strconv.Atoi(o.Block)
					fmt.Println("  block query", s, "at", time.Since(genesis))
					if s != 101 {
						return nil, &eth2api.Error{StatusCode: 404}
					}
					// attestation of slot 100, committees 0 and 1, bits: committee 0: {0,2}, committee 1: {1}
					cb := bitfield.NewBitvector64()
					cb.SetBitAt(0, true)
					cb.SetBitAt(1, true)
					bits := bitfield.NewBitlist(6)
					bits.SetBitAt(0, true)
					bits.SetBitAt(2, true)
					bits.SetBitAt(4, true)
					return []*eth2spec.VersionedAttestation{{Version: eth2spec.DataVersionElectra,
						Electra: &electra.Attestation{AggregationBits: bits, Data: attData(100, 1), CommitteeBits: cb}}}, nil
				},
				BeaconCommitteesFunc: func(_ context.Context, o *eth2api.BeaconCommitteesOpts) ([]*eth2v1.BeaconCommittee, error) {
					fmt.Println("  committees query", o.State)
					var res []*eth2v1.BeaconCommittee
					for i, n := range sizes {
						res = append(res, &eth2v1.BeaconCommittee{Slot: 100, Index: eth2p0.CommitteeIndex(i), Validators: make([]eth2p0.ValidatorIndex, n)})
					}
					return res, nil
				},
				CachedAttesterDutiesFunc: func(_ context.Context, ep eth2p0.Epoch, idx []eth2p0.ValidatorIndex) (eth2wrap.AttesterDutyWithMeta, error) {
					fmt.Println("  duties query", ep, idx)
					var res []*eth2v1.AttesterDuty
					for _, v := range idx {
						// validator v: committee v/10, position v%10
						res = append(res, &eth2v1.AttesterDuty{Slot: 100, ValidatorIndex: v, CommitteeIndex: eth2p0.CommitteeIndex(v / 10),
							ValidatorCommitteeIndex: uint64(v % 10), CommitteeLength: 3})
					}
					return eth2wrap.AttesterDutyWithMeta{Duties: res}, nil
				},
			}
			spec := map[string]any{"SECONDS_PER_SLOT": slotDur, "SLOTS_PER_EPOCH": uint64(32)}
			cl := specClient{Mock: bm, spec: spec}
			incl, err := tracker.NewInclusion(ctx, cl, func(d core.Duty, pk core.PubKey, _ core.SignedData, err error) {
				fmt.Println("  TRACKER", d, pk, err)
			})
			if err != nil {
				t.Fatal(err)
			}
			go incl.Run(ctx)
			sub := func(v int, comm, pos int, r byte) {
				vi := eth2p0.ValidatorIndex(v)
				cb := bitfield.NewBitvector64()
				cb.SetBitAt(uint64(comm), true)
				bits := bitfield.NewBitlist(3)
				bits.SetBitAt(uint64(pos), true)
				att, err := core.NewVersionedAttestation(&eth2spec.VersionedAttestation{Version: eth2spec.DataVersionElectra, ValidatorIndex: &vi,
					Electra: &electra.Attestation{AggregationBits: bits, Data: attData(100, r), CommitteeBits: cb}})
				if err != nil {
					t.Fatal(err)
				}
				err = incl.Submitted(core.NewAttesterDuty(100), core.SignedDataSet{core.PubKey(fmt.Sprintf("pk%d", v)): att})
				fmt.Println("  submitted", v, err)
			}
			// validators: v=0 (c0,p0: set), v=1 (c0,p1: not set), v=2 (c0,p2: set), v=10 (c1,p0 not), v=11 (c1,p1 set), v=12 (c1 p2 not), 20..22 (c2: none)
			for _, v := range []int{0, 1, 2, 10, 11, 12, 20, 21, 22} {
				sub(v, v/10, v%10, 1)
			}
			prop := testutil.RandomElectraCoreVersionedSignedProposal()
			prop.Electra.SignedBlock.Message.Slot = 101
			_ = incl.Submitted(core.NewProposerDuty(101), core.SignedDataSet{"pkP": prop})
			prop2 := testutil.RandomElectraCoreVersionedSignedProposal()
			_ = incl.Submitted(core.NewProposerDuty(102), core.SignedDataSet{"pkQ": prop2})
			time.Sleep(50 * slotDur)
			cancel()
			synctest.Wait()
		})
		fmt.Println("-----")
	}
}

type specClient struct {
	beaconmock.Mock
	spec map[string]any
}

func (c specClient) Spec(context.Context, *eth2api.SpecOpts) (*eth2api.Response[map[string]any], error) {
	return &eth2api.Response[map[string]any]{Data: c.spec, Metadata: map[string]any{}}, nil
}
