package inclusionexec

// Wire mode ("wire": true in the Cfg step): the checker is wired like app/app.go does -- tracker.NewInclusion(ctx, eth2Cl,
// track.InclusionChecked) and core.Wire(..., core.WithTracking(track, inclusion)) -- between stub components; a Sub step then
// invokes the function the wiring subscribed at SigAgg for the Broadcaster edge (the second subscriber) instead of calling
// Submitted directly.  Recorded: the return of the checker's Submitted ("Subm"), the call of the stub broadcaster ("Bcast"), what
// the stub tracker is told about the broadcast ("TrkB"), what the edge returns ("SubRet").

import (
	"context"
	"errors"

	eth2api "github.com/attestantio/go-eth2-client/api"
	eth2spec "github.com/attestantio/go-eth2-client/spec"
	"github.com/attestantio/go-eth2-client/spec/altair"
	eth2p0 "github.com/attestantio/go-eth2-client/spec/phase0"
	"github.com/libp2p/go-libp2p/core/protocol"

	"github.com/obolnetwork/charon/core"

	"verifharness/drv"
)

var errStub = errors.New("verif: stub")

type wiring struct {
	w       *world
	aggSubs []func(context.Context, core.Duty, core.SignedDataSet) error
	bcErr   bool // the scripted result of the next Broadcast
	inclFn  func(core.Duty, core.PubKey, core.SignedData, error)
}

type (
	wSched    struct{ x *wiring }
	wFetcher  struct{ x *wiring }
	wCons     struct{ x *wiring }
	wDutyDB   struct{ x *wiring }
	wVapi     struct{ x *wiring }
	wParSigDB struct{ x *wiring }
	wParSigEx struct{ x *wiring }
	wSigAgg   struct{ x *wiring }
	wAggSigDB struct{ x *wiring }
	wBcast    struct{ x *wiring }
	wTrack    struct{ x *wiring }
)

func (wSched) SubscribeDuties(func(context.Context, core.Duty, core.DutyDefinitionSet) error) {}
func (wSched) SubscribeSlots(func(context.Context, core.Slot) error)                        {}
func (wSched) GetDutyDefinition(context.Context, core.Duty) (core.DutyDefinitionSet, error) {
	return nil, errStub
}
func (wSched) RegisterFetcherFetchOnly(func(context.Context, core.Duty, core.DutyDefinitionSet, string, eth2p0.Root) error) {
}

func (wFetcher) Fetch(context.Context, core.Duty, core.DutyDefinitionSet) error { return errStub }
func (wFetcher) FetchOnly(context.Context, core.Duty, core.DutyDefinitionSet, string, eth2p0.Root) error {
	return errStub
}
func (wFetcher) Subscribe(func(context.Context, core.Duty, core.UnsignedDataSet) error) {}
func (wFetcher) RegisterAggSigDB(func(context.Context, core.Duty, core.PubKey, core.SubcommitteeIndex) (core.SignedData, error)) {
}
func (wFetcher) RegisterAwaitAttData(func(ctx context.Context, slot uint64, commIdx uint64) (*eth2p0.AttestationData, error)) {
}

func (wCons) ProtocolID() protocol.ID                                          { return "stub" }
func (wCons) Start(context.Context)                                            {}
func (wCons) Participate(context.Context, core.Duty) error                     { return errStub }
func (wCons) Propose(context.Context, core.Duty, core.UnsignedDataSet) error   { return errStub }
func (wCons) Subscribe(func(context.Context, core.Duty, core.UnsignedDataSet) error) {}

func (wDutyDB) Store(context.Context, core.Duty, core.UnsignedDataSet) error { return errStub }
func (wDutyDB) AwaitProposal(context.Context, uint64) (*eth2api.VersionedProposal, error) {
	return nil, errStub
}
func (wDutyDB) AwaitAttestation(context.Context, uint64, uint64) (*eth2p0.AttestationData, error) {
	return nil, errStub
}
func (wDutyDB) PubKeyByAttestation(context.Context, uint64, uint64, uint64) (core.PubKey, error) {
	return "", errStub
}
func (wDutyDB) AwaitAggAttestation(context.Context, uint64, eth2p0.Root, eth2p0.CommitteeIndex) (*eth2spec.VersionedAttestation, error) {
	return nil, errStub
}
func (wDutyDB) AwaitSyncContribution(context.Context, uint64, uint64, eth2p0.Root) (*altair.SyncCommitteeContribution, error) {
	return nil, errStub
}

func (wVapi) RegisterAwaitProposal(func(ctx context.Context, slot uint64) (*eth2api.VersionedProposal, error)) {
}
func (wVapi) RegisterAwaitAttestation(func(ctx context.Context, slot, commIdx uint64) (*eth2p0.AttestationData, error)) {
}
func (wVapi) RegisterAwaitSyncContribution(func(ctx context.Context, slot, subcommIdx uint64, beaconBlockRoot eth2p0.Root) (*altair.SyncCommitteeContribution, error)) {
}
func (wVapi) RegisterPubKeyByAttestation(func(ctx context.Context, slot, commIdx, valIdx uint64) (core.PubKey, error)) {
}
func (wVapi) RegisterGetDutyDefinition(func(context.Context, core.Duty) (core.DutyDefinitionSet, error)) {
}
func (wVapi) RegisterAwaitAggAttestation(func(ctx context.Context, slot uint64, attestationDataRoot eth2p0.Root, committeeIndex eth2p0.CommitteeIndex) (*eth2spec.VersionedAttestation, error)) {
}
func (wVapi) RegisterAwaitAggSigDB(func(context.Context, core.Duty, core.PubKey, core.SubcommitteeIndex) (core.SignedData, error)) {
}
func (wVapi) Subscribe(func(context.Context, core.Duty, core.ParSignedDataSet) error) {}

func (wParSigDB) StoreInternal(context.Context, core.Duty, core.ParSignedDataSet) error { return errStub }
func (wParSigDB) StoreExternal(context.Context, core.Duty, core.ParSignedDataSet) error { return errStub }
func (wParSigDB) SubscribeInternal(func(context.Context, core.Duty, core.ParSignedDataSet) error) {
}
func (wParSigDB) SubscribeThreshold(func(context.Context, core.Duty, map[core.PubKey][]core.ParSignedData) error) {
}

func (wParSigEx) Broadcast(context.Context, core.Duty, core.ParSignedDataSet) error { return errStub }
func (wParSigEx) Subscribe(func(context.Context, core.Duty, core.ParSignedDataSet) error) {}

func (wSigAgg) Aggregate(context.Context, core.Duty, map[core.PubKey][]core.ParSignedData) error {
	return errStub
}
func (s wSigAgg) Subscribe(fn func(context.Context, core.Duty, core.SignedDataSet) error) {
	s.x.aggSubs = append(s.x.aggSubs, fn)
}

func (wAggSigDB) Store(context.Context, core.Duty, core.SignedDataSet) error { return errStub }
func (wAggSigDB) Await(context.Context, core.Duty, core.PubKey, core.SubcommitteeIndex) (core.SignedData, error) {
	return nil, errStub
}
func (wAggSigDB) Run(context.Context) {}

func (b wBcast) Broadcast(_ context.Context, d core.Duty, set core.SignedDataSet) error {
	b.x.w.emit(drv.Step{"ev": "Bcast", "typ": d.Type.String(), "slot": int(d.Slot), "n": len(set)})

	if b.x.bcErr {
		return errors.New("verif: broadcast failed")
	}

	return nil
}

func (wTrack) FetcherFetched(core.Duty, core.DutyDefinitionSet, error)                       {}
func (wTrack) ConsensusProposed(core.Duty, core.UnsignedDataSet, error)                      {}
func (wTrack) DutyDBStored(core.Duty, core.UnsignedDataSet, error)                           {}
func (wTrack) ParSigDBStoredInternal(core.Duty, core.ParSignedDataSet, error)                {}
func (wTrack) ParSigExBroadcasted(core.Duty, core.ParSignedDataSet, error)                   {}
func (wTrack) ParSigDBStoredExternal(core.Duty, core.ParSignedDataSet, error)                {}
func (wTrack) SigAggAggregated(core.Duty, map[core.PubKey][]core.ParSignedData, error)       {}
func (wTrack) AggSigDBStored(core.Duty, core.SignedDataSet, error)                           {}
func (t wTrack) BroadcasterBroadcast(d core.Duty, set core.SignedDataSet, err error) {
	t.x.w.emit(drv.Step{"ev": "TrkB", "typ": d.Type.String(), "slot": int(d.Slot), "n": len(set), "err": err != nil})
}
func (t wTrack) InclusionChecked(d core.Duty, pk core.PubKey, data core.SignedData, err error) {
	t.x.inclFn(d, pk, data, err)
}

// recIncl records the call the wiring makes to the real checker.
type recIncl struct {
	x     *wiring
	inner core.InclusionChecker
}

func (r recIncl) Submitted(d core.Duty, set core.SignedDataSet) error {
	err := r.inner.Submitted(d, set)
	r.x.w.emit(drv.Step{"ev": "Subm", "typ": d.Type.String(), "slot": int(d.Slot), "n": len(set), "err": err != nil})

	return err
}

// wire connects the stubs; returns the function core.Wire subscribed at SigAgg for the Broadcaster edge.
func (x *wiring) wire(incl core.InclusionChecker) func(context.Context, core.Duty, core.SignedDataSet) error {
	core.Wire(wSched{x}, wFetcher{x}, wCons{x}, wDutyDB{x}, wVapi{x}, wParSigDB{x}, wParSigEx{x}, wSigAgg{x}, wAggSigDB{x}, wBcast{x},
		core.WithTracking(wTrack{x}, recIncl{x, incl}))

	if len(x.aggSubs) != 2 {
		panic("core.Wire subscribed an unexpected number of functions at SigAgg")
	}

	return x.aggSubs[1]
}
