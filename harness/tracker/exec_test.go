// Package tracker executes Tracker schedules on the real core/tracker.Tracker and records what it reported.
//
// No hook: the tracker is built with tracker.New (default reporters).  What it reports is observed at the only
// places the default reporters write to: the prometheus counters of package core/tracker (gathered through
// promauto.NewRegistry, every counter delta of every label combination is logged) and the structured "Duty failed"
// log record (step, reason code, error).  The two deadliners handed to tracker.New are scripted: they implement the
// core.Deadliner contract (Add: Scheduled / Expired after the deadline / Exempt per duty type; C(): a duty that was
// scheduled is emitted once, when the driver lets its deadline pass).
//
// Quiescence without sleeping: Tracker.Run is one sequential loop over unbuffered channels, so after every stimulus
// the driver sends a sentinel event (a duty the scripted deleter answers with Exempt): the sentinel is received only
// when the loop is back at its select, i.e. when the stimulus has been processed completely.
package tracker

import (
	"context"
	"encoding/json"
	"fmt"
	"os"
	"sort"
	"strings"
	"sync"
	"sync/atomic"
	"testing"
	"time"

	eth2api "github.com/attestantio/go-eth2-client/api"
	eth2p0 "github.com/attestantio/go-eth2-client/spec/phase0"
	"github.com/prometheus/client_golang/prometheus"
	"github.com/prometheus/client_golang/prometheus/collectors"
	dto "github.com/prometheus/client_model/go"

	"github.com/obolnetwork/charon/app/errors"
	"github.com/obolnetwork/charon/app/featureset"
	"github.com/obolnetwork/charon/app/log"
	"github.com/obolnetwork/charon/app/promauto"
	"github.com/obolnetwork/charon/core"
	"github.com/obolnetwork/charon/core/tracker"
	"github.com/obolnetwork/charon/p2p"

	"verifharness/drv"
)

const sentinelSlot = 1 << 40

// ---------------------------------------------------------------------------------------------------------------------
// scripted deadliner
// ---------------------------------------------------------------------------------------------------------------------

type scriptedDeadliner struct {
	mu      sync.Mutex
	ch      chan core.Duty
	added   map[core.Duty]bool
	expired map[core.Duty]bool
	exempt  map[core.DutyType]bool
}

func newDeadliner(exempt map[core.DutyType]bool) *scriptedDeadliner {
	return &scriptedDeadliner{ch: make(chan core.Duty), added: map[core.Duty]bool{}, expired: map[core.Duty]bool{}, exempt: exempt}
}

func (d *scriptedDeadliner) Add(duty core.Duty) core.DeadlineStatus {
	d.mu.Lock()
	defer d.mu.Unlock()

	if duty.Slot == sentinelSlot || d.exempt[duty.Type] {
		return core.DeadlineExempt
	}

	if d.expired[duty] {
		return core.DeadlineExpired
	}

	d.added[duty] = true

	return core.DeadlineScheduled
}

func (d *scriptedDeadliner) C() <-chan core.Duty { return d.ch }

// pass lets the duty's deadline pass; it reports whether the duty was scheduled (and therefore has to be emitted).
func (d *scriptedDeadliner) pass(duty core.Duty) bool {
	d.mu.Lock()
	defer d.mu.Unlock()

	was := d.added[duty] && !d.expired[duty]
	d.expired[duty] = true

	return was
}

// ---------------------------------------------------------------------------------------------------------------------
// observation: log records and counter deltas
// ---------------------------------------------------------------------------------------------------------------------

type logSink struct {
	mu    sync.Mutex
	lines []map[string]any
}

func (s *logSink) Write(b []byte) (int, error) {
	s.mu.Lock()
	defer s.mu.Unlock()

	for _, ln := range strings.Split(string(b), "\n") {
		if strings.TrimSpace(ln) == "" {
			continue
		}

		var m map[string]any
		if err := json.Unmarshal([]byte(ln), &m); err != nil {
			m = map[string]any{"msg": "unparsed", "raw": ln}
		}

		s.lines = append(s.lines, m)
	}

	return len(b), nil
}

func (*logSink) Sync() error { return nil }

func (s *logSink) take() []map[string]any {
	s.mu.Lock()
	defer s.mu.Unlock()

	l := s.lines
	s.lines = nil

	return l
}

type metricKey struct {
	name   string
	labels string // k=v,k=v sorted
}

type observer struct {
	reg  *prometheus.Registry
	prev map[metricKey]float64
	sink *logSink
}

func (o *observer) snapshot(t *testing.T) map[metricKey]float64 {
	t.Helper()

	mfs, err := o.reg.Gather()
	if err != nil {
		t.Fatalf("gather: %v", err)
	}

	res := map[metricKey]float64{}

	for _, mf := range mfs {
		name := mf.GetName()
		if !strings.HasPrefix(name, "core_tracker_") || mf.GetType() != dto.MetricType_COUNTER {
			continue
		}

		for _, m := range mf.GetMetric() {
			var ls []string
			for _, lp := range m.GetLabel() {
				ls = append(ls, lp.GetName()+"="+lp.GetValue())
			}

			sort.Strings(ls)
			res[metricKey{name: strings.TrimPrefix(name, "core_tracker_"), labels: strings.Join(ls, ",")}] = m.GetCounter().GetValue()
		}
	}

	return res
}

func label(labels, key string) string {
	for _, kv := range strings.Split(labels, ",") {
		if strings.HasPrefix(kv, key+"=") {
			return strings.TrimPrefix(kv, key+"=")
		}
	}

	return ""
}

// shareOfPeer maps the peer label (the p2p.Peer name "p<share>") or the 0-based peer_idx label to the share index.
func shareOf(labels string) int {
	if p := label(labels, "peer"); p != "" {
		var n int
		if _, err := fmt.Sscanf(p, "p%d", &n); err == nil {
			return n
		}

		return -1
	}

	if p := label(labels, "peer_idx"); p != "" {
		var n int
		if _, err := fmt.Sscanf(p, "%d", &n); err == nil {
			return n + 1
		}

		return -1
	}

	return 0
}

// errKind names an error by the marker the driver put into the errors it injects; errors made by the tracker itself
// are named by their text.
func errKind(msg string) string {
	if msg == "" {
		return "nil"
	}

	if i := strings.Index(msg, "verif:"); i >= 0 {
		rest := msg[i+len("verif:"):]
		for j, c := range rest {
			if !(c >= 'a' && c <= 'z') {
				return rest[:j]
			}
		}

		return rest
	}

	return msg
}

// observe returns everything the tracker reported since the previous call, as uniform records
// {m: metric/log name, t: duty type, p: share index, r: reason code / rank, s: step label, e: error kind, v: delta}.
//
// Gathering the counters costs about a millisecond, far more than the tracker needs to record an event; so after a Call
// only the log is looked at (full = false) and counter movements are picked up by the next full observation (every
// Deadline / Delete and the End of the schedule): a tracker that instrumented something while merely recording an event is
// still caught, one event later.
func (o *observer) observe(t *testing.T, full bool) []any {
	t.Helper()

	obs := []any{}
	cur := o.prev

	if full {
		cur = o.snapshot(t)
	}

	keys := make([]metricKey, 0, len(cur))
	for k := range cur {
		keys = append(keys, k)
	}

	sort.Slice(keys, func(i, j int) bool {
		if keys[i].name != keys[j].name {
			return keys[i].name < keys[j].name
		}

		return keys[i].labels < keys[j].labels
	})

	for _, k := range keys {
		delta := cur[k] - o.prev[k]
		if delta == 0 {
			continue
		}

		r := label(k.labels, "reason")
		if rk := label(k.labels, "rank"); rk != "" {
			r = rk
		}

		obs = append(obs, drv.Step{"m": k.name, "t": label(k.labels, "duty"), "p": shareOf(k.labels), "r": r, "s": "", "e": "",
			"v": int(delta)})
	}

	o.prev = cur

	for _, ln := range o.sink.take() {
		if os.Getenv("VERIF_DEBUG") != "" {
			fmt.Fprintln(os.Stderr, "LOG", ln)
		}
		msg, _ := ln["msg"].(string)
		errText := ""

		if strings.HasPrefix(msg, "Duty failed") { // log.Warn appends ": <error text>" to the message
			errText = strings.TrimPrefix(strings.TrimPrefix(msg, "Duty failed"), ": ")
			msg = "Duty failed"
		}

		switch msg {
		case "Duty failed":
			dt := ""
			if d, ok := ln["duty"].(string); ok {
				if i := strings.Index(d, "/"); i >= 0 {
					dt = d[i+1:]
				}
			}

			obs = append(obs, drv.Step{"m": "log_failed", "t": dt, "p": 0, "r": drv.Str(ln["reason_code"]), "s": drv.Str(ln["step"]),
				"e": errKind(errText), "v": 1})
		case "unparsed":
			obs = append(obs, drv.Step{"m": "log_unparsed", "t": drv.Str(ln["raw"]), "p": 0, "r": "", "s": "", "e": "", "v": 1})
		}
	}

	return obs
}

// ---------------------------------------------------------------------------------------------------------------------
// stimuli
// ---------------------------------------------------------------------------------------------------------------------

var dutyTypes = func() map[string]core.DutyType {
	m := map[string]core.DutyType{}
	for _, dt := range core.AllDutyTypes() {
		m[dt.String()] = dt
	}

	return m
}()

func parseDuty(t *testing.T, v any) core.Duty {
	t.Helper()

	m := v.(map[string]any)

	dt, ok := dutyTypes[drv.Str(m["type"])]
	if !ok {
		t.Fatalf("unknown duty type %v", m["type"])
	}

	return core.Duty{Slot: uint64(drv.Num(m["slot"])), Type: dt}
}

// pubkey of a model validator name: a 98 character hex string carrying the name.
func pubkey(name string) core.PubKey {
	return core.PubKey("0x" + strings.Repeat(fmt.Sprintf("%02x", name[0]), 48))
}

// injected builds the error a workflow component would hand to the tracker.
func injected(kind string) error {
	switch kind {
	case "nil":
		return nil
	case "bnptr": // what go-eth2-client's http service returns: a *api.Error, wrapped on its way up
		return errors.Wrap(&eth2api.Error{Method: "GET", Endpoint: "/eth/v1/validator/attestation_data", StatusCode: 404}, "verif:bnptr")
	case "bnval": // an api.Error value (what tracker's own unit test injects)
		return errors.Wrap(eth2api.Error{Method: "GET", Endpoint: "/eth/v1/validator/attestation_data", StatusCode: 404}, "verif:bnval")
	case "cancel":
		return errors.Wrap(context.Canceled, "verif:cancel")
	case "deadline":
		return errors.Wrap(context.DeadlineExceeded, "verif:deadline")
	default:
		return errors.New("verif:" + kind)
	}
}

// rootEpoch: the partial signed data of the model carry one of two message roots: a signed randao of epoch 1 or 2.
var rootEpoch = map[string]eth2p0.Epoch{"x": 1, "y": 2}

func parSig(t *testing.T, root string, share int) core.ParSignedData {
	t.Helper()

	ep, ok := rootEpoch[root]
	if !ok {
		t.Fatalf("unknown root %q", root)
	}

	return core.NewPartialSignedRandao(ep, eth2p0.BLSSignature{byte(share)}, share)
}

func rootsAscending(t *testing.T) []string {
	t.Helper()

	type kv struct {
		name string
		root [32]byte
	}

	var l []kv

	for name := range rootEpoch {
		r, err := parSig(t, name, 1).MessageRoot()
		if err != nil {
			t.Fatalf("root: %v", err)
		}

		l = append(l, kv{name, r})
	}

	sort.Slice(l, func(i, j int) bool { return string(l[i].root[:]) < string(l[j].root[:]) })

	var res []string
	for _, e := range l {
		res = append(res, e.name)
	}

	return res
}

func TestExec(t *testing.T) {
	sink := &logSink{}
	log.InitJSONForT(t, sink)

	reg, err := promauto.NewRegistry(nil)
	if err != nil {
		t.Fatalf("registry: %v", err)
	}

	// the process and Go runtime collectors are slow and irrelevant
	reg.Unregister(collectors.NewProcessCollector(collectors.ProcessCollectorOpts{}))
	reg.Unregister(collectors.NewGoCollector())

	// ... and so are the collectors of every other package: a twin with the same fully-qualified name has the same
	// collector id, which is all Unregister looks at
	for _, meta := range promauto.GetMetasForT(t) {
		if meta.Namespace == "core" && meta.Subsystem == "tracker" {
			continue
		}

		reg.Unregister(prometheus.NewCounterVec(prometheus.CounterOpts{Namespace: meta.Namespace, Subsystem: meta.Subsystem,
			Name: meta.Name, Help: meta.Help}, meta.Labels))
	}

	o := &observer{reg: reg, sink: sink}
	scheds := drv.ReadSchedules(t)
	tr := drv.NewTracer(t)

	defer tr.Close()

	for i, s := range scheds {
		if hung := runOne(t, tr, o, i, s); hung {
			break
		}
	}
}

func runOne(t *testing.T, tr *drv.Tracer, o *observer, sid int, sched []drv.Step) bool {
	t.Helper()

	if len(sched) == 0 || drv.Str(sched[0]["ev"]) != "Config" {
		t.Fatalf("schedule %d does not start with Config", sid)
	}

	cfg := sched[0]
	n := drv.Num(cfg["n"])
	from := drv.Num(cfg["from"])
	exempt := map[core.DutyType]bool{}

	var exemptNames []any

	if l, ok := cfg["exempt"].([]any); ok {
		for _, e := range l {
			exempt[dutyTypes[drv.Str(e)]] = true
			exemptNames = append(exemptNames, drv.Str(e))
		}
	}

	if b, _ := cfg["incl"].(bool); b {
		featureset.EnableForT(t, featureset.AttestationInclusion)
	} else {
		featureset.DisableForT(t, featureset.AttestationInclusion)
	}

	incl := []any{"proposer"}
	if featureset.Enabled(featureset.AttestationInclusion) {
		incl = append(incl, "attester", "aggregator")
	}

	var peers []p2p.Peer
	for i := 0; i < n; i++ {
		peers = append(peers, p2p.Peer{Index: i, Name: fmt.Sprintf("p%d", i+1)})
	}

	analyser, deleter := newDeadliner(exempt), newDeadliner(exempt)
	trk := tracker.New(analyser, deleter, peers, uint64(from))

	ctx, cancel := context.WithCancel(context.Background())
	done := make(chan struct{})

	var crashed atomic.Value // the text of a panic inside Tracker.Run (analysis and reporting run on that goroutine)

	go func() {
		defer close(done)
		defer func() {
			if r := recover(); r != nil {
				crashed.Store(fmt.Sprint(r))
			}
		}()

		_ = trk.Run(ctx)
	}()

	defer func() {
		cancel()
		<-done
	}()

	// stimulate runs fn (which hands something to the tracker) and then the sentinel; false if the tracker hangs.
	stimulate := func(fn func()) bool {
		fin := make(chan struct{})

		go func() {
			fn()
			trk.FetcherFetched(core.Duty{Slot: sentinelSlot, Type: core.DutyAttester},
				core.DutyDefinitionSet{pubkey("z"): core.AttesterDefinition{}}, nil)
			close(fin)
		}()

		select {
		case <-fin:
			return true
		case <-time.After(10 * time.Second):
			return false
		}
	}

	o.observe(t, true) // baseline (tracker.New initialises label combinations)

	if exemptNames == nil {
		exemptNames = []any{}
	}

	tr.Emit(drv.Step{"ev": "Reset", "sid": sid, "n": n, "from": from, "incl": incl, "exempt": exemptNames, "rootasc": rootsAscending(t)})

	for _, st := range sched[1:] {
		ok := true

		switch drv.Str(st["ev"]) {
		case "Call":
			duty := parseDuty(t, st["d"])
			step := drv.Str(st["step"])
			stepErr := injected(drv.Str(st["err"]))
			share := drv.Num(st["share"])
			root := drv.Str(st["root"])

			var pks []core.PubKey
			for _, p := range st["pks"].([]any) {
				pks = append(pks, pubkey(drv.Str(p)))
			}

			ok = stimulate(func() { call(t, trk, step, duty, pks, stepErr, share, root) })
			tr.Emit(drv.Step{"ev": "Call", "step": step, "d": st["d"], "pks": st["pks"], "err": drv.Str(st["err"]), "share": share,
				"root": root, "obs": o.observe(t, false)})
		case "Deadline":
			duty := parseDuty(t, st["d"])
			fired := analyser.pass(duty)

			if fired {
				ok = stimulate(func() { analyser.ch <- duty })
			}

			tr.Emit(drv.Step{"ev": "Deadline", "d": st["d"], "fired": fired, "obs": o.observe(t, true)})
		case "Delete":
			duty := parseDuty(t, st["d"])
			fired := deleter.pass(duty)

			if fired {
				ok = stimulate(func() { deleter.ch <- duty })
			}

			tr.Emit(drv.Step{"ev": "Delete", "d": st["d"], "fired": fired, "obs": o.observe(t, true)})
		default:
			t.Fatalf("unknown step %v", st)
		}

		if msg := crashed.Load(); msg != nil { // no spec step matches a Panic event
			tr.Emit(drv.Step{"ev": "Panic", "msg": msg})
			return false
		}

		if !ok {
			tr.Emit(drv.Step{"ev": "Hang"})
			return true
		}
	}

	tr.Emit(drv.Step{"ev": "End", "obs": o.observe(t, true)})

	return false
}

// call hands one workflow-component event (one call of the core.Tracker interface) to the tracker.
func call(t *testing.T, trk *tracker.Tracker, step string, duty core.Duty, pks []core.PubKey, stepErr error, share int, root string) {
	t.Helper()

	defs := core.DutyDefinitionSet{}
	unsigned := core.UnsignedDataSet{}
	parsigs := core.ParSignedDataSet{}
	signed := core.SignedDataSet{}
	groups := map[core.PubKey][]core.ParSignedData{}

	for _, pk := range pks {
		defs[pk] = core.AttesterDefinition{}
		unsigned[pk] = core.AttestationData{}
		signed[pk] = core.SignedRandao{}
		groups[pk] = nil

		if share > 0 {
			parsigs[pk] = parSig(t, root, share)
		}
	}

	switch step {
	case "fetcher":
		trk.FetcherFetched(duty, defs, stepErr)
	case "consensus":
		trk.ConsensusProposed(duty, unsigned, stepErr)
	case "duty_db":
		trk.DutyDBStored(duty, unsigned, stepErr)
	case "parsig_db_local":
		trk.ParSigDBStoredInternal(duty, parsigs, stepErr)
	case "parsig_ex":
		trk.ParSigExBroadcasted(duty, parsigs, stepErr)
	case "parsig_db_external":
		trk.ParSigDBStoredExternal(duty, parsigs, stepErr)
	case "sig_aggregation":
		trk.SigAggAggregated(duty, groups, stepErr)
	case "aggsig_db":
		trk.AggSigDBStored(duty, signed, stepErr)
	case "bcast":
		trk.BroadcasterBroadcast(duty, signed, stepErr)
	case "chain_inclusion":
		for _, pk := range pks {
			trk.InclusionChecked(duty, pk, nil, stepErr)
		}
	default:
		t.Fatalf("unknown step %q", step)
	}
}
