package tracker

// Standalone reproduction of finding GROW-TRACKER-bnerr-pointer (not part of the conformance run):
//
//	go test -tags verif -run TestReproBNErrPointer ./tracker
//
// go-eth2-client's http service reports a failed beacon API request as a *api.Error (http/http.go: `return nil, &api.Error{`),
// and every other place in charon looks for it with a pointer target (eth2wrap.go, synthproposer.go, tracker/inclusion.go).
// tracker.analyseFetcherFailed uses a VALUE target (`var eth2Error eth2api.Error; errors.As(fetchErr, &eth2Error)`), which
// does not match a *api.Error in the chain: a duty whose fetch failed because the beacon node answered with an error is
// reported with reason `bug_fetch_error` ("indicates a problem in charon as it is unexpected") instead of `fetch_bn_error`
// ("indicates a problem with the upstream beacon node").  tracker's own unit test injects the value form and passes.

import (
	"context"
	"strings"
	"testing"

	eth2api "github.com/attestantio/go-eth2-client/api"
	eth2v1 "github.com/attestantio/go-eth2-client/api/v1"
	eth2p0 "github.com/attestantio/go-eth2-client/spec/phase0"

	"github.com/obolnetwork/charon/app/log"
	"github.com/obolnetwork/charon/core"
	"github.com/obolnetwork/charon/core/fetcher"
	"github.com/obolnetwork/charon/core/tracker"
	"github.com/obolnetwork/charon/p2p"
	"github.com/obolnetwork/charon/testutil/beaconmock"
)

func TestReproBNErrPointer(t *testing.T) {
	sink := &logSink{}
	log.InitJSONForT(t, sink)

	// the real fetcher against a beacon node that answers 404, exactly as go-eth2-client reports it
	bmock := beaconmock.Mock{
		AttestationDataFunc: func(context.Context, eth2p0.Slot, eth2p0.CommitteeIndex) (*eth2p0.AttestationData, error) {
			return nil, &eth2api.Error{Method: "GET", Endpoint: "/eth/v1/validator/attestation_data", StatusCode: 404}
		},
	}

	fetch, err := fetcher.New(bmock, func(core.PubKey) string { return "" }, false, nil, 0, false)
	if err != nil {
		t.Fatal(err)
	}

	duty := core.NewAttesterDuty(1)
	defs := core.DutyDefinitionSet{pubkey("a"): core.NewAttesterDefinition(&eth2v1.AttesterDuty{Slot: 1, CommitteeIndex: 1})}
	fetchErr := fetch.Fetch(context.Background(), duty, defs)

	var asPtr *eth2api.Error
	t.Logf("fetcher.Fetch returned: %v", fetchErr)

	// the tracker, as core.WithTracking feeds it
	analyser, deleter := newDeadliner(nil), newDeadliner(nil)
	trk := tracker.New(analyser, deleter, []p2p.Peer{{Index: 0, Name: "p1"}}, 0)

	ctx, cancel := context.WithCancel(context.Background())
	defer cancel()

	go func() { _ = trk.Run(ctx) }()

	trk.FetcherFetched(duty, defs, fetchErr)
	analyser.pass(duty)
	analyser.ch <- duty
	trk.FetcherFetched(core.Duty{Slot: sentinelSlot, Type: core.DutyAttester}, core.DutyDefinitionSet{pubkey("z"): core.AttesterDefinition{}}, nil)

	code := ""

	for _, ln := range sink.take() {
		if msg, _ := ln["msg"].(string); strings.HasPrefix(msg, "Duty failed") {
			code, _ = ln["reason_code"].(string)
		}
	}

	t.Logf("tracker reported reason_code=%q", code)

	if code != "fetch_bn_error" {
		t.Fatalf("a failed beacon API request (*api.Error in the chain: %v) is reported as %q, the documented reason is fetch_bn_error",
			errorsAs(fetchErr, &asPtr), code)
	}
}

func errorsAs(err error, target **eth2api.Error) bool {
	for err != nil {
		if e, ok := err.(*eth2api.Error); ok { //nolint:errorlint // walking the chain by hand on purpose
			*target = e
			return true
		}

		u, ok := err.(interface{ Unwrap() error })
		if !ok {
			return false
		}

		err = u.Unwrap()
	}

	return false
}
