// Package reshare executes Reshare schedules (reshare / add-operators / remove-operators / replace-operator ceremonies) on the
// real pedersen.RunReshareDKG and records what the nodes did and which relations hold between the old key material and
// their results.
//
// One ceremony = one goroutine per participant, each running the unmodified RunReshareDKG with its own real pedersen.Board
// and real reliable-broadcast component over an in-memory libp2p host (memnet_test.go), configured as the protocol wrappers
// of package dkg configure it.  The old key material comes from tbls.ThresholdSplit or from a real prior pedersen.RunDKG.
// The node public keys (with the public shares) travel over the reliable broadcast and are delivered at once; every deal /
// response bundle and every validator public-key-share message (the none key of a leaving node included) becomes a packet
// that stays in the network until the schedule delivers it: in any order, more than once.  The ceremony runs inside
// testing/synctest: after every stimulus synctest.Wait() returns exactly when all goroutines are blocked (exact
// quiescence, no sleeping); virtual time never advances while the schedule runs.
//
// Nothing here knows an expected value: the executor logs which packets a stimulus made appear, which nodes returned (and
// the class of their error), and the outcome of real tbls calls on the results (equal, verifies, recovers) at the share
// indices the schedule names.  The trace spec demands the model's values.
package reshare

import (
	"bytes"
	"context"
	"math/rand"
	"sort"
	"testing"
	"testing/synctest"
	"time"

	"github.com/obolnetwork/charon/dkg/share"
	"github.com/obolnetwork/charon/tbls"

	"verifharness/drv"
)

var kindName = map[int]string{1: "deal", 2: "resp", 3: "just", 4: "share"}
var kindCode = map[string]int{"deal": 1, "resp": 2, "just": 3, "share": 4}

func TestExec(t *testing.T) {
	drv.QuietLogs(t)
	scheds := drv.ReadSchedules(t)
	tr := drv.NewTracer(t)
	defer tr.Close()
	for i, s := range scheds {
		for _, e := range runCeremony(t, i, s) {
			tr.Emit(e)
		}
	}
}

func ints(v any) []int {
	res := []int{}
	if a, ok := v.([]any); ok {
		for _, x := range a {
			res = append(res, drv.Num(x))
		}
	}

	return res
}

func pairs(v any) [][2]int {
	res := [][2]int{}
	if a, ok := v.([]any); ok {
		for _, x := range a {
			p := ints(x)
			if len(p) == 2 {
				res = append(res, [2]int{p[0], p[1]})
			}
		}
	}

	return res
}

func runCeremony(t *testing.T, sid int, sched []drv.Step) []drv.Step {
	t.Helper()
	cfg := sched[0]
	sh := shape{M: drv.Num(cfg["M"]), N0: drv.Num(cfg["N0"]), T: drv.Num(cfg["T"]), NT: drv.Num(cfg["NT"]), V: drv.Num(cfg["V"]),
		part: ints(cfg["part"]), holders: ints(cfg["holders"]), added: ints(cfg["added"]), removed: ints(cfg["removed"]),
		shorts: ints(cfg["short"]), badexp: pairs(cfg["badexp"]), src: drv.Str(cfg["src"])}
	seed := drv.Num(cfg["seed"])
	nt := drv.Num(cfg["nt"]) // the new threshold the contract names (size of the subsets examined)
	newidx := map[int]int{}  // member of the new cluster -> its share index in the new cluster (the contract's)
	newNodes := []int{}
	for _, p := range pairs(cfg["newidx"]) {
		newidx[p[0]] = p[1]
		newNodes = append(newNodes, p[0])
	}
	sort.Ints(newNodes)
	reset := drv.Step{"ev": "Reset", "sid": sid}
	for _, k := range []string{"M", "N0", "T", "NT", "V", "p", "part", "holders", "added", "removed", "short", "badexp", "opoly", "nt", "newidx"} {
		reset[k] = cfg[k]
	}
	evs := []drv.Step{reset}
	results := map[int]nodeResult{}
	complete := false
	var oc oldCluster

	synctest.Test(t, func(t *testing.T) {
		ctx, cancel := context.WithCancel(context.Background())
		var err error
		if sh.src == "dkg" {
			dctx, dcancel := context.WithCancel(context.Background())
			oc, err = dkgCluster(dctx, sh.N0, sh.T, sh.V, seed*1000+sid, synctest.Wait)
			dcancel()
			synctest.Wait()
		} else {
			oc, err = splitCluster(sh.N0, sh.T, sh.V)
		}
		if err != nil {
			cancel()
			time.Sleep(4 * phaseDuration)
			evs = append(evs, drv.Step{"ev": "Abort", "why": "old key material: " + err.Error()})

			return
		}
		c := newCeremony(ctx, sh, oc, seed*1000+sid)
		defer func() {
			// leave the bubble: release everything that waits (time stops when this function returns)
			cancel()
			for k := 0; k < 4; k++ {
				for _, i := range sh.part {
					for drained := false; !drained; {
						select {
						case <-c.boards[i].IncomingValidatorPubKeyShares():
						default:
							drained = true
						}
					}
				}
				synctest.Wait()
			}
			time.Sleep(4 * phaseDuration)
		}()
		// observe: what the last stimulus made appear
		observe := func(ev drv.Step) {
			sent := [][]int{}
			for _, pk := range c.nw.newPackets() {
				sent = append(sent, []int{kindCode[pk.kind], pk.from, pk.to, pk.seq})
			}
			sort.Slice(sent, func(a, b int) bool {
				for x := 0; x < 4; x++ {
					if sent[a][x] != sent[b][x] {
						return sent[a][x] < sent[b][x]
					}
				}

				return false
			})
			done, failed, errs := []int{}, []int{}, []string{}
			for _, i := range sh.part {
				if _, ok := results[i]; ok {
					continue
				}
				select {
				case r := <-c.done[i]:
					results[i] = r
					if r.err == nil {
						done = append(done, i)
					} else {
						failed = append(failed, i)
						errs = append(errs, errClass(r.err))
					}
				default:
				}
			}
			ev["sent"], ev["done"], ev["failed"], ev["errs"] = sent, done, failed, errs
			evs = append(evs, ev)
		}
		for _, st := range sched[1:] {
			if len(results) == len(sh.part) {
				break // every participant has returned: the ceremony is over, nothing can be delivered to anybody
			}
			switch drv.Str(st["ev"]) {
			case "Start":
				i := drv.Num(st["i"])
				c.start(ctx, i)
				synctest.Wait()
				observe(drv.Step{"ev": "Start", "i": i, "c": st["c"]})
			case "D":
				k, i, j, v := drv.Num(st["k"]), drv.Num(st["i"]), drv.Num(st["j"]), drv.Num(st["v"])
				pk := c.nw.find(kindName[k], i, j, v)
				found := pk != nil && c.nw.deliver(pk)
				synctest.Wait()
				observe(drv.Step{"ev": "D", "k": k, "i": i, "j": j, "v": v, "found": found})
				if !found {
					evs = append(evs, drv.Step{"ev": "Abort", "why": "the packet to deliver was never sent"})
					return
				}
			default:
				t.Fatalf("unknown step %v", st)
			}
		}
		ok := len(results) == len(sh.part)
		for _, r := range results {
			ok = ok && r.err == nil
		}
		if !ok {
			open := []int{}
			for _, i := range sh.part {
				if _, has := results[i]; !has {
					open = append(open, i)
				}
			}
			evs = append(evs, drv.Step{"ev": "End", "open": open})

			return
		}
		complete = true
	})
	if complete {
		evs = append(evs, relations(sh, nt, newNodes, newidx, oc, results, rand.New(rand.NewSource(int64(seed)*7919+int64(sid)))))
	}

	return evs
}

func sortedKeys(m map[int]bool) []int {
	res := []int{}
	for k := range m {
		res = append(res, k)
	}
	sort.Ints(res)

	return res
}

// subsets returns all k-subsets of the (sorted) ground set when there are at most max of them, otherwise the first, the
// last and max-2 random ones.
func subsets(ground []int, k, max int, rng *rand.Rand) [][]int {
	var all [][]int
	n := len(ground)
	if k <= 0 || k > n {
		return all
	}
	cnt := 1
	for i := 0; i < k; i++ {
		cnt = cnt * (n - i) / (i + 1)
	}
	if cnt <= max {
		var rec func(start int, cur []int)
		rec = func(start int, cur []int) {
			if len(cur) == k {
				all = append(all, append([]int{}, cur...))
				return
			}
			for x := start; x < n; x++ {
				rec(x+1, append(cur, ground[x]))
			}
		}
		rec(0, nil)

		return all
	}
	all = append(all, append([]int{}, ground[:k]...), append([]int{}, ground[n-k:]...))
	for len(all) < max {
		s := []int{}
		for _, x := range rng.Perm(n)[:k] {
			s = append(s, ground[x])
		}
		if rng.Intn(2) == 0 {
			sort.Ints(s) // the view used is that of a listed member: keep some unsorted
		}
		all = append(all, s)
	}

	return all
}

// relations computes, with real tbls calls, the relations between the old key material and the nodes' results: over EVERY
// subset of exactly nt members of the new cluster (at the share indices the schedule names), subsets of nt-1 members,
// subsets of exactly T OLD shares, and mixtures of fewer than T old and fewer than nt new shares.
func relations(sh shape, nt int, newNodes []int, newidx map[int]int, oc oldCluster, results map[int]nodeResult, rng *rand.Rand) drv.Step {
	msg := make([]byte, 32)
	rng.Read(msg)
	nv := sh.V
	at := func(j, v int) (share.Share, bool) {
		s := results[j].shares
		if v >= len(s) {
			return share.Share{}, false
		}

		return s[v], true
	}
	part := append([]int{}, sh.part...)
	sort.Ints(part)
	nres := [][]int{}
	for _, j := range part {
		nres = append(nres, []int{j, len(results[j].shares)})
	}
	gkeq, pseq := []bool{}, []bool{}
	for v := 0; v < nv; v++ {
		g, p := true, true
		if len(newNodes) > 0 {
			s1, ok1 := at(newNodes[0], v)
			for _, j := range newNodes[1:] {
				sj, okj := at(j, v)
				if !ok1 || !okj || sj.PubKey != s1.PubKey {
					g = false
				}
				if !ok1 || !okj || len(sj.PublicShares) != len(s1.PublicShares) {
					p = false
					continue
				}
				for k, x := range s1.PublicShares {
					if y, ok := sj.PublicShares[k]; !ok || x != y {
						p = false
					}
				}
			}
		}
		gkeq, pseq = append(gkeq, g), append(pseq, p)
	}
	gkold, own, pskeys := []drv.Step{}, []drv.Step{}, []drv.Step{}
	for _, j := range newNodes {
		gr, row, keys := []bool{}, []bool{}, [][]int{}
		for v := 0; v < nv; v++ {
			s, ok := at(j, v)
			r := false
			m := map[int]bool{}
			if ok {
				pub, err := tbls.SecretToPublicKey(s.SecretShare)
				ps, hasIt := s.PublicShares[j] // keyed by the share index of the ceremony's PeerMap
				r = err == nil && hasIt && pub == ps
				for k := range s.PublicShares {
					m[k] = true
				}
			}
			gr, row, keys = append(gr, ok && s.PubKey == oc.group[v]), append(row, r), append(keys, sortedKeys(m))
		}
		gkold = append(gkold, drv.Step{"j": j, "r": gr})
		own = append(own, drv.Step{"j": j, "r": row})
		pskeys = append(pskeys, drv.Step{"j": j, "k": keys})
	}
	// partial signatures with the new shares and with the old shares
	partial, havePartial := map[[2]int]tbls.Signature{}, map[[2]int]bool{}
	for _, j := range newNodes {
		for v := 0; v < nv; v++ {
			if s, ok := at(j, v); ok {
				if sig, err := tbls.Sign(s.SecretShare, msg); err == nil {
					partial[[2]int{j, v}], havePartial[[2]int{j, v}] = sig, true
				}
			}
		}
	}
	oldPartial := map[[2]int]tbls.Signature{}
	for v := 0; v < nv; v++ {
		for i, sk := range oc.shares[v] {
			if sig, err := tbls.Sign(sk, msg); err == nil {
				oldPartial[[2]int{i, v}] = sig
			}
		}
	}
	// aggregate: new shares of Sn at the new cluster's share indices, old shares of So at the original ones
	aggregate := func(v int, So, Sn []int) (tbls.Signature, bool) {
		m := map[int]tbls.Signature{}
		for _, i := range So {
			sig, ok := oldPartial[[2]int{i, v}]
			if _, dup := m[i]; dup || !ok {
				return tbls.Signature{}, false
			}
			m[i] = sig
		}
		for _, i := range Sn {
			x, ok := newidx[i]
			if _, dup := m[x]; dup || !ok || !havePartial[[2]int{i, v}] {
				return tbls.Signature{}, false
			}
			m[x] = partial[[2]int{i, v}]
		}
		sig, err := tbls.ThresholdAggregate(m)

		return sig, err == nil
	}
	orig := []int{}
	for i := 1; i <= sh.N0; i++ {
		orig = append(orig, i)
	}
	subs, below, olds, mixed := []drv.Step{}, []drv.Step{}, []drv.Step{}, []drv.Step{}
	for v := 0; v < nv; v++ {
		var first *tbls.Signature
		for _, S := range subsets(newNodes, nt, 30, rng) {
			// the relations of a subset are evaluated in the view (PubKey, PublicShares) of a seeded member k
			k := S[rng.Intn(len(S))]
			view, ok := at(k, v)
			rec, psig, sigok, same := false, ok, false, false
			if ok {
				m := map[int]tbls.PublicKey{}
				for _, i := range S {
					ps, hasIt := view.PublicShares[i]
					if !hasIt {
						psig = false
						continue
					}
					m[newidx[i]] = ps
					if !havePartial[[2]int{i, v}] || tbls.Verify(ps, msg, partial[[2]int{i, v}]) != nil {
						psig = false
					}
				}
				if len(m) == len(S) {
					pk, err := tbls.RecoverPubkey(m)
					rec = err == nil && pk == view.PubKey
				}
				if sig, ok := aggregate(v, nil, S); ok {
					sigok = tbls.Verify(oc.group[v], msg, sig) == nil // under the PRE-reshare group key
					if first == nil {
						first = &sig
					}
					same = bytes.Equal(first[:], sig[:])
				}
			}
			subs = append(subs, drv.Step{"v": v, "S": S, "k": k, "rec": rec, "psig": psig, "sig": sigok, "same": same})
		}
		for _, S := range subsets(newNodes, nt-1, 6, rng) {
			sigok := false
			if sig, ok := aggregate(v, nil, S); ok {
				sigok = tbls.Verify(oc.group[v], msg, sig) == nil
			}
			below = append(below, drv.Step{"v": v, "S": S, "sig": sigok})
		}
		for _, S := range subsets(orig, sh.T, 8, rng) {
			sigok := false
			if sig, ok := aggregate(v, S, nil); ok {
				sigok = tbls.Verify(oc.group[v], msg, sig) == nil
			}
			olds = append(olds, drv.Step{"v": v, "S": S, "sig": sigok})
		}
		// mixtures: a old shares (those of operators outside the new cluster first) and b new shares, share indices distinct
		gone, stay := []int{}, []int{}
		for _, i := range orig {
			if _, isNew := newidx[i]; isNew {
				stay = append(stay, i)
			} else {
				gone = append(gone, i)
			}
		}
		pool := append(append([]int{}, gone...), stay...)
		nmixed := 0
		for try := 0; try < 40 && nmixed < 6; try++ {
			a, b := sh.T-1, nt-1
			if try%3 == 1 && a > 1 {
				a = 1 + rng.Intn(a)
			}
			if try%3 == 2 && b > 1 {
				b = 1 + rng.Intn(b)
			}
			if a < 1 || b < 1 || a > len(pool) || b > len(newNodes) {
				break
			}
			So := append([]int{}, pool[:a]...)
			if try > 0 {
				So = So[:0]
				for _, x := range rng.Perm(len(pool))[:a] {
					So = append(So, pool[x])
				}
			}
			Sn := []int{}
			for _, x := range rng.Perm(len(newNodes))[:b] {
				Sn = append(Sn, newNodes[x])
			}
			sort.Ints(So)
			sort.Ints(Sn)
			sig, ok := aggregate(v, So, Sn)
			if !ok {
				continue // share indices collide
			}
			mixed = append(mixed, drv.Step{"v": v, "So": So, "Sn": Sn, "sig": tbls.Verify(oc.group[v], msg, sig) == nil})
			nmixed++
		}
		// no mixture drawn (the share indices collide): one old and one new share, exhaustively
		for _, i := range pool {
			for _, k := range newNodes {
				if nmixed > 0 || sh.T < 2 || nt < 2 {
					break
				}
				if sig, ok := aggregate(v, []int{i}, []int{k}); ok {
					mixed = append(mixed, drv.Step{"v": v, "So": []int{i}, "Sn": []int{k}, "sig": tbls.Verify(oc.group[v], msg, sig) == nil})
					nmixed++
				}
			}
		}
	}

	return drv.Step{"ev": "Check", "nres": nres, "gkeq": gkeq, "pseq": pseq, "gkold": gkold, "own": own, "pskeys": pskeys,
		"subs": subs, "below": below, "olds": olds, "mixed": mixed}
}
