package reshare

import (
	"context"
	"crypto/rand"
	"fmt"
	"strings"
	"time"

	k1 "github.com/decred/dcrd/dcrec/secp256k1/v4"
	"github.com/libp2p/go-libp2p/core/peer"
	"github.com/libp2p/go-libp2p/core/protocol"

	"github.com/obolnetwork/charon/cluster"
	"github.com/obolnetwork/charon/dkg/bcast"
	cpedersen "github.com/obolnetwork/charon/dkg/pedersen"
	"github.com/obolnetwork/charon/dkg/share"
	"github.com/obolnetwork/charon/p2p"
	"github.com/obolnetwork/charon/tbls"
)

// the direct-p2p protocols of pedersen.Board (board.go: path.Join(protocolID, ...)); the schedule delivers these
var scheduled = map[protocol.ID]string{
	"/charon/dkg/pedersen/1.0.0/deal_bundle":      "deal",
	"/charon/dkg/pedersen/1.0.0/resp_bundle":      "resp",
	"/charon/dkg/pedersen/1.0.0/just_bundle":      "just",
	"/charon/dkg/pedersen/1.0.0/val_pubkey_share": "share",
}

// phaseDuration: kyber's time phaser and the board's collection timeout (6 phases) never fire: virtual time does not
// advance while the driver runs (testing/synctest), and no verdict depends on time.
const phaseDuration = 1000 * time.Hour

type nodeResult struct {
	shares []share.Share
	err    error
}

// config of one reshare ceremony as the schedule's first step gives it (ids = share indices = peer index + 1)
type shape struct {
	M, N0, T, NT, V                       int
	part, holders, added, removed, shorts []int
	badexp                                [][2]int
	src                                   string
}

func has(s []int, x int) bool {
	for _, y := range s {
		if x == y {
			return true
		}
	}

	return false
}

// identities of the universe 1..M (listed added / removed peers need not take part)
type identities struct {
	keys  []*k1.PrivateKey // index id-1
	peers []peer.ID
}

func newIdentities(m int) identities {
	var ids identities
	for i := 0; i < m; i++ {
		key, err := k1.GeneratePrivateKey()
		if err != nil {
			panic(err)
		}
		id, err := p2p.PeerIDFromKey(key.PubKey())
		if err != nil {
			panic(err)
		}
		ids.keys, ids.peers = append(ids.keys, key), append(ids.peers, id)
	}

	return ids
}

// oldCluster = the key material of the ORIGINAL cluster 1..N0: per validator the group key and every operator's share.
type oldCluster struct {
	group  []tbls.PublicKey          // per validator
	shares []map[int]tbls.PrivateKey // per validator: share index -> secret share
}

// splitCluster makes the original cluster with tbls.ThresholdSplit (what `charon create cluster` does).
func splitCluster(n0, t, nv int) (oldCluster, error) {
	var oc oldCluster
	for v := 0; v < nv; v++ {
		secret, err := tbls.GenerateSecretKey()
		if err != nil {
			return oc, err
		}
		pk, err := tbls.SecretToPublicKey(secret)
		if err != nil {
			return oc, err
		}
		sh, err := tbls.ThresholdSplit(secret, uint(n0), uint(t))
		if err != nil {
			return oc, err
		}
		oc.group, oc.shares = append(oc.group, pk), append(oc.shares, sh)
	}

	return oc, nil
}

// dkgCluster makes the original cluster with a real pedersen.RunDKG among n0 nodes (every message delivered at once).
// Runs inside the caller's synctest bubble.
func dkgCluster(ctx context.Context, n0, t, nv, seed int, wait func()) (oldCluster, error) {
	var oc oldCluster
	nw := newMemNet(map[protocol.ID]string{})
	ids := newIdentities(n0)
	peerMap := map[peer.ID]cluster.NodeIdx{}
	for i := 0; i < n0; i++ {
		peerMap[ids.peers[i]] = cluster.NodeIdx{PeerIdx: i, ShareIdx: i + 1}
	}
	session := []byte(fmt.Sprintf("verif reshare prior dkg %08d.......", seed))[:32]
	done := make([]chan nodeResult, n0)
	cfgs, boards := make([]*cpedersen.Config, n0), make([]*cpedersen.Board, n0)
	for i := 0; i < n0; i++ {
		h := nw.addHost(ids.peers[i], i+1)
		pm := map[peer.ID]cluster.NodeIdx{}
		for k, v := range peerMap {
			pm[k] = v
		}
		caster := bcast.New(h, ids.peers, ids.keys[i], session)
		cfg := cpedersen.NewConfig(ids.peers[i], pm, t, session, phaseDuration, nil)
		cfgs[i], boards[i] = cfg, cpedersen.NewBoard(ctx, h, cfg, caster)
		done[i] = make(chan nodeResult, 1)
	}
	for i := 0; i < n0; i++ { // every board is up before anybody casts its node key
		go func(i int) {
			sh, err := cpedersen.RunDKG(ctx, cfgs[i], boards[i], nv)
			done[i] <- nodeResult{sh, err}
		}(i)
	}
	wait()
	res := make([]nodeResult, n0)
	for i := 0; i < n0; i++ {
		select {
		case res[i] = <-done[i]:
			if res[i].err != nil {
				return oc, fmt.Errorf("prior DKG: node %d: %w", i+1, res[i].err)
			}
		default:
			return oc, fmt.Errorf("prior DKG: node %d did not return", i+1)
		}
	}
	for v := 0; v < nv; v++ {
		oc.group = append(oc.group, res[0].shares[v].PubKey)
		m := map[int]tbls.PrivateKey{}
		for i := 0; i < n0; i++ {
			m[i+1] = res[i].shares[v].SecretShare
		}
		oc.shares = append(oc.shares, m)
	}

	return oc, nil
}

// ceremony = the participants' hosts on one in-memory network, each with the real reliable-broadcast component and the
// real pedersen.Board, configured as the protocol wrappers of package dkg configure them (protocol_reshare.go,
// protocol_addoperators.go, protocol_removeoperators.go, protocol_replaceoperator.go): the PeerMap holds the participants
// with their ORIGINAL indices, Threshold = the old threshold, Reshare = {TotalShares, NewThreshold, AddedPeers, RemovedPeers}.
type ceremony struct {
	nw       *memNet
	sh       shape
	cfgs     map[int]*cpedersen.Config
	boards   map[int]*cpedersen.Board
	done     map[int]chan nodeResult
	inputs   map[int][]share.Share
	expected map[int][]tbls.PublicKey
}

func newCeremony(ctx context.Context, sh shape, oc oldCluster, seed int) *ceremony {
	c := &ceremony{nw: newMemNet(scheduled), sh: sh, cfgs: map[int]*cpedersen.Config{}, boards: map[int]*cpedersen.Board{},
		done: map[int]chan nodeResult{}, inputs: map[int][]share.Share{}, expected: map[int][]tbls.PublicKey{}}
	ids := newIdentities(sh.M)
	peerMap := map[peer.ID]cluster.NodeIdx{}
	var partPeers []peer.ID
	for _, i := range sh.part {
		peerMap[ids.peers[i-1]] = cluster.NodeIdx{PeerIdx: i - 1, ShareIdx: i}
		partPeers = append(partPeers, ids.peers[i-1])
	}
	var added, removed []peer.ID
	for _, i := range sh.added {
		added = append(added, ids.peers[i-1])
	}
	for _, i := range sh.removed {
		removed = append(removed, ids.peers[i-1])
	}
	session := []byte(fmt.Sprintf("verif reshare ceremony %08d.........", seed))[:32]
	for _, i := range sh.part {
		h := c.nw.addHost(ids.peers[i-1], i)
		pm := map[peer.ID]cluster.NodeIdx{}
		for k, v := range peerMap {
			pm[k] = v
		}
		caster := bcast.New(h, partPeers, ids.keys[i-1], session)
		rc := cpedersen.NewReshareConfig(sh.V, sh.NT, append([]peer.ID{}, added...), append([]peer.ID{}, removed...))
		c.cfgs[i] = cpedersen.NewConfig(ids.peers[i-1], pm, sh.T, session, phaseDuration, rc)
		c.boards[i] = cpedersen.NewBoard(ctx, h, c.cfgs[i], caster)
		c.done[i] = make(chan nodeResult, 1)
		// what dkg.RunProtocol hands to the step: the node's key shares (PubKey from the lock, SecretShare from disk) ...
		if has(sh.holders, i) {
			nsh := sh.V
			if has(sh.shorts, i) {
				nsh--
			}
			for v := 0; v < nsh; v++ {
				c.inputs[i] = append(c.inputs[i], share.Share{PubKey: oc.group[v], SecretShare: oc.shares[v][i]})
			}
		}
		// ... and the validator public keys of its cluster lock
		exp := append([]tbls.PublicKey{}, oc.group...)
		for _, be := range sh.badexp {
			if be[0] == i && be[1] < len(exp) {
				var other tbls.PublicKey
				if sk, err := tbls.GenerateSecretKey(); err == nil {
					other, _ = tbls.SecretToPublicKey(sk)
				} else {
					_, _ = rand.Read(other[:])
				}
				exp[be[1]] = other
			}
		}
		c.expected[i] = exp
	}

	return c
}

// start runs the unmodified RunReshareDKG of node i on its own goroutine.
func (c *ceremony) start(ctx context.Context, i int) {
	go func() {
		defer func() { // a node that panics has failed: log it, do not lose the other ceremonies
			if r := recover(); r != nil {
				c.done[i] <- nodeResult{nil, fmt.Errorf("panic: %v", r)}
			}
		}()
		sh, err := cpedersen.RunReshareDKG(ctx, c.cfgs[i], c.boards[i], c.inputs[i], c.expected[i])
		c.done[i] <- nodeResult{sh, err}
	}()
}

// errClass names the refusal (a renaming of the error text, nothing is judged here).
func errClass(err error) string {
	msg := err.Error()
	for _, p := range [][2]string{
		{"peer cannot be both added and removed", "both"},
		{"unexpected number of public key shares", "sharecount"},
		{"invalid public key share length", "sharelen"},
		{"recovered group public key does not match expected", "expected"},
		{"restored validator pubkey does not match", "restoredkey"},
		{"not enough good public shares", "restore"},
		{"remove operation requires at least threshold", "rmcount"},
		{"add operation requires new nodes to join", "addcount"},
		{"existing node in add operation must have shares", "noshare"},
		{"remove operation would remove all nodes", "rmall"},
		{"invalid new threshold", "threshold"},
		{"insufficient public key shares from node", "fewshares"},
		{"pedersen reshare protocol failed", "kyber"},
		{"context done", "ctx"},
		{"panic:", "panic"},
	} {
		if strings.Contains(msg, p[0]) {
			return p[1]
		}
	}
	if len(msg) > 60 {
		msg = msg[:60]
	}

	return "other: " + msg
}
