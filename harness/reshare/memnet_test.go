// In-memory libp2p host for the Reshare executor (copy of harness/pedersen/memnet_test.go): pedersen.NewBoard / bcast.New / p2p.Send / p2p.SendReceive /
// p2p.RegisterHandler run unmodified over it.  Streams of the SCHEDULED protocols (the four direct-p2p message kinds of
// the pedersen board) are turned into packets that stay in the network until the schedule delivers them (any order,
// more than once); streams of every other protocol (the reliable broadcast of the node public keys) are connected
// to the receiver's handler at once.
package reshare

import (
	"bytes"
	"context"
	"errors"
	"io"
	"sync"
	"time"

	"github.com/libp2p/go-libp2p/core/host"
	"github.com/libp2p/go-libp2p/core/network"
	"github.com/libp2p/go-libp2p/core/peer"
	"github.com/libp2p/go-libp2p/core/protocol"
)

type packet struct {
	kind     string // deal | resp | just | share
	from, to int    // node numbers 1..n
	seq      int    // number of earlier packets of this kind from -> to (= validator index in an honest ceremony)
	proto    protocol.ID
	data     []byte
}

type memNet struct {
	mu    sync.Mutex
	hosts map[peer.ID]*memHost
	kinds map[protocol.ID]string // scheduled protocols
	pkts  []*packet              // every packet ever sent, in sending order
	fresh int                    // pkts[fresh:] were sent since the last call of newPackets
}

func newMemNet(kinds map[protocol.ID]string) *memNet {
	return &memNet{hosts: map[peer.ID]*memHost{}, kinds: kinds}
}

func (nw *memNet) addHost(id peer.ID, num int) *memHost {
	h := &memHost{nw: nw, id: id, num: num}
	nw.mu.Lock()
	nw.hosts[id] = h
	nw.mu.Unlock()

	return h
}

// newPackets returns the packets sent since the previous call.
func (nw *memNet) newPackets() []*packet {
	nw.mu.Lock()
	defer nw.mu.Unlock()
	res := append([]*packet{}, nw.pkts[nw.fresh:]...)
	nw.fresh = len(nw.pkts)

	return res
}

func (nw *memNet) find(kind string, from, to, seq int) *packet {
	nw.mu.Lock()
	defer nw.mu.Unlock()
	for _, p := range nw.pkts {
		if p.kind == kind && p.from == from && p.to == to && p.seq == seq {
			return p
		}
	}

	return nil
}

// deliver hands a copy of the packet to the receiver's stream handler (on its own goroutine, as libp2p does).
func (nw *memNet) deliver(p *packet) bool {
	nw.mu.Lock()
	var dst, src *memHost
	for _, h := range nw.hosts {
		if h.num == p.to {
			dst = h
		}
		if h.num == p.from {
			src = h
		}
	}
	nw.mu.Unlock()
	if dst == nil || src == nil {
		return false
	}
	hd := dst.handler(p.proto)
	if hd == nil {
		return false
	}
	go hd(&memStream{proto: p.proto, remote: src.id, rd: bytes.NewReader(append([]byte{}, p.data...)), respDone: make(chan struct{})})

	return true
}

type handlerEntry struct {
	match func(protocol.ID) bool
	h     network.StreamHandler
}

type memHost struct {
	host.Host // nil: every method the code under test calls is overridden below
	nw        *memNet
	id        peer.ID
	num       int
	mu        sync.Mutex
	handlers  []handlerEntry
}

func (h *memHost) ID() peer.ID  { return h.id }
func (h *memHost) Close() error { return nil }

func (h *memHost) SetStreamHandler(pid protocol.ID, handler network.StreamHandler) {
	h.SetStreamHandlerMatch(pid, func(p protocol.ID) bool { return p == pid }, handler)
}

func (h *memHost) SetStreamHandlerMatch(_ protocol.ID, match func(protocol.ID) bool, handler network.StreamHandler) {
	h.mu.Lock()
	defer h.mu.Unlock()
	h.handlers = append(h.handlers, handlerEntry{match, handler})
}

func (h *memHost) handler(pid protocol.ID) network.StreamHandler {
	h.mu.Lock()
	defer h.mu.Unlock()
	for _, e := range h.handlers {
		if e.match(pid) {
			return e.h
		}
	}

	return nil
}

func (h *memHost) NewStream(_ context.Context, p peer.ID, pids ...protocol.ID) (network.Stream, error) {
	h.nw.mu.Lock()
	dst := h.nw.hosts[p]
	h.nw.mu.Unlock()
	if dst == nil {
		return nil, errors.New("memnet: unknown peer")
	}
	for _, pid := range pids {
		if hd := dst.handler(pid); hd != nil {
			return &memStream{proto: pid, remote: p, out: true, src: h, dst: dst, hd: hd, respDone: make(chan struct{})}, nil
		}
	}

	return nil, errors.New("memnet: protocol not supported")
}

// memStream is one end of a request/response exchange.
type memStream struct {
	network.Stream // nil
	proto          protocol.ID
	remote         peer.ID
	// sender side
	out      bool
	src, dst *memHost
	hd       network.StreamHandler
	wr       bytes.Buffer
	sent     bool
	peerEnd  *memStream
	// receiver side / response
	rd       *bytes.Reader
	resp     bytes.Buffer
	respDone chan struct{}
	closed   bool
	mu       sync.Mutex
}

func (s *memStream) Protocol() protocol.ID                        { return s.proto }
func (s *memStream) Conn() network.Conn                           { return &memConn{remote: s.remote} }
func (s *memStream) SetDeadline(time.Time) error                  { return nil }
func (s *memStream) SetReadDeadline(time.Time) error              { return nil }
func (s *memStream) SetWriteDeadline(time.Time) error             { return nil }
func (s *memStream) Reset() error                                 { return s.Close() }
func (s *memStream) CloseRead() error                             { return nil }
func (s *memStream) ResetWithError(network.StreamErrorCode) error { return s.Close() }

func (s *memStream) Write(b []byte) (int, error) {
	s.mu.Lock()
	defer s.mu.Unlock()
	if s.out {
		return s.wr.Write(b)
	}

	return s.resp.Write(b)
}

// submit: the request leaves the sender.
func (s *memStream) submit() {
	if s.sent || s.wr.Len() == 0 {
		return
	}
	s.sent = true
	data := append([]byte{}, s.wr.Bytes()...)
	nw := s.src.nw
	if kind, ok := nw.kinds[s.proto]; ok {
		nw.mu.Lock()
		seq := 0
		for _, p := range nw.pkts {
			if p.kind == kind && p.from == s.src.num && p.to == s.dst.num {
				seq++
			}
		}
		nw.pkts = append(nw.pkts, &packet{kind: kind, from: s.src.num, to: s.dst.num, seq: seq, proto: s.proto, data: data})
		nw.mu.Unlock()
		s.peerEnd = nil

		return
	}
	s.peerEnd = &memStream{proto: s.proto, remote: s.src.id, rd: bytes.NewReader(data), respDone: make(chan struct{})}
	go s.hd(s.peerEnd)
}

func (s *memStream) CloseWrite() error {
	s.mu.Lock()
	defer s.mu.Unlock()
	if s.out {
		s.submit()
	}

	return nil
}

func (s *memStream) Close() error {
	s.mu.Lock()
	defer s.mu.Unlock()
	if s.out {
		s.submit()

		return nil
	}
	if !s.closed {
		s.closed = true
		close(s.respDone)
	}

	return nil
}

func (s *memStream) Read(b []byte) (int, error) {
	if !s.out {
		return s.rd.Read(b)
	}
	// the sender reads the response: available when the receiver's handler has closed its end
	s.mu.Lock()
	pe := s.peerEnd
	s.mu.Unlock()
	if pe == nil {
		return 0, io.EOF
	}
	<-pe.respDone
	pe.mu.Lock()
	defer pe.mu.Unlock()

	return pe.resp.Read(b)
}

type memConn struct {
	network.Conn // nil
	remote       peer.ID
}

func (c *memConn) RemotePeer() peer.ID { return c.remote }
