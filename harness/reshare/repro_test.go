package reshare

// Standalone reproductions of the two findings of the Reshare family on the REAL pedersen.RunReshareDKG (in-memory network,
// testing/synctest; no schedule file, no spec):
//
//	go test -tags verif -run 'TestNoneKeyDupHang|TestRemoveAllByIndex|TestLeaverWaitsForPhaser' -v ./reshare

import (
	"context"
	"testing"
	"testing/synctest"
	"time"

	"verifharness/drv"
)

// TestNoneKeyDupHang (finding GROW-RESHARE-nonekey-dup): remove-operators in a 3-operator cluster, operator 1 leaves but still
// contributes (--participating-operator-enrs).  Every message is delivered exactly once -- except ONE identical re-delivery
// of the leaver's none key (the empty validator public-key-share message, exempt from the board's de-duplication) to member
// 3, which is the slowest member (its last response bundle is outstanding).  Member 3's share channel (3 slots) then holds
// the keys of 1 (twice) and 2; when 3 finishes its round it broadcasts its key and blocks forever in
// "b.valPubKeySharesCh <- own" (BroadcastValidatorPubKeyShare; the only reader is the same goroutine, later; ctx is not
// consulted).  Members 1 and 2 complete: the ceremony "succeeds" with one member of the new cluster that never gets its shares.
func TestNoneKeyDupHang(t *testing.T) {
	drv.QuietLogs(t)
	sh := shape{M: 3, N0: 3, T: 2, NT: 0, V: 1, part: []int{1, 2, 3}, holders: []int{1, 2, 3}, removed: []int{1}}
	returned := map[int]bool{}
	synctest.Test(t, func(t *testing.T) {
		ctx, cancel := context.WithCancel(context.Background())
		oc, err := splitCluster(sh.N0, sh.T, sh.V)
		if err != nil {
			t.Fatal(err)
		}
		c := newCeremony(ctx, sh, oc, 1)
		defer func() {
			cancel()
			for k := 0; k < 4; k++ {
				for _, i := range sh.part {
					for drained := false; !drained; {
						select {
						case <-c.boards[i].IncomingValidatorPubKeyShares():
						default:
							drained = true
						}
					}
				}
				synctest.Wait()
			}
			time.Sleep(4 * phaseDuration)
		}()
		for _, i := range sh.part {
			c.start(ctx, i)
		}
		synctest.Wait()
		send := func(kind string, i, j int) {
			p := c.nw.find(kind, i, j, 0)
			if p == nil {
				t.Fatalf("packet %s %d->%d was not sent", kind, i, j)
			}
			c.nw.deliver(p)
			synctest.Wait()
		}
		for _, i := range sh.part { // every deal bundle
			for _, j := range sh.part {
				if i != j {
					send("deal", i, j)
				}
			}
		}
		send("resp", 2, 1) // the leaver and member 2 get every response: they finish the round
		send("resp", 3, 1)
		send("resp", 3, 2)
		send("share", 1, 3) // their share messages reach member 3, which still waits for 2's response ...
		send("share", 2, 3)
		send("share", 1, 3) // ... and the leaver's none key a second time: 3's channel holds 3 entries
		send("resp", 2, 3)  // member 3 finishes its round, broadcasts its key, pushes its own entry ...
		send("share", 3, 1)
		send("share", 3, 2)
		send("share", 1, 2)
		send("share", 2, 1)
		for _, i := range sh.part {
			select {
			case r := <-c.done[i]:
				returned[i] = r.err == nil
			default:
			}
		}
	})
	t.Logf("returned successfully after every message was delivered: %v", returned)
	if !returned[3] {
		t.Fatalf("member 3 is blocked in BroadcastValidatorPubKeyShare (own entry, channel full of the leaver's duplicated none key) " +
			"although every message was delivered; members 1 and 2 completed")
	}
}

// TestRemoveAllByIndex (finding GROW-RESHARE-rmall-index): a 4-operator cluster with threshold 2; operators 1 and 2 are removed
// and stay away, 3 and 4 (peer indices 2 and 3) run remove-operators.  Two shares are enough to reshare and both remaining
// members are original members -- RunReshareDKG refuses with "remove operation would remove all nodes from original
// cluster": the check compares kyber indices AFTER the new nodes were re-indexed to 0, 1.
func TestRemoveAllByIndex(t *testing.T) {
	drv.QuietLogs(t)
	sh := shape{M: 4, N0: 4, T: 2, NT: 0, V: 1, part: []int{3, 4}, holders: []int{3, 4}, removed: []int{1, 2}}
	errs := map[int]error{}
	synctest.Test(t, func(t *testing.T) {
		ctx, cancel := context.WithCancel(context.Background())
		oc, err := splitCluster(sh.N0, sh.T, sh.V)
		if err != nil {
			t.Fatal(err)
		}
		c := newCeremony(ctx, sh, oc, 2)
		defer func() {
			cancel()
			synctest.Wait()
			time.Sleep(4 * phaseDuration)
		}()
		for _, i := range sh.part {
			c.start(ctx, i)
		}
		synctest.Wait()
		for _, i := range sh.part {
			select {
			case r := <-c.done[i]:
				errs[i] = r.err
			default:
			}
		}
	})
	for i, err := range errs {
		if err != nil {
			t.Errorf("member %d: RunReshareDKG refused an acceptable remove-operators ceremony: %v", i, err)
		}
	}
}

// TestLeaverWaitsForPhaser (observation): a leaving node that has every response bundle BEFORE its last deal bundle does not
// finish its kyber round by itself: kyber examines "resps.Len() == newN" only when a response arrives.  Only the time phaser
// (JustifPhase after 2 phase durations = a third of --timeout) gets it on; meanwhile every member waits for its none key.
func TestLeaverWaitsForPhaser(t *testing.T) {
	drv.QuietLogs(t)
	sh := shape{M: 3, N0: 3, T: 2, NT: 0, V: 1, part: []int{1, 2, 3}, holders: []int{1, 2, 3}, removed: []int{1}}
	var sentBefore, sentAfter bool
	synctest.Test(t, func(t *testing.T) {
		ctx, cancel := context.WithCancel(context.Background())
		oc, err := splitCluster(sh.N0, sh.T, sh.V)
		if err != nil {
			t.Fatal(err)
		}
		c := newCeremony(ctx, sh, oc, 3)
		defer func() {
			cancel()
			for k := 0; k < 4; k++ {
				for _, i := range sh.part {
					for drained := false; !drained; {
						select {
						case <-c.boards[i].IncomingValidatorPubKeyShares():
						default:
							drained = true
						}
					}
				}
				synctest.Wait()
			}
			time.Sleep(4 * phaseDuration)
		}()
		for _, i := range sh.part {
			c.start(ctx, i)
		}
		synctest.Wait()
		send := func(kind string, i, j int) {
			p := c.nw.find(kind, i, j, 0)
			if p == nil {
				t.Fatalf("packet %s %d->%d was not sent", kind, i, j)
			}
			c.nw.deliver(p)
			synctest.Wait()
		}
		for _, i := range sh.part {
			for _, j := range sh.part {
				if i != j && !(i == 3 && j == 1) { // 3's deal bundle for the leaver is late
					send("deal", i, j)
				}
			}
		}
		send("resp", 2, 1)
		send("resp", 3, 1) // the leaver has every response
		send("deal", 3, 1) // ... and now every deal
		sentBefore = c.nw.find("share", 1, 2, 0) != nil
		time.Sleep(2*phaseDuration + time.Second) // kyber's time phaser: JustifPhase
		synctest.Wait()
		sentAfter = c.nw.find("share", 1, 2, 0) != nil
	})
	t.Logf("leaver announced its none key: after the last deal bundle: %v; after 2 phase durations: %v", sentBefore, sentAfter)
	if !sentBefore {
		t.Logf("observation: the leaver finished only when kyber's time phaser fired")
	}
	if !sentAfter {
		t.Fatalf("the leaver did not finish even after the time phaser fired")
	}
}
