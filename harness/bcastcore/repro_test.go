package bcastcore

// Stand-alone reproductions of two observations made while transcribing core/bcast/bcast.go (nothing here is used by
// TestExec).  Run:  cd /verif/harness && go test -tags verif -count=1 -vet=off -run 'TestRepro' -v ./bcastcore

import (
	"bytes"
	"context"
	"errors"
	"fmt"
	"regexp"
	"testing"
	"testing/synctest"
	"time"

	eth2api "github.com/attestantio/go-eth2-client/api"
	eth2v1 "github.com/attestantio/go-eth2-client/api/v1"
	"github.com/attestantio/go-eth2-client/spec/altair"
	eth2p0 "github.com/attestantio/go-eth2-client/spec/phase0"
	"go.uber.org/zap/zapcore"

	"github.com/obolnetwork/charon/app/log"
	"github.com/obolnetwork/charon/core"
	"github.com/obolnetwork/charon/core/bcast"
	"github.com/obolnetwork/charon/testutil"

	"verifharness/drv"
)

func reproClient(genesis time.Time, slotDur time.Duration) client {
	cl := client{spec: map[string]any{"SECONDS_PER_SLOT": slotDur, "SLOTS_PER_EPOCH": uint64(32)}}
	cl.GenesisFunc = func(context.Context, *eth2api.GenesisOpts) (*eth2v1.Genesis, error) {
		return &eth2v1.Genesis{GenesisTime: genesis}, nil
	}

	return cl
}

// (b) DutyExit: "Try submitting all exits and return last error" -- an exit the beacon node REFUSED is reported as a
// successful broadcast (nil) and counted in core_bcast_broadcast_total{duty="exit"} whenever the exit iterated last is
// accepted.  Metric help: "The total count of successfully broadcast duties by type".
func TestReproExitFailureReportedAsSuccess(t *testing.T) {
	drv.QuietLogs(t)
	reg := newRegistry(t)
	hits := 0
	for attempt := range 40 { // Go map order: try until the accepted exit is iterated last
		synctest.Test(t, func(t *testing.T) {
			genesis := time.Now()
			cl := reproClient(genesis, 12*time.Second)
			refused, accepted := testutil.RandomExit(), testutil.RandomExit()
			var order []string
			cl.SubmitVoluntaryExitFunc = func(_ context.Context, e *eth2p0.SignedVoluntaryExit) error {
				if e.Signature == refused.Signature {
					order = append(order, "refused")
					return errors.New("beacon node: 400 invalid voluntary exit")
				}
				order = append(order, "accepted")

				return nil
			}
			b, err := bcast.New(context.Background(), cl)
			if err != nil {
				t.Fatal(err)
			}
			set := core.SignedDataSet{}
			if attempt%2 == 0 {
				set["0xaa"], set["0xbb"] = core.NewSignedVoluntaryExit(refused), core.NewSignedVoluntaryExit(accepted)
			} else {
				set["0xbb"], set["0xaa"] = core.NewSignedVoluntaryExit(accepted), core.NewSignedVoluntaryExit(refused)
			}
			before := gather(t, reg)["exit"]
			err = b.Broadcast(context.Background(), core.Duty{Slot: 1, Type: core.DutyExit}, set)
			after := gather(t, reg)["exit"]
			if fmt.Sprint(order) == "[refused accepted]" && err == nil && after.total == before.total+1 {
				hits++
				if hits == 1 {
					t.Logf("attempt %d: submissions %v -> Broadcast returned %v, core_bcast_broadcast_total{exit} %v -> %v",
						attempt, order, err, before.total, after.total)
				}
			}
		})
	}
	if hits == 0 {
		t.Skip("order 'refused, accepted' never came up in 40 attempts")
	}
	t.Logf("REPRODUCED %d/40: a refused voluntary exit was reported as success and counted as broadcast", hits)
}

// (a) DutySyncMessage: the success log line computes its "delay" with core.DutyAggregator (expected submission at 2/3 of
// the slot) although sync messages are expected at the slot start -- the metric (instrumentDuty, duty.Type) is right,
// the log line is 2/3 slot off.
func TestReproSyncMessageLogDelay(t *testing.T) {
	reg := newRegistry(t)
	var buf bytes.Buffer
	log.InitConsoleForT(t, zapcore.AddSync(&buf))
	synctest.Test(t, func(t *testing.T) {
		genesis := time.Now()
		cl := reproClient(genesis, 12*time.Second)
		cl.SubmitSyncCommitteeMessagesFunc = func(context.Context, []*altair.SyncCommitteeMessage) error { return nil }
		b, err := bcast.New(context.Background(), cl)
		if err != nil {
			t.Fatal(err)
		}
		time.Sleep(time.Until(genesis.Add(5*12*time.Second + time.Second))) // one second into slot 5
		before := gather(t, reg)["sync_message"]
		err = b.Broadcast(context.Background(), core.Duty{Slot: 5, Type: core.DutySyncMessage},
			core.SignedDataSet{"0xaa": core.NewSignedSyncMessage(testutil.RandomSyncCommitteeMessage())})
		if err != nil {
			t.Fatal(err)
		}
		after := gather(t, reg)["sync_message"]
		line := regexp.MustCompile(`(?m)^.*Successfully submitted sync committee messages.*$`).FindString(buf.String())
		t.Logf("broadcast 1s after the start of slot 5 (slot = 12s)")
		t.Logf("histogram core_bcast_broadcast_delay_seconds{sync_message} observed: %.3fs", after.sum-before.sum)
		t.Logf("log line: %s", line)
		if regexp.MustCompile(`delay["=: ]+-7s`).MatchString(line) {
			t.Logf("REPRODUCED: the log line reports delay -7s (= 1s - 2/3 slot, the aggregator's offset) for a 1s delay")
		}
	})
}
