// Package bcastcore executes Broadcaster schedules on the real core/bcast.Broadcaster and records what it did.
//
// One schedule = one case: a duty, a set of aggregated signed objects, the scripted answers of the beacon node, the
// time of the call.  Every case runs inside a testing/synctest bubble: bcast measures its delay with time.Since, the
// bubble's virtual clock (2000-01-01, advances only when every goroutine sleeps) makes that measurement exact: genesis
// is the bubble's start, the executor sleeps until the scripted call time, the scripted beacon node sleeps for its
// scripted latency.  The observed delay is read back from the prometheus histogram core_bcast_broadcast_delay_seconds
// (sum/count delta per duty label) next to core_bcast_broadcast_total.
//
// The executor holds no expectation: it builds what the schedule says, records every beacon-API call (endpoint, which of
// the objects handed in were submitted -- identified by their signature bytes --, their validator index, whether they
// are byte-identical to what was handed in), the returned error and the metric deltas.  The trace spec decides.
package bcastcore

import (
	"context"
	"encoding/json"
	"errors"
	"fmt"
	"math"
	"sort"
	"testing"
	"testing/synctest"
	"time"

	eth2api "github.com/attestantio/go-eth2-client/api"
	eth2v1 "github.com/attestantio/go-eth2-client/api/v1"
	eth2spec "github.com/attestantio/go-eth2-client/spec"
	"github.com/attestantio/go-eth2-client/spec/altair"
	"github.com/attestantio/go-eth2-client/spec/electra"
	eth2p0 "github.com/attestantio/go-eth2-client/spec/phase0"
	"github.com/prometheus/client_golang/prometheus"
	"github.com/prometheus/client_golang/prometheus/collectors"
	dto "github.com/prometheus/client_model/go"

	"github.com/obolnetwork/charon/app/eth2wrap"
	"github.com/obolnetwork/charon/app/promauto"
	"github.com/obolnetwork/charon/core"
	"github.com/obolnetwork/charon/core/bcast"
	"github.com/obolnetwork/charon/tbls"
	"github.com/obolnetwork/charon/testutil"
	"github.com/obolnetwork/charon/testutil/beaconmock"

	"verifharness/drv"
)

// client is the broadcaster's beacon client: beaconmock.Mock's overridable functions carry the script; Spec and Domain
// are answered locally (no HTTP inside the synctest bubble).
type client struct {
	beaconmock.Mock

	spec   map[string]any
	domain eth2p0.Domain
}

func (c client) Spec(context.Context, *eth2api.SpecOpts) (*eth2api.Response[map[string]any], error) {
	return &eth2api.Response[map[string]any]{Data: c.spec, Metadata: map[string]any{}}, nil
}

func (c client) Domain(context.Context, eth2p0.DomainType, eth2p0.Epoch) (eth2p0.Domain, error) {
	return c.domain, nil
}

// bnErr is an error value handed out by the scripted beacon node; call is the number of the recorded call it answers.
type bnErr struct {
	call int
	txt  string
}

func (e *bnErr) Error() string { return e.txt }

const attSlot = 100 // the slot inside every attestation's data (the duties of "known" attestations are for this slot)

var (
	theDomain = eth2p0.Domain{0x01, 0x00, 0x00, 0x00, 0xbc}
	keys      = map[int]tbls.PrivateKey{}
	pubs      = map[int]tbls.PublicKey{}
	attData   = map[int]*eth2p0.AttestationData{}
	attSigs   = map[int]eth2p0.BLSSignature{}
)

// attKey returns the (cached) key, attestation data and genuine signature of model object k.
func attKey(t *testing.T, k int) {
	t.Helper()
	if _, ok := keys[k]; ok {
		return
	}
	secret, err := tbls.GenerateSecretKey()
	if err != nil {
		t.Fatal(err)
	}
	pub, err := tbls.SecretToPublicKey(secret)
	if err != nil {
		t.Fatal(err)
	}
	data := testutil.RandomAttestationDataPhase0()
	data.Slot = attSlot
	data.Index = eth2p0.CommitteeIndex(k)
	root, err := data.HashTreeRoot()
	if err != nil {
		t.Fatal(err)
	}
	sroot, err := (&eth2p0.SigningData{ObjectRoot: root, Domain: theDomain}).HashTreeRoot()
	if err != nil {
		t.Fatal(err)
	}
	sig, err := tbls.Sign(secret, sroot[:])
	if err != nil {
		t.Fatal(err)
	}
	keys[k], pubs[k], attData[k], attSigs[k] = secret, pub, data, eth2p0.BLSSignature(sig)
}

func marker(k int) eth2p0.BLSSignature {
	sig := testutil.RandomEth2Signature()
	sig[0], sig[1] = 0xb0, byte(k)

	return sig
}

func version(s string) eth2spec.DataVersion {
	for _, v := range []eth2spec.DataVersion{eth2spec.DataVersionPhase0, eth2spec.DataVersionAltair, eth2spec.DataVersionBellatrix,
		eth2spec.DataVersionCapella, eth2spec.DataVersionDeneb, eth2spec.DataVersionElectra, eth2spec.DataVersionFulu} {
		if v.String() == s {
			return v
		}
	}
	panic("unknown data version " + s)
}

func dutyType(name string) core.DutyType {
	switch name {
	case "sentinel14":
		return core.DutyType(14)
	case "t99":
		return core.DutyType(99)
	}
	for i := range 14 {
		if core.DutyType(i).String() == name {
			return core.DutyType(i)
		}
	}
	panic("unknown duty type " + name)
}

// js is the canonical text of an object (for "is what was submitted what was handed in").
func js(v any) string {
	b, err := json.Marshal(v)
	if err != nil {
		return "marshal error: " + err.Error()
	}

	return string(b)
}

func attJS(a eth2spec.VersionedAttestation) string {
	a.ValidatorIndex = nil // logged separately
	return js(core.VersionedAttestation{VersionedAttestation: a})
}

// built is one object of the set as handed to Broadcast.
type built struct {
	data core.SignedData
	sig  eth2p0.BLSSignature
	text string
}

func build(t *testing.T, k int, o map[string]any) built {
	t.Helper()
	ver := drv.Str(o["ver"])
	sig := marker(k)
	switch drv.Str(o["kind"]) {
	case "att":
		attKey(t, k)
		sig = attSigs[k]
		va := eth2spec.VersionedAttestation{Version: version(ver)}
		if o["vi"] == true {
			vi := eth2p0.ValidatorIndex(100 + k)
			va.ValidatorIndex = &vi
		}
		if va.Version >= eth2spec.DataVersionElectra {
			att := testutil.RandomElectraAttestation()
			att.Data, att.Signature = attData[k], sig
			if va.Version == eth2spec.DataVersionElectra {
				va.Electra = att
			} else {
				va.Fulu = att
			}
		} else {
			att := testutil.RandomPhase0Attestation()
			att.Data, att.Signature = attData[k], sig
			switch va.Version {
			case eth2spec.DataVersionPhase0:
				va.Phase0 = att
			case eth2spec.DataVersionAltair:
				va.Altair = att
			case eth2spec.DataVersionBellatrix:
				va.Bellatrix = att
			case eth2spec.DataVersionCapella:
				va.Capella = att
			default:
				va.Deneb = att
			}
		}

		return built{core.VersionedAttestation{VersionedAttestation: va}, sig, attJS(va)}
	case "prop":
		var p core.VersionedSignedProposal
		full := map[string]func() core.VersionedSignedProposal{
			"bellatrix": testutil.RandomBellatrixCoreVersionedSignedProposal, "capella": testutil.RandomCapellaCoreVersionedSignedProposal,
			"deneb": testutil.RandomDenebCoreVersionedSignedProposal, "electra": testutil.RandomElectraCoreVersionedSignedProposal,
			"fulu": testutil.RandomFuluCoreVersionedSignedProposal,
		}
		blinded := map[string]func() core.VersionedSignedProposal{
			"bellatrix": testutil.RandomBellatrixVersionedSignedBlindedProposal, "capella": testutil.RandomCapellaVersionedSignedBlindedProposal,
			"deneb": testutil.RandomDenebVersionedSignedBlindedProposal, "electra": testutil.RandomElectraVersionedSignedBlindedProposal,
			"fulu": testutil.RandomFuluVersionedSignedBlindedProposal,
		}
		if o["blinded"] == true {
			p = blinded[ver]()
		} else {
			p = full[ver]()
		}
		sd, err := p.SetSignature(core.SigFromETH2(sig))
		if err != nil {
			t.Fatal(err)
		}

		return built{sd, sig, js(sd)}
	case "exit":
		e := testutil.RandomExit()
		e.Signature = sig
		sd := core.NewSignedVoluntaryExit(e)

		return built{sd, sig, js(sd)}
	case "agg":
		va := eth2spec.VersionedSignedAggregateAndProof{Version: version(ver)}
		if va.Version >= eth2spec.DataVersionElectra {
			a := &electra.SignedAggregateAndProof{Message: &electra.AggregateAndProof{
				AggregatorIndex: testutil.RandomVIdx(), Aggregate: testutil.RandomElectraAttestation(), SelectionProof: testutil.RandomEth2Signature(),
			}, Signature: sig}
			if va.Version == eth2spec.DataVersionElectra {
				va.Electra = a
			} else {
				va.Fulu = a
			}
		} else {
			a := testutil.RandomSignedAggregateAndProof()
			a.Signature = sig
			switch va.Version {
			case eth2spec.DataVersionPhase0:
				va.Phase0 = a
			case eth2spec.DataVersionAltair:
				va.Altair = a
			case eth2spec.DataVersionBellatrix:
				va.Bellatrix = a
			case eth2spec.DataVersionCapella:
				va.Capella = a
			default:
				va.Deneb = a
			}
		}
		sd := core.NewVersionedSignedAggregateAndProof(&va)

		return built{sd, sig, js(sd)}
	case "msg":
		m := testutil.RandomSyncCommitteeMessage()
		m.Signature = sig
		sd := core.NewSignedSyncMessage(m)

		return built{sd, sig, js(sd)}
	case "contrib":
		c := testutil.RandomSignedSyncContributionAndProof()
		c.Signature = sig
		sd := core.NewSignedSyncContributionAndProof(c)

		return built{sd, sig, js(sd)}
	case "reg":
		r := testutil.RandomCoreVersionedSignedValidatorRegistration(t)
		sd, err := r.SetSignature(core.SigFromETH2(sig))
		if err != nil {
			t.Fatal(err)
		}

		return built{sd, sig, js(sd)}
	case "randao":
		sd, err := testutil.RandomCoreSignedRandao().SetSignature(core.SigFromETH2(sig))
		if err != nil {
			t.Fatal(err)
		}

		return built{sd, sig, js(sd)}
	default:
		panic("unknown kind " + drv.Str(o["kind"]))
	}
}

// ---------------------------------------------------------------------------------------------------- metrics
type sample struct {
	total float64 // core_bcast_broadcast_total
	cnt   uint64  // core_bcast_broadcast_delay_seconds count
	sum   float64 // ... sum
}

func newRegistry(t *testing.T) *prometheus.Registry {
	t.Helper()
	reg, err := promauto.NewRegistry(prometheus.Labels{})
	if err != nil {
		t.Fatal(err)
	}
	// the process / Go runtime collectors are of no interest here and make every Gather slower
	wr := prometheus.WrapRegistererWith(prometheus.Labels{}, reg)
	wr.Unregister(collectors.NewProcessCollector(collectors.ProcessCollectorOpts{}))
	wr.Unregister(collectors.NewGoCollector())

	return reg
}

func gather(t *testing.T, reg *prometheus.Registry) map[string]sample {
	t.Helper()
	mfs, err := reg.Gather()
	if err != nil {
		t.Fatal(err)
	}
	res := map[string]sample{}
	label := func(m *dto.Metric) string {
		for _, l := range m.GetLabel() {
			if l.GetName() == "duty" {
				return l.GetValue()
			}
		}

		return "?"
	}
	for _, mf := range mfs {
		switch mf.GetName() {
		case "core_bcast_broadcast_total":
			for _, m := range mf.GetMetric() {
				s := res[label(m)]
				s.total = m.GetCounter().GetValue()
				res[label(m)] = s
			}
		case "core_bcast_broadcast_delay_seconds":
			for _, m := range mf.GetMetric() {
				s := res[label(m)]
				s.cnt, s.sum = m.GetHistogram().GetSampleCount(), m.GetHistogram().GetSampleSum()
				res[label(m)] = s
			}
		}
	}

	return res
}

func delta(before, after map[string]sample) []any {
	labels := []string{}
	for l := range after {
		labels = append(labels, l)
	}
	sort.Strings(labels)
	res := []any{}
	for _, l := range labels {
		a, b := after[l], before[l]
		if a == b {
			continue
		}
		res = append(res, drv.Step{"label": l, "total": int(math.Round(a.total - b.total)), "cnt": int(a.cnt) - int(b.cnt),
			"ms": int(math.Round((a.sum - b.sum) * 1000))})
	}

	return res
}

// ---------------------------------------------------------------------------------------------------- the run
func TestExec(t *testing.T) {
	drv.QuietLogs(t)
	scheds := drv.ReadSchedules(t)
	tr := drv.NewTracer(t)
	defer tr.Close()
	reg := newRegistry(t)
	for i, s := range scheds {
		if len(s) != 1 || drv.Str(s[0]["ev"]) != "Case" {
			t.Fatalf("schedule %d is not a single Case step", i)
		}
		n := len(s[0]["set"].([]any))
		reps := 1
		if n >= 2 {
			reps = 2 // small Go maps iterate in insertion order from a random offset: insert ascending and descending
		}
		for rep := range reps {
			synctest.Test(t, func(t *testing.T) { runOne(t, tr, reg, i, rep, s[0]) })
		}
	}
}

func runOne(t *testing.T, tr *drv.Tracer, reg *prometheus.Registry, sid, rep int, c drv.Step) {
	genesis := time.Now() // the bubble's clock starts at a fixed instant and only moves when everything sleeps
	ms := func() int { return int(time.Since(genesis) / time.Millisecond) }
	slotDur := time.Duration(drv.Num(c["slotms"])) * time.Millisecond
	objs := c["set"].([]any)
	n := len(objs)

	// the objects, and who is who
	var (
		bs     = make([]built, n+1)
		bySig  = map[eth2p0.BLSSignature]int{}
		model  = []any{}
		duties []*eth2v1.AttesterDuty
		vals   = eth2wrap.CompleteValidators{}
	)
	for k := 1; k <= n; k++ {
		o := objs[k-1].(map[string]any)
		bs[k] = build(t, k, o)
		bySig[bs[k].sig] = k
		model = append(model, drv.Step{"kind": o["kind"], "post": o["post"], "vi": o["vi"], "known": o["known"],
			"blinded": o["blinded"], "cls": o["cls"], "lat": o["lat"]})
		if drv.Str(o["kind"]) == "att" && drv.Str(o["known"]) != "no" {
			d := &eth2v1.AttesterDuty{PubKey: eth2p0.BLSPubKey(pubs[k]), Slot: attSlot, ValidatorIndex: eth2p0.ValidatorIndex(200 + k)}
			if drv.Str(o["known"]) == "otherslot" {
				d.Slot = attSlot + 1
			}
			duties = append(duties, d)
			vals[d.ValidatorIndex] = &eth2v1.Validator{Index: d.ValidatorIndex, Status: eth2v1.ValidatorStateActiveOngoing,
				Validator: &eth2p0.Validator{PublicKey: d.PubKey}}
		}
	}
	set := core.SignedDataSet{}
	for j := 1; j <= n; j++ {
		k := j
		if rep == 1 {
			k = n + 1 - j
		}
		set[core.PubKey(fmt.Sprintf("0x%096x", k))] = bs[k].data
	}

	// the scripted, recording beacon node
	calls := 0
	answer := func(txt any, lat any) error {
		time.Sleep(time.Duration(drv.Num(lat)) * time.Millisecond)
		if drv.Str(txt) == "" {
			return nil
		}

		return &bnErr{call: calls, txt: drv.Str(txt)}
	}
	type sub struct {
		sig  eth2p0.BLSSignature
		vi   int
		text string
	}
	record := func(api string, subs []sub) int {
		calls++
		ids, vis, eqs := []int{}, []int{}, []bool{}
		for _, s := range subs {
			k := bySig[s.sig] // 0: not an object that was handed in
			ids, vis = append(ids, k), append(vis, s.vi)
			eqs = append(eqs, k > 0 && s.text == bs[k].text)
		}
		tr.Emit(drv.Step{"ev": "Submit", "call": calls, "api": api, "objs": ids, "vi": vis, "eq": eqs, "t": ms()})

		return calls
	}
	csig := func(s core.Signature) eth2p0.BLSSignature { return s.ToETH2() }
	listAnswer := func() error { return answer(c["ltxt"], c["llat"]) }

	cl := client{spec: map[string]any{"SECONDS_PER_SLOT": slotDur, "SLOTS_PER_EPOCH": uint64(32),
		"DOMAIN_BEACON_ATTESTER": eth2p0.DomainType{0x01, 0x00, 0x00, 0x00}}, domain: theDomain}
	cl.GenesisFunc = func(context.Context, *eth2api.GenesisOpts) (*eth2v1.Genesis, error) {
		return &eth2v1.Genesis{GenesisTime: genesis}, nil
	}
	cl.CachedValidatorsFunc = func(context.Context) (eth2wrap.ActiveValidators, eth2wrap.CompleteValidators, error) {
		calls++
		tr.Emit(drv.Step{"ev": "Resolve", "call": calls, "t": ms()})
		if err := answer(c["rtxt"], 0); err != nil {
			return nil, nil, err
		}

		return nil, vals, nil
	}
	cl.AttesterDutiesFunc = func(context.Context, eth2p0.Epoch, []eth2p0.ValidatorIndex) ([]*eth2v1.AttesterDuty, error) {
		return duties, nil
	}
	cl.SubmitAttestationsFunc = func(_ context.Context, opts *eth2api.SubmitAttestationsOpts) error {
		var subs []sub
		for _, a := range opts.Attestations {
			w := core.VersionedAttestation{VersionedAttestation: *a}
			vi := 0
			if a.ValidatorIndex != nil {
				vi = int(*a.ValidatorIndex)
			}
			subs = append(subs, sub{csig(w.Signature()), vi, attJS(*a)})
		}
		record("attestations", subs)

		return listAnswer()
	}
	cl.SubmitAggregateAttestationsFunc = func(_ context.Context, opts *eth2api.SubmitAggregateAttestationsOpts) error {
		var subs []sub
		for _, a := range opts.SignedAggregateAndProofs {
			w := core.NewVersionedSignedAggregateAndProof(a)
			subs = append(subs, sub{csig(w.Signature()), 0, js(w)})
		}
		record("aggregate_attestations", subs)

		return listAnswer()
	}
	cl.SubmitSyncCommitteeMessagesFunc = func(_ context.Context, msgs []*altair.SyncCommitteeMessage) error {
		var subs []sub
		for _, m := range msgs {
			subs = append(subs, sub{m.Signature, 0, js(core.NewSignedSyncMessage(m))})
		}
		record("sync_committee_messages", subs)

		return listAnswer()
	}
	cl.SubmitSyncCommitteeContributionsFunc = func(_ context.Context, cs []*altair.SignedContributionAndProof) error {
		var subs []sub
		for _, m := range cs {
			subs = append(subs, sub{m.Signature, 0, js(core.NewSignedSyncContributionAndProof(m))})
		}
		record("sync_committee_contributions", subs)

		return listAnswer()
	}
	cl.SubmitProposalFunc = func(_ context.Context, opts *eth2api.SubmitProposalOpts) error {
		w := core.VersionedSignedProposal{VersionedSignedProposal: *opts.Proposal}
		record("proposal", []sub{{csig(w.Signature()), 0, js(w)}})

		return listAnswer()
	}
	cl.SubmitBlindedProposalFunc = func(_ context.Context, opts *eth2api.SubmitBlindedProposalOpts) error {
		w, err := core.NewVersionedSignedProposalFromBlindedProposal(opts.Proposal)
		if err != nil {
			record("blinded_proposal", []sub{{eth2p0.BLSSignature{}, 0, err.Error()}})
		} else {
			record("blinded_proposal", []sub{{csig(w.Signature()), 0, js(w)}})
		}

		return listAnswer()
	}
	cl.SubmitVoluntaryExitFunc = func(_ context.Context, e *eth2p0.SignedVoluntaryExit) error {
		record("voluntary_exit", []sub{{e.Signature, 0, js(core.NewSignedVoluntaryExit(e))}})
		if k := bySig[e.Signature]; k > 0 {
			o := objs[k-1].(map[string]any)
			return answer(o["txt"], o["lat"])
		}

		return nil
	}
	cl.SubmitValidatorRegistrationsFunc = func(_ context.Context, rs []*eth2api.VersionedSignedValidatorRegistration) error {
		var subs []sub
		for _, r := range rs {
			w, err := core.NewVersionedSignedValidatorRegistration(r)
			if err != nil {
				subs = append(subs, sub{eth2p0.BLSSignature{}, 0, err.Error()})
				continue
			}
			subs = append(subs, sub{csig(w.Signature()), 0, js(w)})
		}
		record("validator_registrations", subs)

		return nil
	}

	ctx := context.Background()
	b, err := bcast.New(ctx, cl)
	if err != nil {
		t.Fatalf("bcast.New: %v", err)
	}

	tr.Emit(drv.Step{"ev": "Reset", "sid": sid, "rep": rep, "duty": c["duty"], "slot": c["slot"], "slotms": c["slotms"],
		"at": c["at"], "set": model, "lcls": c["lcls"], "llat": c["llat"], "rcls": c["rcls"]})

	time.Sleep(time.Until(genesis.Add(time.Duration(drv.Num(c["at"])) * time.Millisecond)))
	before := gather(t, reg)
	t0 := ms()
	duty := core.Duty{Slot: uint64(drv.Num(c["slot"])), Type: dutyType(drv.Str(c["duty"]))}
	var (
		rerr     error
		panicked any
	)
	func() {
		defer func() { panicked = recover() }()
		rerr = b.Broadcast(ctx, duty, set)
	}()
	t1 := ms()
	if panicked != nil {
		tr.Emit(drv.Step{"ev": "Panic", "what": fmt.Sprint(panicked)})
		return
	}
	ev := drv.Step{"ev": "Ret", "t0": t0, "t1": t1, "instr": delta(before, gather(t, reg)),
		"dep": errors.Is(rerr, core.ErrDeprecatedDutyBuilderProposer), "call": 0, "text": ""}
	var be *bnErr
	switch {
	case rerr == nil:
		ev["err"] = "none"
	case errors.As(rerr, &be):
		ev["err"], ev["call"], ev["text"] = "bn", be.call, rerr.Error()
	default:
		ev["err"], ev["text"] = "own", rerr.Error()
	}
	tr.Emit(ev)
	tr.Emit(drv.Step{"ev": "End"})
}
