// Package c04 runs the real qbft.Run of every member with the REAL round timers (core/consensus/timer) on a fake
// clock inside a discrete-event simulation: start offsets, per-link latencies, crashes at a chosen broadcast with a
// chosen recipient subset, silent members. Every step is logged with the virtual time; the TLA+ trace spec
// (QBFTTimedTrace) validates each step against QBFT.tla and evaluates C04's bounded-termination and
// no-honest-unjust requirements.
package c04

import (
	"testing"
	"time"

	"github.com/jonboulle/clockwork"

	"github.com/obolnetwork/charon/core"
	"github.com/obolnetwork/charon/core/consensus/timer"

	"verifharness/drv"
	"verifharness/drv/qbftdrv"
)

const tick = 50 // ms

type M = qbftdrv.M

func TestExec(t *testing.T) {
	drv.QuietLogs(t)
	scheds := drv.ReadSchedules(t)
	tr := drv.NewTracer(t)
	defer tr.Close()
	for i, s := range scheds {
		if anomaly := runOne(tr, i, s[0]); anomaly {
			break
		}
	}
}

type delivery struct {
	at  int
	seq int
	to  int64
	m   M
}

type crashSpec struct {
	p     int64
	after int // crash while performing the after-th broadcast (1-based); 0: never starts (silent)
	to    map[int64]bool
}

func ints(v any) []int64 {
	r := []int64{}
	if l, ok := v.([]any); ok {
		for _, x := range l {
			r = append(r, int64(drv.Num(x)))
		}
	}
	return r
}

func runOne(tr *drv.Tracer, sid int, sc drv.Step) bool {
	n := drv.Num(sc["n"])
	inst := int64(drv.Num(sc["inst"]))
	timerType := drv.Str(sc["timer"])
	offsets := ints(sc["offsets"])
	horizon := drv.Num(sc["horizon"])
	deliveriesFirst := drv.Num(sc["tie"]) == 1
	inputs := ints(sc["inputs"])
	var lat [][]int64
	for _, row := range sc["lat"].([]any) {
		lat = append(lat, ints(row))
	}
	crashes := map[int64]*crashSpec{}
	if l, ok := sc["crashes"].([]any); ok {
		for _, x := range l {
			o := x.(map[string]any)
			cs := &crashSpec{p: int64(drv.Num(o["p"])), after: drv.Num(o["after"]), to: map[int64]bool{}}
			for _, q := range ints(o["to"]) {
				cs.to[q] = true
			}
			crashes[cs.p] = cs
		}
	}

	clk := clockwork.NewFakeClock()
	t0 := clk.Now()
	slotDur := 12 * time.Second
	duty := core.NewAttesterDuty(uint64(inst)) // leader rotation of the real component: slot + type + round; here driven through inst
	// duty start (= slot start + slot/3 for attester duties) is the simulation's time zero
	genesis := t0.Add(-slotDur*time.Duration(duty.Slot) - slotDur/3)

	c := qbftdrv.New(n, inst, nil, nil)
	c.RealTimer = func(p int64) func(round int64) (<-chan time.Time, func()) {
		var rt timer.RoundTimer
		if timerType == "inc" {
			rt = timer.NewIncreasingRoundTimerWithDutyAndClock(duty, clk)
		} else {
			rt = timer.NewDoubleEagerLinearRoundTimerWithDutyTimingAndClock(duty, genesis, slotDur, clk)
		}
		return rt.Timer
	}
	defer c.Stop()

	tr.Emit(drv.Step{"ev": "Reset", "sid": sid, "n": n, "inst": inst, "byz": []int64{}, "cfail": []int64{}, "timer": timerType})

	var (
		now      int
		queue    []delivery
		seq      int
		started  = map[int64]bool{}
		dead     = map[int64]bool{}
		decided  = map[int64]bool{}
		nbcast   = map[int64]int{}
		anomaly  bool
		silentTo = map[int64]bool{}
	)
	for p, cs := range crashes {
		if cs.after == 0 {
			dead[p] = true
			silentTo[p] = true
			tr.Emit(drv.Step{"ev": "Silent", "p": p, "now": 0})
		}
	}
	handle := func(p int64, ev drv.Step, eff qbftdrv.Effects) {
		ev["now"] = now
		if eff.Dead || eff.Ignored {
			ev["was"] = ev["ev"]
			ev["ev"] = "Anomaly"
			anomaly = true
		}
		tr.Emit(qbftdrv.EffJSON(ev, eff))
		if eff.NDec > 0 {
			decided[p] = true
		}
		for _, b := range eff.Bcasts {
			nbcast[p]++
			cs := crashes[p]
			crashing := cs != nil && cs.after > 0 && nbcast[p] == cs.after
			for q := int64(0); q < int64(n); q++ {
				if crashing && !cs.to[q] {
					continue
				}
				if crashing && q == p {
					continue
				}
				seq++
				queue = append(queue, delivery{at: now + int(lat[p][q]), seq: seq, to: q, m: b})
			}
			if crashing {
				c.Crash(p)
				dead[p] = true
				tr.Emit(drv.Step{"ev": "Crash", "p": p, "now": now})
				break
			}
		}
	}
	allDone := func() bool {
		for p := int64(0); p < int64(n); p++ {
			if dead[p] {
				continue
			}
			if !started[p] || !decided[p] {
				return false
			}
		}
		return true
	}
	for now = 0; now <= horizon && !anomaly; now += tick {
		if now > 0 {
			clk.Advance(tick * time.Millisecond)
		}
		for p := int64(0); p < int64(n); p++ {
			if !dead[p] && !started[p] && int(offsets[p]) <= now {
				started[p] = true
				handle(p, drv.Step{"ev": "Start", "p": p}, c.Start(p))
				if !dead[p] && inputs[p] != 0 {
					handle(p, drv.Step{"ev": "Input", "p": p, "v": inputs[p]}, c.Input(p, inputs[p]))
				}
			}
		}
		for !anomaly {
			worked := false
			fireTimers := func() {
				for p := int64(0); p < int64(n); p++ {
					if started[p] && !dead[p] && c.TimerDue(p) {
						handle(p, drv.Step{"ev": "Timeout", "p": p}, c.Timeout(p))
						worked = true
					}
				}
			}
			if !deliveriesFirst {
				fireTimers()
			}
			// earliest due delivery (arrival time, then send order)
			idx := -1
			for i, d := range queue {
				if d.at > now || (!started[d.to] && !dead[d.to]) {
					continue
				}
				if idx < 0 || d.at < queue[idx].at || (d.at == queue[idx].at && d.seq < queue[idx].seq) {
					idx = i
				}
			}
			if idx >= 0 {
				d := queue[idx]
				queue = append(queue[:idx], queue[idx+1:]...)
				worked = true
				if !dead[d.to] && !anomaly {
					handle(d.to, drv.Step{"ev": "Deliver", "p": d.to, "m": d.m.JSON()}, c.Deliver(d.to, d.m))
				}
			} else if deliveriesFirst {
				fireTimers()
			}
			if !worked {
				break
			}
		}
		if allDone() {
			break
		}
	}
	tr.Emit(drv.Step{"ev": "End", "now": now})
	return anomaly
}

