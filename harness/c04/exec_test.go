// Package c04 runs the real qbft.Run of every member with the REAL round timers (core/consensus/timer) on a fake
// clock inside a discrete-event simulation: start offsets, per-link latencies, crashes at a chosen broadcast with a
// chosen recipient subset, silent members. Every step is logged with the virtual time; the TLA+ trace spec
// (QBFTTimedTrace) validates each step against QBFT.tla and evaluates C04's bounded-termination and
// no-honest-unjust requirements.
package c04

import (
	"testing"
	"time"

	"github.com/jonboulle/clockwork"

	"github.com/obolnetwork/charon/core"
	"github.com/obolnetwork/charon/core/consensus/timer"

	"verifharness/drv"
	"verifharness/drv/qbftdrv"
)

const tick = 50 // ms

type M = qbftdrv.M

func TestExec(t *testing.T) {
	drv.QuietLogs(t)
	scheds := drv.ReadSchedules(t)
	tr := drv.NewTracer(t)
	defer tr.Close()
	for i, s := range scheds {
		var anomaly bool
		if drv.Str(s[0]["ev"]) == "Script" {
			anomaly = runScript(tr, i, s)
		} else {
			anomaly = runOne(tr, i, s[0])
		}
		if anomaly {
			break
		}
	}
}

type delivery struct {
	at  int
	seq int
	to  int64
	m   M
}

type crashSpec struct {
	p     int64
	after int // crash while performing the after-th broadcast (1-based); 0: never starts (silent)
	to    map[int64]bool
}

func ints(v any) []int64 {
	r := []int64{}
	if l, ok := v.([]any); ok {
		for _, x := range l {
			r = append(r, int64(drv.Num(x)))
		}
	}
	return r
}

func runOne(tr *drv.Tracer, sid int, sc drv.Step) bool {
	n := drv.Num(sc["n"])
	inst := int64(drv.Num(sc["inst"]))
	timerType := drv.Str(sc["timer"])
	offsets := ints(sc["offsets"])
	horizon := drv.Num(sc["horizon"])
	deliveriesFirst := drv.Num(sc["tie"]) == 1
	inputs := ints(sc["inputs"])
	var lat [][]int64
	for _, row := range sc["lat"].([]any) {
		lat = append(lat, ints(row))
	}
	crashes := map[int64]*crashSpec{}
	if l, ok := sc["crashes"].([]any); ok {
		for _, x := range l {
			o := x.(map[string]any)
			cs := &crashSpec{p: int64(drv.Num(o["p"])), after: drv.Num(o["after"]), to: map[int64]bool{}}
			for _, q := range ints(o["to"]) {
				cs.to[q] = true
			}
			crashes[cs.p] = cs
		}
	}

	clk := clockwork.NewFakeClock()
	t0 := clk.Now()
	slotDur := 12 * time.Second
	duty := core.NewAttesterDuty(uint64(inst)) // leader rotation of the real component: slot + type + round; here driven through inst
	// duty start (= slot start + slot/3 for attester duties) is the simulation's time zero
	genesis := t0.Add(-slotDur*time.Duration(duty.Slot) - slotDur/3)

	c := qbftdrv.New(n, inst, nil, nil)
	c.RealTimer = func(p int64) func(round int64) (<-chan time.Time, func()) {
		var rt timer.RoundTimer
		if timerType == "inc" {
			rt = timer.NewIncreasingRoundTimerWithDutyAndClock(duty, clk)
		} else {
			rt = timer.NewDoubleEagerLinearRoundTimerWithDutyTimingAndClock(duty, genesis, slotDur, clk)
		}
		return rt.Timer
	}
	defer c.Stop()

	tr.Emit(drv.Step{"ev": "Reset", "sid": sid, "n": n, "inst": inst, "byz": []int64{}, "cfail": []int64{}, "timer": timerType})

	var (
		now      int
		queue    []delivery
		seq      int
		started  = map[int64]bool{}
		dead     = map[int64]bool{}
		decided  = map[int64]bool{}
		nbcast   = map[int64]int{}
		anomaly  bool
		silentTo = map[int64]bool{}
		maxRound int64
	)
	for p, cs := range crashes {
		if cs.after == 0 {
			dead[p] = true
			silentTo[p] = true
			tr.Emit(drv.Step{"ev": "Silent", "p": p, "now": 0})
		}
	}
	handle := func(p int64, ev drv.Step, eff qbftdrv.Effects) {
		ev["now"] = now
		if eff.Dead || eff.Ignored {
			ev["was"] = ev["ev"]
			ev["ev"] = "Anomaly"
			anomaly = true
		}
		tr.Emit(qbftdrv.EffJSON(ev, eff))
		if eff.NDec > 0 {
			decided[p] = true
		}
		if eff.Round > maxRound {
			maxRound = eff.Round
		}
		for _, b := range eff.Bcasts {
			nbcast[p]++
			cs := crashes[p]
			crashing := cs != nil && cs.after > 0 && nbcast[p] == cs.after
			for q := int64(0); q < int64(n); q++ {
				if crashing && !cs.to[q] {
					continue
				}
				if crashing && q == p {
					continue
				}
				seq++
				queue = append(queue, delivery{at: now + int(lat[p][q]), seq: seq, to: q, m: b})
			}
			if crashing {
				c.Crash(p)
				dead[p] = true
				tr.Emit(drv.Step{"ev": "Crash", "p": p, "now": now})
				break
			}
		}
	}
	allDone := func() bool {
		for p := int64(0); p < int64(n); p++ {
			if dead[p] {
				continue
			}
			if !started[p] || !decided[p] {
				return false
			}
		}
		return true
	}
	for now = 0; now <= horizon && !anomaly; now += tick {
		if now > 0 {
			clk.Advance(tick * time.Millisecond)
		}
		for p := int64(0); p < int64(n); p++ {
			if !dead[p] && !started[p] && int(offsets[p]) <= now {
				started[p] = true
				handle(p, drv.Step{"ev": "Start", "p": p}, c.Start(p))
				if !dead[p] && inputs[p] != 0 {
					handle(p, drv.Step{"ev": "Input", "p": p, "v": inputs[p]}, c.Input(p, inputs[p]))
				}
			}
		}
		for !anomaly {
			worked := false
			fireTimers := func() {
				for p := int64(0); p < int64(n); p++ {
					if started[p] && !dead[p] && c.TimerDue(p) {
						handle(p, drv.Step{"ev": "Timeout", "p": p}, c.Timeout(p))
						worked = true
					}
				}
			}
			if !deliveriesFirst {
				fireTimers()
			}
			// earliest due delivery (arrival time, then send order)
			idx := -1
			for i, d := range queue {
				if d.at > now || (!started[d.to] && !dead[d.to]) {
					continue
				}
				if idx < 0 || d.at < queue[idx].at || (d.at == queue[idx].at && d.seq < queue[idx].seq) {
					idx = i
				}
			}
			if idx >= 0 {
				d := queue[idx]
				queue = append(queue[:idx], queue[idx+1:]...)
				worked = true
				if !dead[d.to] && !anomaly {
					handle(d.to, drv.Step{"ev": "Deliver", "p": d.to, "m": d.m.JSON()}, c.Deliver(d.to, d.m))
				}
			} else if deliveriesFirst {
				fireTimers()
			}
			if !worked {
				break
			}
		}
		if allDone() {
			break
		}
		if maxRound > int64(3*n+4) {
			break // hopeless: far beyond any rotation bound; End makes the trace spec flag BoundedDecision
		}
	}
	tr.Emit(drv.Step{"ev": "End", "now": now})
	return anomaly
}


// runScript replays a behaviour of the timed TLA+ model (QBFTTimed) step by step on the real qbft.Run with the real
// round timers: Tick advances the fake clock by 250 ms; Timeout(p) is only performed if p's REAL timer has fired
// (otherwise the replay stops: the model's timer semantics and the real one differ there); a Tick while some real
// timer is already due stops the replay as well.
func runScript(tr *drv.Tracer, sid int, sched []drv.Step) bool {
	sc := sched[0]
	n := drv.Num(sc["n"])
	inst := int64(drv.Num(sc["inst"]))
	timerType := drv.Str(sc["timer"])
	clk := clockwork.NewFakeClock()
	t0 := clk.Now()
	slotDur := 12 * time.Second
	duty := core.NewAttesterDuty(uint64(inst))
	genesis := t0.Add(-slotDur*time.Duration(duty.Slot) - slotDur/3)
	c := qbftdrv.New(n, inst, nil, nil)
	c.RealTimer = func(p int64) func(round int64) (<-chan time.Time, func()) {
		var rt timer.RoundTimer
		if timerType == "inc" {
			rt = timer.NewIncreasingRoundTimerWithDutyAndClock(duty, clk)
		} else {
			rt = timer.NewDoubleEagerLinearRoundTimerWithDutyTimingAndClock(duty, genesis, slotDur, clk)
		}
		return rt.Timer
	}
	defer c.Stop()
	tr.Emit(drv.Step{"ev": "Reset", "sid": sid, "n": n, "inst": inst, "byz": []int64{}, "cfail": []int64{}, "timer": timerType, "script": true})
	now := 0
	anomaly := false
	var pool []M
	started := map[int64]bool{}
	dead := map[int64]bool{}
	decided := map[int64]bool{}
	delivered := map[[2]int64]bool{} // (pool index, recipient)
	handle := func(ev drv.Step, eff qbftdrv.Effects) {
		ev["now"] = now
		if eff.NDec > 0 {
			decided[int64(drv.Num(ev["p"]))] = true
		}
		if eff.Dead || eff.Ignored {
			ev["was"] = ev["ev"]
			ev["ev"] = "Anomaly"
			anomaly = true
		}
		tr.Emit(qbftdrv.EffJSON(ev, eff))
		pool = append(pool, eff.Bcasts...)
	}
	stop := func(why string) bool {
		tr.Emit(drv.Step{"ev": "Stop", "why": why, "now": now})
		return false
	}
	for _, st := range sched[1:] {
		if anomaly {
			break
		}
		p := int64(drv.Num(st["p"]))
		switch drv.Str(st["ev"]) {
		case "Silent":
			dead[p] = true
			tr.Emit(drv.Step{"ev": "Silent", "p": p, "now": now})
		case "Start":
			started[p] = true
			handle(drv.Step{"ev": "Start", "p": p}, c.Start(p))
		case "Input":
			handle(drv.Step{"ev": "Input", "p": p, "v": drv.Num(st["v"])}, c.Input(p, int64(drv.Num(st["v"]))))
		case "Crash":
			c.Crash(p)
			dead[p] = true
			tr.Emit(drv.Step{"ev": "Crash", "p": p, "now": now})
		case "Tick":
			for q := int64(0); q < int64(n); q++ {
				if started[q] && !dead[q] && c.TimerPeek(q) {
					return stop("a real timer is due but the model lets time pass")
				}
			}
			clk.Advance(250 * time.Millisecond)
			now += 250
		case "Timeout":
			if !c.TimerDue(p) {
				return stop("the model fires a timer the real round timer has not fired")
			}
			handle(drv.Step{"ev": "Timeout", "p": p}, c.Timeout(p))
		case "DeliverSel":
			idx := -1
			for i := range pool {
				if pool[i].JSON()["type"] == drv.Str(st["t"]) && pool[i].Src == int64(drv.Num(st["s"])) && pool[i].Rnd == int64(drv.Num(st["r"])) && !delivered[[2]int64{int64(i), p}] {
					idx = i
					break
				}
			}
			if idx < 0 {
				return stop("no such message")
			}
			delivered[[2]int64{int64(idx), p}] = true
			m := pool[idx]
			handle(drv.Step{"ev": "Deliver", "p": p, "m": m.JSON()}, c.Deliver(p, m))
		}
	}
	// continuation after the scripted prefix: zero latency, deliveries before timers, until everybody decided
	horizon := drv.Num(sc["horizon"])
	allDone := func() bool {
		for q := int64(0); q < int64(n); q++ {
			if !dead[q] && started[q] && !decided[q] {
				return false
			}
		}
		return true
	}
	for !anomaly && now <= horizon && !allDone() {
		for worked := true; worked && !anomaly; {
			worked = false
			for i := 0; i < len(pool) && !anomaly; i++ {
				for q := int64(0); q < int64(n) && !anomaly; q++ {
					if dead[q] || !started[q] || delivered[[2]int64{int64(i), q}] {
						continue
					}
					delivered[[2]int64{int64(i), q}] = true
					m := pool[i]
					handle(drv.Step{"ev": "Deliver", "p": q, "m": m.JSON()}, c.Deliver(q, m))
					worked = true
				}
			}
			for q := int64(0); q < int64(n) && !anomaly; q++ {
				if started[q] && !dead[q] && c.TimerDue(q) {
					handle(drv.Step{"ev": "Timeout", "p": q}, c.Timeout(q))
					worked = true
				}
			}
		}
		if allDone() {
			break
		}
		clk.Advance(250 * time.Millisecond)
		now += 250
	}
	tr.Emit(drv.Step{"ev": "End", "now": now})
	return anomaly
}
