package conscluster

import (
	"os"
	"sync"
	"testing"
	"testing/synctest"

	"verifharness/drv"
)

type memTrace struct {
	mu  sync.Mutex
	evs []drv.Step
}

func (m *memTrace) Emit(e drv.Step) {
	m.mu.Lock()
	defer m.mu.Unlock()
	m.evs = append(m.evs, e)
}

// TestReproStopOnDecide is the standalone reproduction of finding C04-component-stops-on-decide (run with VERIF_REPRO=1).
//
// Six real qbft.Consensus components, no fault at all, increasing round timer, inside the assumptions of C04: the leader of
// round 1 (member 1) starts at 0 ms, the other five 903 ms later (< one round); messages towards member 1 take 300 ms
// (< 1/3 of the shortest round timeout), everything else 10 ms.  Member 1 leaves round 1 at 1000 ms; the PREPAREs and COMMITs
// of the others reach it at 1203..1215 ms.  The five late members decide in round 1 at ~930 ms - and the component cancels a
// decided instance (runInstance: decideCallback -> cancel()), so the qbft core's "answer ROUND-CHANGE with DECIDED" never
// happens, while classify ignores the quorum of round-1 COMMITs because member 1 is in round 2.  Member 1 never decides.
func TestReproStopOnDecide(t *testing.T) {
	if os.Getenv("VERIF_REPRO") == "" {
		t.Skip("VERIF_REPRO not set")
	}
	const n, ldr = 6, 1
	var start, lat []any
	for i := 0; i < n; i++ {
		s := 903
		if i == ldr {
			s = 0
		}
		start = append(start, s)
		var row []any
		for j := 0; j < n; j++ {
			switch {
			case i == j:
				row = append(row, 0)
			case j == ldr:
				row = append(row, 300)
			default:
				row = append(row, 10)
			}
		}
		lat = append(lat, row)
	}
	// slot 4, attester (type 2): leader of round 1 is (4 + 2 + 1) % 6 = 1
	cfg := map[string]any{"n": n, "slot": 4, "dtype": "attester", "timer": "inc", "byz": []any{}, "start": start, "prop": start,
		"lat": lat, "crashes": []any{}, "drops": []any{}, "byzplan": map[string]any{}, "horizon": 20000, "timely": true,
		"roundms": 1000, "extrams": 0, "family": "repro"}
	tr := &memTrace{}
	synctest.Test(t, func(t *testing.T) { runCluster(t, tr, 0, cfg) })
	decided := map[int]bool{}
	for _, e := range tr.evs {
		switch e["ev"] {
		case "Decide":
			decided[drv.Num(e["p"])] = true
			t.Logf("%6d ms  member %d decides value %v in round %v", e["now"], e["p"], e["v"], e["round"])
		case "Round":
			if drv.Num(e["p"]) == ldr {
				t.Logf("%6d ms  member %d: round %v -> %v (%v)", e["now"], e["p"], e["from"], e["to"], e["rule"])
			}
		}
	}
	for i := 0; i < n; i++ {
		if !decided[i] {
			t.Errorf("member %d (running, not faulty) has not decided 20 s after the duty started; %d members decided in round 1", i, len(decided))
		}
	}
}
