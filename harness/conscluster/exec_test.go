// Package conscluster executes cluster schedules on n REAL core/consensus/qbft.Consensus components and records what
// happened.
//
// One schedule = one cluster run: [{"ev":"Cluster", ...parameters...}].  The components are built with NewConsensus on
// in-memory libp2p hosts (go-libp2p mocknet, real secp256k1 identities that match the p2p.Peer list), a real
// p2p.Sender, a real core.Deadliner and core.DutyGater; they are started with Start and driven through
// Participate / Propose exactly as core wiring does.  The whole run happens inside a testing/synctest bubble: time is
// virtual (round timers, the deadliner, link latencies, start offsets), nothing is awaited with a wall-clock timeout and
// the run is quiescent (synctest.Wait) before End is logged.
//
// Fault injection sits between p2p.Send and the mocknet stream (a wrapping host.Host whose NewStream hands out a stream
// that holds the request back): per-link latency, loss by rule (type/round/from/to), crash of a node at its k-th
// broadcast (that broadcast reaches a chosen subset, the node's context is cancelled, nothing later leaves it).  A
// Byzantine member is a bare host that records what the honest members send to it and sends crafted wire messages,
// correctly signed with its own key, whose justifications re-use observed honest signatures on altered content.
//
// The executor contains no expected result.  It logs: Start / Propose (stimuli), Send (every distinct message an honest
// member puts on the wire), Loss / Crash (faults), ByzSend (adversarial stimuli), Decide (Subscribe callback, with the
// round from the component's own "decided" log line), Round / Unjust (the qbft core's LogRoundChange / LogUnjust as
// logged by the component), Reject (the p2p stream handler's report that Consensus.handle returned an error), RunErr,
// Expired (instances left after the duty deadline), End, and per node the sniffed transcript handed to snifferFunc.
package conscluster

import (
	"bytes"
	"context"
	"crypto/sha256"
	"encoding/json"
	"fmt"
	"os"
	"sort"
	"strings"
	"sync"
	"testing"
	"testing/synctest"
	"time"

	eth2api "github.com/attestantio/go-eth2-client/api"
	eth2v1 "github.com/attestantio/go-eth2-client/api/v1"
	k1 "github.com/decred/dcrd/dcrec/secp256k1/v4"
	libp2pcrypto "github.com/libp2p/go-libp2p/core/crypto"
	"github.com/libp2p/go-libp2p/core/host"
	"github.com/libp2p/go-libp2p/core/network"
	"github.com/libp2p/go-libp2p/core/peer"
	"github.com/libp2p/go-libp2p/core/protocol"
	mocknet "github.com/libp2p/go-libp2p/p2p/net/mock"
	ma "github.com/multiformats/go-multiaddr"
	"github.com/multiformats/go-varint"
	"go.uber.org/zap/zapcore"
	"google.golang.org/protobuf/proto"
	"google.golang.org/protobuf/types/known/anypb"

	"github.com/obolnetwork/charon/app/featureset"
	"github.com/obolnetwork/charon/app/k1util"
	"github.com/obolnetwork/charon/app/log"
	"github.com/obolnetwork/charon/app/z"
	"github.com/obolnetwork/charon/core"
	"github.com/obolnetwork/charon/core/consensus/protocols"
	cqbft "github.com/obolnetwork/charon/core/consensus/qbft"
	pbv1 "github.com/obolnetwork/charon/core/corepb/v1"
	"github.com/obolnetwork/charon/p2p"
	"github.com/obolnetwork/charon/testutil"
	"github.com/obolnetwork/charon/testutil/beaconmock"

	"verifharness/drv"
)

const slotDur = 12 * time.Second

// bclient answers the three beacon-API questions the component asks (genesis, spec) without HTTP.
type bclient struct {
	beaconmock.Mock
	spec map[string]any
}

func (c bclient) Spec(context.Context, *eth2api.SpecOpts) (*eth2api.Response[map[string]any], error) {
	return &eth2api.Response[map[string]any]{Data: c.spec, Metadata: map[string]any{}}, nil
}

func detKey(label string) *k1.PrivateKey {
	h := sha256.Sum256([]byte(label))
	return k1.PrivKeyFromBytes(h[:])
}

func num(m map[string]any, k string) int { return drv.Num(m[k]) }
func obj(v any) map[string]any           { m, _ := v.(map[string]any); return m }
func list(v any) []any                   { l, _ := v.([]any); return l }
func boolean(v any) bool                 { b, _ := v.(bool); return b }
func ints(v any) []int {
	var res []int
	for _, x := range list(v) {
		res = append(res, drv.Num(x))
	}
	return res
}
func has(l []int, x int) bool {
	for _, y := range l {
		if y == x {
			return true
		}
	}
	return false
}

var typeNames = map[int64]string{1: "PP", 2: "P", 3: "C", 4: "RC", 5: "D"}
var typeCodes = map[string]int64{"PP": 1, "P": 2, "C": 3, "RC": 4, "D": 5}
var logTypes = map[string]string{"pre_prepare": "PP", "prepare": "P", "commit": "C", "round_change": "RC", "decided": "D"}

type crashRule struct {
	after int
	to    []int
}

type dropRule struct {
	from, to []int // nil = any
	typ      string
	round    int // 0 = any
}

type sniffed struct {
	node int
	inst *pbv1.SniffedConsensusInstance
}

// run is one cluster execution.
type emitter interface{ Emit(drv.Step) }

type run struct {
	t    *testing.T
	tr   emitter
	sid  int
	n    int
	duty core.Duty
	t0   time.Time // duty start: the reference of every logged "now" (ms)
	rot  int       // member i is logged as (i - rot) mod n

	keys  []*k1.PrivateKey
	peers []p2p.Peer
	hosts []host.Host
	byz   []int
	lat   [][]time.Duration

	mu       sync.Mutex
	names    map[string]int   // peer name -> index
	valIdx   map[[32]byte]int // value hash -> value number of the specification
	crashed  map[int]bool     // nodes whose crash point was reached
	crashes  map[int]crashRule
	bidx     map[int]map[string]int // per sender: signature of the main message -> broadcast index
	drops    []dropRule
	cancels  map[int]context.CancelFunc
	decRound map[int]int
	sniffs   []sniffed
	obs      chan *pbv1.QBFTConsensusMsg // what the Byzantine members observe
	ended    bool
	quiet    bool // prelude (an earlier duty on the same components): nothing is logged
}

func (r *run) now() int { return int(time.Since(r.t0) / time.Millisecond) }

func (r *run) emit(ev drv.Step) {
	r.mu.Lock()
	q := r.quiet
	r.mu.Unlock()
	if q {
		return
	}
	ev["now"] = r.now()
	r.rotate(ev)
	r.tr.Emit(ev)
}

// rotate renames the members in a logged event: member i is logged as (i - rot) mod n, rot = (slot + duty type) mod n.
// In that numbering the REQUIRED leader of round k is member k mod n for every slot and duty type (Inst = 0), so runs of
// all leader rotations are validated under one set of specification constants.  Values keep their numbers.
func (r *run) rotate(ev drv.Step) {
	one := func(v any) any {
		i := drv.Num(v)
		if i < 0 {
			return i
		}
		return (i - r.rot + r.n) % r.n
	}
	many := func(v any) any {
		res := []int{}
		switch l := v.(type) {
		case []int:
			for _, x := range l {
				res = append(res, one(x).(int))
			}
		case []any:
			for _, x := range l {
				res = append(res, one(x).(int))
			}
		}
		return res
	}
	msg := func(v any) {
		m, ok := v.(map[string]any)
		if !ok {
			return
		}
		m["src"] = one(m["src"])
		for _, j := range list(m["just"]) {
			if b, ok := j.(map[string]any); ok {
				b["src"] = one(b["src"])
			}
		}
	}
	for _, k := range []string{"p", "b", "src", "from"} {
		if v, ok := ev[k]; ok {
			ev[k] = one(v)
		}
	}
	if v, ok := ev["to"]; ok {
		switch v.(type) {
		case []int, []any:
			ev["to"] = many(v)
		default:
			ev["to"] = one(v)
		}
	}
	if v, ok := ev["byz"]; ok {
		ev["byz"] = many(v)
	}
	msg(ev["m"])
	for _, x := range list(ev["msgs"]) {
		if e, ok := x.(map[string]any); ok {
			msg(e["m"])
		}
	}
}

func (r *run) idx(p peer.ID) int {
	for i, q := range r.peers {
		if q.ID == p {
			return i
		}
	}
	return -1
}

func (r *run) value(h []byte) int {
	if len(h) != 32 {
		return 0
	}
	k := [32]byte(h)
	if k == ([32]byte{}) {
		return 0
	}
	r.mu.Lock()
	defer r.mu.Unlock()
	if v, ok := r.valIdx[k]; ok {
		return v
	}
	return 99
}

// base is the specification's view of one QBFTMsg.
func (r *run) base(q *pbv1.QBFTMsg) map[string]any {
	return map[string]any{"type": typeNames[q.GetType()], "src": int(q.GetPeerIdx()), "round": int(q.GetRound()),
		"value": r.value(q.GetValueHash()), "pr": int(q.GetPreparedRound()), "pv": r.value(q.GetPreparedValueHash()), "copy": 1}
}

func (r *run) abstract(m *pbv1.QBFTConsensusMsg) map[string]any {
	res := r.base(m.GetMsg())
	delete(res, "copy")
	just := []any{}
	for _, j := range m.GetJustification() {
		just = append(just, r.base(j))
	}
	res["just"] = just
	return res
}

// ------------------------------------------------------------------------------------------------------------------
// the network: a host whose outgoing streams hold the request back until the fault rules have been consulted
// ------------------------------------------------------------------------------------------------------------------

type faultHost struct {
	host.Host
	r  *run
	me int
}

func (h *faultHost) NewStream(ctx context.Context, p peer.ID, pids ...protocol.ID) (network.Stream, error) {
	s, err := h.Host.NewStream(ctx, p, pids...)
	if err != nil {
		return nil, err
	}
	return &faultStream{Stream: s, r: h.r, from: h.me, to: h.r.idx(p)}, nil
}

type faultStream struct {
	network.Stream
	r        *run
	from, to int
	buf      bytes.Buffer
	done     bool
}

func (s *faultStream) Write(b []byte) (int, error) { return s.buf.Write(b) }

func (s *faultStream) Close() error {
	if s.done {
		return nil
	}
	s.done = true
	raw := s.buf.Bytes()
	l, k, err := varint.FromUvarint(raw)
	msg := new(pbv1.QBFTConsensusMsg)
	if err != nil || int(l) != len(raw)-k || proto.Unmarshal(raw[k:], msg) != nil || msg.GetMsg() == nil {
		s.r.emit(drv.Step{"ev": "Anomaly", "what": "undecodable request on the wire", "from": s.from, "to": s.to})
		return s.Stream.Reset()
	}
	pass, delay := s.r.route(s.from, s.to, msg)
	if !pass {
		return s.Stream.Reset()
	}
	time.Sleep(delay)
	if s.r.isDown(s.to) {
		return s.Stream.Reset()
	}
	if _, err := s.Stream.Write(raw); err != nil {
		return err
	}
	return s.Stream.Close()
}

func (r *run) isDown(p int) bool {
	r.mu.Lock()
	defer r.mu.Unlock()
	return r.crashed[p] || r.ended
}

// route decides the fate of one copy (from -> to) of a message and logs the message the first time it is seen.
func (r *run) route(from, to int, m *pbv1.QBFTConsensusMsg) (bool, time.Duration) {
	q := m.GetMsg()
	sig := string(q.GetSignature())
	r.mu.Lock()
	if r.ended {
		r.mu.Unlock()
		return false, 0
	}
	if r.bidx[from] == nil {
		r.bidx[from] = map[string]int{}
	}
	idx, seen := r.bidx[from][sig]
	if !seen {
		idx = len(r.bidx[from])
		r.bidx[from][sig] = idx
	}
	rule, hasRule := r.crashes[from]
	var crashNow bool
	pass := true
	if hasRule {
		switch {
		case idx > rule.after:
			pass = false
		case idx == rule.after:
			pass = has(rule.to, to)
			if !r.crashed[from] {
				r.crashed[from] = true
				crashNow = true
			}
		}
	}
	leftNode := !hasRule || idx <= rule.after // the message exists on the wire (at least in part)
	cancel := r.cancels[from]
	downTo := r.crashed[to]
	r.mu.Unlock()

	if !seen && leftNode {
		r.emit(drv.Step{"ev": "Send", "p": from, "m": r.abstract(m)})
	}
	if crashNow {
		r.emit(drv.Step{"ev": "Crash", "p": from})
		if cancel != nil {
			cancel()
		}
	}
	if !pass || downTo {
		return false, 0
	}
	for _, d := range r.drops {
		if d.typ != "" && d.typ != typeNames[q.GetType()] {
			continue
		}
		if d.round != 0 && d.round != int(q.GetRound()) {
			continue
		}
		if d.from != nil && !has(d.from, from) {
			continue
		}
		if d.to != nil && !has(d.to, to) {
			continue
		}
		r.emit(drv.Step{"ev": "Loss", "from": from, "to": to, "type": typeNames[q.GetType()], "round": int(q.GetRound())})
		return false, 0
	}
	return true, r.lat[from][to]
}

// ------------------------------------------------------------------------------------------------------------------
// the component's log as an observable
// ------------------------------------------------------------------------------------------------------------------

type logSink struct{ r *run }

func (s logSink) Write(b []byte) (int, error) {
	for _, line := range bytes.Split(b, []byte("\n")) {
		if len(bytes.TrimSpace(line)) == 0 {
			continue
		}
		var e map[string]any
		if json.Unmarshal(line, &e) != nil {
			continue
		}
		s.r.logged(e)
	}
	return len(b), nil
}

func (r *run) logged(e map[string]any) {
	node := -1
	if v, ok := e["node"]; ok {
		node = drv.Num(v)
	}
	if os.Getenv("VERIF_DEBUG") != "" && drv.Str(e["level"]) != "debug" {
		fmt.Fprintf(os.Stderr, "LOG %v\n", e)
	}
	msg := drv.Str(e["msg"])
	const rejectPrefix = "P2P stream handler encountered an error. The request could not be processed"
	switch {
	case msg == "QBFT round changed":
		if node >= 0 {
			r.emit(drv.Step{"ev": "Round", "p": node, "old": num(e, "round"), "new": num(e, "new_round"), "rule": fmt.Sprint(e["rule"])})
		}
	case msg == "QBFT consensus decided":
		if node >= 0 {
			r.mu.Lock()
			r.decRound[node] = num(e, "round")
			r.mu.Unlock()
		}
	case strings.HasPrefix(msg, "Unjustified consensus message from peer"):
		if node >= 0 {
			r.emit(drv.Step{"ev": "Unjust", "p": node, "type": logTypes[fmt.Sprint(e["type"])], "src": num(e, "peer")})
		}
	case strings.HasPrefix(msg, rejectPrefix):
		r.mu.Lock()
		from, ok := r.names[drv.Str(e["peer"])]
		r.mu.Unlock()
		if !ok {
			from = -1
		}
		text, kind := strings.TrimPrefix(strings.TrimPrefix(msg, rejectPrefix), ": "), "verdict"
		if strings.Contains(text, "timeout enqueuing receive buffer") {
			kind = "buffer"
		}
		r.emit(drv.Step{"ev": "Reject", "from": from, "err": text, "kind": kind})
	}
}

// ------------------------------------------------------------------------------------------------------------------
// Byzantine member
// ------------------------------------------------------------------------------------------------------------------

type byzantine struct {
	r    *run
	me   int
	host host.Host
	plan map[string]any
	ctx  context.Context
}

func (b *byzantine) sign(q *pbv1.QBFTMsg) *pbv1.QBFTMsg {
	c := proto.Clone(q).(*pbv1.QBFTMsg)
	c.Signature = nil
	h, err := cqbft.VerifHashProto(c)
	if err != nil {
		b.r.t.Fatal(err)
	}
	c.Signature, err = k1util.Sign(b.r.keys[b.me], h[:])
	if err != nil {
		b.r.t.Fatal(err)
	}
	return c
}

func (b *byzantine) own(typ string, round int, vh []byte) *pbv1.QBFTMsg {
	return b.sign(&pbv1.QBFTMsg{Type: typeCodes[typ], Duty: core.DutyToProto(b.r.duty), PeerIdx: int64(b.me), Round: int64(round),
		ValueHash: vh, PreparedValueHash: make([]byte, 32)})
}

// send puts one crafted message on the wire (zero latency) and logs it as an adversarial stimulus.
func (b *byzantine) send(to []int, m *pbv1.QBFTConsensusMsg, what string) {
	b.r.emit(drv.Step{"ev": "ByzSend", "b": b.me, "to": to, "m": b.r.abstract(m), "what": what})
	for _, q := range to {
		if b.r.isDown(q) {
			continue
		}
		_ = p2p.Send(b.ctx, b.host, protocols.QBFTv2ProtocolID, b.r.peers[q].ID, m)
	}
}

// rogue returns the Byzantine member's own value (number 50 + me of the specification).
func (b *byzantine) rogue() ([]byte, *anypb.Any) {
	pk := sha256.Sum256([]byte(fmt.Sprintf("verif-rogue-%d-%d", b.r.sid, b.me)))
	set := core.UnsignedDataSet{core.PubKey(fmt.Sprintf("0x%x%x", pk[:], pk[:16])): testutil.RandomCoreAttestationData(b.r.t)}
	pb, err := core.UnsignedDataSetToProto(set)
	if err != nil {
		b.r.t.Fatal(err)
	}
	h, err := cqbft.VerifHashProto(pb)
	if err != nil {
		b.r.t.Fatal(err)
	}
	a, err := anypb.New(pb)
	if err != nil {
		b.r.t.Fatal(err)
	}
	b.r.mu.Lock()
	b.r.valIdx[h] = 50 + b.me
	b.r.mu.Unlock()
	return h[:], a
}

// play runs the plan.  Every plan only uses the member's own key and messages it has observed.
//
//	kind "decided":    once `victim`'s own COMMIT (trigger "commit") or PREPAREs of Quorum-1 other honest members
//	                   (trigger "prepares", then `delay` ms) have been observed: DECIDED(round 1, rogue value) to the victim,
//	                   justified by COMMIT entries for the rogue value that carry the signatures of those members' observed
//	                   PREPAREs (`sigfrom` "P") or of the leader's PRE-PREPARE / their COMMITs, plus the member's own COMMIT.
//	kind "preprepare": the member leads round `round`; once ROUND-CHANGEs for that round of all `victims` have been observed:
//	                   first a "primer" (its own ROUND-CHANGE quoting the victims' genuine ROUND-CHANGEs), then
//	                   PRE-PREPARE(round, rogue value) justified by the victims' ROUND-CHANGEs with the prepared round/value
//	                   stripped but the original signatures, plus its own; then its own PREPARE and COMMIT for the rogue value.
func (b *byzantine) play() {
	r := b.r
	kind := drv.Str(b.plan["kind"])
	quorum := (2*r.n + 2) / 3
	rogueH, rogueAny := b.rogue()
	var (
		prepares = map[int]*pbv1.QBFTMsg{} // round 1
		commits  = map[int]*pbv1.QBFTMsg{}
		rcs      = map[int]*pbv1.QBFTMsg{}
		pp       *pbv1.QBFTConsensusMsg
		values   = map[string]*anypb.Any{}
		fired    bool
	)
	victims := ints(b.plan["victims"])
	round := num(b.plan, "round")
	if round == 0 {
		round = 1
	}
	for {
		var m *pbv1.QBFTConsensusMsg
		select {
		case <-b.ctx.Done():
			return
		case m = <-r.obs:
		}
		q := m.GetMsg()
		src := int(q.GetPeerIdx())
		for _, v := range m.GetValues() {
			values[string(v.GetValue())] = v
		}
		switch typeNames[q.GetType()] {
		case "PP":
			if q.GetRound() == 1 && pp == nil {
				pp = m
			}
		case "P":
			if q.GetRound() == 1 {
				prepares[src] = q
			}
		case "C":
			if q.GetRound() == 1 {
				commits[src] = q
			}
		case "RC":
			if int(q.GetRound()) == round {
				rcs[src] = q
			}
		}
		if fired {
			continue
		}
		switch kind {
		case "decided":
			victim := victims[0]
			pool := prepares
			switch drv.Str(b.plan["sigfrom"]) {
			case "C":
				pool = commits
			}
			var donors []int
			for s := range pool {
				if s != victim && !has(r.byz, s) {
					donors = append(donors, s)
				}
			}
			sort.Ints(donors)
			ready := len(donors) >= quorum-1
			if drv.Str(b.plan["trigger"]) == "commit" {
				ready = ready && commits[victim] != nil
			}
			if !ready {
				continue
			}
			fired = true
			donors = donors[:quorum-1]
			delay := time.Duration(num(b.plan, "delay")) * time.Millisecond
			sigs := map[int][]byte{}
			for _, s := range donors {
				sigs[s] = pool[s].GetSignature()
			}
			go func() {
				time.Sleep(delay)
				var just []*pbv1.QBFTMsg
				for _, s := range donors {
					just = append(just, &pbv1.QBFTMsg{Type: typeCodes["C"], Duty: core.DutyToProto(r.duty), PeerIdx: int64(s), Round: 1,
						ValueHash: rogueH, PreparedValueHash: make([]byte, 32), Signature: sigs[s]})
				}
				just = append(just, b.own("C", 1, rogueH))
				b.send([]int{victim}, &pbv1.QBFTConsensusMsg{Msg: b.own("D", 1, rogueH), Justification: just, Values: []*anypb.Any{rogueAny}},
					"DECIDED justified by COMMITs carrying re-used honest signatures")
			}()
		case "preprepare":
			ready := true
			for _, v := range victims {
				ready = ready && rcs[v] != nil
			}
			if !ready {
				continue
			}
			fired = true
			var genuine, stripped []*pbv1.QBFTMsg
			var vals []*anypb.Any
			seen := map[string]bool{}
			for _, v := range victims {
				genuine = append(genuine, rcs[v])
				c := proto.Clone(rcs[v]).(*pbv1.QBFTMsg)
				c.PreparedRound, c.PreparedValueHash = 0, make([]byte, 32)
				stripped = append(stripped, c)
			}
			if pp != nil { // the values the genuine ROUND-CHANGEs refer to
				for _, v := range pp.GetValues() {
					if !seen[string(v.GetValue())] {
						seen[string(v.GetValue())] = true
						vals = append(vals, v)
					}
				}
			}
			ownRC := b.own("RC", round, make([]byte, 32))
			b.send(victims, &pbv1.QBFTConsensusMsg{Msg: ownRC, Justification: genuine, Values: vals}, "primer: own ROUND-CHANGE quoting genuine ROUND-CHANGEs")
			b.send(victims, &pbv1.QBFTConsensusMsg{Msg: b.own("PP", round, rogueH), Justification: append(stripped, ownRC), Values: []*anypb.Any{rogueAny}},
				"PRE-PREPARE justified by ROUND-CHANGEs with the prepared value stripped and the original signatures")
			b.send(victims, &pbv1.QBFTConsensusMsg{Msg: b.own("P", round, rogueH), Values: []*anypb.Any{rogueAny}}, "own PREPARE")
			b.send(victims, &pbv1.QBFTConsensusMsg{Msg: b.own("C", round, rogueH), Values: []*anypb.Any{rogueAny}}, "own COMMIT")
		default:
			fired = true
		}
	}
}

// ------------------------------------------------------------------------------------------------------------------
// one run
// ------------------------------------------------------------------------------------------------------------------

func dutyOf(slot int, dtype string) (core.Duty, time.Duration) {
	switch dtype {
	case "proposer":
		return core.NewProposerDuty(uint64(slot)), 0
	case "aggregator":
		return core.NewAggregatorDuty(uint64(slot)), 2 * slotDur / 3
	default:
		return core.NewAttesterDuty(uint64(slot)), slotDur / 3
	}
}

func proposal(t *testing.T, dtype string, pk core.PubKey) core.UnsignedDataSet {
	switch dtype {
	case "proposer":
		return core.UnsignedDataSet{pk: testutil.RandomCapellaCoreVersionedProposal()}
	case "aggregator":
		return core.UnsignedDataSet{pk: testutil.RandomDenebCoreVersionedAggregateAttestation()}
	default:
		return core.UnsignedDataSet{pk: testutil.RandomCoreAttestationData(t)}
	}
}

func hashSet(set core.UnsignedDataSet) ([32]byte, error) {
	pb, err := core.UnsignedDataSetToProto(set)
	if err != nil {
		return [32]byte{}, err
	}
	return cqbft.VerifHashProto(pb)
}

func runCluster(t *testing.T, tr emitter, sid int, cfg map[string]any) {
	n, slot, dtype, timer := num(cfg, "n"), num(cfg, "slot"), drv.Str(cfg["dtype"]), drv.Str(cfg["timer"])
	if timer == "inc" {
		featureset.DisableForT(t, featureset.EagerDoubleLinear)
	}
	genesis := time.Now() // the bubble's epoch
	duty, delay := dutyOf(slot, dtype)
	r := &run{t: t, tr: tr, sid: sid, n: n, duty: duty, t0: genesis.Add(time.Duration(slot)*slotDur + delay),
		byz: append([]int{}, ints(cfg["byz"])...), names: map[string]int{}, valIdx: map[[32]byte]int{}, crashed: map[int]bool{}, crashes: map[int]crashRule{},
		bidx: map[int]map[string]int{}, cancels: map[int]context.CancelFunc{}, decRound: map[int]int{},
		obs: make(chan *pbv1.QBFTConsensusMsg, 4096)}
	for _, c := range list(cfg["crashes"]) {
		r.crashes[num(obj(c), "p")] = crashRule{after: num(obj(c), "after"), to: ints(obj(c)["to"])}
	}
	for _, d := range list(cfg["drops"]) {
		dr := dropRule{typ: drv.Str(obj(d)["type"]), round: num(obj(d), "round")}
		if _, ok := obj(d)["from"]; ok {
			dr.from = append([]int{}, ints(obj(d)["from"])...)
		}
		if _, ok := obj(d)["to"]; ok {
			dr.to = append([]int{}, ints(obj(d)["to"])...)
		}
		r.drops = append(r.drops, dr)
	}
	for i := 0; i < n; i++ {
		var row []time.Duration
		for j := 0; j < n; j++ {
			row = append(row, time.Duration(drv.Num(list(list(cfg["lat"])[i])[j]))*time.Millisecond)
		}
		r.lat = append(r.lat, row)
	}
	start, prop := ints(cfg["start"]), ints(cfg["prop"])
	horizon := time.Duration(num(cfg, "horizon")) * time.Millisecond
	inst := (slot + int(duty.Type)) % n // the REQUIRED rotation: the leader of round k is member (inst + k) mod n
	if boolean(cfg["rotate"]) {
		r.rot, inst = inst, 0
	}
	reset := drv.Step{"ev": "Reset", "sid": sid, "n": n, "inst": inst, "rot": r.rot, "byz": append([]int{}, r.byz...), "timer": timer, "timely": boolean(cfg["timely"]),
		"slot": slot, "dtype": dtype, "family": drv.Str(cfg["family"]), "roundms": num(cfg, "roundms"), "extrams": num(cfg, "extrams")}
	r.rotate(reset)
	tr.Emit(reset)

	ctx, cancelAll := context.WithCancel(context.Background())
	bc := bclient{spec: map[string]any{"SECONDS_PER_SLOT": slotDur, "SLOTS_PER_EPOCH": uint64(32)}}
	bc.GenesisFunc = func(context.Context, *eth2api.GenesisOpts) (*eth2v1.Genesis, error) {
		return &eth2v1.Genesis{GenesisTime: genesis}, nil
	}
	mn := mocknet.New()
	for i := 0; i < n; i++ {
		k := detKey(fmt.Sprintf("verif-conscluster-%d-%d", sid, i))
		r.keys = append(r.keys, k)
		id, err := p2p.PeerIDFromKey(k.PubKey())
		if err != nil {
			t.Fatal(err)
		}
		r.peers = append(r.peers, p2p.Peer{ID: id, Index: i, Name: p2p.PeerName(id)})
		r.names[p2p.PeerName(id)] = i
		a, err := ma.NewMultiaddr(fmt.Sprintf("/ip4/10.0.0.%d/tcp/4242", i+1))
		if err != nil {
			t.Fatal(err)
		}
		h, err := mn.AddPeer((*libp2pcrypto.Secp256k1PrivateKey)(k), a)
		if err != nil {
			t.Fatal(err)
		}
		r.hosts = append(r.hosts, h)
	}
	if err := mn.LinkAll(); err != nil {
		t.Fatal(err)
	}
	if err := mn.ConnectAllButSelf(); err != nil {
		t.Fatal(err)
	}
	synctest.Wait()
	log.InitJSONForT(t, zapcore.AddSync(logSink{r}))

	deadlineFunc, err := core.NewDutyDeadlineFunc(ctx, bc)
	if err != nil {
		t.Fatal(err)
	}
	gater, err := core.NewDutyGater(ctx, bc)
	if err != nil {
		t.Fatal(err)
	}
	comps := map[int]*cqbft.Consensus{}
	for i := 0; i < n; i++ {
		i := i
		if has(r.byz, i) {
			p2p.RegisterHandler("byz", r.hosts[i], protocols.QBFTv2ProtocolID,
				func() proto.Message { return new(pbv1.QBFTConsensusMsg) },
				func(_ context.Context, _ peer.ID, req proto.Message) (proto.Message, bool, error) {
					if m, ok := req.(*pbv1.QBFTConsensusMsg); ok && i == r.byz[0] {
						select {
						case r.obs <- m:
						default:
						}
					}
					return nil, false, nil
				})
			continue
		}
		// a crash stops the member's instance (the context of its Participate / Propose calls) and cuts its links; the
		// component's own goroutines (Start loop, deadliner) live on so that a request that is being handled in the very
		// instant of the crash is still handled as by a live member
		nctx := ctx
		c, err := cqbft.NewConsensus(nctx, bc, &faultHost{Host: r.hosts[i], r: r, me: i}, new(p2p.Sender), r.peers, r.keys[i],
			core.NewDeadliner(nctx, fmt.Sprintf("verif%d", i), deadlineFunc), gater,
			func(inst *pbv1.SniffedConsensusInstance) {
				r.mu.Lock()
				r.sniffs = append(r.sniffs, sniffed{node: i, inst: inst})
				r.mu.Unlock()
			}, false)
		if err != nil {
			t.Fatal(err)
		}
		c.Subscribe(func(_ context.Context, d core.Duty, set core.UnsignedDataSet) error {
			h, err := hashSet(set)
			v := 99
			if err == nil {
				v = r.value(h[:])
			}
			r.mu.Lock()
			round := r.decRound[i]
			r.mu.Unlock()
			r.emit(drv.Step{"ev": "Decide", "p": i, "v": v, "round": round, "sameduty": d == r.duty})
			return nil
		})
		c.Start(nctx)
		comps[i] = c
	}

	// proposals: one per honest member, all different
	pk := testutil.RandomCorePubKey(t)
	sets := map[int]core.UnsignedDataSet{}
	for i := 0; i < n; i++ {
		if has(r.byz, i) {
			continue
		}
		set := proposal(t, dtype, pk)
		h, err := hashSet(set)
		if err != nil {
			t.Fatal(err)
		}
		if _, dup := r.valIdx[h]; dup {
			t.Fatalf("two members drew the same proposal")
		}
		r.valIdx[h] = i + 1
		sets[i] = set
	}

	// PRELUDE: an earlier duty of the same type runs to its end (decision, late votes that arrive after it, expiry and
	// clean-up) on the SAME components, fault-free and unlogged; the judged duty must be what it is without it.
	if boolean(cfg["prelude"]) && len(r.byz) == 0 {
		pslot := slot - 12*n // more than an epoch (32 slots) earlier: past the attester deadline
		pduty, pdelay := dutyOf(pslot, dtype)
		r.mu.Lock()
		r.quiet = true
		crashes, drops := r.crashes, r.drops
		r.crashes, r.drops = map[int]crashRule{}, nil
		r.duty = pduty
		r.mu.Unlock()
		time.Sleep(time.Until(genesis.Add(time.Duration(pslot)*slotDur + pdelay)))
		var pwg sync.WaitGroup
		for i := 0; i < n; i++ {
			if start[i] < 0 {
				continue
			}
			set := proposal(t, dtype, pk)
			pwg.Add(1)
			go func() {
				defer pwg.Done()
				_ = comps[i].Propose(log.WithCtx(ctx, z.Int("node", i)), pduty, set)
			}()
		}
		pdl, _ := deadlineFunc(pduty)
		time.Sleep(time.Until(pdl.Add(2 * time.Second)))
		synctest.Wait()
		pwg.Wait()
		if !time.Now().Before(r.t0) {
			t.Fatalf("prelude duty ends after the judged duty starts")
		}
		r.mu.Lock()
		r.crashes, r.drops = crashes, drops
		r.duty = duty
		r.bidx, r.decRound, r.sniffs = map[int]map[string]int{}, map[int]int{}, nil
		r.quiet = false
		r.mu.Unlock()
	}
	time.Sleep(time.Until(r.t0))
	var wg sync.WaitGroup
	for _, b := range r.byz[:min(1, len(r.byz))] {
		bz := &byzantine{r: r, me: b, host: r.hosts[b], plan: obj(cfg["byzplan"]), ctx: ctx}
		wg.Add(1)
		go func() { defer wg.Done(); bz.play() }()
	}
	report := func(p int, what string, err error) {
		if err != nil && !strings.Contains(err.Error(), "context canceled") && !strings.Contains(err.Error(), "consensus timeout") {
			r.emit(drv.Step{"ev": "RunErr", "p": p, "call": what, "err": err.Error()})
		}
	}
	for i := 0; i < n; i++ {
		i := i
		if has(r.byz, i) || start[i] < 0 {
			continue
		}
		nctx := log.WithCtx(ctx, z.Int("node", i))
		wg.Add(1)
		go func() {
			defer wg.Done()
			time.Sleep(time.Duration(start[i]) * time.Millisecond)
			if r.isDown(i) {
				return
			}
			r.emit(drv.Step{"ev": "Start", "p": i})
			if prop[i] > start[i] || prop[i] < 0 {
				wg.Add(1)
				go func() { defer wg.Done(); report(i, "participate", comps[i].Participate(r.nodeCtx(nctx, i), duty)) }()
				if prop[i] < 0 {
					return
				}
				time.Sleep(time.Duration(prop[i]-start[i]) * time.Millisecond)
				if r.isDown(i) {
					return
				}
			}
			r.emit(drv.Step{"ev": "Propose", "p": i, "v": i + 1})
			report(i, "propose", comps[i].Propose(r.nodeCtx(nctx, i), duty, sets[i]))
		}()
	}
	time.Sleep(time.Until(r.t0.Add(horizon)))
	synctest.Wait()
	if boolean(cfg["expire"]) {
		dl, _ := deadlineFunc(duty)
		time.Sleep(time.Until(dl.Add(time.Second)))
		synctest.Wait()
		for i := 0; i < n; i++ {
			if c, ok := comps[i]; ok && !r.isDown(i) {
				r.emit(drv.Step{"ev": "Expired", "p": i, "instances": c.VerifInstanceCount()})
			}
		}
	}
	r.emit(drv.Step{"ev": "End"})
	r.mu.Lock()
	r.ended = true
	r.mu.Unlock()
	cancelAll()
	// time stops when this function returns: let whatever is still in flight (held-back requests, retry sleeps, receive
	// deadlines) run out first
	time.Sleep(10 * time.Second)
	synctest.Wait()
	wg.Wait()
	_ = mn.Close()
	time.Sleep(10 * time.Second)
	synctest.Wait()
	r.mu.Lock()
	sn := append([]sniffed{}, r.sniffs...)
	r.mu.Unlock()
	sort.Slice(sn, func(a, b int) bool { return sn[a].node < sn[b].node })
	for _, s := range sn {
		msgs := []any{}
		for _, m := range s.inst.GetMsgs() {
			msgs = append(msgs, map[string]any{"t": int(m.GetTimestamp().AsTime().Sub(r.t0) / time.Millisecond), "m": r.abstract(m.GetMsg())})
		}
		ev := drv.Step{"ev": "Sniff", "p": s.node, "msgs": msgs, "peeridx": int(s.inst.GetPeerIdx()), "nodes": int(s.inst.GetNodes())}
		r.rotate(ev)
		tr.Emit(ev)
	}
}

// nodeCtx derives the context a member's Participate / Propose call runs under: cancelled when the member crashes.
func (r *run) nodeCtx(ctx context.Context, i int) context.Context {
	c, cancel := context.WithCancel(ctx)
	r.mu.Lock()
	prev := r.cancels[i]
	r.cancels[i] = func() {
		cancel()
		if prev != nil {
			prev()
		}
	}
	down := r.crashed[i]
	r.mu.Unlock()
	if down {
		cancel()
	}
	return c
}

func TestExec(t *testing.T) {
	scheds := drv.ReadSchedules(t)
	tr := drv.NewTracer(t)
	defer tr.Close()
	for sid, s := range scheds {
		if len(s) != 1 || drv.Str(s[0]["ev"]) != "Cluster" {
			t.Fatalf("schedule %d: want [Cluster]", sid)
		}
		synctest.Test(t, func(t *testing.T) { runCluster(t, tr, sid, s[0]) })
	}
}
