package p2psender

// TestRelay executes RelayLoop schedules on the REAL p2p.NewRelayReserver and p2p.NewRelayRouter (with the real
// app/expbackoff and libp2p's circuit-v2 client) against a scripted relay: host 2 answers the hop protocol's RESERVE
// requests as the schedule says (granted until ..., refused, stream reset, an expiration in the past).  The loops report
// what they do in their own log lines (captured by a log sink), the relay reports the requests it gets, the executor the
// stimuli (the relay's MutablePeer being set, the connection / the link to the relay going away, the context ending) and
// samples of the peer store (is there a relay route for peer p now?).  Virtual time (testing/synctest); no expected value
// in here: RelayLoopTrace.tla decides.

import (
	"bytes"
	"context"
	"encoding/json"
	"fmt"
	"runtime"
	"strings"
	"sync"
	"testing"
	"testing/synctest"
	"time"

	libp2pcrypto "github.com/libp2p/go-libp2p/core/crypto"
	"github.com/libp2p/go-libp2p/core/host"
	"github.com/libp2p/go-libp2p/core/network"
	"github.com/libp2p/go-libp2p/core/peer"
	mocknet "github.com/libp2p/go-libp2p/p2p/net/mock"
	pbv2 "github.com/libp2p/go-libp2p/p2p/protocol/circuitv2/pb"
	circuitproto "github.com/libp2p/go-libp2p/p2p/protocol/circuitv2/proto"
	"github.com/libp2p/go-libp2p/p2p/protocol/circuitv2/util"
	ma "github.com/multiformats/go-multiaddr"
	"go.uber.org/zap/zapcore"

	"github.com/obolnetwork/charon/app/log"
	"github.com/obolnetwork/charon/p2p"

	"verifharness/drv"
)

type renv struct {
	mu      sync.Mutex
	events  []drv.Step
	genesis time.Time
	replies []map[string]any
	n       int

	lastWarn    time.Time
	sameInstant int
}

func (e *renv) log(ev drv.Step) {
	e.mu.Lock()
	defer e.mu.Unlock()
	ev["t"] = int(time.Since(e.genesis) / time.Microsecond)
	e.events = append(e.events, ev)
}

type relaySink struct{ e *renv }

func (s relaySink) Write(b []byte) (int, error) {
	for _, line := range bytes.Split(b, []byte("\n")) {
		var m map[string]any
		if len(bytes.TrimSpace(line)) == 0 || json.Unmarshal(line, &m) != nil {
			continue
		}
		switch msg := drv.Str(m["msg"]); {
		case strings.HasPrefix(msg, "Reserve relay circuit"):
			s.e.log(drv.Step{"ev": "RWarn", "level": drv.Str(m["level"])})
			s.e.mu.Lock()
			now := time.Now()
			if now.Equal(s.e.lastWarn) {
				s.e.sameInstant++
			} else {
				s.e.lastWarn, s.e.sameInstant = now, 0
			}
			spin := s.e.sameInstant > 500
			s.e.mu.Unlock()
			if spin { // a loop that fails without letting (virtual) time pass would never end: end its goroutine (this one)
				s.e.log(drv.Step{"ev": "Spin"})
				runtime.Goexit()
			}
		case strings.HasPrefix(msg, "Relay circuit reserved"):
			s.e.log(drv.Step{"ev": "ROk"})
		case strings.HasPrefix(msg, "No relay connection, reconnecting"):
			s.e.log(drv.Step{"ev": "RNoConn"})
		case strings.HasPrefix(msg, "Refreshing relay circuit reservation"):
			s.e.log(drv.Step{"ev": "RRefresh"})
		case strings.HasPrefix(msg, "Failed to create multi-address for peer via relay"):
			s.e.log(drv.Step{"ev": "RouteErr"})
		}
	}
	return len(b), nil
}

func TestRelay(t *testing.T) {
	scheds := drv.ReadSchedules(t)
	tr := drv.NewTracer(t)
	defer tr.Close()
	for i, s := range scheds {
		synctest.Test(t, func(t *testing.T) { runRelay(t, tr, i, s) })
	}
}

func runRelay(t *testing.T, tr *drv.Tracer, sid int, sched []drv.Step) {
	cfg := sched[0]
	e := &renv{genesis: time.Now()}
	for _, r := range list(cfg["replies"]) {
		e.replies = append(e.replies, obj(r))
	}
	log.InitJSONForT(t, zapcore.AddSync(relaySink{e}))
	mn := mocknet.New()
	const n = 4 // 1: this node, 2: the relay, 3 and 4: cluster peers
	hosts := make([]host.Host, n+1)
	for i := 1; i <= n; i++ {
		k := detKey(fmt.Sprintf("verif-relay-%d-%d", drv.Num(cfg["keyset"]), i))
		a, _ := ma.NewMultiaddr(fmt.Sprintf("/ip4/10.0.1.%d/tcp/4242", i))
		h, err := mn.AddPeer((*libp2pcrypto.Secp256k1PrivateKey)(k), a)
		if err != nil {
			t.Fatal(err)
		}
		hosts[i] = h
	}
	if err := mn.LinkAll(); err != nil {
		t.Fatal(err)
	}
	me, rl := hosts[1], hosts[2]
	// the scripted relay
	rl.SetStreamHandler(circuitproto.ProtoIDv2Hop, func(s network.Stream) {
		defer s.Close()
		var msg pbv2.HopMessage
		if err := util.NewDelimitedReader(s, 4096).ReadMsg(&msg); err != nil {
			e.log(drv.Step{"ev": "ResvErr", "txt": err.Error()})
			return
		}
		e.mu.Lock()
		e.n++
		k := e.n
		rep := map[string]any{"res": "ok", "ttl": float64(300)}
		if k-1 < len(e.replies) {
			rep = e.replies[k-1]
		} else if len(e.replies) > 0 {
			rep = e.replies[len(e.replies)-1]
		}
		e.mu.Unlock()
		res := drv.Str(rep["res"])
		expire := time.Now().Add(time.Duration(drv.Num(rep["ttl"])) * time.Second)
		if res == "past" {
			expire = time.Now().Add(-10 * time.Second)
		}
		e.log(drv.Step{"ev": "Resv", "n": k, "res": res, "exp": int(time.Unix(expire.Unix(), 0).Sub(e.genesis) / time.Microsecond), "type": msg.GetType().String()})
		var out pbv2.HopMessage
		out.Type = pbv2.HopMessage_STATUS.Enum()
		switch res {
		case "ok", "past":
			out.Status = pbv2.Status_OK.Enum()
			exp := uint64(expire.Unix())
			out.Reservation = &pbv2.Reservation{Expire: &exp}
			d, data := uint32(120), uint64(1<<17)
			out.Limit = &pbv2.Limit{Duration: &d, Data: &data}
		case "refused":
			out.Status = pbv2.Status_RESERVATION_REFUSED.Enum()
		case "noinfo":
			out.Status = pbv2.Status_OK.Enum()
		case "reset":
			_ = s.Reset()
			return
		}
		_ = util.NewDelimitedWriter(s).WriteMsg(&out)
	})
	relayPeer := p2p.Peer{ID: rl.ID(), Addrs: rl.Addrs(), Name: p2p.PeerName(rl.ID())}
	relay := new(p2p.MutablePeer)
	known := cfg["known"] == true
	if known {
		relay = p2p.NewMutablePeer(relayPeer)
	}
	peers := []peer.ID{hosts[1].ID(), hosts[3].ID(), hosts[4].ID()}
	dial := []int{}
	for _, i := range []int{3, 4} {
		if hosts[1].ID() < hosts[i].ID() {
			dial = append(dial, i)
		}
	}
	e.events = append(e.events, drv.Step{"ev": "Reset", "sid": sid, "t": 0, "mode": "relay", "known": known, "dial": dial})
	ctx, cancel := context.WithCancel(context.Background())
	defer cancel()
	var wg sync.WaitGroup
	stopped := false
	hasRoute := func(p int) bool {
		for _, a := range me.Peerstore().Addrs(hosts[p].ID()) {
			if strings.Contains(a.String(), "p2p-circuit") {
				return true
			}
		}
		return false
	}
	synctest.Wait()
	for _, st := range sched[1:] {
		if d := time.Until(e.genesis.Add(ms(st["at"]))); d > 0 {
			time.Sleep(d)
		}
		synctest.Wait()
		switch drv.Str(st["ev"]) {
		case "Start":
			e.log(drv.Step{"ev": "Start"})
			wg.Add(1)
			go func() {
				defer wg.Done()
				p2p.NewRelayReserver(me, relay)(ctx)
				e.log(drv.Step{"ev": "Exit"})
			}()
		case "RStart":
			e.log(drv.Step{"ev": "RStart"})
			wg.Add(1)
			go func() {
				defer wg.Done()
				p2p.NewRelayRouter(me, peers, []*p2p.MutablePeer{relay})(ctx)
				e.log(drv.Step{"ev": "RExit"})
			}()
		case "RelaySet":
			e.log(drv.Step{"ev": "RelaySet"})
			relay.Set(relayPeer)
		case "Disc":
			e.log(drv.Step{"ev": "Disc"})
			_ = mn.DisconnectPeers(me.ID(), rl.ID())
		case "Link":
			up := st["up"] == true
			e.log(drv.Step{"ev": "Link", "up": up})
			if up {
				_, _ = mn.LinkPeers(me.ID(), rl.ID())
			} else {
				_ = mn.UnlinkPeers(me.ID(), rl.ID())
				_ = mn.DisconnectPeers(me.ID(), rl.ID())
			}
		case "Stop":
			e.log(drv.Step{"ev": "Stop"})
			stopped = true
			cancel()
		case "Route":
			p := drv.Num(st["p"])
			e.log(drv.Step{"ev": "Route", "p": p, "has": hasRoute(p)})
		default:
			t.Fatalf("unknown step %v", st)
		}
		synctest.Wait()
	}
	if !stopped {
		e.log(drv.Step{"ev": "Stop"})
		cancel()
	}
	time.Sleep(15 * time.Second)
	synctest.Wait()
	wg.Wait()
	e.log(drv.Step{"ev": "End", "gor": p2pGoroutines()})
	_ = mn.Close()
	time.Sleep(10 * time.Second)
	synctest.Wait()
	for _, ev := range e.events {
		tr.Emit(ev)
	}
}
