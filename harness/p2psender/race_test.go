package p2psender

import (
	"context"
	"errors"
	"io"
	"os"
	"strconv"
	"sync"
	"sync/atomic"
	"testing"
	"time"

	"github.com/libp2p/go-libp2p/core/host"
	"github.com/libp2p/go-libp2p/core/network"
	"github.com/libp2p/go-libp2p/core/peer"
	"github.com/libp2p/go-libp2p/core/protocol"

	pbv1 "github.com/obolnetwork/charon/core/corepb/v1"
	"github.com/obolnetwork/charon/p2p"

	"verifharness/drv"
)

type fakeHost struct {
	host.Host
	n atomic.Uint64
}

func (h *fakeHost) NewStream(_ context.Context, _ peer.ID, pids ...protocol.ID) (network.Stream, error) {
	if h.n.Add(1)%3 == 0 {
		return nil, errors.New("down")
	}
	return &fakeStream{pid: pids[0]}, nil
}

type fakeStream struct {
	network.Stream
	pid  protocol.ID
	read bool
}

func (s *fakeStream) Protocol() protocol.ID       { return s.pid }
func (s *fakeStream) SetDeadline(time.Time) error { return nil }
func (s *fakeStream) Write(b []byte) (int, error) { return len(b), nil }
func (s *fakeStream) Close() error                { return nil }
func (s *fakeStream) CloseWrite() error           { return nil }
func (s *fakeStream) Read(b []byte) (int, error) {
	if s.read {
		return 0, io.EOF
	}
	s.read = true
	b[0] = 0
	return 1, nil
}

// TestAddResultRace is a probe, not a verdict: concurrent results for ONE peer (the normal situation: SendAsync of several
// duties / consensus messages run at the same time) on the real Sender, for VERIF_RACE_SECONDS.  Sender.addResult reads the
// peer's buffer in several steps (len, get) while other goroutines add to and trim it: "index out of range [4] with length
// 4" -- the interleaving TLC finds in AddResultFine_ascoded_panic.cfg.
func TestAddResultRace(t *testing.T) {
	sender := new(p2p.Sender)
	h := new(fakeHost)
	var wg sync.WaitGroup
	secs, _ := strconv.Atoi(os.Getenv("VERIF_RACE_SECONDS"))
	if secs <= 0 {
		t.Skip("VERIF_RACE_SECONDS not set")
	}
	drv.QuietLogs(t)
	stop := time.Now().Add(time.Duration(secs) * time.Second)
	for g := 0; g < 8; g++ {
		wg.Add(1)
		go func() {
			defer wg.Done()
			for time.Now().Before(stop) {
				for i := 0; i < 1000; i++ {
					_ = sender.SendReceive(context.Background(), h, "test", new(pbv1.Duty), new(pbv1.Duty), "x")
				}
			}
		}()
	}
	wg.Wait()
	t.Log("ops", h.n.Load())
}
